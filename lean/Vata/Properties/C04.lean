import Vata.Spec
import Vata.Proofs.SimModel
/-!
# C04 – Tree-automata simulations returned are the greatest downward/upward simulations

> For an explicit tree automaton whose states are numbered 0..n-1 and n is passed as the number of states, the downward
> simulation returned relates q to r exactly when every rule a(q1..qk)->q can be answered by a rule a(r1..rk)->r whose
> children pairwise simulate q1..qk, taken as the greatest such relation.  For an automaton without useless states the
> upward simulation returned is the greatest relation in which q related to r implies that r is final whenever q is and
> that every rule using q at some child position is answered by a rule using r at the same position with identical
> siblings and a related parent.  Both results are therefore reflexive and transitive and do not depend on how the
> states happen to be numbered.

## How the statement is read into the model

* **Specification (L0).**  `DownSim A S` (`Vata/Reduce.lean`; alias `IsDownSim` in `Vata/Spec.lean`): `S q r` implies
  that every rule `a(q₁..qₖ) → q` is answered by a rule `a(r₁..rₖ) → r` with `S qᵢ rᵢ` for all `i`.
  `IsUpSim A S` (`Vata/Spec.lean`): `S q r` implies `q ∈ F → r ∈ F` and every rule with `q` at child position `i` is
  answered by a rule with the same symbol, `r` at position `i`, *identical* siblings (`setAt ρ.kids i r`) and `S`-related
  parents.  "The greatest such relation" is the union of all relations with the property; the theorems characterise
  membership by `∃ S, … ∧ S q r`.
* **Model of the code.**  `downSimRef A`, `upSimRef A` (`Vata/Ref.lean`): start from all pairs of states of `A` and
  delete pairs that violate the condition until nothing changes (`refineIter`, `|Q|²+1` rounds).  They are the relations
  the output of `ComputeSimulation` is compared with pair by pair (`relEq`).  `RelOf R q r` is `(q, r) ∈ R`.
  The relations are on `A.states` (the states occurring in `A`); the preconditions of the C++ interface ("numbered
  `0..n-1`", "`n` passed as the number of states", "no useless states" for the upward direction) are preconditions of
  the *call*, the model needs none of them, so the theorems hold for every `A`.
* **Checkers.**  `isDownSimB`, `isUpSimB`: the Boolean tests "is a downward / upward simulation" applied to the
  relation the real code returns.
-/
namespace Vata.Props
open Vata

/-- the downward simulation of the model relates `q` to `r` exactly when `q`, `r` are states of `A` and *some* downward
simulation relates them – it is the greatest downward simulation (on the states of `A`), and it is one itself -/
theorem C04_downward_greatest (A : TA) :
    DownSim A (RelOf (downSimRef A)) ∧
    ∀ q r, (q, r) ∈ downSimRef A ↔ q ∈ A.states ∧ r ∈ A.states ∧ ∃ S, DownSim A S ∧ S q r :=
  ⟨downSimRef_sim A, fun q r =>
    ⟨fun h => ⟨(downSimRef_sub A h).1, (downSimRef_sub A h).2, RelOf (downSimRef A), downSimRef_sim A, h⟩,
     fun ⟨hq, hr, S, hS, hqr⟩ => downSimRef_contains A S hS q r hq hr hqr⟩⟩

example : DownSim SimModel.exA (RelOf [(0, 1), (1, 0), (2, 3)]) ∧ 2 ∈ SimModel.exA.states ∧ 3 ∈ SimModel.exA.states :=
  ⟨(isDownSimB_iff _ _).mp (by decide), by decide, by decide⟩
example : (2, 3) ∈ downSimRef SimModel.exA ∧ (0, 1) ∈ downSimRef SimModel.exA ∧ (4, 2) ∉ downSimRef SimModel.exA := by
  decide

/-- the same for the upward simulation (identity on siblings, finality respected) -/
theorem C04_upward_greatest (A : TA) :
    IsUpSim A (RelOf (upSimRef A)) ∧
    ∀ q r, (q, r) ∈ upSimRef A ↔ q ∈ A.states ∧ r ∈ A.states ∧ ∃ S, IsUpSim A S ∧ S q r :=
  ⟨upSimRef_sim A, fun q r =>
    ⟨fun h => ⟨(upSimRef_sub A h).1, (upSimRef_sub A h).2, RelOf (upSimRef A), upSimRef_sim A, h⟩,
     fun ⟨hq, hr, S, hS, hqr⟩ => upSimRef_contains A S hS q r hq hr hqr⟩⟩

example : IsUpSim SimModel.exA (RelOf [(3, 2), (4, 0)]) ∧ 3 ∈ SimModel.exA.states ∧ 2 ∈ SimModel.exA.states :=
  ⟨(isUpSimB_iff _ _).mp (by decide), by decide, by decide⟩
example : (3, 2) ∈ upSimRef SimModel.exA ∧ (4, 0) ∈ upSimRef SimModel.exA ∧ (0, 1) ∉ upSimRef SimModel.exA := by decide

/-- both results are reflexive (on the states of `A`) and transitive -/
theorem C04_preorder (A : TA) :
    ((∀ q, q ∈ A.states → (q, q) ∈ downSimRef A) ∧
      ∀ a b c, (a, b) ∈ downSimRef A → (b, c) ∈ downSimRef A → (a, c) ∈ downSimRef A) ∧
    ((∀ q, q ∈ A.states → (q, q) ∈ upSimRef A) ∧
      ∀ a b c, (a, b) ∈ upSimRef A → (b, c) ∈ upSimRef A → (a, c) ∈ upSimRef A) :=
  ⟨greatest_downSim_preorder A, greatest_upSim_preorder A⟩

example : SimModel.exA.states = [0, 1, 2, 3, 4] ∧ (0, 1) ∈ downSimRef SimModel.exA ∧ (1, 0) ∈ downSimRef SimModel.exA := by
  decide

/-- the Boolean checkers applied to a returned relation decide exactly the two specifications -/
theorem C04_checkers_exact (A : TA) (R : Rel) :
    (isDownSimB A R = true ↔ DownSim A (RelOf R)) ∧ (isUpSimB A R = true ↔ IsUpSim A (RelOf R)) :=
  ⟨isDownSimB_iff A R, isUpSimB_iff A R⟩

example : isDownSimB SimModel.exA [(0, 1), (1, 0), (2, 3)] = true ∧ isDownSimB SimModel.exA [(2, 4)] = false ∧
    isUpSimB SimModel.exA [(3, 2), (4, 0)] = true ∧ isUpSimB SimModel.exA [(0, 1)] = false := by decide

/-- what a downward simulation is for: a related state accepts (reaches the root of) every tree the smaller one does -/
theorem C04_downward_simulation_language (A : TA) (S : Nat → Nat → Prop) (hS : DownSim A S) (t : Tree) (q r : Nat)
    (hqr : S q r) (hq : q ∈ reach A t) : r ∈ reach A t := downSim_lang A S hS t q r hqr hq

example : (2, 3) ∈ downSimRef SimModel.exA ∧ 2 ∈ reach SimModel.exA (.node 1 [.node 0 [], .node 0 []]) := by decide

/-!
## not yet proved

* **Independence of the numbering** as a theorem (`downSimRef (reindex f A)` is the `f`-image of `downSimRef A` for `f`
  injective on the states, same for `upSimRef`).  The characterisations above are stated without reference to any
  numbering, which is the reason it holds, but the transport lemma for `DownSim`/`IsUpSim` along `reindex` is not
  proved.  (The check compares the real output on renamed twins, C19.)
* The **route of the C++** – translation of the automaton to an LTS (`TranslateDownward`, `TranslateUpward` with
  environment nodes and the initial partition), the LTS engine (C16) and the re-indexing of the result through
  `DiscontBinaryRelation` – is not modelled; `downSimRef`/`upSimRef` are direct refinements on the automaton.  That the
  LTS encodings have the same greatest simulation as `DownSim`/`IsUpSim` is not proved.
* Outside `A.states` (e.g. numbers below `n` that occur nowhere in the automaton) the model relation is empty; what
  the C++ reports for such indices is not covered.
-/
end Vata.Props
