import Vata.Proofs.RcStoreXRel
/-!
# C18 (extended) – node lifetime over ALL `OndriksMTBDD` operations, and the relative release theorem

> Across any sequence of creating, copying, assigning, combining and destroying MTBDDs, no MTBDD that is still alive ever
> changes the function it denotes, no node is released while a live MTBDD or node refers to it, and no node is released
> twice. Once every MTBDD created by construction, copy or apply has been destroyed, the process-wide node store is back
> to the size it had before.

This file closes two items of the "not yet proved" list of `Vata/Properties/C18.lean`:
(1) the operations that were missing from the history model, (2) "the size it had before" relative to an ARBITRARY
earlier point of the history instead of the empty store.

## How the C++ is read into the model (`Vata/RcStoreX.lean`, on top of `Vata/RcStore.lean`)

* The store (`RcS.Store`: allocated ids, contents, counters, the two unique tables, live handles, ghost `freed` / `err`) and
  the five old operations are those of C18.  `RcSX.Op` adds, each mirroring the C++ statement by statement on the store:
  - `.apply1 a dst` – `Apply1Functor::recDescend` (leaf: `spawnLeaf(f(data))`; inner: descend low, high, then
    `low == high ? low : spawnInternal(low, high, var)`), `IncrementRefCnt(root)`;
  - `.apply3 a b c dst` – `Apply3Functor::classifyCase` (`br3`), `recDescend` (`var` = variable of the LAST branched node);
  - `.project a dst vars` – `projectNode` with `pred(var) = var ∈ vars` and `applyFunc` = the binary apply of the history
    (`Apply2Functor::operator()(node, node)`: no counter is touched); the projected children are spawned BEFORE the apply
    and are not released afterwards – exactly as in the code;
  - `.rename a dst tab` – `renameNode` (`renamer(var) = tab[var]`, identity outside), always `spawnInternal`, no reduction test;
  - `.extendWith a dst asgn offset` – the 4-argument `constructMTBDD(asgn, root_, GetDefaultValue(), var ↦ var + offset)`:
    early exit for "leaf with the default value", `spawnLeaf(default)`, the loop, disposal of an unreferenced sink when
    nothing was built, `IncrementRefCnt`;  `defaultValue_` of every handle is tracked in `XStore.dv` as the constructors and
    functors compute it;
  - `.getPrefix a dst asgn offset` – the `while` loop of `GetMtbddForPrefix`, `IncrementRefCnt(newRoot)`.
* `runX F ops` is the state after the history `ops` from process start, for arbitrary leaf operations `F.f1/f2/f3`.
  Operations whose handles are not in the required state are skipped (such a program does not exist).
* Abstracted: the memo tables `ht` of the apply functors (raw pointers, no counter involved); leaf values and handle
  names are `Nat`.  Fuel: all recursions are fuel-indexed with the fuel computed by the caller; the theorems below
  include `err = false`, i.e. the fuel was never exhausted (totality).

## The observation about `Project`

`projectNode` leaves nodes with counter 0 in the unique tables (`C18_ext_project_leaks`).  Therefore, for arbitrary
histories the invariant is "counter = number of referrers" WITHOUT "no allocated node has counter 0"; the latter, and
everything that depends on it (`all_released`, relative release), is proved for histories without `project` and refuted by
`decide`d histories with `project`.
-/
namespace Vata.RcSX.Ex
open Vata Vata.RcS Vata.RcSX

/-- three handles with shared sub-graphs -/
def exH₁ : List RcSX.Op :=
  [.construct 0 [some true, none, some false] 5 0, .construct 1 [some false, some true] 7 0, .apply 0 1 2]
/-- every new operation, a copy, an assignment – none of them writes handle 0, 1 or 2 -/
def exH₂ : List RcSX.Op :=
  [.apply1 2 3, .apply3 0 1 2 4, .rename 0 5 [1, 2, 3], .extendWith 1 6 [some true] 3, .getPrefix 6 7 [some true] 3,
   .copy 3 8, .assign 4 8]

/-- leaf operations with addition as the binary one (as in the library's unit test of `Project`) -/
def addFns : Fns := ⟨fun x => x + 1, fun x y => x + y, fun x y z => x + y + z⟩

/-- `x₀ ∧ ¬x₁ ↦ 5`, else `1`; project both variables out; destroy the result; destroy the operand -/
def exLeak : List RcSX.Op :=
  [.construct 0 [some true, some false] 5 1, .project 0 1 [0, 1], .destroy 1, .destroy 0]

end Vata.RcSX.Ex

namespace Vata.Props
open Vata Vata.RcS Vata.RcSX Vata.RcSX.Ex

/-- `rc_inv` for every history over the extended operation set: the counter of every allocated node is the number of
`low`/`high` fields of allocated inner nodes plus the number of live handles that hold it; every entry of either unique
table points to an allocated node with exactly that contents; a node with counter 0 is referred to by nothing -/
theorem C18_ext_rc_inv (F : Fns) (ops : List RcSX.Op) :
    (∀ n, n ∈ (runX F ops).st.ids → (runX F ops).st.rc n = indeg (runX F ops).st n + handlesTo (runX F ops).st n) ∧
    (∀ v n, (v, n) ∈ (runX F ops).st.leafT → n ∈ (runX F ops).st.ids ∧ (runX F ops).st.dat n = .leaf v) ∧
    (∀ lo hi var n, ((lo, hi, var), n) ∈ (runX F ops).st.intT →
      n ∈ (runX F ops).st.ids ∧ (runX F ops).st.dat n = .int lo hi var) ∧
    (∀ n, n ∈ (runX F ops).st.ids → (runX F ops).st.rc n = 0 →
      n ∉ roots (runX F ops).st ∧
      ∀ m, m ∈ (runX F ops).st.ids → ∀ lo hi var, (runX F ops).st.dat m = .int lo hi var → lo ≠ n ∧ hi ≠ n) :=
  xrc_inv F ops

/-- the unique tables are exactly the allocated nodes (each found under its contents, keys unique) after every history -/
theorem C18_ext_tables_exact (F : Fns) (ops : List RcSX.Op) :
    (∀ n v, n ∈ (runX F ops).st.ids → (runX F ops).st.dat n = .leaf v → find v (runX F ops).st.leafT = some n) ∧
    (∀ n lo hi var, n ∈ (runX F ops).st.ids → (runX F ops).st.dat n = .int lo hi var →
      find (lo, hi, var) (runX F ops).st.intT = some n) ∧
    KeysNodup (runX F ops).st.leafT ∧ KeysNodup (runX F ops).st.intT ∧ KeysNodup (runX F ops).st.hs ∧
    (runX F ops).st.ids.Nodup :=
  xtables_exact F ops

/-- every node reachable from the root of a live handle is allocated and has never been deleted -/
theorem C18_ext_no_premature_free (F : Fns) (ops : List RcSX.Op) (h r : Nat) (hm : (h, r) ∈ (runX F ops).st.hs) (n : Nat)
    (hr : Reach (runX F ops).st.dat r n) : n ∈ (runX F ops).st.ids ∧ n ∉ (runX F ops).st.freed :=
  xno_premature_free F ops h r hm n hr

/-- no node is deleted twice, a deleted node is not allocated, no assertion of the code failed (`refcnt > 0` before every
decrement, exactly one entry erased by `disposeOf…Node`), and no recursion of the model ran out of fuel -/
theorem C18_ext_no_double_free (F : Fns) (ops : List RcSX.Op) :
    (runX F ops).st.freed.Nodup ∧ (∀ n, n ∈ (runX F ops).st.freed → n ∉ (runX F ops).st.ids) ∧
    (runX F ops).st.err = false :=
  xno_double_free F ops

/-- a handle that is live after `ops` is live with the same root and the same denotation after any continuation in which
it is not the target of an operation (it may be read by all eleven kinds of operations) -/
theorem C18_ext_denotation_stable (F : Fns) (ops more : List RcSX.Op) (h r : Nat) (hm : (h, r) ∈ (runX F ops).st.hs)
    (ht : ∀ op, op ∈ more → op.target ≠ h) :
    (h, r) ∈ (runX F (ops ++ more)).st.hs ∧
    ∀ ρ, denote (runX F (ops ++ more)).st r ρ = denote (runX F ops).st r ρ :=
  xdenotation_stable F ops more h r hm ht

/-- without `project` there is no garbage between operations: no allocated node has counter 0 -/
theorem C18_ext_no_garbage (F : Fns) (ops : List RcSX.Op) (np : NoProj ops) (n : Nat) (hn : n ∈ (runX F ops).st.ids) :
    (runX F ops).st.rc n ≠ 0 := runX_nz F ops np n hn

/-- without `project`: (1) whenever no handle is live both unique tables are empty and no node is allocated; (2) this is
the case after the destructors of all live handles -/
theorem C18_ext_all_released (F : Fns) (ops : List RcSX.Op) (np : NoProj ops) :
    ((runX F ops).st.hs = [] → tableSizes (runX F ops).st = tableSizes empty ∧ (runX F ops).st.ids = []) ∧
    (tableSizes (runX F (ops ++ destroyAllX (runX F ops).st)).st = tableSizes empty ∧
      (runX F (ops ++ destroyAllX (runX F ops).st)).st.ids = []) :=
  ⟨xall_released F ops np, xall_released_destroyAll F ops np⟩

/-! ### non-vacuity: a history that uses every operation -/

example : tableSizes (runX stdFns exH₁).st = (3, 7) ∧ tableSizes (runX stdFns (exH₁ ++ exH₂)).st = (8, 22) ∧
    (runX stdFns (exH₁ ++ exH₂)).st.hs.length = 9 ∧ (runX stdFns (exH₁ ++ exH₂)).st.err = false := by decide
example : NoProj exH₁ ∧ NoProj exH₂ := by decide
-- `C18_ext_denotation_stable`: handle 2 is live after `exH₁` and is not a target in `exH₂`
example : (2, 9) ∈ (runX stdFns exH₁).st.hs ∧ ∀ op, op ∈ exH₂ → op.target ≠ 2 := by decide
example : (2, 9) ∈ (runX stdFns (exH₁ ++ exH₂)).st.hs :=
  (C18_ext_denotation_stable stdFns exH₁ exH₂ 2 9 (by decide) (by decide)).1
-- `C18_ext_all_released`: 30 nodes were allocated in total, all are deleted by the destructors
example : (runX stdFns ((exH₁ ++ exH₂) ++ destroyAllX (runX stdFns (exH₁ ++ exH₂)).st)).st.freed.length = 30 ∧
    (runX stdFns ((exH₁ ++ exH₂) ++ destroyAllX (runX stdFns (exH₁ ++ exH₂)).st)).st.next = 30 := by decide

/-! ### `Project` leaks -/

/-- **`all_released` FAILS with `project`**: after `exLeak` no handle is live and no assertion failed, but the leaf `6`
(= 1 + 5, the projected low child, spawned by `projectNode` and only read by `applyFunc`) is still in `leafCache_`, with
counter 0.  (With the real library: `VerifLeafCacheSize()` stays 1 for ever.) -/
theorem C18_ext_project_leaks :
    (runX addFns exLeak).st.hs = [] ∧ (runX addFns exLeak).st.err = false ∧
    tableSizes (runX addFns exLeak).st = (1, 0) ∧ (runX addFns exLeak).st.ids = [4] ∧
    (runX addFns exLeak).st.dat 4 = .leaf 6 ∧ (runX addFns exLeak).st.rc 4 = 0 := by decide

-- without the `project` the same history releases everything
example : tableSizes (runX addFns [.construct 0 [some true, some false] 5 1, .destroy 0]).st = (0, 0) := by decide

/-! ### the relative release theorem -/

/-- **relative release.**  For every history `h₁ ++ h₂` without `project` such that
* no handle that is live after `h₁` is the target of an operation of `h₂` (it is not assigned, not destroyed – and not
  constructed / copied / applied into, which would be skipped anyway), and
* every handle that is live after `h₁ ++ h₂` was live after `h₁` (every handle created in `h₂` has been destroyed in `h₂`),

the allocated nodes, the entries of `leafCache_` and the entries of `internalCache_` after `h₁ ++ h₂` are exactly those
after `h₁`; in particular both tables have the sizes they had after `h₁`. -/
theorem C18_relative_release (F : Fns) (h₁ h₂ : List RcSX.Op) (np₁ : NoProj h₁) (np₂ : NoProj h₂)
    (hold : ∀ op, op ∈ h₂ → find op.target (runX F h₁).st.hs = none)
    (hnew : ∀ h, (find h (runX F (h₁ ++ h₂)).st.hs).isSome → (find h (runX F h₁).st.hs).isSome) :
    (∀ n, n ∈ (runX F (h₁ ++ h₂)).st.ids ↔ n ∈ (runX F h₁).st.ids) ∧
    (∀ e, e ∈ (runX F (h₁ ++ h₂)).st.leafT ↔ e ∈ (runX F h₁).st.leafT) ∧
    (∀ e, e ∈ (runX F (h₁ ++ h₂)).st.intT ↔ e ∈ (runX F h₁).st.intT) ∧
    tableSizes (runX F (h₁ ++ h₂)).st = tableSizes (runX F h₁).st ∧
    (runX F (h₁ ++ h₂)).st.ids.length = (runX F h₁).st.ids.length :=
  xrelative_release F h₁ h₂ np₁ np₂ hold hnew

/-- **relative release, destructor form** (only the syntactic hypothesis remains): after any `h₁` and any continuation
`h₂` (both without `project`) none of whose operations has a handle live after `h₁` as its target, the destructors of the
handles that are live now and were not live after `h₁` bring the node store back to exactly what it was after `h₁` -/
theorem C18_relative_release_destroyNew (F : Fns) (h₁ h₂ : List RcSX.Op) (np₁ : NoProj h₁) (np₂ : NoProj h₂)
    (hold : ∀ op, op ∈ h₂ → find op.target (runX F h₁).st.hs = none) :
    let d := destroyNew (runX F h₁).st (runX F (h₁ ++ h₂)).st
    (∀ n, n ∈ (runX F (h₁ ++ (h₂ ++ d))).st.ids ↔ n ∈ (runX F h₁).st.ids) ∧
    (∀ e, e ∈ (runX F (h₁ ++ (h₂ ++ d))).st.leafT ↔ e ∈ (runX F h₁).st.leafT) ∧
    (∀ e, e ∈ (runX F (h₁ ++ (h₂ ++ d))).st.intT ↔ e ∈ (runX F h₁).st.intT) ∧
    tableSizes (runX F (h₁ ++ (h₂ ++ d))).st = tableSizes (runX F h₁).st ∧
    (runX F (h₁ ++ (h₂ ++ d))).st.ids.length = (runX F h₁).st.ids.length :=
  xrelative_release_destroyNew F h₁ h₂ np₁ np₂ hold

-- the hypotheses hold for `exH₁`, `exH₂` (a non-empty store before, 23 nodes allocated and released in between)
example : ∀ op, op ∈ exH₂ → find op.target (runX stdFns exH₁).st.hs = none := by decide
example : destroyNew (runX stdFns exH₁).st (runX stdFns (exH₁ ++ exH₂)).st =
    [.destroy 8, .destroy 7, .destroy 6, .destroy 5, .destroy 4, .destroy 3] := by decide
example : tableSizes (runX stdFns (exH₁ ++ (exH₂ ++ destroyNew (runX stdFns exH₁).st (runX stdFns (exH₁ ++ exH₂)).st))).st
    = tableSizes (runX stdFns exH₁).st :=
  (C18_relative_release_destroyNew stdFns exH₁ exH₂ (by decide) (by decide) (by decide)).2.2.2.1
-- and for the first form, with the explicit destructors as part of `h₂`
example : (runX stdFns (exH₁ ++ (exH₂ ++ [.destroy 8, .destroy 7, .destroy 6, .destroy 5, .destroy 4, .destroy 3]))).st.hs
    = (runX stdFns exH₁).st.hs ∧ (runX stdFns exH₁).st.ids.length = 10 := by decide

/-- **the hypothesis "no `project`" cannot be dropped**, neither for `h₂` nor for `h₁`:
(1) `h₂ = [project, destroy]` creates and destroys one handle and leaves one more leaf in `leafCache_`;
(2) after an `h₁` that contains a `project` (which left the counter-0 leaf `6` behind), `h₂ = [construct the constant 6,
destroy it]` finds that leaf, refers to it and releases it: `leafCache_` is SMALLER than it was after `h₁`.
In both cases the two handle hypotheses of `C18_relative_release` hold. -/
theorem C18_relative_release_needs_noProj :
    (let h₁ : List RcSX.Op := [.construct 0 [some true, some false] 5 1]
     let h₂ : List RcSX.Op := [.project 0 1 [0, 1], .destroy 1]
     (∀ op, op ∈ h₂ → find op.target (runX addFns h₁).st.hs = none) ∧
     (runX addFns (h₁ ++ h₂)).st.hs = (runX addFns h₁).st.hs ∧
     tableSizes (runX addFns h₁).st = (2, 2) ∧ tableSizes (runX addFns (h₁ ++ h₂)).st = (3, 2)) ∧
    (let h₁ : List RcSX.Op := [.construct 0 [some true, some false] 5 1, .project 0 1 [0, 1]]
     let h₂ : List RcSX.Op := [.construct 2 [] 6 6, .destroy 2]
     (∀ op, op ∈ h₂ → find op.target (runX addFns h₁).st.hs = none) ∧
     (runX addFns (h₁ ++ h₂)).st.hs = (runX addFns h₁).st.hs ∧
     tableSizes (runX addFns h₁).st = (4, 2) ∧ tableSizes (runX addFns (h₁ ++ h₂)).st = (3, 2)) := by decide

/-!
## still not proved

* The relative theorem for histories WITH `project` in a weakened form (e.g. "the nodes reachable from the live handles
  are the same, the tables differ only by counter-0 nodes") is not stated; only the failure of the exact form is shown.
* The second invariant of `Vata/Proofs/StoreRefine.lean` (`WfInv`: every allocated inner node is reduced and ordered) and
  hence "pointer equality of roots = equality of the denoted functions" is NOT extended to the new operations (it is false
  after a `rename` with a non-monotone table, and would need `Below offset` side conditions for `extendWith`).
* The `VoidApply` traversals are not in the history model (they do not touch the store).  The memo tables `ht` are not
  modelled.
* Leaf values and handle names are `Nat`; the destructor of a user-defined leaf type is not modelled.
* That the model and `OndriksMTBDD<T>` agree step by step is the correspondence check of a driver
  (`RcSX.runTrace : Nat → List RcSX.Op → List RcSX.Report`), not a theorem.
-/
end Vata.Props
