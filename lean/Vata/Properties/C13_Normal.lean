import Vata.Proofs.TimbukNormalForm
import Vata.Properties.C13_Layout
/-!
# C13 (continued) – normal forms: `serialize ∘ parse ∘ serialize = serialize`, exact round trip, permutations, duplicates

> For every automaton description, parsing its serialisation gives back the same final states and rules, and for every
> automaton in any of the four encodings, dumping it and loading the text again yields the same rules and final states
> under the same state names. For any input text whatsoever the parser and the loaders either succeed or throw a
> standard exception; they never crash, hang or corrupt memory.

`C13.lean` / `C13_Layout.lean` state the round trip up to "the same SET"; they left open everything that needs the four
containers to be *canonical*: idempotence of `serialize ∘ parse`, the exact answer `.ok d`, and the invariance of the parse
result under permuting (or repeating) rule lines and section words.  This file closes those items.

## How the C++ is read into the model

* `include/vata/util/aut_description.hh`: `typedef std::set<Symbol> SymbolSet; typedef std::set<State> StateSet;
  typedef std::set<Transition> TransitionSet;` with `Symbol = std::pair<std::string, int>`, `State = std::string`,
  `Transition = Triple<std::vector<State>, std::string, State>`, all with the default `std::less`, i.e. `operator<`.
  The model (`Vata/Timbuk.lean`) keeps the list of the elements in iteration order, built by `setInsert` (`std::set::insert`:
  walk to the position, do nothing when the element is there), and transcribes the comparisons: `ltChar` (unsigned bytes),
  `lexLt` (`std::lexicographical_compare` = `std::string` / `std::vector` `operator<`), `ltSym` (`std::pair::operator<`:
  `a.first < b.first || (!(b.first < a.first) && a.second < b.second)`), `ltTrans` (`Triple::operator<`,
  `include/vata/util/triple.hh`: `if (first < rhs.first) return true; else if (first > rhs.first) return false;
  assert(first == rhs.first); if (second < rhs.second) … return third < rhs.third;`).
* `Vata/Proofs/TimbukOrder.lean` proves that these four comparisons, **as transcribed**, are strict total orders
  (`StrictTotal`: irreflexive, transitive, trichotomous).  A slip in a comparison (e.g. `<=` for `<`, a forgotten
  `!(b.first < a.first)`) would make one of the three laws fail.  `C13_triple_asserts_hold`: the two `assert`s inside
  `Triple::operator<` are implied by the two failed comparisons before them.
* `Vata/Proofs/TimbukNorm.lean`: `norm` (insert everything into an empty `std::set`) yields a strictly increasing list,
  depends on the set of elements only, and is idempotent.
* `AutDesc.NormalForm d` (`Vata/TimbukNormal.lean`, decidable): the four lists of `d` are strictly increasing, i.e. they are
  what iterating the C++ sets yields.  `AutDesc.normalize d`: the `std::set` view of `d` with the name the serializer writes.
* Texts are `Timbuk.Layout`s (`Vata/Proofs/TimbukLayoutFile.lean`, see `C13_Layout.lean`); `F.Ok d` says that `F` lists the
  tokens of `d` in the order of `d` – so "permuting the rule lines / the words of a section" is: a layout `F'` of a
  description `d'` whose lists are permutations of those of `d` (`Desc.PermOf`), and "repeating" is `Desc.SameSets`.

Abstracted: nothing new; all statements are about the model (see the end).
-/
namespace Vata.Props
open Vata Vata.Timbuk

/-! ### 1. the C++ comparisons are strict total orders -/

/-- `std::string::operator<`, `std::vector<std::string>::operator<`, `std::pair<std::string,int>::operator<` and
`Triple::operator<`, as the model transcribes them, are strict total orders: `lt a a` never holds, `lt` is transitive, and
two values neither of which is below the other are EQUAL (so `std::set` equivalence is equality) -/
theorem C13_orders_strict_total :
    StrictTotal ltStr ∧ StrictTotal ltTuple ∧ StrictTotal ltSym ∧ StrictTotal ltTrans :=
  ⟨ltStr_strictTotal, ltTuple_strictTotal, ltSym_strictTotal, ltTrans_strictTotal⟩

/-- trichotomy, for each of the four: exactly the shape `a < b ∨ a = b ∨ b < a` -/
theorem C13_orders_trichotomy :
    (∀ a b, ltStr a b = true ∨ a = b ∨ ltStr b a = true) ∧ (∀ a b, ltTuple a b = true ∨ a = b ∨ ltTuple b a = true) ∧
    (∀ a b, ltSym a b = true ∨ a = b ∨ ltSym b a = true) ∧ (∀ a b, ltTrans a b = true ∨ a = b ∨ ltTrans b a = true) :=
  ⟨ltStr_strictTotal.trichotomy, ltTuple_strictTotal.trichotomy, ltSym_strictTotal.trichotomy,
    ltTrans_strictTotal.trichotomy⟩

/-- the constructions, generically: `std::lexicographical_compare` and `std::pair::operator<` over strict total orders are
strict total orders -/
theorem C13_lex_pair_strict_total {α β : Type} {lt₁ : α → α → Bool} {lt₂ : β → β → Bool} (h₁ : StrictTotal lt₁)
    (h₂ : StrictTotal lt₂) : StrictTotal (lexLt lt₁) ∧ StrictTotal (pairLt lt₁ lt₂) :=
  ⟨lexLt_strictTotal h₁, pairLt_strictTotal h₁ h₂⟩

example : ltStr "Q".toList "q".toList = true ∧ ltStr "q".toList "q0".toList = true ∧ ltStr "q0".toList "q".toList = false ∧
    ltStr "q".toList "q".toList = false := by decide
example : ltSym ("a".toList, 2) ("b".toList, 1) = true ∧ ltSym ("a".toList, -1) ("a".toList, 2) = true ∧
    ltSym ("a".toList, 2) ("a".toList, 2) = false := by decide
example : ltTrans ([], "b".toList, "q".toList) (["q".toList], "a".toList, "q".toList) = true ∧
    ltTrans (["q".toList], "a".toList, "q".toList) (["q".toList], "a".toList, "r".toList) = true ∧
    ltTrans (["q".toList], "a".toList, "r".toList) (["q".toList, "q".toList], "a".toList, "q".toList) = true := by decide
/-- the hypothesis of the generic statement cannot be dropped: over a comparison that is not irreflexive the
lexicographic comparison is not irreflexive either -/
example : lexLt (fun (a b : Nat) => decide (a ≤ b)) [1] [1] = true := by decide

/-- **the `assert`s of `Triple::operator<` cannot fire**: after `first < rhs.first` and `first > rhs.first` both failed,
`first == rhs.first`; likewise for `second` -/
theorem C13_triple_asserts_hold (a b : Trans) :
    (ltTuple a.1 b.1 = false → ltTuple b.1 a.1 = false → a.1 = b.1) ∧
    (ltStr a.2.1 b.2.1 = false → ltStr b.2.1 a.2.1 = false → a.2.1 = b.2.1) :=
  ⟨ltTuple_strictTotal.total, ltStr_strictTotal.total⟩

/-! ### 2. `norm`: the list of a `std::set` -/

/-- the list of a `std::set` is strictly increasing (hence duplicate-free) and has exactly the inserted elements -/
theorem C13_norm_sorted {α : Type} [DecidableEq α] {lt : α → α → Bool} (h : StrictTotal lt) (l : List α) :
    Sorted lt (norm lt l) ∧ (norm lt l).Nodup ∧ ∀ x, x ∈ norm lt l ↔ x ∈ l :=
  ⟨norm_sorted h l, (norm_sorted h l).nodup h, fun x => mem_norm lt x l⟩

/-- `norm` is idempotent; it is the identity exactly on the strictly increasing lists (`sortedB`, executable) -/
theorem C13_norm_idem {α : Type} [DecidableEq α] {lt : α → α → Bool} (h : StrictTotal lt) (l : List α) :
    norm lt (norm lt l) = norm lt l ∧ (norm lt l = l ↔ sortedB lt l = true) :=
  ⟨norm_idem h l, norm_eq_self_iff h l⟩

/-- `norm` is invariant under permutation -/
theorem C13_norm_perm {α : Type} [DecidableEq α] {lt : α → α → Bool} (h : StrictTotal lt) {l₁ l₂ : List α}
    (hp : l₁.Perm l₂) : norm lt l₁ = norm lt l₂ :=
  norm_perm h hp

/-- … and under duplication: it depends on the SET of elements only; and two sets are equal iff their lists are -/
theorem C13_norm_sameSet {α : Type} [DecidableEq α] {lt : α → α → Bool} (h : StrictTotal lt) (l₁ l₂ : List α) :
    norm lt l₁ = norm lt l₂ ↔ ∀ x, x ∈ l₁ ↔ x ∈ l₂ :=
  ⟨fun e x => by rw [← mem_norm lt x l₁, ← mem_norm lt x l₂, e], norm_congr h⟩

example : norm ltStr ["r".toList, "q".toList, "r".toList, "Q".toList] = ["Q".toList, "q".toList, "r".toList] := by decide
example : ["r".toList, "q".toList, "r".toList, "Q".toList].Perm ["Q".toList, "r".toList, "r".toList, "q".toList] := by
  decide
/-- the order hypothesis cannot be dropped: with a comparison that never answers `true`, `setInsert` appends, and the
result depends on the order of insertion -/
example : norm (fun (_ _ : Nat) => false) [1, 2] ≠ norm (fun (_ _ : Nat) => false) [2, 1] ∧ [1, 2].Perm [2, 1] := by
  decide

/-! ### 3. the serializer is blind to order, multiplicity and `anonymous`; idempotence -/

theorem serialize_toS (d : Desc) : serialize d.toS = String.ofList (serializeC d) := by
  unfold serialize; rw [ofS_toS]

theorem parseTimbuk_serialize (d : AutDesc) (hwf : d.WellFormed) : parseTimbuk (serialize d) = .ok d.normalize := by
  unfold parseTimbuk serialize
  rw [String.toList_ofList, parseC_serializeC (ofS d) (wf_of_wellFormed hwf), roundTrip_eq_normalize]
  rfl

/-- **the exact parse result of a serialisation**: for every well-formed `d`, `parseTimbuk (serialize d)` is `.ok` of the
normal form of `d` – each list sorted by the C++ order without duplicates, the name replaced by `anonymous` if empty -/
theorem C13_parse_serialize_normalize (d : AutDesc) (hwf : d.WellFormed) :
    parseTimbuk (serialize d) = .ok d.normalize :=
  parseTimbuk_serialize d hwf

example : TimbukEx.exD.WellFormed := by decide
example : TimbukEx.exD.normalize = ⟨"anonymous", [("a", 0), ("b", 0), ("f", 2), ("f", 3), ("g", 1), ("neg", -1)],
    [">r", "q-", "q0", "q1"], [],
    [([], "a", "q0"), ([], "b", "q1"), (["q-"], "g", ">r"), (["q0", "q1"], "f", "q-"), (["q0", "q1", ">r"], "f", "q0")]⟩ := by
  decide

/-- the serializer writes the same text for a description and for its normal form -/
theorem C13_serialize_normalize (d : AutDesc) : serialize d.normalize = serialize d := by
  unfold AutDesc.normalize
  rw [serialize_toS, serializeC_normalize]
  rfl

/-- **idempotence, `serialize ∘ parse ∘ serialize = serialize`**: for every well-formed `d` the serialisation parses, and
serialising the parsed description gives the same text again, byte for byte.  (`WellFormed` is needed for the parse to
succeed at all, `TimbukEx.exBad`.) -/
theorem C13_serialize_idempotent (d : AutDesc) (hwf : d.WellFormed) :
    ∃ d', parseTimbuk (serialize d) = .ok d' ∧ serialize d' = serialize d :=
  ⟨d.normalize, parseTimbuk_serialize d hwf, C13_serialize_normalize d⟩

/-- the same as a statement about texts: every text `t` that the serializer can write for a well-formed description is a
fixed point of `serialize ∘ parse` -/
theorem C13_serialized_text_fixed (d : AutDesc) (hwf : d.WellFormed) (t : String) (ht : t = serialize d) :
    ∃ d', parseTimbuk t = .ok d' ∧ serialize d' = t := by
  subst ht; exact C13_serialize_idempotent d hwf

/-- executed on `exD` (unsorted lists, duplicates, the empty name) -/
example : (match parseTimbuk (serialize TimbukEx.exD) with
    | .ok d' => serialize d' == serialize TimbukEx.exD
    | .error _ => false) = true := by decide +kernel

/-- **the serializer sees the sets only**: two descriptions with the same name and, section by section, the same sets of
symbols, states, final states and rules (in any order, with any repetitions) are written to the same text -/
theorem C13_serialize_order_blind (d d' : AutDesc) (hname : d.name = d'.name) (hsym : d.symbols ≈ d'.symbols)
    (hst : d.states ≈ d'.states) (hfin : d.final ≈ d'.final) (htr : d.trans ≈ d'.trans) :
    serialize d = serialize d' := by
  unfold serialize
  congr 1
  apply serializeC_congr
  · show d.name.toList = d'.name.toList
    rw [hname]
  · intro x; simp only [ofS, List.mem_map]
    exact ⟨fun ⟨a, ha, e⟩ => ⟨a, (hsym a).mp ha, e⟩, fun ⟨a, ha, e⟩ => ⟨a, (hsym a).mpr ha, e⟩⟩
  · intro x; simp only [ofS, List.mem_map]
    exact ⟨fun ⟨a, ha, e⟩ => ⟨a, (hst a).mp ha, e⟩, fun ⟨a, ha, e⟩ => ⟨a, (hst a).mpr ha, e⟩⟩
  · intro x; simp only [ofS, List.mem_map]
    exact ⟨fun ⟨a, ha, e⟩ => ⟨a, (hfin a).mp ha, e⟩, fun ⟨a, ha, e⟩ => ⟨a, (hfin a).mpr ha, e⟩⟩
  · intro x; simp only [ofS, List.mem_map]
    exact ⟨fun ⟨a, ha, e⟩ => ⟨a, (htr a).mp ha, e⟩, fun ⟨a, ha, e⟩ => ⟨a, (htr a).mpr ha, e⟩⟩

example : serialize ⟨"A", [("f", 2), ("a", 0)], ["r", "q"], ["r"], [(["q"], "f", "r"), ([], "a", "q")]⟩ =
    serialize ⟨"A", [("a", 0), ("f", 2), ("a", 0)], ["q", "r", "q"], ["r", "r"],
      [([], "a", "q"), (["q"], "f", "r"), ([], "a", "q")]⟩ := by decide +kernel

/-! ### 4. the exact round trip `parseTimbuk (serialize d) = .ok d` -/

theorem ofS_name_ne {d : AutDesc} (h : d.name ≠ "") : (ofS d).name ≠ [] := by
  intro e
  exact h (String.toList_eq_nil_iff.mp e)

/-- **exact round trip**: for a well-formed description that is in normal form (its four lists are what iterating the
C++ `std::set`s yields: strictly increasing) and has a name, parsing the serialisation returns exactly `d` -/
theorem C13_parse_exact_normalised (d : AutDesc) (hwf : d.WellFormed) (hnf : d.NormalForm) (hname : d.name ≠ "") :
    parseTimbuk (serialize d) = .ok d := by
  rw [parseTimbuk_serialize d hwf]
  unfold AutDesc.normalize
  rw [normalize_of_sorted hnf (ofS_name_ne hname), toS_ofS]

/-- the two extra hypotheses are exactly what is needed: for well-formed `d` the exact round trip holds IFF `d` is in normal
form and named -/
theorem C13_parse_exact_iff (d : AutDesc) (hwf : d.WellFormed) :
    parseTimbuk (serialize d) = .ok d ↔ d.NormalForm ∧ d.name ≠ "" := by
  constructor
  · intro h
    rw [parseTimbuk_serialize d hwf] at h
    injection h with h
    have h' : (ofS d).normalize = ofS d := by
      have := congrArg ofS h
      unfold AutDesc.normalize at this
      rwa [ofS_toS] at this
    obtain ⟨h1, h2⟩ := sorted_of_normalize_eq h'
    refine ⟨h1, ?_⟩
    intro e
    apply h2
    show d.name.toList = []
    rw [e]; rfl
  · rintro ⟨h1, h2⟩
    exact C13_parse_exact_normalised d hwf h1 h2

namespace C13NormalEx
/-- `exE` in `std::set` order -/
def exN : AutDesc := ⟨"A-1", [("a", 0), ("f", 2)], ["q", "r"], ["q", "r"],
  [([], "a", "q"), (["q", "r"], "f", "r"), (["r", "r"], "f", "q")]⟩
example : exN.WellFormed ∧ exN.NormalForm ∧ exN.name ≠ "" := by decide
/-- not in normal form (`exE`: a repeated final state, the rules out of order), not named (`exD`) -/
example : TimbukEx.exE.WellFormed ∧ ¬ TimbukEx.exE.NormalForm := by decide
example : TimbukEx.exD.WellFormed ∧ TimbukEx.exD.name = "" := by decide
example : exN = TimbukEx.exE.normalize := by decide
end C13NormalEx

/-- **every description the parser returns is in normal form** – for ANY text: the line loop only ever `insert`s into
the four sets -/
theorem C13_parse_result_normal (t : String) (d : AutDesc) (h : parseTimbuk t = .ok d) : d.NormalForm := by
  unfold parseTimbuk at h
  split at h
  · cases h
  · rename_i d0 hd0
    injection h with h; subst h
    show (ofS d0.toS).sortedB = true
    rw [ofS_toS]
    exact parseC_sorted hd0

/-- **serialise after parse, exactly** (the corrected form of the statement that `C13_Layout.lean` shows false for the
empty name): whatever text `t` was parsed – any layout, any order, repetitions –, if the result `d` is well-formed and
has a name then `serialize d` parses back to exactly `d`; and with or without a name the text `serialize d` is a fixed
point of `serialize ∘ parse` -/
theorem C13_serialize_parse_exact (t : String) (d : AutDesc) (hp : parseTimbuk t = .ok d) (hwf : d.WellFormed) :
    (d.name ≠ "" → parseTimbuk (serialize d) = .ok d) ∧
    (∃ d', parseTimbuk (serialize d) = .ok d' ∧ serialize d' = serialize d) :=
  ⟨fun hname => C13_parse_exact_normalised d hwf (C13_parse_result_normal t d hp) hname,
    C13_serialize_idempotent d hwf⟩

example : ∃ d, (parseTimbuk "States r q r\nAutomaton A\nTransitions\nb -> q\na() -> q\nb->q").toOption = some d ∧
    d.WellFormed ∧ d.name ≠ "" ∧ d = ⟨"A", [], ["q", "r"], [], [([], "a", "q"), ([], "b", "q")]⟩ :=
  ⟨_, by decide +kernel, by decide, by decide, rfl⟩

/-! ### 5. permuting and repeating rule lines and section words -/

/-- **the parse result of a layout depends on the sets only.**  `F` a layout of `d`, `F'` a layout of `d'`, the same
sections present, `d` and `d'` with the same name and section by section the same SETS: the two texts parse to the same
result (and both parses succeed, `C13_layout_sections`). -/
theorem C13_layout_sameSets (d d' : Desc) (hwf : d.wellFormed = true) (hs : d.SameSets d') (F F' : Layout)
    (hF : F.Ok d) (hF' : F'.Ok d') (hk : ∀ k, k ∈ F.kinds ↔ k ∈ F'.kinds) :
    parseTimbuk (String.ofList F.text) = parseTimbuk (String.ofList F'.text) := by
  apply parseTimbuk_congr
  rw [String.toList_ofList, String.toList_ofList]
  exact parseC_layout_sameSet (wf_of_wellFormed hwf) hs hF hF' hk

/-- **permutation invariance.**  A layout lists the words of `Ops`, `States`, `Final States` and the rule lines in the
order of its description; if `F'` is a layout of `d'` whose four lists are permutations of those of `d` (`Desc.PermOf`) –
i.e. `F'` is `F` with the words inside the sections and the rule lines permuted, and arbitrary other white space, blank
lines, section order – then the two texts have the same parse result. -/
theorem C13_permutation_invariant (d d' : Desc) (hwf : d.wellFormed = true) (hp : d.PermOf d') (F F' : Layout)
    (hF : F.Ok d) (hF' : F'.Ok d') (hk : ∀ k, k ∈ F.kinds ↔ k ∈ F'.kinds) :
    parseTimbuk (String.ofList F.text) = parseTimbuk (String.ofList F'.text) :=
  C13_layout_sameSets d d' hwf hp.sameSets F F' hF hF' hk

/-- **duplicates are ignored.**  If the lists of `d'` are those of `d` with elements repeated (any number of times, at
any place: `Desc.SameSets`, executable test `Desc.sameSetsB`), the texts parse alike. -/
theorem C13_duplicates_ignored (d d' : Desc) (hwf : d.wellFormed = true) (hs : d.sameSetsB d' = true) (F F' : Layout)
    (hF : F.Ok d) (hF' : F'.Ok d') (hk : ∀ k, k ∈ F.kinds ↔ k ∈ F'.kinds) :
    parseTimbuk (String.ofList F.text) = parseTimbuk (String.ofList F'.text) :=
  C13_layout_sameSets d d' hwf (Desc.sameSets_of_sameSetsB hs) F F' hF hF' hk

/-- **rule lines, directly on the layout.**  Replacing the rule lines of a layout by ANY rule lines (each with its blank
lines) that denote the same set of rules – a permutation, repetitions, other spellings such as `a()` for `a` – does not
change the parse result. -/
theorem C13_transition_lines_as_set (d : Desc) (hwf : d.wellFormed = true) (F : Layout) (hF : F.Ok d)
    (tls : List (List Str × TLine)) (htls : ∀ p ∈ tls, (∀ b ∈ p.1, Blank b) ∧ p.2.Ok)
    (hset : ∀ t, t ∈ tls.map (·.2.trans) ↔ t ∈ F.tls.map (·.2.trans)) :
    parseTimbuk (String.ofList (F.withTls tls).text) = parseTimbuk (String.ofList F.text) := by
  apply parseTimbuk_congr
  rw [String.toList_ofList, String.toList_ofList]
  exact parseC_withTls (wf_of_wellFormed hwf) hF htls hset

/-- permuting the rule lines (each moves with the blank lines before it) -/
theorem C13_permute_transition_lines (d : Desc) (hwf : d.wellFormed = true) (F : Layout) (hF : F.Ok d)
    (tls : List (List Str × TLine)) (hp : tls.Perm F.tls) :
    parseTimbuk (String.ofList (F.withTls tls).text) = parseTimbuk (String.ofList F.text) :=
  C13_transition_lines_as_set d hwf F hF tls (fun p hp' => hF.tls p (hp.mem_iff.mp hp'))
    (fun _ => (hp.map _).mem_iff)

/-- repeating rule lines: any list of lines drawn from those of the layout that uses each at least once -/
theorem C13_repeat_transition_lines (d : Desc) (hwf : d.wellFormed = true) (F : Layout) (hF : F.Ok d)
    (tls : List (List Str × TLine)) (hm : ∀ p, p ∈ tls ↔ p ∈ F.tls) :
    parseTimbuk (String.ofList (F.withTls tls).text) = parseTimbuk (String.ofList F.text) :=
  C13_transition_lines_as_set d hwf F hF tls (fun p hp' => hF.tls p ((hm p).mp hp'))
    (fun t => by
      simp only [List.mem_map]
      exact ⟨fun ⟨p, hp, e⟩ => ⟨p, (hm p).mp hp, e⟩, fun ⟨p, hp, e⟩ => ⟨p, (hm p).mpr hp, e⟩⟩)

/-- **section words, directly on the layout.**  Replacing the header lines of a layout by ANY header lines with the same
sections (any order of the sections, any white space) whose `Ops` / `States` / `Final States` words are those of lists
`syms`, `sts`, `fin` with the same sets as the sections of `d` – the words permuted, repeated – does not change the parse
result.  (`d.withSections syms sts fin` is `d` with these three lists; name and rules are untouched.) -/
theorem C13_section_words_as_set (d : Desc) (hwf : d.wellFormed = true) (F : Layout) (hF : F.Ok d)
    (syms : List (Str × Int)) (sts fin : List Str) (h1 : syms ≈ d.symbols) (h2 : sts ≈ d.states) (h3 : fin ≈ d.final)
    (hdr : List (List Str × HLine))
    (hok : ∀ p ∈ hdr, (∀ b ∈ p.1, Blank b) ∧ p.2.Ok (d.withSections syms sts fin))
    (hnd : (hdr.map (·.2.kind)).Nodup) (hk : ∀ k, k ∈ hdr.map (·.2.kind) ↔ k ∈ F.kinds) :
    parseTimbuk (String.ofList (F.withHdr hdr).text) = parseTimbuk (String.ofList F.text) := by
  apply parseTimbuk_congr
  rw [String.toList_ofList, String.toList_ofList]
  exact parseC_withHdr (wf_of_wellFormed hwf) hF h1 h2 h3 hok hnd hk

namespace C13NormalEx
/-- a header line / a rule line with the serializer's spacing -/
def hl (k : HKind) (ws : List String) : List Str × HLine := ([], ⟨k, [], ws.map (fun w => ([' '], w.toList)), []⟩)
def tlArgs : List String → Option (Str × Str × List (Str × Str × Str))
  | [] => none
  | k :: ks => some ([], [], ([], k.toList, []) :: ks.map (fun x => ([' '], x.toList, [])))
def tl (sym : String) (kids : List String) (par : String) : List Str × TLine :=
  ([], ⟨[], sym.toList, tlArgs kids, [' '], [' '], par.toList, []⟩)

def dG : Desc := ofS TimbukEx.exE
def G : Layout :=
  ⟨[hl .ops ["a:0", "f:2"], hl .aut ["A-1"], hl .states ["q", "r"], hl .final ["States", "r", "q", "r"]], [], [], [],
   [tl "f" ["q", "r"] "r", tl "a" [] "q", tl "f" ["r", "r"] "q"], [[]]⟩

/-- the words of every section and the rule lines permuted, the sections in another order -/
def dG' : Desc := ofS ⟨"A-1", [("f", 2), ("a", 0)], ["r", "q"], ["q", "r", "r"],
  [([], "a", "q"), (["r", "r"], "f", "q"), (["q", "r"], "f", "r")]⟩
def G' : Layout :=
  ⟨[hl .final ["States", "q", "r", "r"], hl .states ["r", "q"], hl .aut ["A-1"], hl .ops ["f:2", "a:0"]], [], [], [],
   [tl "a" [] "q", tl "f" ["r", "r"] "q", tl "f" ["q", "r"] "r"], [[]]⟩

/-- words and rule lines repeated -/
def dG'' : Desc := ofS ⟨"A-1", [("a", 0), ("f", 2), ("a", 0)], ["q", "r", "q", "q"], ["r", "q"],
  [(["q", "r"], "f", "r"), ([], "a", "q"), (["r", "r"], "f", "q"), ([], "a", "q"), (["q", "r"], "f", "r")]⟩
def G'' : Layout :=
  ⟨[hl .ops ["a:0", "f:2", "a:0"], hl .aut ["A-1"], hl .states ["q", "r", "q", "q"], hl .final ["States", "r", "q"]],
   [], [], [],
   [tl "f" ["q", "r"] "r", tl "a" [] "q", tl "f" ["r", "r"] "q", tl "a" [] "q", tl "f" ["q", "r"] "r"], [[]]⟩

example : String.ofList G.text =
    "Ops a:0 f:2\nAutomaton A-1\nStates q r\nFinal States r q r\nTransitions\nf(q, r) -> r\na -> q\nf(r, r) -> q\n" := by
  decide +kernel
example : String.ofList G'.text =
    "Final States q r r\nStates r q\nAutomaton A-1\nOps f:2 a:0\nTransitions\na -> q\nf(r, r) -> q\nf(q, r) -> r\n" := by
  decide +kernel
example : String.ofList G''.text =
    "Ops a:0 f:2 a:0\nAutomaton A-1\nStates q r q q\nFinal States r q\nTransitions\n" ++
    "f(q, r) -> r\na -> q\nf(r, r) -> q\na -> q\nf(q, r) -> r\n" := by decide +kernel
/-- the hypotheses of `C13_permutation_invariant` for `G`, `G'` -/
example : dG.wellFormed = true ∧ G.okB dG = true ∧ G'.okB dG' = true := by decide +kernel
example : dG.PermOf dG' := ⟨rfl, by decide, by decide, by decide, by decide⟩
example : ∀ k, k ∈ G.kinds ↔ k ∈ G'.kinds := by intro k; cases k <;> decide
/-- the hypotheses of `C13_duplicates_ignored` for `G`, `G''` -/
example : G''.okB dG'' = true ∧ dG.sameSetsB dG'' = true := by decide +kernel
example : ∀ k, k ∈ G.kinds ↔ k ∈ G''.kinds := by intro k; cases k <;> decide
/-- executed -/
example : (parseTimbuk (String.ofList G.text)).toOption = some C13NormalEx.exN ∧
    (parseTimbuk (String.ofList G'.text)).toOption = some C13NormalEx.exN ∧
    (parseTimbuk (String.ofList G''.text)).toOption = some C13NormalEx.exN := by decide +kernel
/-- `C13_section_words_as_set` for `G` with the header lines of `G''`: the lists, the set equalities (by the executable
test), the lines -/
example : dG.withSections dG''.symbols dG''.states dG''.final = { dG'' with trans := dG.trans } := rfl
example : sameSetB dG''.symbols dG.symbols = true ∧ sameSetB dG''.states dG.states = true ∧
    sameSetB dG''.final dG.final = true := by decide
example : G''.hdr.all (fun p => p.1.all blankB && p.2.okB (dG.withSections dG''.symbols dG''.states dG''.final)) = true ∧
    nodupB (G''.hdr.map (·.2.kind)) = true := by decide +kernel
example : String.ofList (G.withHdr G''.hdr).text =
    "Ops a:0 f:2 a:0\nAutomaton A-1\nStates q r q q\nFinal States r q\nTransitions\n" ++
    "f(q, r) -> r\na -> q\nf(r, r) -> q\n" := by decide +kernel
/-- `C13_permute_transition_lines`, `C13_repeat_transition_lines`: the rule lines reversed, the rule lines twice -/
example : G.tls.reverse.Perm G.tls := List.reverse_perm _
example : ∀ p, p ∈ G.tls ++ G.tls ↔ p ∈ G.tls := by intro p; simp
example : String.ofList (G.withTls G.tls.reverse).text =
    "Ops a:0 f:2\nAutomaton A-1\nStates q r\nFinal States r q r\nTransitions\nf(r, r) -> q\na -> q\nf(q, r) -> r\n" := by
  decide +kernel
end C13NormalEx

/-!
## closed by this file (items of the "still not proved" lists of `C13.lean` / `C13_Layout.lean`)

* "Idempotence `serialize ∘ parse ∘ serialize = serialize`": `C13_serialize_idempotent`, with the exact parse result
  `C13_parse_serialize_normalize`; the order theory it needed: `C13_orders_strict_total`, `C13_norm_idem`.
* "`parseTimbuk (serialize d) = .ok d` … with the name clause corrected": `C13_parse_exact_normalised`, `C13_parse_exact_iff`;
  for parse results: `C13_parse_result_normal`, `C13_serialize_parse_exact` (here the hypothesis `parseTimbuk t = .ok d` IS used).
* "permuting the rule lines or the words of a section does not change the result": `C13_permutation_invariant`,
  `C13_permute_transition_lines`; with repetitions `C13_duplicates_ignored`, `C13_repeat_transition_lines`,
  `C13_transition_lines_as_set`, `C13_section_words_as_set`.

## still not proved

* **Section words word by word.**  For rule lines the invariance is stated on the lines themselves (`Layout.withTls`,
  hypothesis on the lines only).  For the words of `Ops` / `States` / `Final States` it is stated through the permuted
  LISTS (`C13_section_words_as_set`: the new header lines spell `syms`, `sts`, `fin` with `syms ≈ d.symbols` …; or two
  layouts `F.Ok d`, `F'.Ok d'` with `d.PermOf d'`); a form whose only hypothesis is "the words of the new `Ops` line are a
  permutation of the words of the old one" (it needs that the token `name:rank` determines the pair) is not stated.
* **Tokens spelled differently** (`q:5` for a state, `a:+2`, `a:007`): two such spellings of one token are not covered by
  `Layout.Ok`, so the invariance theorems do not speak about texts that mix them (as in `C13_Layout.lean`).
* **Not-`WellFormed` descriptions**: `C13_serialize_order_blind`, `C13_serialize_normalize`, `C13_parse_result_normal` and the
  order / `norm` theorems need no well-formedness; everything that parses a serialisation does (the text may be rejected or
  cut differently, `TimbukEx.exBad`).
* **The C++ containers themselves**: that `std::set::insert` / iteration of libstdc++ behave like `setInsert` / the sorted
  list (for a strict weak order) is the C++ standard's contract, assumed, not proved; the theorems show that the
  comparisons handed to `std::set` satisfy that contract (`C13_orders_strict_total`) as transcribed into the model.
  Agreement of model and compiled code is the generated comparison described in `Vata/Timbuk.lean`, not a theorem.
* The other open items of `C13.lean` (loaders of the other three encodings, robustness of the compiled code on arbitrary
  bytes, a complete characterisation of the rejected texts) are untouched.
-/
end Vata.Props
