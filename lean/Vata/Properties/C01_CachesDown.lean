import Vata.Proofs.FunctorCachesDownRun
import Vata.Properties.C01
import Vata.Properties.C07
import Vata.Properties.CacheWiring
/-!
# C01 / C07 – the address-keyed caches of the recursive DOWNWARD inclusion algorithm are transparent (library's deleter)

Property text served: C01 "each implemented inclusion algorithm of the explicit encoding returns true exactly when …" and C07
(the same for the BDD encodings) – for the selections `ANTICHAINS_DOWN_REC_NOSIM` / `ANTICHAINS_DOWN_REC_SIM`.  The models
`inclDownRec` / `inclDownSim` behind `C01_downward_rec_model_exact`, `C01_downward_sim_exact`, `C07_td_downward_models_exact`
compare macro-states BY VALUE.  The code (`src/tree_incl_down.hh`, `src/down_tree_incl_fctor.hh`) interns them in
`biggerTypeCache` (a `Util::Cache`: objects held by `shared_ptr`s, they DIE, the allocator may hand out their address again)
and memoises the set comparison in `lteCache`, a `Util::CachedBinaryOp` keyed by the ADDRESSES of two interned sets; the deleter
handed to `biggerTypeCache` calls `lteCache.invalidateFirst(v); lteCache.invalidateSecond(v)`.

## How the C++ is read into the model (`Vata/FunctorCachesDown.lean`)

* `FCD.runC o w pick A B fuel` is `CheckDownwardTreeInclusion<Aut, DownwardInclusionFunctor, Rel>` as coded: the loop over the
  final states of the smaller automaton (`rootLoopC`), `DownwardInclusionFunctor::expand` (`expandC`: `isInWorkset`,
  `isNoninclusionImplied`, `isImpliedByChildren`, `IsImpliedByPreorder`, `workset_.insert`, the inner functor's `operator()`
  – `bodyC`, the same control flow as `InclDown.body` –, `processFoundInclusion` / `processFoundNoninclusion`), with
  `workset_`, `childrenCache_`, `nonIncl_` holding pairs (state, ADDRESS) and every `smallerComparer_` / `biggerComparer_` call
  going through pointer equality and `lteCache.lookup` (`hLteO`), in the order in which `isInWorkset`,
  `Antichain2Cv2::contains` and `Antichain2Cv2::refine` make them, stopping where they stop (`findC`, `refC`).
* `o : InclDown.Ord` is the preorder argument (`idOrd` = `Util::Identity`, `NOSIM`; `ordOf R A B` = the simulation, `SIM`);
  `w : CM.Wiring` is what the deleter does (`.lib` = the code; `Vata.CacheWiring.cache_wiring_is_lib` proves that the deleter
  regenerated from `src/tree_incl_down.hh` denotes it; `.firstTwice` = the seeded change `invalidateFirst` twice);
  `pick` is the allocator: which address a new macro-state gets given the live ones (every allocator is some `pick`).
* heap, allocator, deaths: `FCU.Heap`, `FCU.hLookup`, `FCU.hCollect` of `Vata/FunctorCachesUp.lean`, as they are.
  Reference counting is modelled by its effect, at the two points of `expand` where handles are dropped: after
  `processFoundInclusion` / `processFoundNoninclusion` the sets of the pairs `refine` erased die (roots: the work-set, `key`, the
  `childrenCache_`s of all functors on the stack including `innerFctor`, `nonIncl_`), and when `expand` has returned the temporary
  argument, `key` and the `childrenCache_` of `innerFctor` are gone (`wrapC`).  A death in the middle of `refine` removes the
  entries of the dead address only, the remaining comparisons are about objects that stay alive and no object is created
  before the `hCollect`, so the heap and `lteCache` are the same as with the deaths one by one.  In
  `CheckDownwardTreeInclusion` the temporary `biggerTypeCache.lookup(finalStatesBigger)` dies at the end of the `if`.
* instantiations covered: the template is shared; `Aut = ExplicitTreeAutCore` (C01: `src/explicit_tree_incl.cc`, cases
  `ANTICHAINS_DOWN_REC_NOSIM`, `ANTICHAINS_DOWN_REC_SIM`) and `Aut = BDDTDTreeAutCore` (C07: `src/bdd_td_tree_aut_incl.cc`, the same
  two cases) differ only in `Aut::ForeachDownSymbolFromStateAndStateSetDo`, which both `InclDown` and this model read as "for
  every symbol/arity of the rules of the state" (see C07 "not yet proved" for that reading).  Theorems named `C01_…` are
  stated on `TA` and hold for both; `C07_td_downward_caches_transparent` restates the result in the form of
  `C07_td_downward_models_exact`.

## What is abstracted

Iteration orders of the hash containers (`workset_` is an `unordered_multimap`, the antichains are maps of lists: list order
here, as in `InclDown`); the `shared_ptr` counters (see above; their mechanics are `Vata/CacheModel.lean`, `Util_Cache_*`);
the ghost data of `InclDown` (witness trees, the set `trues`) is carried along by value.
-/
namespace Vata.Props
open Vata Vata.InclDown Vata.FCD Vata.CM
open Vata.FCU (Heap hval pickLeast)

/-- **`biggerTypeCache` and `lteCache` are transparent for the recursive downward algorithm – for every allocator.**
With the library's deleter, `CheckInclusion` / `CheckDownwardTreeInclusion` with the caches as coded returns, for all operands,
every fuel and every allocator `pick`, exactly what the cache-free models return: the certifying models with and without
simulation (same verdict, same certificate, `none` at the same fuel), and the exploration alone for any preorder `o` with a
reflexive `leB` – the verdict and, by value, the persisting antichain `nonIncl_` and the ghost set.

Hypothesis `∀ q, o.leB q q = true`: `SetComparerSmaller` answers `true` on identical pointers without comparing the sets;
it holds for `idOrd` and every `ordOf R A B` (used for the first three conjuncts) and cannot be dropped
(`C01_downward_refl_needed`). -/
theorem C01_downward_caches_transparent (pick : List Nat → Nat) (A B : TA) (fuel : Nat) :
    checkInclDownRecC .lib pick A B fuel = checkInclDownRec A B fuel ∧
    inclDownRecC .lib pick A B fuel = inclDownRec A B fuel ∧
    (∀ R : Rel, inclDownSimC .lib pick A B R fuel = inclDownSim A B R fuel) ∧
    (∀ o : Ord, (∀ q, o.leB q q = true) →
      viewD (FCD.runC o .lib pick A B fuel) =
        rootLoop o A B (InclUp.prodWit A) fuel (InclUp.normS B.final) (dedup A.final) [] ⟨[], []⟩ ∧
      truesOf (FCD.runC o .lib pick A B fuel) = InclDown.run o A B fuel) :=
  ⟨checkInclDownRec_cached_eq pick A B fuel, inclDown_cached_eq pick A B fuel,
    fun R => inclDownSim_cached_eq pick A B R fuel,
    fun _ hr => ⟨runC_eq hr pick A B fuel, truesOf_runC_eq hr pick A B fuel⟩⟩

-- non-vacuity: runs in which macro-states die, their addresses are reused at once and `lteCache` is filled and purged
example : (checkInclDownRecC .lib pickLeast FCDEx.exA FCDEx.exB 20).map (·.1) = some false := by decide +kernel
example : (inclDownRecC .lib pickLeast FCDEx.exA FCDEx.exB2 20).map (·.1) = some true := by decide +kernel
example : (finalHeapD (FCD.runC idOrd .lib pickLeast FCDEx.exA FCDEx.exB2 20)).map
    (fun h => (h.store, h.lte.store.length)) = some ([(1, [12]), (3, [11, 13]), (0, [11, 12])], 4) := by decide +kernel
-- the hypothesis on `o` is satisfiable
example : (∀ q, idOrd.leB q q = true) ∧ ∀ R A B q, (ordOf R A B).leB q q = true := ⟨idOrd_refl, ordOf_refl⟩

/-- … in the form of `C01_downward_rec_model_exact`: exact and total with the caches, for every allocator -/
theorem C01_downward_cached_exact (pick : List Nat → Nat) (A B : TA) :
    (∀ fuel b c, checkInclDownRecC .lib pick A B fuel = some (b, c) → (b = true ↔ Incl A B)) ∧
    (∀ fuel, InclDown.fuelBoundD (removeUseless A) (removeUseless B) < fuel →
      (Incl A B → ∃ c, checkInclDownRecC .lib pick A B fuel = some (true, c)) ∧
      (¬ Incl A B → ∃ c, checkInclDownRecC .lib pick A B fuel = some (false, c))) := by
  simp only [checkInclDownRec_cached_eq]
  exact C01_downward_rec_model_exact A B

example : (checkInclDownRecC .lib pickLeast FCDEx.exA FCDEx.exB2 20).map (·.1) = some true := by decide +kernel

/-- the wiring the theorems assume is the one in the sources (first entry: `src/tree_incl_down.hh`) -/
example : Vata.Gen.cacheWiring.map Vata.CacheWiring.wiringOf = [.lib, .lib, .lib] := Vata.CacheWiring.cache_wiring_is_lib

/-- **the invariant behind it**, at the end of every run that returns `true` (library's deleter, every allocator, every
preorder with reflexive `leB`): every entry of `lteCache` mentions two LIVE macro-states and stores `NonCachedLte` of the
values now at those addresses (`FCD.HInvD`, kept by every step of the simulation `FCD.DRel`; `FCD.hCollectD_spec` is the step
where objects die, `FCD.hLookupD_spec` the one where an address may be reused) -/
theorem C01_downward_memo_sound (o : Ord) (hr : ∀ q, o.leB q q = true) (pick : List Nat → Nat) (A B : TA) (fuel : Nat)
    (h : Heap) (hf : finalHeapD (FCD.runC o .lib pick A B fuel) = some h) :
    (∀ a b r, aget h.lte.store (a, b) = some r →
      a ∈ h.addrs ∧ b ∈ h.addrs ∧ r = setLe o (hval h a) (hval h b)) ∧ heapOKD o h = true :=
  ⟨(runC_heap_sound hr pick A B fuel hf).1.sl, (runC_heap_sound hr pick A B fuel hf).2⟩

example : (finalHeapD (FCD.runC idOrd .lib pickLeast FCDEx.exA FCDEx.exB2 20)).map (heapOKD idOrd) = some true := by
  decide +kernel

/-- **the wiring matters** (the seeded change: the deleter calls `invalidateFirst` twice, so entries with the dying address
in SECOND key position survive).  On `exA`, `exB` with an allocator that recycles the address of a dead macro-state at once:
inside `expand(0, X)`, `X = {11, 12}`, the call `expand(0, {11, 12, 13})` leaves `(&X, &D) ↦ true` in `lteCache`, `D` dies,
`D' = {11, 13}` is created at its address, and `isInWorkset` finds the stale `true` for `lte(X, D')`: the check returns `true`
although `g(h(c))` is accepted by `exA` only.  The same with no deleter; the library's deleter answers `false`.  The run with
the slip ends with a table that violates the invariant. -/
theorem C01_downward_wiring_matters :
    (rawVerdictD (FCD.runC idOrd .firstTwice pickLeast FCDEx.exA FCDEx.exB 20) = some true ∧
     rawVerdictD (FCD.runC idOrd .none pickLeast FCDEx.exA FCDEx.exB 20) = some true ∧
     rawVerdictD (FCD.runC idOrd .lib pickLeast FCDEx.exA FCDEx.exB 20) = some false ∧ ¬ Incl FCDEx.exA FCDEx.exB) ∧
    (finalHeapD (FCD.runC idOrd .firstTwice pickLeast FCDEx.exA FCDEx.exB 20)).map (heapOKD idOrd) = some false :=
  ⟨FCDEx.wiring_changes_verdict, FCDEx.wiring_breaks_invariant.1⟩

/-- the certificate check of the certifying model does not let the wrong `true` through (it answers `none`) -/
example : inclDownRecC .firstTwice pickLeast FCDEx.exA FCDEx.exB 20 = none := FCDEx.wiring_breaks_invariant.2.1

/-- the reflexivity hypothesis of `C01_downward_caches_transparent` cannot be dropped: with `leB = fun _ _ => false` the
pointer-equality shortcut of `SetComparerSmaller` makes the cached run end (`return false`), while the value-level model never
finds a pair in its work-set (`none` for that fuel) -/
theorem C01_downward_refl_needed :
    rawVerdictD (FCD.runC FCDEx.oBad .lib pickLeast FCDEx.exA FCDEx.exB 20) = some false ∧
    InclDown.run FCDEx.oBad FCDEx.exA FCDEx.exB 20 = none := FCDEx.refl_needed

/-- whatever the wiring and the allocator: a verdict that passes the certificate check of the model is right -/
theorem C01_downward_cached_verdicts (w : Wiring) (pick : List Nat → Nat) (A B : TA) (fuel : Nat) (b : Bool)
    (c : InclUp.Cert) (h : inclDownRecC w pick A B fuel = some (b, c)) : b = true ↔ Incl A B := by
  unfold inclDownRecC at h
  exact finish_iff (fun _ hX => downCertB_incl hX) h

/-- **C07, top-down BDD encoding** (`BDDTDTreeAutCore::CheckInclusion`, cases `ANTICHAINS_DOWN_REC_NOSIM` and
`ANTICHAINS_DOWN_REC_SIM`: the same template `CheckDownwardTreeInclusion<…, DownwardInclusionFunctor, …>` with the same two
caches and the same deleter).  With the caches as coded, the library's deleter and any allocator, the models of
`C07_td_downward_models_exact` are unchanged, hence exact and – `NOSIM` – total above the bound. -/
theorem C07_td_downward_caches_transparent (pick : List Nat → Nat) (A B : TA) (R : Rel) :
    (∀ fuel, checkInclDownRecC .lib pick A B fuel = checkInclDownRec A B fuel ∧
      inclDownSimC .lib pick A B R fuel = inclDownSim A B R fuel) ∧
    (∀ fuel b c, checkInclDownRecC .lib pick A B fuel = some (b, c) → (b = true ↔ Incl A B)) ∧
    (∀ fuel b c, inclDownSimC .lib pick A B R fuel = some (b, c) → (b = true ↔ Incl A B)) ∧
    (∀ fuel, InclDown.fuelBoundD (removeUseless A) (removeUseless B) < fuel →
      (Incl A B → ∃ c, checkInclDownRecC .lib pick A B fuel = some (true, c)) ∧
      (¬ Incl A B → ∃ c, checkInclDownRecC .lib pick A B fuel = some (false, c))) := by
  obtain ⟨h1, _, h3, h4, _⟩ := C07_td_downward_models_exact A B R
  refine ⟨fun fuel => ⟨checkInclDownRec_cached_eq pick A B fuel, inclDownSim_cached_eq pick A B R fuel⟩, ?_, ?_, ?_⟩
  · intro fuel b c h; rw [checkInclDownRec_cached_eq] at h; exact h1 fuel b c h
  · intro fuel b c h; rw [inclDownSim_cached_eq] at h; exact h3 fuel b c h
  · intro fuel hf; rw [checkInclDownRec_cached_eq]; exact (h4 fuel hf).2

example : (inclDownSimC .lib pickLeast InclDownEx.exS1 InclDownEx.exS2 [(5, 6)] 10).map (·.1) = some true := by
  decide +kernel

/-!
## which "not yet proved" item this file closes

* `C01_Caches.lean`, "not proved here": "the downward algorithms (`lteCache` of `tree_incl_down.hh` …): no cached model" – closed
  for the generic recursive algorithm `CheckDownwardTreeInclusion` with `DownwardInclusionFunctor`, with and without the preorder
  parameter, for the explicit and the top-down BDD instantiation.

## still not proved

* `OptDownwardInclusionFunctor` (`src/down_tree_opt_incl_fctor.hh`, `ANTICHAINS_DOWN_REC_OPT_…`) with the caches: `InclDown` shows
  that its extra containers stay empty of pairs that matter (`inclDownOpt = inclDownRec`), but its handles' lifetimes with the
  address-keyed `lteCache` have no cached model here.
* the non-recursive variant `src/explicit_tree_incl_down.cc` (`ANTICHAINS_DOWN_NONREC_…`: its own `lteCache`, `biggerTypeCache` and
  the same deleter, handles in the frames of the call emulator): no cached model; `InclDown.expandN` stays value-level.
* reference counting is modelled by its effect (`hCollect` at the points where handles are dropped, see the header for why
  this equals the deaths one by one), not by counters; iteration orders of the hash containers are list orders; the traversal
  `ForeachDownSymbolFromStateAndStateSetDo` of the two encodings is read as in `InclDown` (for C07 see its "not yet proved").
* the comparison is with the MODEL `InclDown`; that the cached model's verdict equals the C++ verdict is testable through
  `FCD.runC` / `FCD.rawVerdictD`, not proved.
-/
end Vata.Props
