import Vata.Lang
import Vata.Isect
import Vata.Proofs.Rename
import Vata.Proofs.IsectModel
import Vata.Proofs.PropAux
import Vata.Proofs.UnionModel
import Vata.Proofs.IsectBUTotal
import Vata.Properties.RefTotal
/-!
# C02 – Union and intersection of explicit tree automata have exact language semantics

> For any explicit tree automata A and B, Union and (for operands with disjoint state sets) UnionDisjointStates return
> an automaton accepting exactly L(A) ∪ L(B), and Intersection and IntersectionBU return automata accepting exactly
> L(A) ∩ L(B).  The state-translation maps they report name, for every state of the result, the operand state or state
> pair it stands for, and the operands themselves are left unchanged.

## How the statement is read into the model

* **Specification (L0).**  Languages are given by `accepts` (`Vata/Basic.lean`); "accepts exactly `L(A) ∪ L(B)`" is
  `∀ t, accepts U t = (accepts A t || accepts B t)`, "exactly `L(A) ∩ L(B)`" is `∀ t, accepts P t = (accepts A t && accepts B t)`.
* **Models of the code.**
  - `unionWith fA fB A B` (`Vata/Ref.lean`) is `Union` *given the two translation maps `fA`, `fB` it reports*: both
    operands are re-indexed (`reindex`, the model of `ReindexStates`) into one automaton.  The C++ builds the maps with
    a shared counter, so they are injective on the states of their operand and have disjoint images; these three facts
    are explicit hypotheses of `C02_union_exact` (the check validates them on the reported maps).
  - `unionModel A B mL mR` (`Vata/UnionModel.lean`) is `Union` *including the construction of the maps*: the weak
    translators (`weakTr`) over the caller's – possibly pre-filled – maps `mL`, `mR`, and the ONE shared counter that
    starts above the largest number present in the two maps.  `unionModelOrd` takes the visiting orders of
    `ReindexStates` (hash order in the C++) as parameters.  `unionModelOld` is the code before the repair of finding
    D11 (counter from 0).
  - `unionDisjoint A B` is `UnionDisjointStates` (rule lists and final sets are concatenated); the property restricts
    it to operands with disjoint state sets, which is the hypothesis of `C02_unionDisjoint_exact`.
  - `isectTD A B fuel` (`Vata/IsectModel.lean`) mirrors `Intersection`: translation map filled in discovery order with
    fresh numbers, LIFO work-list started with `F_A × F_B`; it returns the product and the `ProductTranslMap`
    (`none` = too little fuel).  `isectTDRef` runs it with the fuel `|Q_A|·|Q_B|+1`.
  - `isectBU A B fuel` (`Vata/IsectBU.lean`) mirrors `IntersectionBU`: leaf phase, stack of map entries, `newStates`,
    tentative insertion / erasure of the parent pair with the self-loop guard; fresh numbers in discovery order.  It
    returns after the Boolean check `buCertB` (injective numbering, bottom-up closed domain, rules and final states are
    those of the product on the domain), which provably never fails; `isectBURef` runs it with the fuel `isectBUFuel`.
    `prodBU A B D m` is the product on a bottom-up closed set `D` of pairs, `isect_bu_cert` its principle.
  - `prodOn A B D m` (`Vata/Isect.lean`) is the product restricted to a set `D` of state pairs numbered by `m`;
    `isect_cert` is the principle every product construction rests on; `isectFull` is the product on all pairs.
* **Reference.**  `isUnionM`, `isIsectM` (`Vata/Lang.lean`) decide "is exactly the union / intersection" for the
  automata the real operations return (all four operations, including `IntersectionBU`).
* "The operands are left unchanged" is a statement about C++ object state; the models of this file are pure functions,
  so it has no counterpart here (it is checked by re-reading the operands after the call).  Its counterpart is in the
  heap model of C11: `Union` / `ReindexStates` write into the new object only (`C11_ext_reindex_into`),
  `UnionDisjointStates` shares cluster nodes with both operands and no later write to any of the three objects shows
  through another (`C11_ext_sharing_results`, `C11_ext_result_survives` in `Vata/Properties/C11_Extended.lean`).
* **The classes behind the maps** (`Vata/Properties/Util_Glue.lean`): `TranslatorWeak` with the library's counter functor
  is the lookup-or-create `weakTr` of `unionModel` (`Util_Glue_weak_is_unionModel`), and the helpers that turn the reported
  maps into the state dictionary of the result are modelled as coded (`Util_Glue_unionDict`, `Util_Glue_productDict`).
-/
namespace Vata.Props
open Vata

/-! ### union -/

/-- `Union` with the translation maps it reports: exactly the union of the languages, provided each map is injective
on the states of its operand and the two images are disjoint (what the shared counter of the C++ guarantees) -/
theorem C02_union_exact (fA fB : Nat → Nat) (A B : TA) (hA : InjOnStates fA A) (hB : InjOnStates fB B)
    (hdis : ∀ q q', q ∈ A.states → q' ∈ B.states → fA q ≠ fB q') (t : Tree) :
    accepts (unionWith fA fB A B) t = (accepts A t || accepts B t) := unionWith_lang fA fB A B hA hB hdis t

example : InjOnStates (2 * ·) RenameEx.exA ∧ InjOnStates (2 * · + 1) RenameEx.exB ∧
    ∀ q q', q ∈ RenameEx.exA.states → q' ∈ RenameEx.exB.states → (2 * ·) q ≠ (2 * · + 1) q' := by
  refine ⟨?_, ?_, ?_⟩
  · intro q q' _ _ h; simp only at h; omega
  · intro q q' _ _ h; simp only at h; omega
  · intro q q' _ _ h; simp only at h; omega
-- overlapping state numbers of the operands (`1` is a state of both) are allowed
example : 1 ∈ RenameEx.exA.states ∧ 1 ∈ RenameEx.exB.states := by decide

/-- the translation maps name every state of the result: it is the image of a state of `A` under the first map or of a
state of `B` under the second -/
theorem C02_union_translation (fA fB : Nat → Nat) (A B : TA) (q : Nat) :
    q ∈ (unionWith fA fB A B).states ↔ (∃ p, p ∈ A.states ∧ q = fA p) ∨ (∃ p, p ∈ B.states ∧ q = fB p) :=
  PropAux.mem_states_unionWith

example : (unionWith (2 * ·) (2 * · + 1) RenameEx.exA RenameEx.exB).states = [2, 4, 3] := by decide

/-- `UnionDisjointStates` on operands with disjoint state sets: exactly the union.  The hypothesis is the precondition
in the property statement; without it the result may accept more (`RenameEx`, last union example) -/
theorem C02_unionDisjoint_exact (A B : TA) (hdis : ∀ q, q ∈ A.states → q ∉ B.states) (t : Tree) :
    accepts (unionDisjoint A B) t = (accepts A t || accepts B t) := unionDisjoint_lang A B hdis t

example : ∀ q, q ∈ (reindex (· + 10) RenameEx.exA).states → q ∉ RenameEx.exB.states := by decide

/-! ### union: the model of the code with its translators and the shared counter -/

/-- `Union` (model `unionModel`: weak translators over the caller's maps, one counter starting above all numbers in the two
maps): when the pre-filled maps are injective with disjoint images – both empty, or the maps a previous `Union`
returned – the result accepts exactly the union, it IS `unionWith` of the two final maps, and these are injective on
the states of their operand with disjoint images.  This discharges the three hypotheses of `C02_union_exact` -/
theorem C02_union_model_exact (A B : TA) (mL mR : SMap) (hL : Um.Inj mL) (hR : Um.Inj mR) (hD : Um.Disj mL mR) :
    (∀ t, accepts (unionModel A B mL mR).1 t = (accepts A t || accepts B t)) ∧
    (unionModel A B mL mR).1 = unionWith (applyMap (unionModel A B mL mR).2.1) (applyMap (unionModel A B mL mR).2.2) A B ∧
    InjOnStates (applyMap (unionModel A B mL mR).2.1) A ∧ InjOnStates (applyMap (unionModel A B mL mR).2.2) B ∧
    (∀ q q', q ∈ A.states → q' ∈ B.states →
      applyMap (unionModel A B mL mR).2.1 q ≠ applyMap (unionModel A B mL mR).2.2 q') :=
  ⟨unionModel_lang A B mL mR hL hR hD, rfl, unionModel_maps_ok A B mL mR hL hR hD⟩

example : Um.Inj [(5, 0), (6, 1)] ∧ Um.Inj [(7, 3)] ∧ Um.Disj [(5, 0), (6, 1)] [(7, 3)] :=
  ⟨smapInjB_sound (by decide), smapInjB_sound (by decide), smapDisjB_sound (by decide)⟩
example : (unionModel UnionEx.exA UnionEx.exB9 [(5, 0), (6, 1)] [(7, 3)]).2 = ([(5, 0), (6, 1)], [(7, 3), (9, 4)]) := by decide

/-- the call without caller-supplied maps -/
theorem C02_union_model_fresh (A B : TA) (t : Tree) :
    accepts (unionModel A B [] []).1 t = (accepts A t || accepts B t) := unionModel_lang_empty A B t

example : (unionModel UnionEx.exA UnionEx.exB9 [] []).2 = ([(6, 0), (5, 1)], [(9, 2)]) := by decide

/-- the reported maps: they extend the pre-filled ones, are defined on every state of their operand (no hypothesis),
and stay injective with disjoint images as association lists, so that they can be passed to the next `Union` -/
theorem C02_union_model_maps (A B : TA) (mL mR : SMap) :
    (Um.Ext mL (unionModel A B mL mR).2.1 ∧ Um.Ext mR (unionModel A B mL mR).2.2) ∧
    ((∀ q, q ∈ A.states → ∃ n, (unionModel A B mL mR).2.1.lookup q = some n) ∧
      (∀ q, q ∈ B.states → ∃ n, (unionModel A B mL mR).2.2.lookup q = some n)) ∧
    (Um.Inj mL → Um.Inj mR → Um.Disj mL mR →
      Um.Inj (unionModel A B mL mR).2.1 ∧ Um.Inj (unionModel A B mL mR).2.2 ∧
      Um.Disj (unionModel A B mL mR).2.1 (unionModel A B mL mR).2.2) :=
  ⟨unionModel_maps_ext A B mL mR, unionModel_maps_total A B mL mR, unionModel_maps_inj A B mL mR⟩

/-- chaining two unions through the maps -/
theorem C02_union_model_chain (A B C D : TA) (mL mR : SMap) (hL : Um.Inj mL) (hR : Um.Inj mR) (hD : Um.Disj mL mR) (t : Tree) :
    accepts (unionModel C D (unionModel A B mL mR).2.1 (unionModel A B mL mR).2.2).1 t = (accepts C t || accepts D t) :=
  unionModel_chain A B C D mL mR hL hR hD t

/-- none of this depends on the order in which `ReindexStates` visits the states (hash order in the C++): the language
theorem holds for all visiting orders that cover the states of the operands -/
theorem C02_union_model_any_order (oA oB : List Nat) (A B : TA) (mL mR : SMap)
    (hoA : ∀ q, q ∈ A.states → q ∈ oA) (hoB : ∀ q, q ∈ B.states → q ∈ oB)
    (hL : Um.Inj mL) (hR : Um.Inj mR) (hD : Um.Disj mL mR) (t : Tree) :
    accepts (unionModelOrd oA oB A B mL mR).1 t = (accepts A t || accepts B t) :=
  unionModelOrd_lang oA oB A B mL mR hoA hoB hL hR hD t

example : ∀ q, q ∈ UnionEx.exA.states → q ∈ [5, 6] := by decide

/-- the code BEFORE the repair (finding D11, counter starting at 0 whatever the maps contain) is wrong on pre-filled maps
that satisfy the precondition: it merges the states `5` of `A` and `9` of `B`, and with `A = {h(a)}`, `B = {b}` its result
accepts `a` and `h(b)`, which are in neither language -/
theorem C02_union_old_counter_wrong :
    applyMap (unionModelOld UnionEx.exA5 UnionEx.exB9 [(5, 0)] []).2.1 5 =
      applyMap (unionModelOld UnionEx.exA5 UnionEx.exB9 [(5, 0)] []).2.2 9 ∧
    accepts (unionModelOld UnionEx.exA UnionEx.exB9 [(5, 0), (6, 1)] []).1 UnionEx.tA = true ∧
    accepts UnionEx.exA UnionEx.tA = false ∧ accepts UnionEx.exB9 UnionEx.tA = false ∧
    (∀ t, accepts (unionModel UnionEx.exA UnionEx.exB9 [(5, 0), (6, 1)] []).1 t =
      (accepts UnionEx.exA t || accepts UnionEx.exB9 t)) :=
  ⟨UnionEx.old_merges.2, UnionEx.old_lang_fails.1, UnionEx.old_lang_fails.2.1, UnionEx.old_lang_fails.2.2.1,
    unionModel_lang _ _ _ _ (smapInjB_sound (by decide)) Um.inj_nil (Um.disj_nil_right _)⟩

/-! ### intersection -/

/-- `Intersection` (top-down product): whenever the model returns, the product accepts exactly the intersection; with
the fuel `isectFuel` it always returns -/
theorem C02_intersection_exact (A B : TA) :
    (∀ fuel P m, isectTD A B fuel = some (P, m) → ∀ t, accepts P t = (accepts A t && accepts B t)) ∧
    (∃ P m, isectTDRef A B = some (P, m) ∧ ∀ t, accepts P t = (accepts A t && accepts B t)) :=
  ⟨fun _ _ _ h => isectTD_lang h, isectTDRef_lang A B⟩

example : (isectTD IsectEx.exA IsectEx.exB 4).map (fun r => (r.1.final, r.2)) =
    some ([0], [((1, 1), 0), ((0, 0), 1), ((0, 1), 2), ((1, 2), 3)]) := by decide

/-- the reported `ProductTranslMap` names the pair every state of the product stands for: it is injective on its
domain, the domain contains all pairs of final states and is closed under children of matching rules, the result is
(as a set of rules and of final states) the product on that domain numbered by the map, and every state of the result
is the number of a pair of the domain -/
theorem C02_intersection_translation (A B : TA) (fuel : Nat) (P : TA) (m : PMap) (h : isectTD A B fuel = some (P, m)) :
    InjOn (lookupF m) m.dom ∧ Closed A B m.dom ∧ (∀ p, p ∈ A.final → ∀ p', p' ∈ B.final → (p, p') ∈ m.dom) ∧
    (∀ ρ, ρ ∈ P.rules ↔ ρ ∈ (prodOn A B m.dom (lookupF m)).rules) ∧
    (∀ x, x ∈ P.final ↔ x ∈ (prodOn A B m.dom (lookupF m)).final) ∧
    (∀ q, q ∈ P.states → ∃ p, p ∈ m.dom ∧ q = lookupF m p) :=
  have hs := Isx.isectTD_spec h
  ⟨hs.1.injOn, hs.2.1, hs.2.2.1, hs.2.2.2.1, hs.2.2.2.2, fun _ hq => PropAux.isectTD_states h hq⟩

example : (isectTD IsectEx.exA IsectEx.exB 4).isSome = true := by decide

/-- the principle behind every product construction (`Intersection`, and the full product): a product restricted to a
set `D` of pairs that is closed under children of matching rules and contains `F_A × F_B`, numbered injectively on `D`,
accepts exactly the intersection -/
theorem C02_product_certificate (A B : TA) (D : List (Nat × Nat)) (m : Nat × Nat → Nat) (hc : Closed A B D)
    (hinj : InjOn m D) (hF : ∀ p, p ∈ A.final → ∀ p', p' ∈ B.final → (p, p') ∈ D) (t : Tree) :
    accepts (prodOn A B D m) t = (accepts A t && accepts B t) := by
  rw [Bool.eq_iff_iff, Bool.and_eq_true]; exact isect_cert A B D m hc hinj hF t

example : isClosedB IsectEx.exA IsectEx.exB [(1, 1), (0, 0), (0, 1), (1, 2)] = true ∧
    isClosedB IsectEx.exA IsectEx.exB [(1, 1)] = false := by decide
example : Closed IsectEx.exA IsectEx.exB [(1, 1), (0, 0), (0, 1), (1, 2)] := Isx.isClosedB_iff.mp (by decide)

/-- the product on all pairs of states accepts exactly the intersection, and agrees with the top-down product -/
theorem C02_full_product_exact (A B : TA) :
    (∀ t, accepts (isectFull A B) t = (accepts A t && accepts B t)) ∧
    (∀ fuel P m, isectTD A B fuel = some (P, m) → ∀ t, accepts P t = accepts (isectFull A B) t) :=
  ⟨isectFull_lang A B, fun _ _ _ h => isectTD_eq_isectFull h⟩

example : accepts (isectFull IsectEx.exA IsectEx.exB) IsectEx.exT = true ∧
    accepts (isectFull IsectEx.exA IsectEx.exB) IsectEx.exT' = false := by decide

/-! ### intersection, bottom-up (`IntersectionBU`) -/

/-- `IntersectionBU` (bottom-up product): whenever the model returns, the product accepts exactly the intersection; with
the fuel `isectBUFuel` it always returns -/
theorem C02_intersectionBU_exact (A B : TA) :
    (∀ fuel P m, isectBU A B fuel = some (P, m) → ∀ t, accepts P t = (accepts A t && accepts B t)) ∧
    (∃ P m, isectBURef A B = some (P, m) ∧ ∀ t, accepts P t = (accepts A t && accepts B t)) :=
  ⟨fun _ _ _ h => isectBU_lang h, isectBURef_lang A B⟩

example : (isectBU IsectEx.exA IsectEx.exB 20).map (fun r => (r.1.final, r.2)) =
    some ([1], [((0, 0), 0), ((1, 1), 1), ((1, 2), 2)]) := by decide

/-- the reported `ProductTranslMap` of `IntersectionBU`: injective on its domain; the domain is bottom-up closed and
contains every pair of states the operands reach on a common tree; the result is (as a set of rules and of final
states) the product on that domain numbered by the map -/
theorem C02_intersectionBU_translation (A B : TA) (fuel : Nat) (P : TA) (m : PMap) (h : isectBU A B fuel = some (P, m)) :
    InjOn (lookupF m) m.dom ∧ BUClosed A B m.dom ∧
    (∀ t p q, p ∈ reach A t → q ∈ reach B t → (p, q) ∈ m.dom) ∧
    (∀ ρ, ρ ∈ P.rules ↔ ρ ∈ (prodBU A B m.dom (lookupF m)).rules) ∧
    (∀ x, x ∈ P.final ↔ x ∈ (prodBU A B m.dom (lookupF m)).final) :=
  have hs := isectBU_spec h
  ⟨hs.1, hs.2.1, fun t p q hp hq => isectBU_dom_complete h t p q hp hq, hs.2.2.1, hs.2.2.2⟩

example : (isectBU IsectBUEx.exS IsectBUEx.exL 20).isSome = true := by decide

/-- the final certificate check of the model can never fail: `none` means "fuel exhausted" and nothing else -/
theorem C02_intersectionBU_check_never_fails (A B : TA) (fuel : Nat) :
    isectBU A B fuel = none ↔ buLoop A B fuel (buLeafPhase A B (buLeafPairs A B) [] [] [] []).1
      (buLeafPhase A B (buLeafPairs A B) [] [] [] []).2.1 []
      (buLeafPhase A B (buLeafPairs A B) [] [] [] []).2.2.1 (buLeafPhase A B (buLeafPairs A B) [] [] [] []).2.2.2 = none :=
  isectBU_none_iff

example : isectBU IsectEx.exA IsectEx.exB 3 = none := by decide

/-- the principle behind the bottom-up product: the product on a BOTTOM-UP closed set `D` of pairs (all product rules
whose children pairs are in `D`; final = pairs of `D` with two final components), numbered injectively on `D`, accepts
exactly the intersection.  No condition on final states is needed: every pair reached on a common tree is in `D` -/
theorem C02_bu_product_certificate (A B : TA) (D : List (Nat × Nat)) (m : Nat × Nat → Nat) (hc : BUClosed A B D)
    (hinj : InjOn m D) (t : Tree) : accepts (prodBU A B D m) t = (accepts A t && accepts B t) := by
  rw [Bool.eq_iff_iff, Bool.and_eq_true]; exact isect_bu_cert A B D m hc hinj t

example : BUClosed IsectEx.exA IsectEx.exB [(0, 0), (1, 1), (1, 2)] := Ibu.buClosedB_iff.mp (by decide)
-- … a set that is not closed in the top-down sense of `C02_product_certificate`
example : isClosedB IsectEx.exA IsectEx.exB [(0, 0), (1, 1), (1, 2)] = false := by decide

/-- the bottom-up and the top-down product agree on every tree -/
theorem C02_intersection_models_agree (A B : TA) (fuel fuel' : Nat) (P P' : TA) (m m' : PMap)
    (h : isectBU A B fuel = some (P, m)) (h' : isectTD A B fuel' = some (P', m')) (t : Tree) :
    accepts P t = accepts P' t := isectBU_eq_isectTD h h' t

example : (isectBU IsectEx.exA IsectEx.exB 20).isSome = true ∧ (isectTD IsectEx.exA IsectEx.exB 4).isSome = true := by decide

/-! ### the reference the results of all four operations are compared with -/

/-- every verdict of the reference checkers "is the union" / "is the intersection" is exact -/
theorem C02_reference_checkers_exact (R A B : TA) (fuel : Nat) (b : Bool) :
    (isUnionM R A B fuel = some b → (b = true ↔ ∀ t, accepts R t = (accepts A t || accepts B t))) ∧
    (isIsectM R A B fuel = some b → (b = true ↔ ∀ t, accepts R t = (accepts A t && accepts B t))) :=
  ⟨isUnionM_iff R A B fuel b, isIsectM_iff R A B fuel b⟩

example : isUnionM (unionWith (2 * ·) (2 * · + 1) RenameEx.exA RenameEx.exB) RenameEx.exA RenameEx.exB 10 = some true := by
  decide
example : isIsectM (isectFull IsectEx.exA IsectEx.exB) IsectEx.exA IsectEx.exB 10 = some true := by decide
example : isIsectM IsectEx.exA IsectEx.exA IsectEx.exB 10 = some false := by decide

/-! ### the models pass the reference, and the reference answers -/

/-- what the correspondence check relies on, in one statement: above the explicit fuel bound of `C02_reference_total` the
reference checkers DO answer, and on the results of the models of all four operations – `Union` (fresh maps),
`UnionDisjointStates` (state-disjoint operands), `Intersection`, `IntersectionBU` – they answer `true`.  So a `false` or a
disagreement observed on an automaton the real operation returned is a difference between code and model, never an
artefact of the reference -/
theorem C02_models_pass_reference (A B : TA) (fuel : Nat) :
    (fuelBoundM [(unionModel A B [] []).1, A, B] ≤ fuel → isUnionM (unionModel A B [] []).1 A B fuel = some true) ∧
    ((∀ q, q ∈ A.states → q ∉ B.states) → fuelBoundM [unionDisjoint A B, A, B] ≤ fuel →
      isUnionM (unionDisjoint A B) A B fuel = some true) ∧
    (∀ f P m, isectTD A B f = some (P, m) → fuelBoundM [P, A, B] ≤ fuel → isIsectM P A B fuel = some true) ∧
    (∀ f P m, isectBU A B f = some (P, m) → fuelBoundM [P, A, B] ≤ fuel → isIsectM P A B fuel = some true) := by
  refine ⟨fun hf => ?_, fun hdis hf => ?_, fun f P m h hf => ?_, fun f P m h hf => ?_⟩
  · obtain ⟨b, hb, e⟩ := (C02_reference_total _ A B fuel hf).1
    rw [hb, e.mpr (fun t => unionModel_lang_empty A B t)]
  · obtain ⟨b, hb, e⟩ := (C02_reference_total _ A B fuel hf).1
    rw [hb, e.mpr (fun t => unionDisjoint_lang A B hdis t)]
  · obtain ⟨b, hb, e⟩ := (C02_reference_total P A B fuel hf).2
    rw [hb, e.mpr (fun t => isectTD_lang h t)]
  · obtain ⟨b, hb, e⟩ := (C02_reference_total P A B fuel hf).2
    rw [hb, e.mpr (fun t => isectBU_lang h t)]

example : fuelBoundM [(unionModel UnionEx.exA UnionEx.exB9 [] []).1, UnionEx.exA, UnionEx.exB9] ≤ 64 ∧
    isUnionM (unionModel UnionEx.exA UnionEx.exB9 [] []).1 UnionEx.exA UnionEx.exB9 64 = some true := ⟨by decide, by decide⟩

/-!
## closed since the last refresh of this file

* Totality of the reference checkers `isUnionM` / `isIsectM` (they were only known to be exact): `C02_reference_total`
  (`Vata/Properties/RefTotal.lean`; bound `fuelBoundM [R, A, B] ≤ 2^(|Q_R|+|Q_A|+|Q_B|)`), composed with the models in
  `C02_models_pass_reference`.
* "The operands are left unchanged: no counterpart in the pure models" – the counterpart now exists in the extended heap
  model of C11 (`C11_ext_reindex_into`, `C11_ext_sharing_results`, `C11_ext_result_survives`); see the header.
* The translators and dictionary helpers around the maps are modelled as coded and checked against the real classes
  (`Util_Glue_weak_is_unionModel`, `Util_Glue_weak_injective`, `Util_Glue_unionDict`, `Util_Glue_productDict`).

## not yet proved

* `Union` / `IntersectionBU` called with the SAME map object for both operands, or `IntersectionBU` / `Intersection`
  called with a pre-filled `ProductTranslMap`, are not modelled (`unionModel` takes two separate maps, the products start
  from the empty map).  The precondition of `C02_union_model_exact` (pre-filled maps injective with disjoint images) is
  what a caller chaining unions supplies; the C++ does not check it.
* The iteration orders of the hash containers of the C++ are replaced by list orders in `unionModel`, `isectTD`,
  `isectBU`; the theorems do not depend on them (`C02_union_model_any_order`; the products are characterised as sets),
  but the concrete numbers in the maps do.
* **From the maps to the names of the dump.**  The language statements are about the automaton; what the command line
  prints goes through `CreateUnionStringToStateMap` / `CreateProductStringToStateMap`.  The union names never collide
  (`Util_Glue_unionNames_injective`), the product names `[l_1|r_2]` DO when state names contain `_1|`
  (`Util_Glue_productNames_collide`, a finding: the dumped intersection can have a larger language than the computed
  automaton); they are injective when one operand's names are free of `|` (`Util_Glue_productNames_injective`).  No
  theorem composes `isectTD` with `productDict` and the dump.
* The totality bound of the reference is an exponential worst-case bound; for three operands of 9 states each it is above
  the fuel of the compiled driver (`driver_fuel_worst`), where the driver would report `error fuel`, never a verdict.
-/
end Vata.Props
