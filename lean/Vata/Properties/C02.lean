import Vata.Lang
import Vata.Isect
import Vata.Proofs.Rename
import Vata.Proofs.IsectModel
import Vata.Proofs.PropAux
/-!
# C02 – Union and intersection of explicit tree automata have exact language semantics

> For any explicit tree automata A and B, Union and (for operands with disjoint state sets) UnionDisjointStates return
> an automaton accepting exactly L(A) ∪ L(B), and Intersection and IntersectionBU return automata accepting exactly
> L(A) ∩ L(B).  The state-translation maps they report name, for every state of the result, the operand state or state
> pair it stands for, and the operands themselves are left unchanged.

## How the statement is read into the model

* **Specification (L0).**  Languages are given by `accepts` (`Vata/Basic.lean`); "accepts exactly `L(A) ∪ L(B)`" is
  `∀ t, accepts U t = (accepts A t || accepts B t)`, "exactly `L(A) ∩ L(B)`" is `∀ t, accepts P t = (accepts A t && accepts B t)`.
* **Models of the code.**
  - `unionWith fA fB A B` (`Vata/Ref.lean`) is `Union` *given the two translation maps `fA`, `fB` it reports*: both
    operands are re-indexed (`reindex`, the model of `ReindexStates`) into one automaton.  The C++ builds the maps with
    a shared counter, so they are injective on the states of their operand and have disjoint images; these three facts
    are explicit hypotheses of `C02_union_exact` (the check validates them on the reported maps).
  - `unionDisjoint A B` is `UnionDisjointStates` (rule lists and final sets are concatenated); the property restricts
    it to operands with disjoint state sets, which is the hypothesis of `C02_unionDisjoint_exact`.
  - `isectTD A B fuel` (`Vata/IsectModel.lean`) mirrors `Intersection`: translation map filled in discovery order with
    fresh numbers, LIFO work-list started with `F_A × F_B`; it returns the product and the `ProductTranslMap`
    (`none` = too little fuel).  `isectTDRef` runs it with the fuel `|Q_A|·|Q_B|+1`.
  - `prodOn A B D m` (`Vata/Isect.lean`) is the product restricted to a set `D` of state pairs numbered by `m`;
    `isect_cert` is the principle every product construction rests on; `isectFull` is the product on all pairs.
* **Reference.**  `isUnionM`, `isIsectM` (`Vata/Lang.lean`) decide "is exactly the union / intersection" for the
  automata the real operations return (all four operations, including `IntersectionBU`).
* "The operands are left unchanged" is a statement about C++ object state; the models are pure functions, so it has no
  counterpart here (it is checked by re-reading the operands after the call; the sharing discipline is C11).
-/
namespace Vata.Props
open Vata

/-! ### union -/

/-- `Union` with the translation maps it reports: exactly the union of the languages, provided each map is injective
on the states of its operand and the two images are disjoint (what the shared counter of the C++ guarantees) -/
theorem C02_union_exact (fA fB : Nat → Nat) (A B : TA) (hA : InjOnStates fA A) (hB : InjOnStates fB B)
    (hdis : ∀ q q', q ∈ A.states → q' ∈ B.states → fA q ≠ fB q') (t : Tree) :
    accepts (unionWith fA fB A B) t = (accepts A t || accepts B t) := unionWith_lang fA fB A B hA hB hdis t

example : InjOnStates (2 * ·) RenameEx.exA ∧ InjOnStates (2 * · + 1) RenameEx.exB ∧
    ∀ q q', q ∈ RenameEx.exA.states → q' ∈ RenameEx.exB.states → (2 * ·) q ≠ (2 * · + 1) q' := by
  refine ⟨?_, ?_, ?_⟩
  · intro q q' _ _ h; simp only at h; omega
  · intro q q' _ _ h; simp only at h; omega
  · intro q q' _ _ h; simp only at h; omega
-- overlapping state numbers of the operands (`1` is a state of both) are allowed
example : 1 ∈ RenameEx.exA.states ∧ 1 ∈ RenameEx.exB.states := by decide

/-- the translation maps name every state of the result: it is the image of a state of `A` under the first map or of a
state of `B` under the second -/
theorem C02_union_translation (fA fB : Nat → Nat) (A B : TA) (q : Nat) :
    q ∈ (unionWith fA fB A B).states ↔ (∃ p, p ∈ A.states ∧ q = fA p) ∨ (∃ p, p ∈ B.states ∧ q = fB p) :=
  PropAux.mem_states_unionWith

example : (unionWith (2 * ·) (2 * · + 1) RenameEx.exA RenameEx.exB).states = [2, 4, 3] := by decide

/-- `UnionDisjointStates` on operands with disjoint state sets: exactly the union.  The hypothesis is the precondition
in the property statement; without it the result may accept more (`RenameEx`, last union example) -/
theorem C02_unionDisjoint_exact (A B : TA) (hdis : ∀ q, q ∈ A.states → q ∉ B.states) (t : Tree) :
    accepts (unionDisjoint A B) t = (accepts A t || accepts B t) := unionDisjoint_lang A B hdis t

example : ∀ q, q ∈ (reindex (· + 10) RenameEx.exA).states → q ∉ RenameEx.exB.states := by decide

/-! ### intersection -/

/-- `Intersection` (top-down product): whenever the model returns, the product accepts exactly the intersection; with
the fuel `isectFuel` it always returns -/
theorem C02_intersection_exact (A B : TA) :
    (∀ fuel P m, isectTD A B fuel = some (P, m) → ∀ t, accepts P t = (accepts A t && accepts B t)) ∧
    (∃ P m, isectTDRef A B = some (P, m) ∧ ∀ t, accepts P t = (accepts A t && accepts B t)) :=
  ⟨fun _ _ _ h => isectTD_lang h, isectTDRef_lang A B⟩

example : (isectTD IsectEx.exA IsectEx.exB 4).map (fun r => (r.1.final, r.2)) =
    some ([0], [((1, 1), 0), ((0, 0), 1), ((0, 1), 2), ((1, 2), 3)]) := by decide

/-- the reported `ProductTranslMap` names the pair every state of the product stands for: it is injective on its
domain, the domain contains all pairs of final states and is closed under children of matching rules, the result is
(as a set of rules and of final states) the product on that domain numbered by the map, and every state of the result
is the number of a pair of the domain -/
theorem C02_intersection_translation (A B : TA) (fuel : Nat) (P : TA) (m : PMap) (h : isectTD A B fuel = some (P, m)) :
    InjOn (lookupF m) m.dom ∧ Closed A B m.dom ∧ (∀ p, p ∈ A.final → ∀ p', p' ∈ B.final → (p, p') ∈ m.dom) ∧
    (∀ ρ, ρ ∈ P.rules ↔ ρ ∈ (prodOn A B m.dom (lookupF m)).rules) ∧
    (∀ x, x ∈ P.final ↔ x ∈ (prodOn A B m.dom (lookupF m)).final) ∧
    (∀ q, q ∈ P.states → ∃ p, p ∈ m.dom ∧ q = lookupF m p) :=
  have hs := Isx.isectTD_spec h
  ⟨hs.1.injOn, hs.2.1, hs.2.2.1, hs.2.2.2.1, hs.2.2.2.2, fun _ hq => PropAux.isectTD_states h hq⟩

example : (isectTD IsectEx.exA IsectEx.exB 4).isSome = true := by decide

/-- the principle behind every product construction (`Intersection`, and the full product): a product restricted to a
set `D` of pairs that is closed under children of matching rules and contains `F_A × F_B`, numbered injectively on `D`,
accepts exactly the intersection -/
theorem C02_product_certificate (A B : TA) (D : List (Nat × Nat)) (m : Nat × Nat → Nat) (hc : Closed A B D)
    (hinj : InjOn m D) (hF : ∀ p, p ∈ A.final → ∀ p', p' ∈ B.final → (p, p') ∈ D) (t : Tree) :
    accepts (prodOn A B D m) t = (accepts A t && accepts B t) := by
  rw [Bool.eq_iff_iff, Bool.and_eq_true]; exact isect_cert A B D m hc hinj hF t

example : isClosedB IsectEx.exA IsectEx.exB [(1, 1), (0, 0), (0, 1), (1, 2)] = true ∧
    isClosedB IsectEx.exA IsectEx.exB [(1, 1)] = false := by decide
example : Closed IsectEx.exA IsectEx.exB [(1, 1), (0, 0), (0, 1), (1, 2)] := Isx.isClosedB_iff.mp (by decide)

/-- the product on all pairs of states accepts exactly the intersection, and agrees with the top-down product -/
theorem C02_full_product_exact (A B : TA) :
    (∀ t, accepts (isectFull A B) t = (accepts A t && accepts B t)) ∧
    (∀ fuel P m, isectTD A B fuel = some (P, m) → ∀ t, accepts P t = accepts (isectFull A B) t) :=
  ⟨isectFull_lang A B, fun _ _ _ h => isectTD_eq_isectFull h⟩

example : accepts (isectFull IsectEx.exA IsectEx.exB) IsectEx.exT = true ∧
    accepts (isectFull IsectEx.exA IsectEx.exB) IsectEx.exT' = false := by decide

/-! ### the reference the results of all four operations are compared with -/

/-- every verdict of the reference checkers "is the union" / "is the intersection" is exact -/
theorem C02_reference_checkers_exact (R A B : TA) (fuel : Nat) (b : Bool) :
    (isUnionM R A B fuel = some b → (b = true ↔ ∀ t, accepts R t = (accepts A t || accepts B t))) ∧
    (isIsectM R A B fuel = some b → (b = true ↔ ∀ t, accepts R t = (accepts A t && accepts B t))) :=
  ⟨isUnionM_iff R A B fuel b, isIsectM_iff R A B fuel b⟩

example : isUnionM (unionWith (2 * ·) (2 * · + 1) RenameEx.exA RenameEx.exB) RenameEx.exA RenameEx.exB 10 = some true := by
  decide
example : isIsectM (isectFull IsectEx.exA IsectEx.exB) IsectEx.exA IsectEx.exB 10 = some true := by decide
example : isIsectM IsectEx.exA IsectEx.exA IsectEx.exB 10 = some false := by decide

/-!
## not yet proved

* **`IntersectionBU`** (bottom-up product from the leaf rules) has no executable model; its domain (the bottom-up
  reachable pairs) is not `Closed` in the top-down sense, so `C02_product_certificate` does not apply to it directly.
  Its results are only compared with `C02_reference_checkers_exact`.
* That the maps built by the C++ `Union` *are* injective with disjoint images (shared counter) is a hypothesis of
  `C02_union_exact`, not a theorem about a model of the counter; likewise behaviour with caller-supplied pre-filled
  translation maps is not modelled.
* "The operands are left unchanged": no counterpart in the pure models (see the header).
-/
end Vata.Props
