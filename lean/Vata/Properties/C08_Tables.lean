import Vata.Proofs.BddAbsTD
import Vata.Proofs.Rename
/-!
# C08 – the symbolic transition tables: top-down encoding, `GetTopDownAut`, symbolic trimming

Corollaries of `Vata/Proofs/BddAbsTD.lean` (model: `Vata/BddAbsTD.lean`, on top of `Vata/BddAbs.lean`) for the property

> A Timbuk automaton loaded into either BDD encoding and dumped again denotes the same language as in the explicit
> encoding.  For both BDD encodings Union and UnionDisjointStates yield exactly the union, […] RemoveUnreachableStates
> and RemoveUselessStates keep the language (leaving no useless state after the latter), and converting a bottom-up
> automaton to top-down form keeps the language.

How the statement is read into the model.  A symbolic automaton is a table of MTBDDs (`BddAbs.Table` bottom-up:
children tuple ↦ MTBDD over the 16 symbol bits with sets of parents in the leaves; `BddAbsTD.TableTD` top-down: state ↦
MTBDD over 16 symbol bits and 6 arity bits with sets of children tuples in the leaves) and a list of final states.
Its abstraction is the explicit automaton `absBU syms T F` / `absTD syms T F` whose rules are read off the MTBDDs for
the symbols `syms` of the dictionary, as the dump does.  All statements are about this abstraction: set equality of
rules and final states (`SetEqTA`), and hence equality of languages (`accepts`).
-/
namespace Vata.Props
open Vata Vata.M Vata.BddAbs Vata.BddAbsTD

/-- Loading (`AddTransition` for each rule) into the top-down and into the bottom-up encoding is the identity on the
abstract automaton, hence on the language; symbols are 16-bit numbers of the dictionary `syms`, arities are below 64
(`MAX_SYMBOL_ARITY`).  The dump of a state `p` for a symbol `f` (`collectTD`, the accumulator of
`CondColApplyFunctor`) lists exactly the tuples of the abstract rules. -/
theorem C08_load_dump (rs : List Rule) (syms F : List Nat)
    (hrs : ∀ r, r ∈ rs → r.sym < 2 ^ 16 ∧ r.kids.length < 64 ∧ r.sym ∈ syms) (hs : ∀ f, f ∈ syms → f < 2 ^ 16) :
    (∀ t, accepts (absTD syms (ofRulesTD rs) F) t = accepts ⟨rs, F⟩ t) ∧
    (∀ t, accepts (absBU syms (ofRules rs) F) t = accepts ⟨rs, F⟩ t) ∧
    (∀ f p ks, ks ∈ collectTD (getTD (ofRulesTD rs) p) f ↔ (⟨f, ks, p⟩ : Rule) ∈ absRulesTD [f] (ofRulesTD rs)) :=
  ⟨fun t => (absTD_ofRulesTD_setEq rs syms F hrs hs).lang t,
   fun t => (absBU_ofRules_setEq rs syms F (fun r hr => ⟨(hrs r hr).1, (hrs r hr).2.2⟩) hs).lang t,
   fun f p ks => collectTD_absRulesTD (tableTD_ofRulesTD rs).1 (tableTD_ofRulesTD rs).2 f p ks⟩

example : ∀ r, r ∈ BddAbsTDEx.rsA → r.sym < 2 ^ 16 ∧ r.kids.length < 64 ∧ r.sym ∈ BddAbsTDEx.syms := by decide

/-- `AddTransition` of the top-down encoding adds exactly one rule: the symbol `f`, the arity `|ks|` in the arity bits -/
theorem C08_td_addTransition (T : TableTD) (ks : List Nat) (f p : Nat) (hf : f < 2 ^ 16) (hk : ks.length < 64)
    (g : Nat) (hg : g < 2 ^ 16) (n : Nat) (hn : n < 64) (p' : Nat) (ks' : List Nat) :
    HasRuleTD (addTransitionTD T ks f p) (bitsAr g n) p' ks' ↔
      HasRuleTD T (bitsAr g n) p' ks' ∨ (g = f ∧ n = ks.length ∧ ks' = ks ∧ p' = p) :=
  absTD_addTransition T ks f p hf hk g hg n hn p' ks'

example : HasRuleTD (addTransitionTD (ofRulesTD BddAbsTDEx.rsA) [2] 3 7) (bitsAr 3 1) 7 [2] :=
  (C08_td_addTransition _ [2] 3 7 (by decide) (by decide) 3 (by decide) 1 (by decide) 7 [2]).mpr
    (Or.inr ⟨rfl, rfl, rfl, rfl⟩)

/-- The top-down `UnionDisjointStates` (the MTBDDs of the right operand are `SetMtbdd`-ed over the left table) and the
table-wise union by `apply2` accept exactly the union of the languages when the operands have disjoint states.  For
`UnionDisjointStates` the tables must not have an MTBDD for the same state (otherwise the left one is lost, see the
`#guard` in `Proofs/BddAbsTD.lean`). -/
theorem C08_td_union (syms : List Nat) (T₁ T₂ : TableTD) (F₁ F₂ : List Nat)
    (hdis : ∀ q, q ∈ (absTD syms T₁ F₁).states → q ∉ (absTD syms T₂ F₂).states) :
    (∀ t, accepts (absTD syms (unionTD T₁ T₂) (F₁ ++ F₂)) t =
      (accepts (absTD syms T₁ F₁) t || accepts (absTD syms T₂ F₂) t)) ∧
    ((∀ p, p ∈ keysTD T₁ → p ∉ keysTD T₂) → ∀ t, accepts (absTD syms (unionDisjTD T₁ T₂) (F₁ ++ F₂)) t =
      (accepts (absTD syms T₁ F₁) t || accepts (absTD syms T₂ F₂) t)) :=
  ⟨fun t => by rw [(absTD_union_setEq syms T₁ T₂ F₁ F₂).lang, unionDisjoint_lang _ _ hdis],
   fun hd t => by rw [(absTD_unionDisj_setEq syms T₁ T₂ F₁ F₂ hd).lang, unionDisjoint_lang _ _ hdis]⟩

example : (∀ q, q ∈ (absTD BddAbsTDEx.syms (ofRulesTD [⟨0, [], 1⟩]) [1]).states →
      q ∉ (absTD BddAbsTDEx.syms (ofRulesTD [⟨1, [], 8⟩, ⟨2, [8], 7⟩]) [7]).states) ∧
    (∀ p, p ∈ keysTD (ofRulesTD [⟨0, [], 1⟩]) → p ∉ keysTD (ofRulesTD [⟨1, [], 8⟩, ⟨2, [8], 7⟩])) := by
  refine ⟨?_, by decide⟩
  intro q h1 h2
  rw [(absTD_ofRulesTD_setEq _ _ _ (by decide) (by decide)).mem_states] at h1 h2
  have e1 : (TA.mk [⟨0, [], 1⟩] [1]).states = [1] := by decide
  have e2 : (TA.mk [⟨1, [], 8⟩, ⟨2, [8], 7⟩] [7]).states = [8, 7] := by decide
  rw [e1] at h1; rw [e2] at h2
  simp only [List.mem_singleton] at h1
  subst h1
  revert h2; decide

/-- **`GetTopDownAut`**: for a well-formed bottom-up table (`TableOk`: the entries are what `GetMtbdd` returns;
`TableWF`: reduced ordered MTBDDs over the 16 symbol variables; both hold of every table built by `AddTransition`)
the top-down table has the rule `f(ks) → p` with the arity `|ks|` in the arity bits iff the bottom-up table has it,
for every state `p` that `GetTopDownAut` collects (final states and states occurring in a tuple) and `|ks| < 64`; under
another arity `n < 64` it has no such rule; the abstract rule sets differ exactly by the rules whose parent is not
collected, and the languages agree. -/
theorem C08_getTopDownAut {T : Table} (hT : TableOk T) (hW : TableWF T) (F syms : List Nat) :
    (∀ ρ p ks, p ∈ tdStates T F → (HasRuleTD (getTopDownAut T F) (withArity ρ ks.length) p ks ↔ HasRule T ρ ks p)) ∧
    (∀ ρ p ks n, n < 64 → ks.length < 64 → HasRuleTD (getTopDownAut T F) (withArity ρ n) p ks → n = ks.length) ∧
    (∀ r, r ∈ absRulesTD syms (getTopDownAut T F) ↔ r ∈ absRules syms T ∧ r.parent ∈ tdStates T F) ∧
    (∀ t, accepts (absTD syms (getTopDownAut T F) F) t = accepts (absBU syms T F) t) :=
  ⟨fun ρ p ks hp => absTD_invert hT hW F ρ p ks hp,
   fun ρ p ks n hn hk h => absTD_invert_arity hT F ρ p ks n hn hk h,
   fun r => absRulesTD_getTopDownAut hT hW F syms r,
   fun t => getTopDownAut_lang hT hW F syms t⟩

example : TableOk (ofRules BddAbsTDEx.rsA) ∧ TableWF (ofRules BddAbsTDEx.rsA) ∧
    2 ∈ tdStates (ofRules BddAbsTDEx.rsA) BddAbsTDEx.finA ∧ 3 ∉ tdStates (ofRules BddAbsTDEx.rsA) BddAbsTDEx.finA :=
  ⟨BddAbsTDEx.okA, BddAbsTDEx.wfA, by decide, by decide⟩

/-- **Symbolic trimming, top-down.**  `RemoveUnreachableStates` and `RemoveUselessStates` work on the leaves of the
MTBDDs (all valuations at once).  For reduced ordered MTBDDs (`TableTDWF`) and a dictionary `syms` that covers the
table (`SymsCompleteTD`; both hold after loading and after `GetTopDownAut`) the abstraction of the result is
`removeUnreachable` / `removeUseless` (`Vata/Ref.lean`) of the abstraction, as sets of rules and final states; the
languages are kept; after `RemoveUselessStates` every state and rule is in an accepting run; the work-list of
`RemoveUnreachableStates` (`tdUnreachWL`) terminates within `|F| + |states in the leaves|` iterations and returns the
table of `removeUnreachableTD`. -/
theorem C08_td_trim {syms : List Nat} {T : TableTD} (F : List Nat) (hT : TableTDWF T) (hc : SymsCompleteTD syms T) :
    SetEqTA (absTD syms (removeUnreachableTD T F) F) (removeUnreachable (absTD syms T F)) ∧
    SetEqTA (absTD syms (removeUselessTD T F).1 (removeUselessTD T F).2) (removeUseless (absTD syms T F)) ∧
    (∀ t, accepts (absTD syms (removeUnreachableTD T F) F) t = accepts (absTD syms T F) t) ∧
    (∀ t, accepts (absTD syms (removeUselessTD T F).1 (removeUselessTD T F).2) t = accepts (absTD syms T F) t) ∧
    ((∀ q, Occurs (absTD syms (removeUselessTD T F).1 (removeUselessTD T F).2) q →
        UsefulState (absTD syms (removeUselessTD T F).1 (removeUselessTD T F).2) q) ∧
      (∀ r, r ∈ (absTD syms (removeUselessTD T F).1 (removeUselessTD T F).2).rules →
        UsefulRule (absTD syms (removeUselessTD T F).1 (removeUselessTD T F).2) r)) ∧
    (∃ R, tdUnreachWL T F (F.length + (allKids T).length) = some R ∧
      ∀ p, getTD R p = getTD (removeUnreachableTD T F) p) :=
  ⟨absTD_removeUnreachable F hT hc, absTD_removeUseless F hT hc, removeUnreachableTD_lang F hT hc,
   removeUselessTD_lang F hT hc, removeUselessTD_useful F hT hc, tdUnreachWL_spec T F⟩

example : TableTDWF BddAbsTDEx.tdA ∧ SymsCompleteTD BddAbsTDEx.syms BddAbsTDEx.tdA :=
  ⟨BddAbsTDEx.wfTdA, BddAbsTDEx.completeTdA⟩

/-- **Symbolic trimming, bottom-up.**  `RemoveUnreachableStates` (bottom-up reachable = productive) is the restriction
to the productive states, `RemoveUselessStates` is `removeUseless`; languages are kept and no useless state is left. -/
theorem C08_bu_trim {syms : List Nat} {T : Table} (F : List Nat) (hT : TableWF T) (hc : SymsCompleteBU syms T) :
    SetEqTA (absBU syms (removeUnreachableBU T F).1 (removeUnreachableBU T F).2)
      (restrict (absBU syms T F) (prodStates (absBU syms T F))) ∧
    SetEqTA (absBU syms (removeUselessBU T F).1 (removeUselessBU T F).2) (removeUseless (absBU syms T F)) ∧
    (∀ t, accepts (absBU syms (removeUnreachableBU T F).1 (removeUnreachableBU T F).2) t = accepts (absBU syms T F) t) ∧
    (∀ t, accepts (absBU syms (removeUselessBU T F).1 (removeUselessBU T F).2) t = accepts (absBU syms T F) t) ∧
    ((∀ q, Occurs (absBU syms (removeUselessBU T F).1 (removeUselessBU T F).2) q →
        UsefulState (absBU syms (removeUselessBU T F).1 (removeUselessBU T F).2) q) ∧
      (∀ r, r ∈ (absBU syms (removeUselessBU T F).1 (removeUselessBU T F).2).rules →
        UsefulRule (absBU syms (removeUselessBU T F).1 (removeUselessBU T F).2) r)) :=
  ⟨absBU_removeUnreachable F hT hc, absBU_removeUseless F hT hc, removeUnreachableBU_lang F hT hc,
   removeUselessBU_lang F hT hc, removeUselessBU_useful F hT hc⟩

example : TableWF (ofRules BddAbsTDEx.rsA) ∧ SymsCompleteBU BddAbsTDEx.syms (ofRules BddAbsTDEx.rsA) :=
  ⟨BddAbsTDEx.wfA, BddAbsTDEx.completeA⟩

/-- **The chain** load bottom-up → `GetTopDownAut` → `RemoveUselessStates`: the abstraction of the result accepts the
language of the loaded automaton and has no useless state or rule. -/
theorem C08_load_convert_trim (rs : List Rule) (syms F : List Nat)
    (hrs : ∀ r, r ∈ rs → r.sym < 2 ^ 16 ∧ r.sym ∈ syms) (hs : ∀ f, f ∈ syms → f < 2 ^ 16) :
    let R := removeUselessTD (getTopDownAut (ofRules rs) F) F
    (∀ t, accepts (absTD syms R.1 R.2) t = accepts ⟨rs, F⟩ t) ∧
    (∀ q, Occurs (absTD syms R.1 R.2) q → UsefulState (absTD syms R.1 R.2) q) ∧
    (∀ r, r ∈ (absTD syms R.1 R.2).rules → UsefulRule (absTD syms R.1 R.2) r) := by
  intro R
  have hT := tableOk_ofRules rs
  have hW := tableWF_ofRules rs
  have hc : SymsCompleteBU syms (ofRules rs) := symsCompleteBU_ofRules (fun r hr => (hrs r hr).2)
  have hW' := (tableTD_getTopDownAut hT hW F).1
  have hc' := symsCompleteTD_getTopDownAut hT hW hc F
  refine ⟨fun t => ?_, (removeUselessTD_useful F hW' hc').1, (removeUselessTD_useful F hW' hc').2⟩
  rw [removeUselessTD_lang F hW' hc', getTopDownAut_lang hT hW, (absBU_ofRules_setEq rs syms F hrs hs).lang]

example : ∀ r, r ∈ BddAbsTDEx.rsA → r.sym < 2 ^ 16 ∧ r.sym ∈ BddAbsTDEx.syms := by decide

/-!
## items of the "not yet proved" block of `C08.lean` closed here

* "No model of the BDD encodings …": the top-down encoding (`TableTD`, `addArityToSymbol`, 16-bit symbols, 6 arity
  bits) now has a model; loading and dumping: `C08_load_dump`, `C08_td_addTransition`; the top-down `Union` by tables
  and `UnionDisjointStates`: `C08_td_union`; `GetTopDownAut`: `C08_getTopDownAut`; the usefulness analyses of both
  encodings at the level of the leaf visits: `C08_td_trim`, `C08_bu_trim`, `C08_load_convert_trim`.

## still open

* The AND/OR-graph propagation of the top-down `RemoveUselessStates` and the graph traversal of the bottom-up one are
  modelled by their fixpoints (`prodStates` / `tdReach` of `Vata/Ref.lean` on the leaf-visit skeletons `skelTD`,
  `skelBU`), not edge by edge; only the work-list of the top-down `RemoveUnreachableStates` is mirrored
  (`tdUnreachLoop`: `tdUnreachWL_correct`, `tdUnreachWL_total`).
* The top-down `Union` with renumbering (`ReindexStates` into a common table), the top-down `Intersection`, the
  product-state counter, and the sharing of transition tables between copies are not modelled here.
-/
end Vata.Props
