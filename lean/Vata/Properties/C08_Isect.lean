import Vata.Proofs.BddIsectBUTotal
/-!
# C08 / C20 – the symbolic `Intersection` of the two BDD encodings: work-lists, product-state counter

Corollaries of `Vata/Proofs/BddIsect.lean`, `Vata/Proofs/BddIsectTotal.lean`, `Vata/Proofs/BddIsectBUTotal.lean` (model:
`Vata/BddIsect.lean`, on top of `Vata/BddAbs.lean` / `Vata/BddAbsTD.lean`) for the part of property C08

> For both BDD encodings […] Intersection [yields] exactly the intersection

and for the clause of C20 "never executes undefined behaviour such as using an uninitialised counter" (defect D10: the
product-state counter `stateCnt` of `bdd_bu_tree_aut_isect.cc` / `bdd_td_tree_aut_isect.cc`).

How the statement is read into the model.  A symbolic automaton is a table of MTBDDs with set-valued leaves and a list of
final states; its abstraction is the explicit automaton `absTD syms T F` / `absBU syms T F` read off the MTBDDs for the
symbols `syms` of the dictionary, as the dump does.  `bddIsectTDFrom c0` / `bddIsectBUFrom c0` mirror the two work-lists: the
translator of pairs to product states with its counter (starting at `c0`; `bddIsectTD`, `bddIsectBU`: `c0 = 0`, the repaired
code) and its work-set, the pairing leaf operations with their side effect on the translator, `Apply2Functor` threading
that side effect through the leaves (low branch first), `SetMtbdd` of the results; with fuel, and with a final Boolean
certificate check on the symbolic level.  All statements are about the abstractions of the returned table: set equality
of rules and final states with the product automata of C02 (`prodOn` of `Vata/Isect.lean`, `prodBU` of `Vata/IsectBU.lean`),
hence equality of languages (`accepts`), for EVERY dictionary `syms`.
-/
namespace Vata.Props
open Vata Vata.M Vata.BddAbs Vata.BddAbsTD Vata.BddIsect

/-- **Top-down `Intersection`.**  Whenever the model of `BDDTDTreeAutCore::Intersection` (counter starting at any `c0`)
returns a table `R`, final states `F` and a translation map `m`: the abstraction of `(R, F)` is – as sets of rules and of
final states – the product automaton of the abstractions of the operands on the set `dom m` of discovered pairs, numbered
by `m`; `dom m` is closed under the children of matching rules and contains all pairs of final states; `m` is injective;
hence the abstraction accepts exactly the intersection.  Hypothesis on the operands: `ArityOK`, the invariant of the
top-down encoding that the arity variables hold the length of the tuples (true of loaded and of converted tables,
`arityOK_ofRulesTD`, `arityOK_getTopDownAut`); the C++ `assert`s it in the leaf operation. -/
theorem C08_td_isect {c0 : Nat} {TA : TableTD} {FA : List Nat} {TB : TableTD} {FB : List Nat} {fuel : Nat}
    {R : TableTD} {F : List Nat} {m : PMap} (h : bddIsectTDFrom c0 TA FA TB FB fuel = some (R, F, m))
    (hA : ArityOK TA) (hB : ArityOK TB) (syms : List Nat) :
    SetEqTA (absTD syms R F) (prodOn (absTD syms TA FA) (absTD syms TB FB) m.dom (lookupF m)) ∧
    Closed (absTD syms TA FA) (absTD syms TB FB) m.dom ∧ InjOn (lookupF m) m.dom ∧
    (∀ p, p ∈ FA → ∀ q, q ∈ FB → (p, q) ∈ m.dom) ∧
    (∀ t, accepts (absTD syms R F) t = (accepts (absTD syms TA FA) t && accepts (absTD syms TB FB) t)) :=
  ⟨(bddIsectTDFrom_abs h hA hB syms).1, (bddIsectTDFrom_abs h hA hB syms).2.1, (bddIsectTDFrom_abs h hA hB syms).2.2.1,
    (bddIsectTDFrom_abs h hA hB syms).2.2.2, fun t => bddIsectTDFrom_lang h hA hB syms t⟩

example : (bddIsectTDFrom 0 BddIsectEx.tdA [1] BddIsectEx.tdB [1] 10).isSome = true ∧
    (bddIsectTDFrom 7 BddIsectEx.tdA [1] BddIsectEx.tdB [1] 10).isSome = true ∧
    ArityOK BddIsectEx.tdA ∧ ArityOK BddIsectEx.tdB :=
  ⟨by decide +kernel, by decide +kernel, BddIsectEx.arityA, BddIsectEx.arityB⟩

-- `ArityOK` cannot be dropped: a table holding the tuple `(5)` for all arities against one holding `()`: the model (like
-- the C++ built without assertions) pairs them up to the rule `a → 0` and accepts `a`, which the left operand does not
example : (bddIsectTD [(1, .leaf [[5]])] [1] [(2, .leaf [[]])] [2] 5).map
      (fun r => accepts (absTD [0] r.1 r.2.1) (.node 0 [])) = some true ∧
    accepts (absTD [0] [(1, .leaf [[5]])] [1]) (.node 0 []) = false := by decide +kernel

/-- **Bottom-up `Intersection`.**  Whenever the model of `BDDBUTreeAutCore::Intersection` (counter starting at any `c0`)
returns `(R, F, m)`: the abstraction of `(R, F)` is – as sets of rules and of final states – the BOTTOM-UP product automaton
of the abstractions of the operands (`prodBU`: the pairs of rules all of whose children pairs are in `dom m`; final states:
the numbers of the discovered pairs of final states); `dom m` contains the parent pair of any two matching rules whose
children pairs are in it (`BUClosed`), so it contains every pair of states that label a common tree; `m` is injective;
hence the abstraction accepts exactly the intersection.  No hypothesis on the operand tables. -/
theorem C08_bu_isect {c0 : Nat} {TA : Table} {FA : List Nat} {TB : Table} {FB : List Nat} {fuel : Nat}
    {R : Table} {F : List Nat} {m : PMap} (h : bddIsectBUFrom c0 TA FA TB FB fuel = some (R, F, m)) (syms : List Nat) :
    SetEqTA (absBU syms R F) (prodBU (absBU syms TA FA) (absBU syms TB FB) m.dom (lookupF m)) ∧
    BUClosed (absBU syms TA FA) (absBU syms TB FB) m.dom ∧ InjOn (lookupF m) m.dom ∧
    (∀ t p q, p ∈ reach (absBU syms TA FA) t → q ∈ reach (absBU syms TB FB) t → (p, q) ∈ m.dom) ∧
    (∀ t, accepts (absBU syms R F) t = (accepts (absBU syms TA FA) t && accepts (absBU syms TB FB) t)) :=
  ⟨(bddIsectBUFrom_abs h syms).1, (bddIsectBUFrom_abs h syms).2.1, (bddIsectBUFrom_abs h syms).2.2,
    fun t p q hp hq => buClosed_reach _ _ m.dom (lookupF m) (bddIsectBUFrom_abs h syms).2.1
      (bddIsectBUFrom_abs h syms).2.2 t p q hp hq,
    fun t => bddIsectBUFrom_lang h syms t⟩

example : (bddIsectBUFrom 0 BddIsectEx.buA [1] BddIsectEx.buB [1] 10).isSome = true ∧
    (bddIsectBUFrom 7 BddIsectEx.buA [1] BddIsectEx.buB [1] 10).isSome = true := by decide +kernel
-- the two encodings discover different sets of pairs on the same operands (top-down also `(0, 1)`)
example : (bddIsectTD BddIsectEx.tdA [1] BddIsectEx.tdB [1] 10).map (·.2.2.map Prod.fst) =
      some [(1, 1), (1, 2), (0, 0), (0, 1)] ∧
    (bddIsectBU BddIsectEx.buA [1] BddIsectEx.buB [1] 10).map (·.2.2.map Prod.fst) = some [(0, 0), (1, 1), (1, 2)] := by
  decide +kernel

/-- **The apply with a side effect.**  `Apply2Functor` with the `IntersectionApplyFunctor` (whose `ApplyOperation` calls
the translator and so allocates product states and fills the work-set) returns, in both encodings, the `M.apply2` of the
PURE pairing leaf operation for the translation map it leaves behind; afterwards all pairs of the visited leaves are in
the map.  On leaves all of whose pairs are known a leaf operation changes nothing – which is why the result cache of the
apply, which suppresses repeated calls on the same pair of leaves, does not matter.  (`BddIsect.Good c0 s`: the state `s` of the
translator is one the model can be in – numbering from `c0`, the work-set holds entries of the map.) -/
theorem C08_isect_apply_side_effect {c0 : Nat} {s : St} (hs : BddIsect.Good c0 s) :
    (∀ a b : MT, (apply2S leafBU s a b).2 = apply2 (prodS (lookupF (apply2S leafBU s a b).1.map)) a b ∧
      ∀ ll, ll ∈ voidApply2 a b → ∀ c, c ∈ BddIsect.allPairs ll.1 ll.2 → c ∈ (apply2S leafBU s a b).1.map.dom) ∧
    (∀ a b : MTD, (apply2S leafTD s a b).2 = apply2 (prodTS (lookupF (apply2S leafTD s a b).1.map)) a b ∧
      ∀ ll, ll ∈ voidApply2 a b → ∀ c, c ∈ (allZips ll.1 ll.2).flatten → c ∈ (apply2S leafTD s a b).1.map.dom) ∧
    (∀ v w : List Nat, (∀ c, c ∈ BddIsect.allPairs v w → c ∈ s.map.dom) → leafBU s v w = (s, prodS (lookupF s.map) v w)) ∧
    (∀ v w : List (List Nat), (∀ c, c ∈ (allZips v w).flatten → c ∈ s.map.dom) →
      leafTD s v w = (s, prodTS (lookupF s.map) v w)) :=
  ⟨fun a b => ⟨(apply2S_spec leafSpecBU c0 s a b hs).val, (apply2S_spec leafSpecBU c0 s a b hs).dom⟩,
    fun a b => ⟨(apply2S_spec leafSpecTD c0 s a b hs).val, (apply2S_spec leafSpecTD c0 s a b hs).dom⟩,
    fun v w hk => leafBU_known hs v w hk, fun v w hk => leafTD_known hs v w hk⟩

example : BddIsect.Good 0 ⟨[], [], 0⟩ ∧ BddIsect.Good 7 (apply2S leafBU ⟨[], [], 7⟩ (BddIsectEx.buA.get []) (BddIsectEx.buB.get [])).1 :=
  ⟨good_init 0, (apply2S_spec leafSpecBU 7 _ _ _ (good_init 7)).good⟩

/-- **The models are total.**  The certificate checks never fail on what the loops compute: the top-down model returns
`none` only when its loop runs out of fuel, and so does the bottom-up model on tables as the C++ holds them (`TableOk`: one
entry per non-empty tuple).  Every entry taken from the work-set is a new pair of states, so the fuels `tdFuel`, `buFuel`
suffice: the reference instances `bddIsectTDRef`, `bddIsectBURef` return a result, which accepts exactly the
intersection and numbers the product states `0 … n-1`. -/
theorem C08_isect_total :
    (∀ (TA : TableTD) (FA : List Nat) (TB : TableTD) (FB : List Nat), ArityOK TA → ArityOK TB →
      ∃ R F m, bddIsectTDRef TA FA TB FB = some (R, F, m) ∧
        (∀ syms t, accepts (absTD syms R F) t = (accepts (absTD syms TA FA) t && accepts (absTD syms TB FB) t)) ∧
        m.map Prod.snd = List.range m.length) ∧
    (∀ (TA : Table) (FA : List Nat) (TB : Table) (FB : List Nat), TableOk TA → TableOk TB →
      ∃ R F m, bddIsectBURef TA FA TB FB = some (R, F, m) ∧
        (∀ syms t, accepts (absBU syms R F) t = (accepts (absBU syms TA FA) t && accepts (absBU syms TB FB) t)) ∧
        m.map Prod.snd = List.range m.length) ∧
    (∀ (c0 : Nat) (TA : TableTD) (FA : List Nat) (TB : TableTD) (FB : List Nat) (fuel : Nat),
      bddIsectTDFrom c0 TA FA TB FB fuel = none ↔
        tdLoop TA TB fuel (translL ⟨[], [], c0⟩ (finalPairsL FA FB)).1 [] = none) ∧
    (∀ (c0 : Nat) (TA : Table) (FA : List Nat) (TB : Table) (FB : List Nat) (fuel : Nat), TableOk TA → TableOk TB →
      (bddIsectBUFrom c0 TA FA TB FB fuel = none ↔
        BddIsect.buLoop TA TB FA FB fuel (apply2S leafBU ⟨[], [], c0⟩ (TA.get []) (TB.get [])).1
          (Table.empty.set [] (apply2S leafBU ⟨[], [], c0⟩ (TA.get []) (TB.get [])).2) [] = none)) :=
  ⟨fun TA FA TB FB hA hB => bddIsectTDRef_lang TA FA TB FB hA hB,
    fun _ FA _ FB hA hB => bddIsectBURef_lang FA FB hA hB,
    fun _ _ _ _ _ _ => bddIsectTDFrom_none_iff,
    fun _ _ _ _ _ _ hA hB => bddIsectBUFrom_none_iff hA hB⟩

example : ArityOK BddIsectEx.tdA ∧ TableOk BddIsectEx.buA ∧ tdFuel BddIsectEx.tdA [1] BddIsectEx.tdB [1] = 28 ∧
    buFuel BddIsectEx.buA BddIsectEx.buB = 15 ∧ (bddIsectTD BddIsectEx.tdA [1] BddIsectEx.tdB [1] 3).isNone = true :=
  ⟨BddIsectEx.arityA, BddIsectEx.okA, by decide +kernel, by decide +kernel, by decide +kernel⟩

/-- **Load, intersect, dump.**  For explicit automata `A`, `B` whose symbols are 16-bit numbers of the dictionary `syms`
and whose arities are below 64: the symbolic intersections of the loaded tables (`AddTransition` for each rule) – in the
top-down and in the bottom-up encoding – return a result, and its dump accepts exactly `L(A) ∩ L(B)`. -/
theorem C08_isect_loaded (A B : TA) (syms : List Nat)
    (hA : ∀ r, r ∈ A.rules → r.sym < 2 ^ 16 ∧ r.kids.length < 64 ∧ r.sym ∈ syms)
    (hB : ∀ r, r ∈ B.rules → r.sym < 2 ^ 16 ∧ r.kids.length < 64 ∧ r.sym ∈ syms) (hs : ∀ f, f ∈ syms → f < 2 ^ 16) :
    (∃ R F m, bddIsectTDRef (ofRulesTD A.rules) A.final (ofRulesTD B.rules) B.final = some (R, F, m) ∧
      ∀ t, accepts (absTD syms R F) t = (accepts A t && accepts B t)) ∧
    (∃ R F m, bddIsectBURef (ofRules A.rules) A.final (ofRules B.rules) B.final = some (R, F, m) ∧
      ∀ t, accepts (absBU syms R F) t = (accepts A t && accepts B t)) := by
  constructor
  · obtain ⟨R, F, m, h, hl, _⟩ := bddIsectTDRef_lang (ofRulesTD A.rules) A.final (ofRulesTD B.rules) B.final
      (arityOK_ofRulesTD _ (fun r hr => (hA r hr).2.1)) (arityOK_ofRulesTD _ (fun r hr => (hB r hr).2.1))
    refine ⟨R, F, m, h, fun t => ?_⟩
    rw [hl syms t, (absTD_ofRulesTD_setEq A.rules syms A.final hA hs).lang,
      (absTD_ofRulesTD_setEq B.rules syms B.final hB hs).lang]
  · obtain ⟨R, F, m, h, hl, _⟩ := bddIsectBURef_lang (TA := ofRules A.rules) A.final (TB := ofRules B.rules) B.final
      (tableOk_ofRules _) (tableOk_ofRules _)
    refine ⟨R, F, m, h, fun t => ?_⟩
    rw [hl syms t, (absBU_ofRules_setEq A.rules syms A.final (fun r hr => ⟨(hA r hr).1, (hA r hr).2.2⟩) hs).lang,
      (absBU_ofRules_setEq B.rules syms B.final (fun r hr => ⟨(hB r hr).1, (hB r hr).2.2⟩) hs).lang]

example : (∀ r, r ∈ BddIsectEx.exA.rules → r.sym < 2 ^ 16 ∧ r.kids.length < 64 ∧ r.sym ∈ BddIsectEx.syms) ∧
    (∀ r, r ∈ BddIsectEx.exB.rules → r.sym < 2 ^ 16 ∧ r.kids.length < 64 ∧ r.sym ∈ BddIsectEx.syms) ∧
    (∀ f, f ∈ BddIsectEx.syms → f < 2 ^ 16) := by decide
-- the dumps of the two products of the example
example : ((bddIsectTDRef BddIsectEx.tdA [1] BddIsectEx.tdB [1]).map (fun r =>
      (BddIsectEx.showRules (absRulesTD BddIsectEx.syms r.1), r.2.1))) =
    some ([(0, [], 2), (3, [0], 1), (2, [2, 2], 0), (2, [3, 2], 0), (3, [1], 0)], [0]) := by decide +kernel
example : ((bddIsectBURef BddIsectEx.buA [1] BddIsectEx.buB [1]).map (fun r =>
      (BddIsectEx.showRules (absRules BddIsectEx.syms r.1), r.2.1))) =
    some ([(0, [], 0), (3, [2], 1), (3, [1], 2), (2, [0, 0], 1)], [1]) := by decide +kernel

/-- PARTIAL (C20, "using an uninitialised counter": the product-state counter `stateCnt` of the two BDD intersections,
defect D10).  With the counter starting at `c0` the translation map returned by either model takes exactly the values
`c0, c0+1, …, c0+n-1`, in the order in which the pairs were discovered, and is injective; for the repaired code (`c0 = 0`)
the values are exactly `0, 1, …, n-1`.  Conversely a non-empty translation map with the values `0 … n-1` can only come from
a counter that started at 0 – this is the observation by which the correspondence check reveals an uninitialised counter
(whose language-level results are unaffected, `C08_td_isect`, `C08_bu_isect`).  Partial: a statement about the model; that
the C++ never READS an indeterminate value is checked by the sanitizer runs, not proved. -/
theorem C20_bdd_isect_numbers_dense_partial :
    (∀ {c0 : Nat} {TA : TableTD} {FA : List Nat} {TB : TableTD} {FB : List Nat} {fuel : Nat} {R : TableTD} {F : List Nat}
      {m : PMap}, bddIsectTDFrom c0 TA FA TB FB fuel = some (R, F, m) →
        m.map Prod.snd = List.range' c0 m.length ∧ InjOn (lookupF m) m.dom ∧
        (m ≠ [] → m.map Prod.snd = List.range m.length → c0 = 0)) ∧
    (∀ {c0 : Nat} {TA : Table} {FA : List Nat} {TB : Table} {FB : List Nat} {fuel : Nat} {R : Table} {F : List Nat}
      {m : PMap}, bddIsectBUFrom c0 TA FA TB FB fuel = some (R, F, m) →
        m.map Prod.snd = List.range' c0 m.length ∧ InjOn (lookupF m) m.dom ∧
        (m ≠ [] → m.map Prod.snd = List.range m.length → c0 = 0)) ∧
    (∀ {TA : TableTD} {FA : List Nat} {TB : TableTD} {FB : List Nat} {fuel : Nat} {R : TableTD} {F : List Nat} {m : PMap},
      bddIsectTD TA FA TB FB fuel = some (R, F, m) → m.map Prod.snd = List.range m.length) ∧
    (∀ {TA : Table} {FA : List Nat} {TB : Table} {FB : List Nat} {fuel : Nat} {R : Table} {F : List Nat} {m : PMap},
      bddIsectBU TA FA TB FB fuel = some (R, F, m) → m.map Prod.snd = List.range m.length) := by
  have key : ∀ (c0 : Nat) (m : PMap), m.map Prod.snd = List.range' c0 m.length → m ≠ [] →
      m.map Prod.snd = List.range m.length → c0 = 0 := by
    intro c0 m h1 hne h2
    cases m with
    | nil => exact absurd rfl hne
    | cons e m =>
      rw [h1, List.range_eq_range'] at h2
      simp only [List.length_cons, List.range'_succ, List.cons.injEq] at h2
      exact h2.1
  refine ⟨fun h => ?_, fun h => ?_, fun h => (bddIsect_numbers_dense.1 h).1, fun h => (bddIsect_numbers_dense.2 h).1⟩
  · exact ⟨(bddIsectTDFrom_numbers h).1, (bddIsectTDFrom_numbers h).2, key _ _ (bddIsectTDFrom_numbers h).1⟩
  · exact ⟨(bddIsectBUFrom_numbers h).1, (bddIsectBUFrom_numbers h).2, key _ _ (bddIsectBUFrom_numbers h).1⟩

-- the numbers of the example for the counters 0 and 7, both encodings
example : (bddIsectTD BddIsectEx.tdA [1] BddIsectEx.tdB [1] 10).map (·.2.2.map Prod.snd) = some [0, 1, 2, 3] ∧
    (bddIsectTDFrom 7 BddIsectEx.tdA [1] BddIsectEx.tdB [1] 10).map (·.2.2.map Prod.snd) = some [7, 8, 9, 10] ∧
    (bddIsectBU BddIsectEx.buA [1] BddIsectEx.buB [1] 10).map (·.2.2.map Prod.snd) = some [0, 1, 2] ∧
    (bddIsectBUFrom 7 BddIsectEx.buA [1] BddIsectEx.buB [1] 10).map (·.2.2.map Prod.snd) = some [7, 8, 9] := by
  decide +kernel

/-!
## items of the "not yet proved" blocks closed here

* `C08.lean`: "`C08_bu_isect_step` is ONE `SetMtbdd` of `Intersection`; the work-list that discovers the pairs of tuples and
  numbers the product states (`bdd_bu_tree_aut_isect.cc`, the counter of defect D10) is not modelled for the BDD encoding
  […] hence no theorem 'the symbolic intersection accepts exactly the intersection'" – now `C08_bu_isect`,
  `C08_isect_total`, `C08_isect_loaded`; "The top-down encoding […] `Intersection` […] on it are correspondence-check-only
  claims" – now `C08_td_isect`, `C08_isect_total`, `C08_isect_loaded`.
* `C08_Tables.lean` ("still open"): "the top-down `Intersection`, the product-state counter […] are not modelled here" –
  modelled in `Vata/BddIsect.lean`, `C08_td_isect`, `C20_bdd_isect_numbers_dense_partial`.
* `C20.lean`: `C20_product_map_injective_partial` says "the BDD-encoded intersections […], where the anchor of the property
  locates an uninitialised counter, have no Lean model", and the "not yet proved" block lists "the BDD-encoded automata
  (`bdd_*_isect.cc` with their product-state counters)" among the components without any model – the counters now have
  the model-level statement `C20_bdd_isect_numbers_dense_partial` (a PARTIAL claim, like all of C20).

## still open

* The result cache `ht` of `Apply2Functor` and the sharing of MTBDD nodes are not modelled (the model calls the leaf
  operation once per PATH; `C08_isect_apply_side_effect` shows that the additional calls change nothing).  The iteration
  orders of the hash containers of the C++ (`GetTransTable()`, the final-state sets) are list orders in the model, so the
  NUMBERS of the product states agree with the C++ only up to these orders; the SET of values (`c0 … c0+n-1`) does not
  depend on them.
* The symbol dictionary and the arity check of the Timbuk layer (arities below 64, `ArityOK` for tables obtained in other
  ways than loading and `GetTopDownAut`) are hypotheses here.  State numbers are unbounded `Nat`: overflow of `stateCnt`
  cannot be expressed.
* "None of these calls changes the language of an operand": the operand tables are values in the model.
-/
end Vata.Props
