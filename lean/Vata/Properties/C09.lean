import Vata.Nfa
import Vata.NfaEmbed
import Vata.NfaOps
import Vata.Proofs.NfaOps
import Vata.Proofs.PropAux
/-!
# C09 – Finite-automata inclusion is exact for antichain and congruence algorithms

> For any two nondeterministic finite word automata A and B (a word is accepted when it labels a path from a start
> state to a final state), the inclusion check returns true exactly when every word accepted by A is accepted by B.
> This holds for the antichain algorithm and for the congruence algorithm in depth-first and breadth-first order, and
> all of them agree.

## How the statement is read into the model

* **Specification (L0).**  `Vata.W.NFA` (`Vata/Nfa.lean`: `start final : List Nat`, `trans : List (source × symbol ×
  target)`; several start states, start states that are final, unreachable and dead states, nondeterminism are all
  expressible).  `acceptsW N w` is acceptance by forward subset simulation (`run`, `stepW`);
  `C09_accepts_iff_path` shows that it is literally "`w` labels a path from a start state to a final state"
  (`Path`, `Vata/Proofs/NfaOps.lean`).  `InclW A B := ∀ w, acceptsW A w = true → acceptsW B w = true`
  (`Vata/NfaEmbed.lean`) is "every word accepted by `A` is accepted by `B`".
* **Reference (oracle of the check).**  `inclW A B fuel` (`Vata/NfaEmbed.lean`): both automata are embedded into the
  tree-automata engine over a unary signature and the profile saturation `forallTrees` decides
  `∀ w, ¬ acceptsW A w ∨ acceptsW B w`.  This is what the four verdicts of the real `CheckInclusion`
  (`antichains`, `congr` depth-first, `congr` breadth-first, default) are compared with in `Driver/NfaHist.lean`.
  `W.inclRef A B fuel` (`Vata/Nfa.lean`) is a second, independent reference that works on NFAs directly (saturation of
  the pairs of macro-states `(run A w, run B w)`).  `none` means "fuel exhausted", it is never a verdict.
* **Model of the code.**  There is NO executable model of the antichain algorithm
  (`explicit_finite_incl_fctor_cache.hh`) nor of the congruence algorithm (`explicit_finite_congr_fctor_cache_opt.hh`,
  `explicit_finite_congr_equiv_fctor.hh`).  What is modelled and proved is the *preparation* that `CheckInclusion`
  performs before either algorithm runs: `SanitizeAutsForInclusion` = `RemoveUselessStates` (`nfaRemoveUseless`) followed
  by an injective `ReindexStates` (`nfaMap`), and for the congruence algorithm `UnionDisjointStates`
  (`nfaUnionDisjoint`, `Vata/NfaOps.lean`) which turns the inclusion question into an equivalence question
  (`C09_preparation_preserves`, `C09_congruence_reduction`).
* **Certificate principle.**  `W.closedB A B P` / `W.HasInit` / `W.bad` (`Vata/Nfa.lean`): a set `P` of pairs of
  macro-states that contains the start pair, is closed under the simultaneous step and has no bad pair.  This is the
  invariant of the product exploration *without* pruning; the antichain subsumption and the congruence closure, which
  are the substance of the two algorithms, are not covered (see the end of the file).
-/
namespace Vata.Props
open Vata Vata.W

/-! ### the specification is the one of the statement -/

/-- `acceptsW` (forward subset simulation) is acceptance in the sense of the statement: the word labels a path from a
start state to a final state -/
theorem C09_accepts_iff_path (N : NFA) (w : List Nat) :
    acceptsW N w = true ↔ ∃ s, s ∈ N.start ∧ ∃ q, q ∈ N.final ∧ Path N s w q := acceptsW_iff N w

-- two start states, a start state that is final, nondeterminism on symbol 0, a dead state 3
example : acceptsW ⟨[0, 2], [0, 1], [(0, 0, 1), (0, 0, 3), (1, 1, 1), (2, 0, 3)]⟩ [0, 1, 1] = true ∧
    acceptsW ⟨[0, 2], [0, 1], [(0, 0, 1), (0, 0, 3), (1, 1, 1), (2, 0, 3)]⟩ [] = true ∧
    acceptsW ⟨[0, 2], [0, 1], [(0, 0, 1), (0, 0, 3), (1, 1, 1), (2, 0, 3)]⟩ [1] = false := by decide

/-! ### the references all algorithm selections are compared with -/

/-- every verdict of the reference decision procedure is exact -/
theorem C09_reference_exact (A B : NFA) (fuel : Nat) (b : Bool) (h : inclW A B fuel = some b) :
    b = true ↔ InclW A B := inclW_iff A B fuel b h

-- the smaller operand uses only symbol 0, the bigger one also symbol 1 and accepts the empty word
example : inclW ⟨[0], [1], [(0, 0, 1)]⟩ ⟨[0, 2], [0, 1], [(0, 0, 1), (1, 1, 1), (2, 0, 3)]⟩ 10 = some true := by decide
example : inclW ⟨[0, 2], [0, 1], [(0, 0, 1), (1, 1, 1), (2, 0, 3)]⟩ ⟨[0], [1], [(0, 0, 1)]⟩ 10 = some false := by decide

/-- … and so is every verdict of the second reference, which saturates pairs of macro-states of the NFAs directly -/
theorem C09_reference_nfa_exact (A B : NFA) (fuel : Nat) (b : Bool) (h : W.inclRef A B fuel = some b) :
    b = true ↔ InclW A B := W.inclRef_iff A B fuel b h

example : W.inclRef ⟨[0], [1], [(0, 0, 1)]⟩ ⟨[0, 2], [0, 1], [(0, 0, 1), (1, 1, 1), (2, 0, 3)]⟩ 10 = some true := by
  decide
example : W.inclRef ⟨[0, 2], [0, 1], [(0, 0, 1), (1, 1, 1), (2, 0, 3)]⟩ ⟨[0], [1], [(0, 0, 1)]⟩ 10 = some false := by
  decide

/-- the decision procedure behind `inclW` (and behind the checkers of C10): for any Boolean combination `φ` of
word-acceptance by finitely many NFAs, every verdict is exact.  The second conjunct on the right is the value of `φ` on
"rejected by all", which is what trees that are not words contribute; for inclusion it is trivially true. -/
theorem C09_boolean_combination_exact (Ns : List NFA) (φ : List Bool → Bool) (fuel : Nat) (b : Bool)
    (h : forallWords Ns φ fuel = some b) :
    b = true ↔ (∀ w, φ (Ns.map (fun N => acceptsW N w)) = true) ∧ φ (Ns.map (fun _ => false)) = true :=
  forallWords_iff Ns φ fuel b h

-- "no word is accepted by both": true for the languages {0} and {ε, 1}
example : forallWords [⟨[0], [1], [(0, 0, 1)]⟩, ⟨[0], [0, 1], [(0, 1, 1)]⟩]
    (fun v => match v with | [a, b] => !(a && b) | _ => false) 10 = some true := by decide

/-! ### "all of them agree" -/

/-- two exact verdicts on the same pair are equal: any verdict of the one reference equals any verdict of the other,
for all fuels.  (For the real algorithms "agree" is a consequence of each of them being compared with `inclW`; it is a
theorem only about the references, see the end of the file.) -/
theorem C09_verdicts_agree (A B : NFA) (fuel fuel' : Nat) (b b' : Bool)
    (h : inclW A B fuel = some b) (h' : W.inclRef A B fuel' = some b') : b = b' := by
  have h1 := inclW_iff A B fuel b h
  have h2 : b' = true ↔ InclW A B := W.inclRef_iff A B fuel' b' h'
  cases b <;> cases b' <;> simp_all

example : inclW ⟨[0, 2], [0, 1], [(0, 0, 1), (1, 1, 1), (2, 0, 3)]⟩ ⟨[0], [1], [(0, 0, 1)]⟩ 10 = some false ∧
    W.inclRef ⟨[0, 2], [0, 1], [(0, 0, 1), (1, 1, 1), (2, 0, 3)]⟩ ⟨[0], [1], [(0, 0, 1)]⟩ 7 = some false := by decide

/-- the verdict of the reference does not depend on the fuel -/
theorem C09_reference_fuel_independent (A B : NFA) (fuel fuel' : Nat) (b b' : Bool)
    (h : inclW A B fuel = some b) (h' : inclW A B fuel' = some b') : b = b' := by
  have h1 := inclW_iff A B fuel b h
  have h2 := inclW_iff A B fuel' b' h'
  cases b <;> cases b' <;> simp_all

example : inclW ⟨[0], [1], [(0, 0, 1)]⟩ ⟨[0, 2], [0, 1], [(0, 0, 1), (1, 1, 1), (2, 0, 3)]⟩ 10 = some true ∧
    inclW ⟨[0], [1], [(0, 0, 1)]⟩ ⟨[0, 2], [0, 1], [(0, 0, 1), (1, 1, 1), (2, 0, 3)]⟩ 25 = some true := by decide

/-! ### the preparation done by `CheckInclusion` before either algorithm -/

/-- `SanitizeAutsForInclusion` (useless-state removal, then reindexing of each operand) does not change the question
asked.  The hypotheses say that the two translation maps are injective on the states of the trimmed operands; this is
needed (a map that merges two states can enlarge the language) and holds in the code because fresh consecutive numbers
are handed out. -/
theorem C09_preparation_preserves (A B : NFA) (fA fB : Nat → Nat)
    (hA : NfaInjOn fA (nfaStates (nfaRemoveUseless A))) (hB : NfaInjOn fB (nfaStates (nfaRemoveUseless B))) :
    InclW (nfaMap fA (nfaRemoveUseless A)) (nfaMap fB (nfaRemoveUseless B)) ↔ InclW A B := by
  simp only [InclW, nfaMap_inj_lang _ _ _ hA, nfaMap_inj_lang _ _ _ hB, nfaRemoveUseless_lang]

-- the dead state 3 and the unreachable state 4 are removed, the survivors are renumbered injectively
example : nfaStates (nfaRemoveUseless ⟨[0, 2], [0, 1], [(0, 0, 1), (1, 1, 1), (2, 0, 3), (4, 0, 1)]⟩) = [0, 0, 1, 0, 1, 1, 1] ∧
    NfaInjOn (fun q => q + 7) (nfaStates (nfaRemoveUseless ⟨[0, 2], [0, 1], [(0, 0, 1), (1, 1, 1), (2, 0, 3), (4, 0, 1)]⟩)) :=
  ⟨by decide, fun p _ q _ h => Nat.add_right_cancel h⟩

/-- the reduction used by the congruence algorithm (`newSmaller = UnionDisjointStates(newSmaller, newBigger)`, then
equivalence of the start sets of `A ∪ B` and `B`): on operands with disjoint states, `L(A) ⊆ L(B)` iff `A ∪ B` and `B`
accept the same words.  Disjointness is needed for `nfaUnionDisjoint` to be the union (C10) and is what
`SanitizeAutsForInclusion` establishes. -/
theorem C09_congruence_reduction (A B : NFA) (hdis : ∀ q, q ∈ nfaStates A → q ∈ nfaStates B → False) :
    InclW A B ↔ ∀ w, acceptsW (nfaUnionDisjoint A B) w = acceptsW B w := by
  simp only [InclW, nfaUnionDisjoint_lang A B _ hdis]
  exact forall_congr' fun w => by cases acceptsW A w <;> cases acceptsW B w <;> simp

example : ∀ q, q ∈ nfaStates ⟨[0], [1], [(0, 0, 1)]⟩ →
    q ∈ nfaStates ⟨[2, 4], [2, 3], [(2, 0, 3), (3, 1, 3), (4, 0, 5)]⟩ → False := by decide

/-! ### the principle behind the product explorations (without pruning) -/

/-- soundness of an explored set of product states: a set `P` of pairs (macro-state of `A`, macro-state of `B`) that
contains the pair of the start sets, is closed under the simultaneous step on every symbol of `A` and contains no pair
that is accepting in `A` and not accepting in `B` proves the inclusion.  (All three conditions are up to equality of
macro-states as sets.)  This is the principle without the antichain subsumption and without the congruence closure. -/
theorem C09_closed_pairs_certificate (A B : NFA) (P : List W.Pair) (hI : W.HasInit A B P)
    (hc : W.closedB A B P = true) (hb : ∀ p, p ∈ P → W.bad A B p = false) : InclW A B :=
  PropAux.nfa_closed_pairs_incl A B P hI hc hb

example : W.HasInit ⟨[0], [1], [(0, 0, 1)]⟩ ⟨[0, 2], [0, 1], [(0, 0, 1), (1, 1, 1), (2, 0, 3)]⟩
      [([0], [0, 2]), ([1], [1, 3]), ([], [])] ∧
    W.closedB ⟨[0], [1], [(0, 0, 1)]⟩ ⟨[0, 2], [0, 1], [(0, 0, 1), (1, 1, 1), (2, 0, 3)]⟩
      [([0], [0, 2]), ([1], [1, 3]), ([], [])] = true ∧
    ∀ p, p ∈ [([0], [0, 2]), ([1], [1, 3]), ([], [])] →
      W.bad ⟨[0], [1], [(0, 0, 1)]⟩ ⟨[0, 2], [0, 1], [(0, 0, 1), (1, 1, 1), (2, 0, 3)]⟩ p = false :=
  ⟨⟨_, List.mem_cons_self, fun _ => Iff.rfl, fun _ => Iff.rfl⟩, by decide, by decide⟩
-- a set that is not closed is refused: the successor of the start pair is missing
example : W.closedB ⟨[0], [1], [(0, 0, 1)]⟩ ⟨[0, 2], [0, 1], [(0, 0, 1), (1, 1, 1), (2, 0, 3)]⟩
    [([0], [0, 2]), ([], [])] = false := by decide

/-!
## not yet proved

* **The algorithms themselves are not modelled.**  There is no executable model of the antichain algorithm
  (`ExplicitFAInclusionFunctorCache`: `antichain`/`next` of (state, macro-state) pairs, `Init`, `MakePost`,
  `AddNewPairToAntichain`, `AddToNext`, the memoisation `subsetMap_`/`subsetNotMap_` of macro-state comparisons) nor of
  the congruence algorithm (`ExplicitFACongrFunctorCacheOpt` / `ExplicitFACongrEquivFunctor`: `relation_`, `next_`,
  `usedRules_`, `GetCongrClosure`, depth-first and breadth-first product sets).  Hence "the verdict of the antichain
  algorithm is exact", "the verdict of the congruence algorithm (either order) is exact" and "all of them agree" are
  NOT theorems about a model of the code; they are covered only by the correspondence check, which compares the four
  verdicts of the real `CheckInclusion` with `inclW` (`C09_reference_exact`).  `C09_verdicts_agree` is about the two
  references only.
* **Soundness of the pruning.**  `C09_closed_pairs_certificate` is the principle for a set of macro-state pairs that is
  closed outright.  Neither "closed up to subsumption by a smaller macro-state of `B`" (antichain; pairs are (single
  state of `A`, macro-state of `B`) there) nor "closed up to the congruence closure of the relation" (bisimulation up to
  congruence) is proved, and no completeness ("a `false` comes with a word accepted by `A` and rejected by `B`") is
  stated for a model of the explorations.
* The selections **with a simulation relation** (`ANTICHAINS_SIM`, `CONGR_DEPTH_SIM`) are not modelled either.
* No totality theorem for the references `inclW` / `W.inclRef`: they return `none` on too little fuel; every `some` is
  exact.
* `C09_preparation_preserves` takes the injectivity of the reindexing maps as hypotheses; that the maps built by
  `SanitizeAutsForInclusion` (one shared counter, `stateMap.clear()` between the operands) are injective and have
  disjoint images is not derived from a model of that function.
-/
end Vata.Props
