import Vata.Nfa
import Vata.NfaEmbed
import Vata.NfaOps
import Vata.Proofs.NfaOps
import Vata.Proofs.PropAux
import Vata.Proofs.NfaIncl
import Vata.Proofs.NfaInclTotal
import Vata.Proofs.NfaInclCongr
import Vata.Proofs.NfaInclCongrTotal
import Vata.Properties.Dispatch
/-!
# C09 – Finite-automata inclusion is exact for antichain and congruence algorithms

> For any two nondeterministic finite word automata A and B (a word is accepted when it labels a path from a start
> state to a final state), the inclusion check returns true exactly when every word accepted by A is accepted by B.
> This holds for the antichain algorithm and for the congruence algorithm in depth-first and breadth-first order, and
> all of them agree.

## How the statement is read into the model

* **Specification (L0).**  `Vata.W.NFA` (`Vata/Nfa.lean`: `start final : List Nat`, `trans : List (source × symbol ×
  target)`; several start states, start states that are final, unreachable and dead states, nondeterminism are all
  expressible).  `acceptsW N w` is acceptance by forward subset simulation (`run`, `stepW`);
  `C09_accepts_iff_path` shows that it is literally "`w` labels a path from a start state to a final state"
  (`Path`, `Vata/Proofs/NfaOps.lean`).  `InclW A B := ∀ w, acceptsW A w = true → acceptsW B w = true`
  (`Vata/NfaEmbed.lean`) is "every word accepted by `A` is accepted by `B`".
* **Reference (oracle of the check).**  `inclW A B fuel` (`Vata/NfaEmbed.lean`): both automata are embedded into the
  tree-automata engine over a unary signature and the profile saturation `forallTrees` decides
  `∀ w, ¬ acceptsW A w ∨ acceptsW B w`.  This is what the four verdicts of the real `CheckInclusion`
  (`antichains`, `congr` depth-first, `congr` breadth-first, default) are compared with in `Driver/NfaHist.lean`.
  `W.inclRef A B fuel` (`Vata/Nfa.lean`) is a second, independent reference that works on NFAs directly (saturation of
  the pairs of macro-states `(run A w, run B w)`).  `none` means "fuel exhausted", it is never a verdict.
* **Models of the code** (`Vata/NfaIncl.lean`), for the options without a simulation relation.
  - *Dispatcher.*  `nfaSanitize A B` is `SanitizeAutsForInclusion`: `nfaRemoveUseless` on both operands, then renumbering
    of `A` with `0 … |A|-1` and of `B` with `|A| … |A|+|B|-1`; `checkNfaInclAC A B fuel` and
    `checkNfaInclCongr A B breadth fuel` are `CheckInclusion` with `ANTICHAINS_NOSIM` resp. `CONGR_DEPTH_NOSIM`
    (`breadth = false`) / `CONGR_BREADTH_NOSIM` (`breadth = true`).
  - *Antichain algorithm* `nfaInclAC` (`ExplicitFAInclusionFunctorCache`): `Init`, the antichain `antichain_` and the
    ordered work-list `next_` of pairs (state of `A`, macro-state of `B`) with the subsumption tests of
    `AddNewPairToAntichain` / `AddToNext`, `MakePost`; exploration `NfaIncl.runAC`.
  - *Congruence algorithm* `nfaInclCongr` (`ExplicitFACongrFunctorCacheOpt`): the dispatcher's reduction to
    `L(A ⊎ B) = L(B)`, `relation_`, the vector `next_` with `push_back` (depth) or insertion at the front (breadth),
    `visitedPairs_`, the congruence closure by rewriting (`inClosure`), `MakePost` on both macro-states; exploration
    `NfaIncl.runCongr`.
  Both end certify-then-trust: `true` only with the final antichain / relation after the Boolean checks `nfaUpCertB` /
  `congrCertB`, `false` only with a word after the check `acceptsW A w && !acceptsW B w`; `none` = fuel exhausted (one
  unit per picked pair).  The macro-state cache and the memo tables of the C++ (`subsetMap_`, `usedRules_`) are
  transparent and not part of these models: macro-states are sorted duplicate-free lists compared by value.  (The classes
  this reading rests on – `OrdVector`, the ordered antichain work-list, a cache that never frees with memo tables keyed by
  addresses – have models and theorems of their own: `Vata/Properties/Util_OrdVector.lean`, `Util_Antichain.lean`,
  `Util_Cache.lean`; see the end of the file for what connects them to the algorithms and what does not.)
* **Certificate principles.**  `NfaUpCert A B X`: a set of pairs (state, macro-state) that subsumes the start pairs, is
  closed under the post-image *up to subsumption* and has no bad pair (antichain).  `CongrCert A B R`: disjoint operands,
  the start macro-states of `A ⊎ B` and `B` congruent modulo `R`, and `R` a *bisimulation up to congruence*
  (`NfaIncl.BisimUpTo`, `NfaIncl.CongrCl` = the least equivalence containing `R` closed under union; Bonchi–Pous).
  `W.closedB` / `W.HasInit` / `W.bad` (`Vata/Nfa.lean`) is the older principle without pruning.
* **Dispatch.**  `Vata.Gen.faDispatch` is the `switch (params.GetOptions())` of `ExplicitFiniteAutCore::CheckInclusion`,
  regenerated from the sources on every run (`Vata/Properties/Dispatch.lean`).
-/
namespace Vata.Props
open Vata Vata.W

/-! ### the specification is the one of the statement -/

/-- `acceptsW` (forward subset simulation) is acceptance in the sense of the statement: the word labels a path from a
start state to a final state -/
theorem C09_accepts_iff_path (N : NFA) (w : List Nat) :
    acceptsW N w = true ↔ ∃ s, s ∈ N.start ∧ ∃ q, q ∈ N.final ∧ Path N s w q := acceptsW_iff N w

-- two start states, a start state that is final, nondeterminism on symbol 0, a dead state 3
example : acceptsW ⟨[0, 2], [0, 1], [(0, 0, 1), (0, 0, 3), (1, 1, 1), (2, 0, 3)]⟩ [0, 1, 1] = true ∧
    acceptsW ⟨[0, 2], [0, 1], [(0, 0, 1), (0, 0, 3), (1, 1, 1), (2, 0, 3)]⟩ [] = true ∧
    acceptsW ⟨[0, 2], [0, 1], [(0, 0, 1), (0, 0, 3), (1, 1, 1), (2, 0, 3)]⟩ [1] = false := by decide

/-! ### the references all algorithm selections are compared with -/

/-- every verdict of the reference decision procedure is exact -/
theorem C09_reference_exact (A B : NFA) (fuel : Nat) (b : Bool) (h : inclW A B fuel = some b) :
    b = true ↔ InclW A B := inclW_iff A B fuel b h

-- the smaller operand uses only symbol 0, the bigger one also symbol 1 and accepts the empty word
example : inclW ⟨[0], [1], [(0, 0, 1)]⟩ ⟨[0, 2], [0, 1], [(0, 0, 1), (1, 1, 1), (2, 0, 3)]⟩ 10 = some true := by decide
example : inclW ⟨[0, 2], [0, 1], [(0, 0, 1), (1, 1, 1), (2, 0, 3)]⟩ ⟨[0], [1], [(0, 0, 1)]⟩ 10 = some false := by decide

/-- … and so is every verdict of the second reference, which saturates pairs of macro-states of the NFAs directly -/
theorem C09_reference_nfa_exact (A B : NFA) (fuel : Nat) (b : Bool) (h : W.inclRef A B fuel = some b) :
    b = true ↔ InclW A B := W.inclRef_iff A B fuel b h

example : W.inclRef ⟨[0], [1], [(0, 0, 1)]⟩ ⟨[0, 2], [0, 1], [(0, 0, 1), (1, 1, 1), (2, 0, 3)]⟩ 10 = some true := by
  decide
example : W.inclRef ⟨[0, 2], [0, 1], [(0, 0, 1), (1, 1, 1), (2, 0, 3)]⟩ ⟨[0], [1], [(0, 0, 1)]⟩ 10 = some false := by
  decide

/-- the decision procedure behind `inclW` (and behind the checkers of C10): for any Boolean combination `φ` of
word-acceptance by finitely many NFAs, every verdict is exact.  The second conjunct on the right is the value of `φ` on
"rejected by all", which is what trees that are not words contribute; for inclusion it is trivially true. -/
theorem C09_boolean_combination_exact (Ns : List NFA) (φ : List Bool → Bool) (fuel : Nat) (b : Bool)
    (h : forallWords Ns φ fuel = some b) :
    b = true ↔ (∀ w, φ (Ns.map (fun N => acceptsW N w)) = true) ∧ φ (Ns.map (fun _ => false)) = true :=
  forallWords_iff Ns φ fuel b h

-- "no word is accepted by both": true for the languages {0} and {ε, 1}
example : forallWords [⟨[0], [1], [(0, 0, 1)]⟩, ⟨[0], [0, 1], [(0, 1, 1)]⟩]
    (fun v => match v with | [a, b] => !(a && b) | _ => false) 10 = some true := by decide

/-! ### "all of them agree" -/

/-- two exact verdicts on the same pair are equal: any verdict of the one reference equals any verdict of the other,
for all fuels.  (This one is about the two references; the agreement of the models of the three algorithms with each
other and with the reference is `C09_all_algorithms_agree`.) -/
theorem C09_verdicts_agree (A B : NFA) (fuel fuel' : Nat) (b b' : Bool)
    (h : inclW A B fuel = some b) (h' : W.inclRef A B fuel' = some b') : b = b' := by
  have h1 := inclW_iff A B fuel b h
  have h2 : b' = true ↔ InclW A B := W.inclRef_iff A B fuel' b' h'
  cases b <;> cases b' <;> simp_all

example : inclW ⟨[0, 2], [0, 1], [(0, 0, 1), (1, 1, 1), (2, 0, 3)]⟩ ⟨[0], [1], [(0, 0, 1)]⟩ 10 = some false ∧
    W.inclRef ⟨[0, 2], [0, 1], [(0, 0, 1), (1, 1, 1), (2, 0, 3)]⟩ ⟨[0], [1], [(0, 0, 1)]⟩ 7 = some false := by decide

/-- the verdict of the reference does not depend on the fuel -/
theorem C09_reference_fuel_independent (A B : NFA) (fuel fuel' : Nat) (b b' : Bool)
    (h : inclW A B fuel = some b) (h' : inclW A B fuel' = some b') : b = b' := by
  have h1 := inclW_iff A B fuel b h
  have h2 := inclW_iff A B fuel' b' h'
  cases b <;> cases b' <;> simp_all

example : inclW ⟨[0], [1], [(0, 0, 1)]⟩ ⟨[0, 2], [0, 1], [(0, 0, 1), (1, 1, 1), (2, 0, 3)]⟩ 10 = some true ∧
    inclW ⟨[0], [1], [(0, 0, 1)]⟩ ⟨[0, 2], [0, 1], [(0, 0, 1), (1, 1, 1), (2, 0, 3)]⟩ 25 = some true := by decide

/-! ### the preparation done by `CheckInclusion` before either algorithm -/

/-- `SanitizeAutsForInclusion` (useless-state removal, then reindexing of each operand) does not change the question
asked.  The hypotheses say that the two translation maps are injective on the states of the trimmed operands; this is
needed (a map that merges two states can enlarge the language) and holds in the code because fresh consecutive numbers
are handed out. -/
theorem C09_preparation_preserves (A B : NFA) (fA fB : Nat → Nat)
    (hA : NfaInjOn fA (nfaStates (nfaRemoveUseless A))) (hB : NfaInjOn fB (nfaStates (nfaRemoveUseless B))) :
    InclW (nfaMap fA (nfaRemoveUseless A)) (nfaMap fB (nfaRemoveUseless B)) ↔ InclW A B := by
  simp only [InclW, nfaMap_inj_lang _ _ _ hA, nfaMap_inj_lang _ _ _ hB, nfaRemoveUseless_lang]

-- the dead state 3 and the unreachable state 4 are removed, the survivors are renumbered injectively
example : nfaStates (nfaRemoveUseless ⟨[0, 2], [0, 1], [(0, 0, 1), (1, 1, 1), (2, 0, 3), (4, 0, 1)]⟩) = [0, 0, 1, 0, 1, 1, 1] ∧
    NfaInjOn (fun q => q + 7) (nfaStates (nfaRemoveUseless ⟨[0, 2], [0, 1], [(0, 0, 1), (1, 1, 1), (2, 0, 3), (4, 0, 1)]⟩)) :=
  ⟨by decide, fun p _ q _ h => Nat.add_right_cancel h⟩

/-- the reduction used by the congruence algorithm (`newSmaller = UnionDisjointStates(newSmaller, newBigger)`, then
equivalence of the start sets of `A ∪ B` and `B`): on operands with disjoint states, `L(A) ⊆ L(B)` iff `A ∪ B` and `B`
accept the same words.  Disjointness is needed for `nfaUnionDisjoint` to be the union (C10) and is what
`SanitizeAutsForInclusion` establishes. -/
theorem C09_congruence_reduction (A B : NFA) (hdis : ∀ q, q ∈ nfaStates A → q ∈ nfaStates B → False) :
    InclW A B ↔ ∀ w, acceptsW (nfaUnionDisjoint A B) w = acceptsW B w := by
  simp only [InclW, nfaUnionDisjoint_lang A B _ hdis]
  exact forall_congr' fun w => by cases acceptsW A w <;> cases acceptsW B w <;> simp

example : ∀ q, q ∈ nfaStates ⟨[0], [1], [(0, 0, 1)]⟩ →
    q ∈ nfaStates ⟨[2, 4], [2, 3], [(2, 0, 3), (3, 1, 3), (4, 0, 5)]⟩ → False := by decide

/-! ### the principle behind the product explorations (without pruning) -/

/-- soundness of an explored set of product states: a set `P` of pairs (macro-state of `A`, macro-state of `B`) that
contains the pair of the start sets, is closed under the simultaneous step on every symbol of `A` and contains no pair
that is accepting in `A` and not accepting in `B` proves the inclusion.  (All three conditions are up to equality of
macro-states as sets.)  This is the principle without the antichain subsumption and without the congruence closure. -/
theorem C09_closed_pairs_certificate (A B : NFA) (P : List W.Pair) (hI : W.HasInit A B P)
    (hc : W.closedB A B P = true) (hb : ∀ p, p ∈ P → W.bad A B p = false) : InclW A B :=
  PropAux.nfa_closed_pairs_incl A B P hI hc hb

example : W.HasInit ⟨[0], [1], [(0, 0, 1)]⟩ ⟨[0, 2], [0, 1], [(0, 0, 1), (1, 1, 1), (2, 0, 3)]⟩
      [([0], [0, 2]), ([1], [1, 3]), ([], [])] ∧
    W.closedB ⟨[0], [1], [(0, 0, 1)]⟩ ⟨[0, 2], [0, 1], [(0, 0, 1), (1, 1, 1), (2, 0, 3)]⟩
      [([0], [0, 2]), ([1], [1, 3]), ([], [])] = true ∧
    ∀ p, p ∈ [([0], [0, 2]), ([1], [1, 3]), ([], [])] →
      W.bad ⟨[0], [1], [(0, 0, 1)]⟩ ⟨[0, 2], [0, 1], [(0, 0, 1), (1, 1, 1), (2, 0, 3)]⟩ p = false :=
  ⟨⟨_, List.mem_cons_self, fun _ => Iff.rfl, fun _ => Iff.rfl⟩, by decide, by decide⟩
-- a set that is not closed is refused: the successor of the start pair is missing
example : W.closedB ⟨[0], [1], [(0, 0, 1)]⟩ ⟨[0, 2], [0, 1], [(0, 0, 1), (1, 1, 1), (2, 0, 3)]⟩
    [([0], [0, 2]), ([], [])] = false := by decide

/-! ### the antichain algorithm: model of the code, exact and total -/

/-- `CheckInclusion` with `ANTICHAINS_NOSIM` (model `checkNfaInclAC`: sanitise, then the antichain exploration): every
verdict is exact, and for every fuel above the explicit bound of the sanitised operands the right verdict is returned -/
theorem C09_antichain_model_exact (A B : NFA) :
    (∀ fuel b c, checkNfaInclAC A B fuel = some (b, c) → (b = true ↔ InclW A B)) ∧
    (∀ fuel, NfaIncl.fuelBoundAC (nfaSanitize A B).1 (nfaSanitize A B).2 < fuel →
      (InclW A B → ∃ c, checkNfaInclAC A B fuel = some (true, c)) ∧
      (¬ InclW A B → ∃ c, checkNfaInclAC A B fuel = some (false, c))) :=
  ⟨fun _ _ _ h => checkNfaInclAC_iff h, fun _ hf => checkNfaInclAC_complete A B hf⟩

-- the regression pair of the repaired subset memo (shared state names, nondeterminism), both directions
example : (checkNfaInclAC NfaInclEx.exMemoA NfaInclEx.exMemoB 20).map (·.1) = some true ∧
    (checkNfaInclAC NfaInclEx.exMemoB NfaInclEx.exMemoA 20).map (·.1) = some false := by decide +kernel

/-- the exploration alone, on ANY operands (no trimming, no disjointness needed): exact, and total above the bound -/
theorem C09_antichain_core_exact (A B : NFA) :
    (∀ fuel b c, nfaInclAC A B fuel = some (b, c) → (b = true ↔ InclW A B)) ∧
    (∀ fuel, NfaIncl.fuelBoundAC A B < fuel →
      (InclW A B → ∃ c, nfaInclAC A B fuel = some (true, c)) ∧
      (¬ InclW A B → ∃ c, nfaInclAC A B fuel = some (false, c))) :=
  ⟨fun _ _ _ h => nfaInclAC_iff h, fun _ hf => nfaInclAC_complete hf⟩

example : NfaIncl.fuelBoundAC NfaInclEx.exAstar NfaInclEx.exABstar = 32 := by decide
example : ∃ c, nfaInclAC NfaInclEx.exAAB NfaInclEx.exAplus 10 = some (false, c) := ⟨_, rfl⟩

/-! ### the congruence algorithm, depth-first and breadth-first: model of the code, exact and total -/

/-- `CheckInclusion` with `CONGR_DEPTH_NOSIM` (`breadth = false`) and `CONGR_BREADTH_NOSIM` (`breadth = true`), model
`checkNfaInclCongr`: every verdict is exact, and for every fuel above the explicit bound the right verdict is returned –
in either search order -/
theorem C09_congruence_model_exact (A B : NFA) (breadth : Bool) :
    (∀ fuel b c, checkNfaInclCongr A B breadth fuel = some (b, c) → (b = true ↔ InclW A B)) ∧
    (∀ fuel, NfaIncl.fuelBoundCongr (nfaSanitize A B).1 (nfaSanitize A B).2 < fuel →
      (InclW A B → ∃ c, checkNfaInclCongr A B breadth fuel = some (true, c)) ∧
      (¬ InclW A B → ∃ c, checkNfaInclCongr A B breadth fuel = some (false, c))) :=
  ⟨fun _ _ _ h => checkNfaInclCongr_iff h, fun _ hf => checkNfaInclCongr_complete A B hf⟩

example : (checkNfaInclCongr NfaInclEx.exMemoA NfaInclEx.exMemoB true 20).map (·.1) = some true ∧
    (checkNfaInclCongr NfaInclEx.exMemoA NfaInclEx.exMemoB false 20).map (·.1) = some true ∧
    (checkNfaInclCongr NfaInclEx.exMemoB NfaInclEx.exMemoA true 20).map (·.1) = some false := by decide +kernel

/-- the exploration alone: every verdict is exact on any operands; on operands with disjoint state sets (what the
dispatcher establishes – the reduction to `L(A ⊎ B) = L(B)` needs it) it is total above the bound -/
theorem C09_congruence_core_exact (A B : NFA) (breadth : Bool) :
    (∀ fuel b c, nfaInclCongr A B breadth fuel = some (b, c) → (b = true ↔ InclW A B)) ∧
    ((∀ q, q ∈ nfaStates A → q ∈ nfaStates B → False) → ∀ fuel, NfaIncl.fuelBoundCongr A B < fuel →
      (InclW A B → ∃ c, nfaInclCongr A B breadth fuel = some (true, c)) ∧
      (¬ InclW A B → ∃ c, nfaInclCongr A B breadth fuel = some (false, c))) :=
  ⟨fun _ _ _ h => nfaInclCongr_iff h, fun hdis _ hf => nfaInclCongr_complete hdis hf⟩

example : (∀ q, q ∈ nfaStates NfaInclEx.exAstar → q ∈ nfaStates NfaInclEx.exABstar → False) ∧
    NfaIncl.fuelBoundCongr NfaInclEx.exAstar NfaInclEx.exABstar = 9 := ⟨by decide, by decide⟩
-- operands that share state names are refused by the exploration alone (no verdict), the dispatcher renames them
example : (nfaInclCongr NfaInclEx.exMemoA NfaInclEx.exMemoB true 20).isNone = true := by decide +kernel

/-! ### what the verdicts carry, and the two pruning principles -/

/-- a `true` of the antichain model comes with an antichain certificate, a `true` of the congruence model with a
bisimulation up to congruence; a `false` of either comes with a word accepted by `A` and rejected by `B` -/
theorem C09_verdicts_certified (A B : NFA) (breadth : Bool) (fuel : Nat) (c : NfaIncl.Cert) :
    (nfaInclAC A B fuel = some (true, c) → ∃ X, c = .antichain X ∧ NfaUpCert A B X) ∧
    (nfaInclAC A B fuel = some (false, c) → ∃ w, c = .witness w ∧ acceptsW A w = true ∧ acceptsW B w = false) ∧
    (nfaInclCongr A B breadth fuel = some (true, c) → ∃ R, c = .relation R ∧ CongrCert A B R) ∧
    (nfaInclCongr A B breadth fuel = some (false, c) →
      ∃ w, c = .witness w ∧ acceptsW A w = true ∧ acceptsW B w = false) :=
  ⟨nfaInclAC_true_sound, nfaInclAC_false_sound, nfaInclCongr_true_sound, nfaInclCongr_false_sound⟩

example : nfaInclAC NfaInclEx.exAAB NfaInclEx.exAplus 10 = some (false, .witness [0, 0, 1]) ∧
    nfaInclCongr NfaInclEx.exAAB NfaInclEx.exAplus false 10 = some (false, .witness [0, 0, 1]) ∧
    nfaInclCongr NfaInclEx.exAstar NfaInclEx.exABstar true 10 = some (true, .relation [([0, 1], [1])]) := ⟨rfl, rfl, rfl⟩

/-- soundness of the antichain pruning: a set `X` of pairs (state of `A`, macro-state of `B`) that subsumes the start
pairs, is closed under the post-image UP TO SUBSUMPTION by a smaller macro-state, and has no pair with a final state and a
rejecting macro-state, proves the inclusion; the Boolean check of the model establishes these conditions -/
theorem C09_antichain_certificate (A B : NFA) (X : List (Nat × List Nat)) :
    (NfaUpCert A B X → InclW A B) ∧ (nfaUpCertB A B X = true → NfaUpCert A B X) :=
  ⟨nfa_up_cert_incl, nfaUpCertB_sound⟩

-- subsumption is used: the successor `(1, {3,4})` by `a` is only covered by the smaller `(1, {3})`
example : NfaUpCert ⟨[0], [1], [(0, 0, 1), (0, 1, 1)]⟩ ⟨[2], [3], [(2, 0, 3), (2, 0, 4), (2, 1, 3)]⟩ [(0, [2]), (1, [3])] :=
  nfaUpCertB_sound (by decide)

/-- soundness of the congruence pruning (bisimulation up to congruence): if `R` is a bisimulation up to congruence in
`U`, then its congruence closure is a bisimulation (first component); hence disjoint operands whose start macro-states
`start_A ∪ start_B` and `start_B` are congruent modulo such an `R` (in `U = A ⊎ B`) satisfy the inclusion (second); the
Boolean check of the model is exactly this condition (third) -/
theorem C09_congruence_certificate (A B : NFA) (R : List NfaIncl.CRule) :
    (∀ U : NFA, NfaIncl.BisimUpTo U R → ∀ X Y, NfaIncl.CongrCl R X Y →
      W.accepting U X = W.accepting U Y ∧ ∀ a, NfaIncl.CongrCl R (stepW U X a) (stepW U Y a)) ∧
    (CongrCert A B R → InclW A B) ∧
    (congrCertB A B R = true ↔ CongrCert A B R) :=
  ⟨fun _ hR _ _ h => NfaIncl.congrCl_bisim hR h, congr_cert_sound, congrCertB_iff⟩

-- the relation returned for the (sanitised) regression pair needs the closure: it is not a plain bisimulation
example : CongrCert NfaInclEx.exSanA NfaInclEx.exSanB NfaInclEx.exSanR ∧
    NfaInclEx.plainBisimB (nfaUnionDisjoint NfaInclEx.exSanA NfaInclEx.exSanB) NfaInclEx.exSanR = false :=
  ⟨congrCertB_sound (by decide +kernel), by decide +kernel⟩

/-- the explorations proper (no final check involved): the antichain of a finished `true` run passes `nfaUpCertB`, the
relation of a finished `true` congruence run (disjoint operands) is a `CongrCert`, the word of a `false` run of either
separates the languages, and both end within their bounds.  So the final checks never refuse: `none` means "fuel
exhausted" only -/
theorem C09_explorations_certified (A B : NFA) (breadth : Bool) (fuel : Nat) :
    ((∀ P, NfaIncl.runAC A B fuel = some (.ok P) → nfaUpCertB A B (P.map (fun i => (i.q, i.S))) = true) ∧
      (∀ w, NfaIncl.runAC A B fuel = some (.error w) → acceptsW A w = true ∧ acceptsW B w = false) ∧
      (NfaIncl.fuelBoundAC A B < fuel → ∃ r, NfaIncl.runAC A B fuel = some r)) ∧
    ((∀ q, q ∈ nfaStates A → q ∈ nfaStates B → False) →
      (∀ R, NfaIncl.runCongr (nfaUnionDisjoint A B) B breadth fuel = some (.ok R) → CongrCert A B (NfaIncl.rulesOf R)) ∧
      (∀ w, NfaIncl.runCongr (nfaUnionDisjoint A B) B breadth fuel = some (.error w) →
        acceptsW A w = true ∧ acceptsW B w = false)) ∧
    (NfaIncl.fuelBoundCongr A B < fuel → ∃ r, NfaIncl.runCongr (nfaUnionDisjoint A B) B breadth fuel = some r) :=
  ⟨⟨fun _ h => NfaIncl.runAC_ok_cert h, fun _ h => NfaIncl.runAC_error_ok h, fun h => NfaIncl.runAC_terminates h⟩,
    fun hdis => ⟨fun _ h => NfaIncl.runCongr_ok_cert hdis h, fun _ h => NfaIncl.runCongr_error_ok hdis h⟩,
    fun h => NfaIncl.runCongr_terminates h⟩

example : ∃ P, NfaIncl.runAC NfaInclEx.exMemoA NfaInclEx.exMemoB 20 = some (.ok P) := ⟨_, rfl⟩
example : ∃ R, NfaIncl.runCongr (nfaUnionDisjoint NfaInclEx.exAstar NfaInclEx.exABstar) NfaInclEx.exABstar true 10 =
    some (.ok R) := ⟨_, rfl⟩

/-! ### the dispatcher's preparation, from a model of `SanitizeAutsForInclusion` -/

/-- `nfaSanitize` (useless-state removal, then the renumbering with one shared counter): both languages are preserved –
hence the inclusion question –, and the state sets of the results are disjoint.  No injectivity hypothesis is left
(compare `C09_preparation_preserves`) -/
theorem C09_sanitise_model (A B : NFA) :
    (∀ w, acceptsW (nfaSanitize A B).1 w = acceptsW A w ∧ acceptsW (nfaSanitize A B).2 w = acceptsW B w) ∧
    (InclW (nfaSanitize A B).1 (nfaSanitize A B).2 ↔ InclW A B) ∧
    (∀ q, q ∈ nfaStates (nfaSanitize A B).1 → q ∈ nfaStates (nfaSanitize A B).2 → False) :=
  ⟨fun w => ⟨NfaIncl.sanitize_fst_lang A B w, NfaIncl.sanitize_snd_lang A B w⟩, NfaIncl.sanitize_incl A B,
    NfaIncl.sanitize_disjoint A B⟩

-- the operands of the regression pair share the state names 0..3; after sanitising: 0,1,2 and 3..6
example : (nfaSanitize NfaInclEx.exMemoA NfaInclEx.exMemoB).1.trans = NfaInclEx.exSanA.trans ∧
    (nfaSanitize NfaInclEx.exMemoA NfaInclEx.exMemoB).2.trans = NfaInclEx.exSanB.trans := by decide +kernel

/-! ### "all of them agree", for the models of the code -/

/-- any verdicts of the models of the antichain algorithm, of the congruence algorithm in depth-first and in
breadth-first order, and of the reference, on the same pair are equal – whatever the fuels -/
theorem C09_all_algorithms_agree (A B : NFA) (f₀ f₁ f₂ f₃ : Nat) (b₀ b₁ b₂ b₃ : Bool) (c₁ c₂ c₃ : NfaIncl.Cert)
    (h₀ : inclW A B f₀ = some b₀)
    (h₁ : checkNfaInclAC A B f₁ = some (b₁, c₁))
    (h₂ : checkNfaInclCongr A B false f₂ = some (b₂, c₂))
    (h₃ : checkNfaInclCongr A B true f₃ = some (b₃, c₃)) :
    b₁ = b₀ ∧ b₂ = b₀ ∧ b₃ = b₀ := by
  have e₀ := inclW_iff A B f₀ b₀ h₀
  have e₁ := checkNfaInclAC_iff h₁
  have e₂ := checkNfaInclCongr_iff h₂
  have e₃ := checkNfaInclCongr_iff h₃
  have key : ∀ b : Bool, (b = true ↔ InclW A B) → b = b₀ := fun b e => by
    cases b <;> cases b₀ <;> simp_all
  exact ⟨key _ e₁, key _ e₂, key _ e₃⟩

example : inclW NfaInclEx.exAAB NfaInclEx.exAplus 10 = some false ∧
    (checkNfaInclAC NfaInclEx.exAAB NfaInclEx.exAplus 10).map (·.1) = some false ∧
    (checkNfaInclCongr NfaInclEx.exAAB NfaInclEx.exAplus false 10).map (·.1) = some false ∧
    (checkNfaInclCongr NfaInclEx.exAAB NfaInclEx.exAplus true 10).map (·.1) = some false := by decide +kernel

/-! ### the dispatcher -/

/-- the `switch` of `ExplicitFiniteAutCore::CheckInclusion`, as regenerated from the sources: (1) exactly the option words
`ANTICHAINS_NOSIM`, `ANTICHAINS_SIM`, `CONGR_DEPTH_NOSIM`, `CONGR_BREADTH_NOSIM`, `CONGR_DEPTH_SIM`, `CONGR_DEPTH_EQUIV_NOSIM`,
`CONGR_BREADTH_EQUIV_NOSIM` have a case, no word twice; (2) every other word reaches `default`, which throws; (3) in every
case the algorithm and search-order bits match the functor and the product-set order (`depth` / `breadth`), and (4) the
simulation bit decides between "given relation, original operands" and "identity, sanitised copies"; (5) the named words
are the bit combinations their names say -/
theorem C09_dispatch (c : Gen.Case) (hc : c ∈ Gen.faDispatch) :
    Dispatch.sameWords (Dispatch.words Gen.faDispatch) [0, 16, 33, 1, 17, 65, 97] = true ∧
    (Dispatch.words Gen.faDispatch).Nodup ∧
    Gen.faDispatchDefaultThrows = true ∧
    Dispatch.faConsistent c = true ∧ Dispatch.simConsistent c = true ∧
    (Gen.namedWords.lookup "ANTICHAINS_NOSIM" = some 0 ∧
      Gen.namedWords.lookup "CONGR_DEPTH_NOSIM" = some Dispatch.fAlg ∧
      Gen.namedWords.lookup "CONGR_BREADTH_NOSIM" = some (Dispatch.fAlg ||| Dispatch.fOrder)) := by
  have hf := Dispatch.fa_consistent
  have hs := Dispatch.sim_consistent
  simp only [List.all_append, Bool.and_eq_true, List.all_eq_true] at hf hs
  have hn := Dispatch.named_words
  exact ⟨Dispatch.implemented_fa, Dispatch.no_duplicate_cases.2.2.2, Dispatch.default_throws.2.2.2, hf c hc, hs.2 c hc,
    hn.2.2.2.2.2.2.2.2.1, hn.2.2.2.2.2.2.2.2.2.1, hn.2.2.2.2.2.2.2.2.2.2⟩

example : (⟨"CONGR_BREADTH_NOSIM", 33, "faCongr", "ExplicitFACongrFunctorCacheOpt", "breadth", "true", "identity"⟩ : Gen.Case) ∈
    Gen.faDispatch := by decide
-- not trivially true: the breadth word with the depth-first product set would be refused
example : Dispatch.faConsistent ⟨"X", 33, "faCongr", "-", "depth", "true", "identity"⟩ = false := by decide

/-! ### ONE theorem for "the antichain algorithm and the congruence algorithm in depth-first and breadth-first order" -/

/-- the three algorithms of the statement -/
inductive C09Alg where
  | antichain | congrDepth | congrBreadth
  deriving DecidableEq, Repr

/-- the option word of an algorithm (`ANTICHAINS_NOSIM`, `CONGR_DEPTH_NOSIM`, `CONGR_BREADTH_NOSIM`) -/
def C09Alg.word : C09Alg → Nat
  | .antichain => 0 | .congrDepth => 1 | .congrBreadth => 33

/-- the model of `CheckInclusion` with that option word (arbitrary operands; the dispatcher sanitises them first) -/
def C09Alg.model (a : C09Alg) (A B : NFA) (fuel : Nat) : Option (Bool × NfaIncl.Cert) :=
  match a with
  | .antichain => checkNfaInclAC A B fuel
  | .congrDepth => checkNfaInclCongr A B false fuel
  | .congrBreadth => checkNfaInclCongr A B true fuel

/-- the explicit fuel bound (one unit per picked pair) of the sanitised operands -/
def C09Alg.bound (a : C09Alg) (A B : NFA) : Nat :=
  match a with
  | .antichain => NfaIncl.fuelBoundAC (nfaSanitize A B).1 (nfaSanitize A B).2
  | _ => NfaIncl.fuelBoundCongr (nfaSanitize A B).1 (nfaSanitize A B).2

/-- **every algorithm has a model that is exact and total, and all of them agree** – the property as one theorem: for
each of the three algorithms every verdict of its model is the truth of `L(A) ⊆ L(B)`, the model returns that verdict for
every fuel above the explicit bound, and any two verdicts (of any two algorithms, and of the reference `inclW`) on the same
pair are equal.  No hypothesis on `A`, `B` -/
theorem C09_every_algorithm_exact_total (a : C09Alg) (A B : NFA) :
    (∀ fuel b c, a.model A B fuel = some (b, c) → (b = true ↔ InclW A B)) ∧
    (∀ fuel, a.bound A B < fuel →
      (InclW A B → ∃ c, a.model A B fuel = some (true, c)) ∧ (¬ InclW A B → ∃ c, a.model A B fuel = some (false, c))) ∧
    (∀ (a' : C09Alg) f f' b b' c c', a.model A B f = some (b, c) → a'.model A B f' = some (b', c') → b = b') ∧
    (∀ f f₀ b b₀ c, a.model A B f = some (b, c) → inclW A B f₀ = some b₀ → b = b₀) := by
  have ex : ∀ (a : C09Alg) fuel b c, a.model A B fuel = some (b, c) → (b = true ↔ InclW A B) := by
    intro a fuel b c h
    cases a with
    | antichain => exact checkNfaInclAC_iff h
    | congrDepth => exact checkNfaInclCongr_iff h
    | congrBreadth => exact checkNfaInclCongr_iff h
  refine ⟨ex a, ?_, fun a' f f' b b' c c' h h' => ?_, fun f f₀ b b₀ c h h₀ => ?_⟩
  · cases a with
    | antichain => exact fun _ hf => checkNfaInclAC_complete A B hf
    | congrDepth => exact fun _ hf => checkNfaInclCongr_complete A B hf
    | congrBreadth => exact fun _ hf => checkNfaInclCongr_complete A B hf
  · have e := ex a f b c h
    have e' := ex a' f' b' c' h'
    cases b <;> cases b' <;> simp_all
  · have e := ex a f b c h
    have e₀ := inclW_iff A B f₀ b₀ h₀
    cases b <;> cases b₀ <;> simp_all

-- all three answer on the regression pair of the repaired subset memo – `true` one way, `false` the other
example : ∀ a : C09Alg, (a.model NfaInclEx.exMemoA NfaInclEx.exMemoB 20).map (·.1) = some true ∧
    (a.model NfaInclEx.exMemoB NfaInclEx.exMemoA 20).map (·.1) = some false := by
  intro a; cases a <;> decide +kernel

/-- the three algorithms are cases of the regenerated dispatcher, under the words their names say: algorithm bit for the
congruence algorithm, search-order bit for breadth-first -/
theorem C09_algorithms_are_dispatch_cases (a : C09Alg) :
    (Dispatch.words Gen.faDispatch).contains a.word = true ∧
    Dispatch.has a.word Dispatch.fAlg = decide (a ≠ .antichain) ∧
    Dispatch.has a.word Dispatch.fOrder = decide (a = .congrBreadth) ∧
    Dispatch.has a.word Dispatch.fSim = false ∧ Dispatch.has a.word Dispatch.fEquiv = false := by
  cases a <;> decide

/-!
## closed since the last refresh of this file

* "No totality theorem for the references `inclW` / `W.inclRef`": `C09_reference_total`, `C09_reference_bound`
  (`Vata/Properties/RefTotal.lean`; bound `fuelBoundW [A, B] = 2^(|start ∪ targets of A| + |… of B|)`).
* The property as ONE statement over the three algorithms: `C09_every_algorithm_exact_total`,
  `C09_algorithms_are_dispatch_cases`.
* **"Transparent caches are assumed transparent"** – partly closed, class by class (each class is modelled as coded and
  compared with the real class by histories):
  - macro-states are `OrdVector<StateType>`: `==` is equality and `IsSubsetOf` inclusion of the denoted sets, `<` is a strict
    total order, whatever history built the objects (`Util_OrdVector_eq`, `Util_OrdVector_isSubsetOf`,
    `Util_OrdVector_lt_strict_total_order`, `Util_OrdVector_history`) – "sorted duplicate-free lists compared by value" is what
    the real class is;
  - the work-list `next_` of the antichain functor is an `OrderedAntichain2C`: with the `Less` of
    `explicit_finite_incl_fctor_cache.hh` and the subset comparator, work-list and antichain always hold the same nodes, every
    `get` returns a least stored pair, the antichain invariant holds, in any interleaving of `AddToNext` and `get`
    (`Util_Antichain_worklist_history`, `Util_Antichain_get_least`, `Util_Antichain_offer_step`);
  - a cache that never frees needs no invalidation: in a history in which no object dies every memo entry keyed by two
    addresses is the function value on the two objects at these addresses – the situation of `MacroStateCache` with
    `subsetMap_` / `subsetNotMap_` (`Util_Cache_memo_sound_noDeath`).
* Start symbols of the operands: the word automata WITH their start symbols are modelled in `Vata/NfaStart.lean`
  (`Vata/Properties/C10_StartSymbols.lean`); the inclusion functors never mention `startStateToSymbols_` (read off
  `explicit_finite_incl*.hh`), so the models of this file are models on `NFAS.toNFA`.
* From `argv` to the option word: `Util_CliArgs_incl_word_spec`, `Util_CliArgs_every_selection_reachable_partial`; the two
  `EQUIV` words are the only implemented ones that no command line produces, and `equiv` always throws
  (`Util_CliArgs_equiv_selections_unreachable`).

## not yet proved

* The selections **with a simulation relation** (`ANTICHAINS_SIM`, `CONGR_DEPTH_SIM`) and the **equivalence** functor
  (`CONGR_DEPTH_EQUIV_NOSIM`, `CONGR_BREADTH_EQUIV_NOSIM`: `ExplicitFACongrEquivFunctor`) are implemented according to
  `C09_dispatch` but have no model; nothing is proved about pruning modulo a simulation on word automata.  (From the
  command line none of the four can be run to a verdict: `ComputeSimulation` throws `NotImplementedException` for
  `expl_fa`, and `equiv` throws "Equivalence not implemented" – the first read off `explicit_finite_sim.cc`, the second
  `Util_CliArgs_equiv_selections_unreachable`.)
* **Between the algorithm models and the container models there is no theorem.**  `NfaIncl.runAC` keeps `antichain_` and
  `next_` in its own lists; "these lists are the content of an `OrderedAntichain2C` history" is not stated.  Still assumed
  for the real functors: (a) the third criterion of the real `Less` is an ADDRESS (`StateSet*`), total on stored pairs only
  if the macro-state cache interns equal sets – it does, except that `MacroStateCache::insert` never shares the EMPTY
  macro-state (`areEqual` answers false for two empty sets; read off the source, not modelled; see the end of
  `Vata/Properties/Util_Cache.lean`), and the instantiation proved total in `Util_Antichain_worklist_history` compares the
  sets themselves; (b) `MacroStateCache` / `MapToList`
  themselves are not run by the cache harness (they are private to the functors); (c) `usedRules_` of the congruence
  functor and the subset memo of the antichain functor (repaired: only established facts are recorded) are covered by (the
  no-death case of) the memo theorem only as far as they are memo tables of a pure function; the argument why they do
  not change a verdict is in the header of `Vata/NfaIncl.lean` (the regression pair `exMemoA` / `exMemoB` of the memo defect
  is among the examples).  Iteration orders of hash containers are replaced by list order.
  Items (b)/(c) are now CLOSED for inclusion by `Vata/Properties/C09_Caches.lean`: `C09_antichain_caches_transparent`
  (unconditional) and `C09_congruence_caches_transparent` (exact equality for sanitised operands; with the library's
  macro-state cache never sharing the empty set the exploration order can differ on negative instances:
  `C09_empty_set_quirk`, verdicts do not), with the regressions `C09_regression_D8`, `C09_regression_usedRules_swapped`.
* **Numbering of `nfaSanitize`.**  The model numbers the states in order of first occurrence, the C++ in the order of its
  hash containers; all theorems are independent of the numbering (they use injectivity and the disjoint ranges only), but
  "the model hands out the same numbers as the code" is not claimed.
* **Link between the dispatch table and the models.**  `C09_dispatch` is about the table regenerated from the sources;
  which Lean model stands for which callee (`faAntichain` ↦ `checkNfaInclAC`, `faCongr` with `depth` / `breadth` ↦
  `checkNfaInclCongr · · false / true`, i.e. `C09Alg.model`) is the reading of the table, not a theorem.
* The models and the references are total with explicit fuel bounds; all bounds are exponential worst-case bounds, not
  tight.
-/
end Vata.Props
