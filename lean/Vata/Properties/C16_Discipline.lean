import Vata.Proofs.LtsEngineCallsRun2
import Vata.Properties.C16_Engine
/-!
# C16 / C20 – the simulation engine ON its helper classes: the call discipline as a theorem (`SmartSet` closed)

> C16: `computeSimulation(partition, relation, size)` returns the greatest simulation inside the initial relation.
> `Vata/Properties/C16.lean` / `C20.lean`, "not yet proved": *that every call sequence the engine makes satisfies the `ok`
> predicates (the call discipline) of `Util_LtsUtil_*` is read off the C++ …, not proved: the engine model works on values, the
> class models on heaps, and `C16_engine_on_coded_classes` connects them operation by operation, not run by run.*

## How the C++ is read into the model

* `Vata/LtsEngineCalls.lean` (namespace `Vata.LEC`): the engine of `Vata/LtsEngine.lean` as a WRITER.  Every function that makes
  calls on a helper object returns, next to the engine state, the history of these calls in the order the C++ makes them, one
  history per class (`Tr.ss : List SS.Op` for all `SmartSet`s, `Tr.sr : List SR.Op` for `relation_`):
  `ExplicitLTS::buildDelta1` (`delta1T`: the temporary `SmartSet(states_)`, its `labels()` copies, the `init(q, count)` calls),
  both `Block` constructors (`ctor1T`: `inset_.add(a)` along the state list; `ctor2T`: `parent.inset_.removeStrict(a);
  this->inset_.add(a)`), `makeBlock`, `relation_.init(index)`, `fastSplit` / `split` (`relation_.split(block->index_)`), the two
  pruning loops (`eraseRow`), the scratch set `s` of `init` (`SmartSet s; s.assignFlat(delta1[a]); s.remove(q) …`).
  Objects are numbered in creation order, as `SS.World` does (`objI`, `objR`, `sObj`: `s` is created between the blocks of the
  initial refinement and the blocks made by `run()`).
* `trace_erasure`: forgetting the histories gives `Vata.LE.computeSimulation` (likewise function by function: `…I_fst`).
* The discipline is `SS.okAll [] history` of `Vata/Proofs/LtsUtilSS.lean` – by `Util_LtsUtil_SmartSet_discipline_tight` exactly the
  histories on which the class AS CODED (heap of `Element`s, `index_`, `last_`) is defined.

## What is abstracted

* Read-only calls (`contains`, `empty`, `size`, iteration) are not part of the histories of `Vata/LtsUtil.lean`; destructors
  (`~SmartSet` of the temporary of `buildDelta1`, of `delta1`, of `s`, of the blocks at the end) are not calls of `SS.Op`.
* The interleaving BETWEEN the classes is not recorded (one history per class; the classes share no memory).
* `SharedCounter` and `SharedList` calls are not emitted yet; the `SplittingRelation` history is emitted (`Tr.sr`) but its
  discipline is not proved here.
-/
namespace Vata.Props
open Vata.L Vata.LE Vata.LU Vata.LEC

instance (L : LTS) : Decidable (DeltaOK L) := by unfold DeltaOK; exact inferInstance

/-- **trace erasure**: the instrumented engine returns what the engine model returns -/
theorem C16_trace_erasure (L : LTS) (part : List (List Nat)) (rel : Rel) (size : Nat) :
    (computeSimulationI L part rel size).map (·.1) = computeSimulation L part rel size ∧
    (∀ k, (stateAfterI L part rel k).1 = stateAfter L part rel k) :=
  ⟨trace_erasure L part rel size, stateAfterI_fst L part rel⟩

example : (computeSimulationI EngEx.L3 [[0, 1, 2, 3]] [(0, 0)] 4).map (·.1) = computeSimulation EngEx.L3 [[0, 1, 2, 3]] [(0, 0)] 4 ∧
    ((computeSimulationI EngEx.L3 [[0, 1, 2, 3]] [(0, 0)] 4).map (·.2.ss.length)) = some 27 := by decide

/-
FULL STATEMENT (`C16_engine_discipline`): as below WITHOUT the hypothesis `hΔ`, and with the analogous conjuncts for
`SharedCounter` (`SC.okAll`), `SharedList` (`SL.okAll`) and `SplittingRelation` (`SR.okAll ⟨[], L.n, false⟩ t.sr`).
-/
/-- **the `SmartSet` call discipline holds along the whole run.**  For every LTS / partition / block relation satisfying the
engine's preconditions: the history of ALL `SmartSet` calls (`buildDelta1`, `init`, and the first `k` iterations of `run()`, for
every `k`; and the history of a completed `computeSimulation`) is inside `SS.ok` – in particular no `add` is ever made on a set
whose `last_` dangles (`Util_LtsUtil_SmartSet_dangling_last`): the parent of a split only sees `removeStrict`, always of a
member; every `add` goes to the set under construction.

Hypothesis `hΔ : DeltaOK L` – the calls of `ExplicitLTS::buildDelta1` are inside the discipline and build the sets
`delta1[a]` – is decidable and `decide`d for the examples; it is not proved for all `L` here (see the end of the file). -/
theorem C16_engine_discipline_partial (L : LTS) (part : List (List Nat)) (rel : Rel)
    (hL : ltsOKB L = true) (hp : isPartition part L.n = true) (hc : isConsistent part rel = true)
    (ht : isTransB rel = true) (hΔ : DeltaOK L) :
    (∀ k, SS.okAll [] (stateAfterI L part rel k).2.ss = true) ∧
    (∀ size R t, computeSimulationI L part rel size = some (R, t) → SS.okAll [] t.ss = true) := by
  have hg := stateAfter_good (ltsOK_of_B hL) hΔ hp hc (relTrans_of_B (part := part) ht)
  refine ⟨fun k => (hg k).1, ?_⟩
  intro size R t h
  unfold computeSimulationI at h
  split at h
  · cases h; rfl
  · cases hr : engineRunI L (objR L (nb0 L part rel)) (fuelBound L) (engineInitI L part rel) with
    | none => rw [hr] at h; cases h
    | some et =>
      rw [hr] at h
      obtain ⟨k, hk⟩ := engineRunI_some _ _ _ hr
      rw [← stateAfterI_iter] at hk
      have : t = et.2 := by cases h; rfl
      rw [this, hk]; exact (hg k).1

/-- **the engine on heaps (`SmartSet`).**  Running the class AS CODED (`SS.run`: heap cells, `index_`, `last_`, `size_`) on the
engine's `SmartSet` history never reaches an undefined outcome, and afterwards the set of every block `i` (object
`objR L nb0 i`) shows exactly the value the engine model computes: iteration order with counts = `inset[i]`, `size()`,
`contains(a)` for every label (what `processRemove` asks: `b1->inset_.contains(a)`); the sets `delta1[a]` (objects `a + 1`)
show the states with an outgoing `a`-edge in increasing order -/
theorem C16_engine_on_heaps_partial (L : LTS) (part : List (List Nat)) (rel : Rel)
    (hL : ltsOKB L = true) (hp : isPartition part L.n = true) (hc : isConsistent part rel = true)
    (ht : isTransB rel = true) (hΔ : DeltaOK L) (k : Nat) :
    ∃ w, SS.run [] (stateAfterI L part rel k).2.ss = some w ∧
      (∀ i, i < (stateAfter L part rel k).part.length → ∃ s, w[objR L (nb0 L part rel) i]? = some s ∧
        SS.toList s = some ((stateAfter L part rel k).inset.getD i []) ∧
        s.size = ((stateAfter L part rel k).inset.getD i []).length ∧
        ∀ a, a < labels L → SS.contains s a = some (((stateAfter L part rel k).ins i).contains a)) ∧
      (∀ a, a < labels L → ∃ s, w[a + 1]? = some s ∧ (SS.toList s).map (·.map (·.1)) = some (delta1 L a)) := by
  have hg := stateAfter_good (ltsOK_of_B hL) hΔ hp hc (relTrans_of_B (part := part) ht) k
  obtain ⟨w, hrun, hlen, hobs⟩ := SS.run_observe hg.1
  rw [stateAfterI_fst] at hg
  refine ⟨w, hrun, ?_, ?_⟩
  · intro i hi
    obtain ⟨dg, hget⟩ := hg.2.hobj i hi
    have hlt : objR L (nb0 L part rel) i < w.length := by rw [hlen]; exact lt_of_get hget
    refine ⟨w[objR L (nb0 L part rel) i], List.getElem?_eq_getElem hlt, ?_⟩
    obtain ⟨h1, h2, _, _, h5⟩ := hobs _ _ _ (List.getElem?_eq_getElem hlt) hget
    exact ⟨h1, h2, fun a ha => (h5 a ha).1⟩
  · intro a ha
    have hget := hg.2.hdelta a ha
    have hlt : a + 1 < w.length := by rw [hlen]; exact lt_of_get hget
    refine ⟨w[a + 1], List.getElem?_eq_getElem hlt, ?_⟩
    obtain ⟨h1, _⟩ := hobs _ _ _ (List.getElem?_eq_getElem hlt) hget
    rw [h1]
    simp [dItems, Function.comp_def]

-- non-vacuity: the run of `EngEx.L3` (two iterations of `run()`, each splitting a block); the hypotheses hold, `buildDelta1` is
-- inside the discipline, and the history really contains `removeStrict` calls on parents
example : ltsOKB EngEx.L3 = true ∧ isPartition [[0, 1, 2, 3]] EngEx.L3.n = true ∧ isConsistent [[0, 1, 2, 3]] [(0, 0)] = true ∧
    isTransB [(0, 0)] = true ∧ DeltaOK EngEx.L3 ∧
    (stateAfterI EngEx.L3 [[0, 1, 2, 3]] [(0, 0)] 2).2.ss.length = 27 ∧
    ((stateAfterI EngEx.L3 [[0, 1, 2, 3]] [(0, 0)] 2).2.ss.filter
      (fun o => match o with | SS.Op.removeStrict _ _ => true | _ => false)).length = 3 ∧
    SS.okAll [] (stateAfterI EngEx.L3 [[0, 1, 2, 3]] [(0, 0)] 2).2.ss = true := by decide

example : DeltaOK EngEx.L1 ∧ DeltaOK EngEx.L2 := by decide

/-- the discipline is not vacuous on the class: the same history with ONE `add` moved behind the `removeStrict` that empties the
parent's set … is outside (this is the defect the engine avoids) -/
example : SS.okAll [] [.new 2, .add 0 1, .removeStrict 0 1, .add 0 0] = false ∧
    SS.run [] [.new 2, .add 0 1, .removeStrict 0 1, .add 0 0] = none := by decide

/-!
## which "not yet proved" items of `C16.lean` / `C20.lean` this file closes

* "Between engine and helper classes", for `SmartSet`: RUN BY RUN.  `C16_engine_discipline_partial` (every `SmartSet` call of
  `init` and of all `processRemove` iterations is inside `SS.ok`), `C16_engine_on_heaps_partial` (the coded class never reaches
  `none` on the engine's history and shows the engine model's insets).

## still not proved

* `DeltaOK L` for every `L` with `ltsOKB L` (the `init(q, count)` calls of `ExplicitLTS::buildDelta1` never insert behind a
  dangling `last_` – they never erase a member, every `q` being visited once – and build `dItems L a`): a hypothesis of both
  theorems; `decide`d for the example systems.
* The discipline of `SharedCounter` (`SC.ok`), `SharedList` (`SL.ok`) and `SplittingRelation` (`SR.ok`) along the run.  The
  `SplittingRelation` history is emitted (`Tr.sr`: `init`, `split`, `eraseRow`) but nothing is proved about it; counter and
  remove-list calls are not emitted.
* The value of the scratch set `s` after its `remove` calls (= `initRemove`) is not stated; only that all calls on it are
  inside the discipline.
-/
end Vata.Props
