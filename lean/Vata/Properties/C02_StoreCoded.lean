import Vata.Proofs.UnionStoreCodedOps
import Vata.Proofs.UnionStoreCodedOrder
/-!
# C02 (with C11 / C14) – `Union`, `UnionDisjointStates`, `Intersection` of the explicit tree automata AS CODED on the rule store

> (C02) The automaton returned by Union accepts exactly the union of the two operand languages and the automaton returned by
> Intersection accepts exactly their intersection; the returned state-translation maps are injective and describe the result
> (a rule is in the result iff it is the image of an operand rule / of a pair of matching operand rules).
> (C14) `ReindexStates` returns exactly the image of the automaton under the translator.
> (C11) An operation changes only its result object.

## How the C++ is read into the model (`Vata/UnionStoreCoded.lean`)

* `unionStoreCoded A B mL mR` is `Union(lhs, rhs, &mL, &mR)` on `Vata.Store` values: the start value of the ONE counter
  (`unionCnt`, the two `std::max` loops of the repaired code), a fresh empty `res`, then literally two
  `reindexInto (weakT .counter) … true` calls (`Vata/RenameCoded.lean`, the loop-by-loop model of `ReindexStates(dst, index)`)
  into the SAME destination; the second translator starts with the counter the first one left (`[&stateCnt]`).  Returned:
  `res`, `*pTranslMapLhs`, `*pTranslMapRhs`.  The list order of the operand stores is the iteration order of the hash containers:
  every theorem holds for every order.  `unionStoreCodedOld` (counter from `0`, the code before D11) and
  `unionStoreCodedTwoCounters` (a seeded slip) are visibly different models and are refuted below.
* `unionDisjStoreCoded A B` is `UnionDisjointStates` with `NDEBUG`: `res(lhs)`, `unordered_map::insert(first, last)` of the
  right clusters – an element whose key is present is NOT inserted –, `unordered_set::insert` of the final states;
  `unionDisjStoreCodedDbg` evaluates the two `assert`s.
* `isectStoreCoded A B fuel` is `Intersection`: the final pairs numbered and pushed, `SetStateFinal` for each; the LIFO work-list;
  per popped pair the pairs of matching rules (`isectMatching`: left cluster × right cluster, same symbol), the children numbered by
  `pTranslMap->insert(…, size())` left to right and pushed when new, then ONE insert into the result store (`addTransition`, the
  `res.AddTransition(children, f, p->second)` the source keeps as a comment next to its inlined form).  Fuel: `none` when it runs
  out; `isectStoreCodedRef` uses the bound `|Q_A|·|Q_B| + 1`, proved sufficient (`C02_store_isect_total`).
* Abstracted: `shared_ptr` sharing of clusters between `lhs`, `rhs` and the result of `UnionDisjointStates` (that is
  `Vata/CowHeapX.lean`, `unionDisj`), the alphabet pointer, the tuple cache; in `Intersection` the lookup of the operand clusters is
  a filter of the rule list the iterator yields (`isectMatching`), and the creation of the result cluster / tuple set BEFORE the
  tuple loops (`uniqueCluster`, `uniqueTuplePtrSet`) is folded into the insert (it cannot leave an empty container: the C++ asserts
  equal arities and under `Store.Inv` both tuple sets are non-empty).
-/
namespace Vata.Props
open Vata Vata.Store Vata.RenameCoded Vata.UnionStoreCoded

/-! ## 1. `Union` -/

/-- `Union` on the store against the relation-level model, for ALL stores and ALL pre-filled maps: the two maps the caller gets
back are EQUAL (as association lists in insertion order) to those of `unionModelOrd` for the visiting orders `lookupOrder`; the
rules the iterator of the result yields and its final states are those of the model's automaton (as sets); the result satisfies
the weak invariant and yields each rule once. -/
theorem C02_store_union_eq_model (A B : Store) (mL mR : SMap) :
    (unionStoreCoded A B mL mR).2 =
      (unionModelOrd (lookupOrder A true) (lookupOrder B true) (toTA A) (toTA B) mL mR).2 ∧
    (∀ x, x ∈ iterate (unionStoreCoded A B mL mR).1 ↔
      x ∈ (unionModelOrd (lookupOrder A true) (lookupOrder B true) (toTA A) (toTA B) mL mR).1.rules) ∧
    (∀ q, q ∈ (unionStoreCoded A B mL mR).1.final ↔
      q ∈ (unionModelOrd (lookupOrder A true) (lookupOrder B true) (toTA A) (toTA B) mL mR).1.final) ∧
    WInv (unionStoreCoded A B mL mR).1 ∧ (iterate (unionStoreCoded A B mL mR).1).Nodup :=
  union_store_sets A B mL mR

/-- for operands satisfying the store invariant the comparison is with `unionModel` ITSELF (its list order `visitOrder`: per rule
the parent, then the children): the parent the store code looks up once per cluster is, in the model's order, looked up again
before every rule of the cluster, which a weak translator ignores – the maps are EQUAL, rules and final states equal as sets -/
theorem C02_store_union_eq_unionModel (A B : Store) (mL mR : SMap) (hA : Inv A) (hB : Inv B) :
    (unionStoreCoded A B mL mR).2 = (unionModel (toTA A) (toTA B) mL mR).2 ∧
    (∀ x, x ∈ iterate (unionStoreCoded A B mL mR).1 ↔ x ∈ (unionModel (toTA A) (toTA B) mL mR).1.rules) ∧
    (∀ q, q ∈ (unionStoreCoded A B mL mR).1.final ↔ q ∈ (unionModel (toTA A) (toTA B) mL mR).1.final) := by
  obtain ⟨h1, h2, h3, _⟩ := union_store_sets A B mL mR
  rw [unionModelOrd_lookupOrder_eq A B mL mR hA hB] at h1 h2 h3
  exact ⟨h1, h2, h3⟩

/-- the rules of the result, spelled out: a rule is in the result iff it is the image of a rule of the left operand under the
returned left map or of a rule of the right operand under the returned right map; likewise the final states -/
theorem C02_store_union_image (A B : Store) (mL mR : SMap) :
    (∀ x, x ∈ iterate (unionStoreCoded A B mL mR).1 ↔
      (∃ r, r ∈ iterate A ∧ x = mapRule (applyMap (unionStoreCoded A B mL mR).2.1) r) ∨
      (∃ r, r ∈ iterate B ∧ x = mapRule (applyMap (unionStoreCoded A B mL mR).2.2) r)) ∧
    (∀ q, q ∈ (unionStoreCoded A B mL mR).1.final ↔
      (∃ p, p ∈ A.final ∧ q = applyMap (unionStoreCoded A B mL mR).2.1 p) ∨
      (∃ p, p ∈ B.final ∧ q = applyMap (unionStoreCoded A B mL mR).2.2 p)) := by
  obtain ⟨h1, h2, h3, _⟩ := union_store_sets A B mL mR
  rw [h1]
  constructor
  · intro x
    rw [h2]
    simp only [unionModelOrd, unionWith, reindex, List.mem_append, List.mem_map, toTA]
    constructor
    · rintro (⟨r, hr, e⟩ | ⟨r, hr, e⟩)
      · exact Or.inl ⟨r, hr, e.symm⟩
      · exact Or.inr ⟨r, hr, e.symm⟩
    · rintro (⟨r, hr, e⟩ | ⟨r, hr, e⟩)
      · exact Or.inl ⟨r, hr, e.symm⟩
      · exact Or.inr ⟨r, hr, e.symm⟩
  · intro q
    rw [h3]
    simp only [unionModelOrd, unionWith, reindex, List.mem_append, List.mem_map, toTA]
    constructor
    · rintro (⟨r, hr, e⟩ | ⟨r, hr, e⟩)
      · exact Or.inl ⟨r, hr, e.symm⟩
      · exact Or.inr ⟨r, hr, e.symm⟩
    · rintro (⟨r, hr, e⟩ | ⟨r, hr, e⟩)
      · exact Or.inl ⟨r, hr, e.symm⟩
      · exact Or.inr ⟨r, hr, e.symm⟩

/-- the returned maps: they extend the pre-filled ones and are defined on every state of their operand (no hypothesis); if the
pre-filled maps are injective with disjoint images so are the returned ones, and they are injective on / have disjoint images of
the operands' states -/
theorem C02_store_union_maps (A B : Store) (mL mR : SMap) :
    (Um.Ext mL (unionStoreCoded A B mL mR).2.1 ∧ Um.Ext mR (unionStoreCoded A B mL mR).2.2) ∧
    ((∀ q, q ∈ (toTA A).states → ∃ n, (unionStoreCoded A B mL mR).2.1.lookup q = some n) ∧
      (∀ q, q ∈ (toTA B).states → ∃ n, (unionStoreCoded A B mL mR).2.2.lookup q = some n)) ∧
    (Um.Inj mL → Um.Inj mR → Um.Disj mL mR →
      Um.Inj (unionStoreCoded A B mL mR).2.1 ∧ Um.Inj (unionStoreCoded A B mL mR).2.2 ∧
      Um.Disj (unionStoreCoded A B mL mR).2.1 (unionStoreCoded A B mL mR).2.2 ∧
      InjOnStates (applyMap (unionStoreCoded A B mL mR).2.1) (toTA A) ∧
      InjOnStates (applyMap (unionStoreCoded A B mL mR).2.2) (toTA B) ∧
      (∀ q q', q ∈ (toTA A).states → q' ∈ (toTA B).states →
        applyMap (unionStoreCoded A B mL mR).2.1 q ≠ applyMap (unionStoreCoded A B mL mR).2.2 q')) := by
  rw [(union_store_sets A B mL mR).1]
  refine ⟨unionModelOrd_maps_ext _ _ _ _ mL mR,
    unionModelOrd_maps_total _ _ _ _ mL mR (states_sub_lookupOrder A) (states_sub_lookupOrder B), ?_⟩
  intro hL hR hD
  obtain ⟨i1, i2, i3⟩ := unionModelOrd_maps_inj (lookupOrder A true) (lookupOrder B true) (toTA A) (toTA B) mL mR hL hR hD
  obtain ⟨j1, j2, j3⟩ := unionModelOrd_maps_ok (lookupOrder A true) (lookupOrder B true) (toTA A) (toTA B) mL mR
    (states_sub_lookupOrder A) (states_sub_lookupOrder B) hL hR hD
  exact ⟨i1, i2, i3, j1, j2, j3⟩

/-- the language of `Union` on the store: for ALL operand stores (overlapping state numbers, any container order, even stores
violating the invariant) and all pre-filled maps that are injective with disjoint images (`[]`, `[]` is the common call; the maps
a previous `Union` returned qualify by `C02_store_union_maps`) the result accepts exactly the union -/
theorem C02_store_union_lang (A B : Store) (mL mR : SMap) (hL : Um.Inj mL) (hR : Um.Inj mR) (hD : Um.Disj mL mR) (t : Tree) :
    accepts (toTA (unionStoreCoded A B mL mR).1) t = (accepts (toTA A) t || accepts (toTA B) t) := by
  obtain ⟨_, h2, h3, _⟩ := union_store_sets A B mL mR
  rw [Isx.accepts_congr_sets (P := toTA (unionStoreCoded A B mL mR).1) h2 h3 t]
  exact unionModelOrd_lang _ _ _ _ mL mR (states_sub_lookupOrder A) (states_sub_lookupOrder B) hL hR hD t

/-- `Store.Inv` of the result (keys unique on both levels, NO empty cluster, NO empty tuple set, no duplicate tuple / final state)
for operands satisfying it – for all maps -/
theorem C02_store_union_inv (A B : Store) (mL mR : SMap) (hA : Inv A) (hB : Inv B) : Inv (unionStoreCoded A B mL mR).1 :=
  union_store_inv A B mL mR hA hB

/-- (C14, closes the first open item of `C14_Coded`) one `src.ReindexStates(dst, weak translator)` with a source that has no empty
cluster / tuple set leaves EXACTLY `dst` with the translated final states inserted and the translated rules added one by one in
iteration order: the `uniqueCluster` / `uniqueTuplePtrSet` calls are absorbed by the following insert; hence `Store.Inv` is kept -/
theorem C14_store_reindex_weak_exact (src dst : Store) (m : SMap) (c : Nat) (hs : Inv src) :
    (reindexInto (weakT .counter) src dst ⟨m, c⟩ true).dst =
      ((iterate src).map (mapRule (gd (fun k => (weakTrAll (lookupOrder src true) m c).1.lookup k)))).foldl addTransition
        (setFinals dst (src.final.map (gd (fun k => (weakTrAll (lookupOrder src true) m c).1.lookup k)))) ∧
    (Inv dst → Inv (reindexInto (weakT .counter) src dst ⟨m, c⟩ true).dst) :=
  ⟨weak_run_exact src dst m c (ne_of_inv hs), fun hd => weak_run_inv src dst m c hs hd⟩

/-! ### non-vacuity, regressions, the hypotheses cannot be dropped -/
namespace StoreUnionEx

/-- `a → 5`, `h(5) → 6`; final `6` -/
def sA : Store := ⟨[(5, [(0, [[]])]), (6, [(2, [[5]])])], [6]⟩
/-- `b → 9`; final `9` – and the same automaton on the state number `5` (overlapping numbers) -/
def sB : Store := ⟨[(9, [(1, [[]])])], [9]⟩
def sB5 : Store := ⟨[(5, [(1, [[]])])], [5]⟩
def tA : Tree := .node 0 []
def tB : Tree := .node 1 []
def tHA : Tree := .node 2 [.node 0 []]
def tHB : Tree := .node 2 [.node 1 []]

example : invB sA = true ∧ invB sB = true ∧ invB sB5 = true := by decide
-- the final state is looked up first
example : unionStoreCoded sA sB [] [] =
    (⟨[(1, [(0, [[]])]), (0, [(2, [[1]])]), (2, [(1, [[]])])], [0, 2]⟩, [(6, 0), (5, 1)], [(9, 2)]) := by decide
-- overlapping state numbers, pre-filled left map: the counter starts above it
example : unionStoreCoded sA sB5 [(5, 0), (6, 1)] [] =
    (⟨[(0, [(0, [[]])]), (1, [(2, [[0]])]), (2, [(1, [[]])])], [1, 2]⟩, [(5, 0), (6, 1)], [(5, 2)]) := by decide
example : accepts (toTA (unionStoreCoded sA sB5 [(5, 0), (6, 1)] []).1) tHA = true ∧
    accepts (toTA (unionStoreCoded sA sB5 [(5, 0), (6, 1)] []).1) tB = true ∧
    accepts (toTA (unionStoreCoded sA sB5 [(5, 0), (6, 1)] []).1) tA = false ∧
    accepts (toTA (unionStoreCoded sA sB5 [(5, 0), (6, 1)] []).1) tHB = false := by decide
example (t : Tree) : accepts (toTA (unionStoreCoded sA sB5 [(5, 0), (6, 1)] []).1) t = (accepts (toTA sA) t || accepts (toTA sB5) t) :=
  C02_store_union_lang sA sB5 _ _ (smapInjB_sound (by decide)) Um.inj_nil (Um.disj_nil_right _) t

/-- regression (D11): the code before the repair starts the counter at `0`; with the caller's map `5 ↦ 0, 6 ↦ 1` the state of the
right operand gets the number `0` as well and the result accepts `h(b)`, which is in neither language -/
theorem old_code_refuted :
    (unionStoreCodedOld sA sB5 [(5, 0), (6, 1)] []).2 = ([(5, 0), (6, 1)], [(5, 0)]) ∧
    accepts (toTA (unionStoreCodedOld sA sB5 [(5, 0), (6, 1)] []).1) tHB = true ∧
    accepts (toTA sA) tHB = false ∧ accepts (toTA sB5) tHB = false := by decide

/-- a seeded slip – one counter PER translator – is refuted without any pre-filled map -/
theorem two_counters_refuted :
    (unionStoreCodedTwoCounters sA sB [] []).2 = ([(6, 0), (5, 1)], [(9, 0)]) ∧
    accepts (toTA (unionStoreCodedTwoCounters sA sB [] []).1) tB = true ∧
    accepts (toTA (unionStoreCodedTwoCounters sA sB [] []).1) tHB = false ∧
    accepts (toTA (unionStoreCodedTwoCounters sA sB [] []).1) (.node 2 [.node 2 [.node 0 []]]) = false ∧
    (toTA (unionStoreCodedTwoCounters sA sB [] []).1).final = [0] ∧
    (toTA (unionStoreCoded sA sB [] []).1).final = [0, 2] := by decide

/-- the hypothesis `Um.Disj mL mR` of `C02_store_union_lang` cannot be dropped (it is the API precondition on caller-supplied maps):
with `5 ↦ 0` on the left and `9 ↦ 0` on the right (each map injective) the two operands are merged and `h(b)` is accepted -/
theorem union_disj_needed :
    smapInjB [(5, 0), (6, 1)] = true ∧ smapInjB [(9, 0)] = true ∧ smapDisjB [(5, 0), (6, 1)] [(9, 0)] = false ∧
    accepts (toTA (unionStoreCoded sA sB [(5, 0), (6, 1)] [(9, 0)]).1) tHB = true ∧
    accepts (toTA sA) tHB = false ∧ accepts (toTA sB) tHB = false := by decide

/-- … and neither can injectivity: `5 ↦ 0, 6 ↦ 0` collapses the left operand, `h(h(a))` is accepted -/
theorem union_inj_needed :
    smapInjB [(5, 0), (6, 0)] = false ∧
    accepts (toTA (unionStoreCoded sA sB [(5, 0), (6, 0)] []).1) (.node 2 [.node 2 [.node 0 []]]) = true ∧
    accepts (toTA sA) (.node 2 [.node 2 [.node 0 []]]) = false ∧
    accepts (toTA sB) (.node 2 [.node 2 [.node 0 []]]) = false := by decide

end StoreUnionEx

/-! ## 2. `UnionDisjointStates` -/

/-- `UnionDisjointStates` for operands that satisfy the store invariant and have DISJOINT state sets (the API precondition): the
result is the concatenation of the cluster maps and final-state sets, satisfies the invariant, both `assert`s hold, and it accepts
exactly the union of the languages -/
theorem C02_store_uniondisj_lang (A B : Store) (hA : Inv A) (hB : Inv B)
    (hdis : ∀ q, q ∈ (toTA A).states → q ∉ (toTA B).states) :
    unionDisjStoreCoded A B = ⟨A.clusters ++ B.clusters, A.final ++ B.final⟩ ∧
    toTA (unionDisjStoreCoded A B) = unionDisjoint (toTA A) (toTA B) ∧
    Inv (unionDisjStoreCoded A B) ∧ unionDisjStoreCodedDbg A B = some (unionDisjStoreCoded A B) ∧
    (∀ t, accepts (toTA (unionDisjStoreCoded A B)) t = (accepts (toTA A) t || accepts (toTA B) t)) := by
  have he := unionDisj_eq A B hA hB hdis
  have ht : toTA (unionDisjStoreCoded A B) = unionDisjoint (toTA A) (toTA B) := by
    rw [he]
    simp [toTA, unionDisjoint, iterate, List.flatMap_append]
  refine ⟨he, ht, unionDisj_inv A B hA hB hdis, ?_, ?_⟩
  · unfold unionDisjStoreCodedDbg unionDisjAssertsB
    rw [he]
    simp
  · intro t
    rw [ht]
    exact unionDisjoint_lang _ _ hdis t

namespace StoreUnionEx

example : ∀ q, q ∈ (toTA sA).states → q ∉ (toTA sB).states := by decide
example : unionDisjStoreCoded sA sB = ⟨[(5, [(0, [[]])]), (6, [(2, [[5]])]), (9, [(1, [[]])])], [6, 9]⟩ := by decide

/-- the precondition cannot be dropped: when the operands SHARE a parent state (`5`) `unordered_map::insert` keeps the LEFT cluster
and the rule `b → 5` of the right operand is lost: `b` is accepted by the right operand but not by the result.  The debug build
stops at the first `assert`; a release build (`NDEBUG`) returns the wrong automaton silently.  (The `operator[]`-style variant
that overwrites loses the LEFT rules instead.) -/
theorem C02_store_uniondisj_shared_parent_loses_rules :
    invB sA = true ∧ invB sB5 = true ∧
    unionDisjStoreCoded sA sB5 = ⟨[(5, [(0, [[]])]), (6, [(2, [[5]])])], [6, 5]⟩ ∧
    accepts (toTA sB5) tB = true ∧ accepts (toTA (unionDisjStoreCoded sA sB5)) tB = false ∧
    unionDisjStoreCodedDbg sA sB5 = none ∧
    accepts (toTA sA) tA = false ∧ accepts (toTA (unionDisjStoreCoded sA sB5)) tA = true ∧
    accepts (toTA (unionDisjStoreOverwrite sA sB5)) tHA = false := by decide

/-- the general `Union` handles the same operands correctly -/
example (t : Tree) : accepts (toTA (unionStoreCoded sA sB5 [] []).1) t = (accepts (toTA sA) t || accepts (toTA sB5) t) :=
  C02_store_union_lang sA sB5 [] [] Um.inj_nil Um.inj_nil (Um.disj_nil_left _) t

end StoreUnionEx

/-! ## 3. `Intersection` -/

/-- `Intersection` on the store IS the relation-level model `isectTD` with its rules added to the result store one by one in
discovery order (an EQUATION of stores, maps and failure); hence for a returned `(S, m)`: the same translation map, the iterator of
`S` yields exactly the model's rules, the final states are the model's, and `S` satisfies the store invariant -/
theorem C02_store_isect_eq_model (A B : Store) (fuel : Nat) :
    isectStoreCoded A B fuel =
      (isectTD (toTA A) (toTA B) fuel).map (fun r => (r.1.rules.foldl addTransition (setFinals empty r.1.final), r.2)) ∧
    ∀ S m, isectStoreCoded A B fuel = some (S, m) →
      ∃ P, isectTD (toTA A) (toTA B) fuel = some (P, m) ∧ Inv S ∧ (iterate S).Nodup ∧
        (∀ x, x ∈ iterate S ↔ x ∈ P.rules) ∧ (∀ q, q ∈ S.final ↔ q ∈ P.final) := by
  refine ⟨isectStoreCoded_eq A B fuel, fun S m h => ?_⟩
  obtain ⟨P, h1, _, h3, h4, h5⟩ := isectStoreCoded_spec h
  exact ⟨P, h1, h3, nodup_iterate h3, h4, h5⟩

/-- every answer of `Intersection` on the store accepts exactly the intersection, and its map is injective on its domain -/
theorem C02_store_isect_lang {A B : Store} {fuel : Nat} {S : Store} {m : PMap} (h : isectStoreCoded A B fuel = some (S, m)) :
    (∀ t, accepts (toTA S) t = (accepts (toTA A) t && accepts (toTA B) t)) ∧ InjOn (lookupF m) m.dom := by
  obtain ⟨P, h1, _, _, h4, h5⟩ := isectStoreCoded_spec h
  refine ⟨fun t => ?_, isectTD_map_inj h1⟩
  rw [Isx.accepts_congr_sets (P := toTA S) (Q := P) h4 h5 t]
  exact isectTD_lang h1 t

/-- totality: with the fuel `|Q_A|·|Q_B| + 1` there is always an answer -/
theorem C02_store_isect_total (A B : Store) : (isectStoreCodedRef A B).isSome = true := by
  unfold isectStoreCodedRef
  rw [isectStoreCoded_eq]
  have := isectTDRef_isSome (toTA A) (toTA B)
  unfold isectTDRef at this
  rw [Option.isSome_map]
  exact this

namespace StoreUnionEx
open IsectEx

/-- the stores of `IsectEx.exA`, `IsectEx.exB` -/
def iA : Store := ofTA exA
def iB : Store := ofTA exB

example : (toTA iA).rules = exA.rules ∧ (toTA iA).final = exA.final ∧ rulesEq (toTA iB).rules exB.rules = true ∧
    (toTA iB).final = exB.final ∧ invB iA = true ∧ invB iB = true := by decide
example : (isectStoreCoded iA iB 3).isNone = true := by decide
example : isectStoreCoded iA iB 4 =
    some (⟨[(0, [(2, [[1, 1], [2, 1]]), (3, [[3]])]), (3, [(3, [[0]])]), (1, [(0, [[]])])], [0]⟩,
      [((1, 1), 0), ((0, 0), 1), ((0, 1), 2), ((1, 2), 3)]) := by decide
example : ∃ S m, isectStoreCoded iA iB 4 = some (S, m) ∧ accepts (toTA S) exT = true ∧ accepts (toTA S) exT' = false := by
  cases h : isectStoreCoded iA iB 4 with
  | none => exact absurd h (by decide)
  | some r =>
    refine ⟨r.1, r.2, rfl, ?_, ?_⟩
    · rw [(C02_store_isect_lang h).1]; decide
    · rw [(C02_store_isect_lang h).1]; decide

end StoreUnionEx

/-!
## Hypotheses

* `Um.Inj mL`, `Um.Inj mR`, `Um.Disj mL mR` in `C02_store_union_lang`: the precondition on caller-supplied maps; satisfiable
  (`[]`/`[]`, the examples, and the maps any previous call returned – `C02_store_union_maps`); neither can be dropped
  (`union_disj_needed`, `union_inj_needed`).  `C02_store_union_eq_model`, `_image` and the `Ext` / totality part of `_maps` need NO
  hypothesis (any stores, any maps).
* `Inv A`, `Inv B` in `C02_store_union_inv` / `C14_store_reindex_weak_exact`: a source with an empty cluster makes `uniqueCluster`
  create an empty cluster in the result, so the full invariant of the result genuinely depends on that of the operands; `Inv` holds
  for every store built through the API (`store_inv`).
* `C02_store_uniondisj_lang`: `Inv A`, `Inv B` and disjoint state sets; the disjointness cannot be dropped
  (`C02_store_uniondisj_shared_parent_loses_rules`).
* `C02_store_isect_lang`: none beyond "the call returned" (`some`); `C02_store_isect_total` shows the fuel of `isectStoreCodedRef`
  always suffices.

## still not proved

* `C02_store_union_eq_unionModel` (equality with `unionModel`'s own list order) needs `Inv A`, `Inv B` (a store with an empty
  cluster looks up a parent the rule list does not mention); without them only the `lookupOrder` instance
  (`C02_store_union_eq_model`) is proved – all map / language properties are proved for that instance without any invariant.
* `UnionDisjointStates`: the pointer sharing between `rhs` and the result (a later in-place change through one of them) is outside
  this value-level model (it is the subject of `Vata/CowHeapX.lean`); the link between `unionDisjStoreCoded` and `CowHeapX.unionDisj`
  is not stated.
* `Intersection`: the operand-side lookups (`genericLookup` of the two clusters, of the right tuple set) are modelled by
  `isectMatching` on the iterated rule lists, not by store lookups; that the nested store loops enumerate the same pairs IN THE
  SAME ORDER (needed for the equality of the maps with the real C++ beyond the order parameter) is not proved.  The `uniqueCluster`
  / `uniqueTuplePtrSet` calls of `Intersection` before the tuple loops are folded into the insert (for tuple sets of mixed arity
  under one symbol the C++ would leave an empty tuple set where the model leaves none; the C++ `assert`s equal arities).
* The exact-fold theorem `C14_store_reindex_weak_exact` is stated for the weak counter translator with `addFinalStates = true` (what
  `Union` uses); the same proof (`reindexInto_opt_exact`) covers every lawful translator that does not throw, but the general
  statement is not exported.
-/
end Vata.Props
