import Vata.Proofs.BddSim
import Vata.Proofs.InclDown
import Vata.Proofs.InclDownInv
import Vata.Proofs.InclDownTotal
import Vata.Proofs.Sanitize
import Vata.Proofs.UsefulAux
/-!
# C07 – the relation `ComputeSimulation` computes on a bottom-up BDD automaton, and the inclusion pruned by it

`BDDBUTreeAutCore::CheckInclusion`, case `ANTICHAINS_DOWN_REC_SIM` ("downward + simulation"), sanitises both operands
(`A'`, `B'`, `n` states in all), forms `U = UnionDisjointStates(A', B')`, calls
`U.ComputeSimulation(TA_DOWNWARD, SetNumStates(n))` – i.e. `BDDBUTreeAutCore::ComputeDownwardSimulation(n)` – converts both
operands to the top-down encoding and runs the recursive downward inclusion with that relation as the pruning preorder.
`Vata/Properties/C07.lean` (`C07_bu_downward_sim_exact`) models the relation by the reference `downSimRef U`; here it is
the model of the code as written, `Vata.BddSim.bddDownSim U n` (`Vata/BddSim.lean`, theorems `Vata/Proofs/BddSim.lean`;
checked against the real function by the `bddsim` cases: `harness/op_bddsim.inc`, `Driver/BddSimChk.lean`).
-/
namespace Vata.Props
open Vata Vata.InclUp

/-- the relation returned by `ComputeDownwardSimulation(n)` is a downward simulation on the automaton (every related
pair passes the transfer condition), whatever iteration order the hash containers produce -/
theorem C07_bddsim_simulation {A : TA} {n fuel : Nat} {o : BddSim.Order} (ok : o.Ok A) {R : Rel}
    (h : BddSim.bddDownSimOrd A n o fuel = some R) : isDownSimB A R = true ∧ DownSim A (RelOf R) :=
  ⟨(isDownSimB_iff A R).mpr (BddSim.bddDownSimOrd_spec ok h).1, (BddSim.bddDownSimOrd_spec ok h).1⟩

example : BddSim.bddDownSimOrd BddSimEx.exB 7 (BddSim.stdOrder BddSimEx.exB) 25 ≠ none ∧
    (BddSim.stdOrder BddSimEx.exB).Ok BddSimEx.exB := ⟨by decide, BddSim.stdOrder_ok _⟩

/-- … exactly the greatest downward simulation of the automaton restricted to the states that own a top-down entry
(final states and states that occur in a children tuple); in particular it is contained in the greatest one, reflexive
on those states and transitive, and a state that is only a parent of rules is unrelated even to itself -/
theorem C07_bddsim_greatest_on_entry_states {A : TA} {n fuel : Nat} {R : Rel}
    (h : BddSim.bddDownSim A n fuel = some R) :
    (∀ q r, (q, r) ∈ R ↔ q ∈ BddSim.tdStates A ∧ r ∈ BddSim.tdStates A ∧ (q, r) ∈ downSimRef A) ∧
    (∀ q, (q, q) ∈ R ↔ q ∈ A.final ∨ ∃ ρ, ρ ∈ A.rules ∧ q ∈ ρ.kids) ∧
    (∀ a b c, (a, b) ∈ R → (b, c) ∈ R → (a, c) ∈ R) :=
  ⟨bddDownSim_char h, fun q => (bddDownSim_refl h q).trans BddSim.mem_tdStates,
    fun _ _ _ hab hbc => bddDownSim_trans h hab hbc⟩

example : (BddSim.bddDownSim BddSimEx.exB 7 25).map (fun R => relEq R BddSimEx.exR) = some true ∧
    (6, 6) ∉ BddSimEx.exR ∧ (6, 6) ∈ downSimRef BddSimEx.exB := by decide

/-- the relation does not depend on the iteration orders the code leaves to the hash containers and the MTBDD
traversal, nor on the order in which pairs are taken out of `remove`; nor on "ghost" keys of the table (tuples whose MTBDD
is empty everywhere, left behind by `RemoveUselessStates`) as long as the same states own a top-down entry -/
theorem C07_bddsim_order_independent {A : TA} {n n' fuel fuel' : Nat} {o o' : BddSim.Order} (ok : o.Ok A)
    (ok' : o'.Ok A) (hQ : ∀ q, q ∈ o.Q ↔ q ∈ o'.Q) {R R' : Rel} (h : BddSim.bddDownSimOrd A n o fuel = some R)
    (h' : BddSim.bddDownSimOrd A n' o' fuel' = some R') : relEq R R' = true :=
  BddSim.bddDownSimOrd_order_indep ok ok' hQ h h'

example : (BddSim.revOrder BddSimEx.exB (fun k => 7 * k + 3)).Ok BddSimEx.exB ∧
    (∀ q, q ∈ (BddSim.stdOrder BddSimEx.exB).Q ↔ q ∈ (BddSim.revOrder BddSimEx.exB (fun k => 7 * k + 3)).Q) ∧
    BddSim.bddDownSimOrd BddSimEx.exB 9 (BddSim.revOrder BddSimEx.exB (fun k => 7 * k + 3)) 30 ≠ none :=
  ⟨BddSim.revOrder_ok _, fun q => by simp [BddSim.revOrder, BddSim.stdOrder], by decide⟩

/-- the refinement loop terminates: at most (number of tuples of the table)² iterations, for every iteration order;
`none` is returned only for a state outside the matrix -/
theorem C07_bddsim_terminates {A : TA} {n fuel : Nat} {o : BddSim.Order} (ok : o.Ok A)
    (hf : o.T.length * o.T.length ≤ fuel) :
    ((∀ q, q ∈ A.states ∨ q ∈ o.Q → q < n) → ∃ R, BddSim.bddDownSimOrd A n o fuel = some R) ∧
    (BddSim.bddDownSimOrd A n o fuel = none ↔ ∃ q, (q ∈ A.states ∨ q ∈ o.Q) ∧ n ≤ q) :=
  ⟨fun hn => BddSim.bddDownSimOrd_total ok (fun q hq => hn q (Or.inl hq)) (fun q hq => hn q (Or.inr hq)) hf,
    BddSim.bddDownSimOrd_none ok hf⟩

example : (∀ q, q ∈ BddSimEx.exB.states → q < 7) ∧ BddSim.fuelBound BddSimEx.exB = 25 := by decide

/-- **the pruned inclusion is exact**: the recursive downward inclusion model (`inclDownSim`, `Vata/InclDown.lean`) run with
ANY relation the simulation code returns for the disjoint union of disjoint operands passes its validation of the
relation, so every verdict is exact; and when the rule children of the left operand are productive it returns the
right verdict for every fuel above the bound.  The model needs of the relation only (a) – reflexivity is supplied by the
comparison functions themselves (`ordOf`: `q == r || …`), transitivity is not used by the recursive variant -/
theorem C07_bddsim_pruned_inclusion_exact {A' B' : TA} {n fuel₀ : Nat} {o : BddSim.Order}
    (ok : o.Ok (unionDisjoint A' B')) {R : Rel} (h : BddSim.bddDownSimOrd (unionDisjoint A' B') n o fuel₀ = some R)
    (hdis : InclDown.disjointB A' B' = true) :
    (∀ fuel b c, inclDownSim A' B' R fuel = some (b, c) → (b = true ↔ Incl A' B')) ∧
    (InclDown.KidsProductive A' → ∀ fuel, InclDown.fuelBoundD A' B' < fuel →
      (Incl A' B' → ∃ c, inclDownSim A' B' R fuel = some (true, c)) ∧
      (¬ Incl A' B' → ∃ c, inclDownSim A' B' R fuel = some (false, c))) :=
  ⟨fun _ _ _ hv => inclDownSim_iff hv,
    fun hK _ hf => inclDownSim_complete hK (C07_bddsim_simulation ok h).1 hdis hf⟩

/-- the non-recursive variant additionally asks for transitivity: the computed relation has it -/
theorem C07_bddsim_transitive {A : TA} {n fuel : Nat} {o : BddSim.Order} (ok : o.Ok A) {R : Rel}
    (h : BddSim.bddDownSimOrd A n o fuel = some R) : ∀ a b c, (a, b) ∈ R → (b, c) ∈ R → (a, c) ∈ R := by
  intro a b c hab hbc
  rw [BddSim.bddDownSimOrd_greatest ok h] at hab hbc ⊢
  obtain ⟨ha, _, S, hS, hab⟩ := hab
  obtain ⟨_, hc, S', hS', hbc⟩ := hbc
  exact ⟨ha, hc, _, SimModel.downSim_comp A hS hS', b, hab, hbc⟩

theorem tdReachable_entry {A : TA} {q : Nat} (h : TdReachable A q) : q ∈ BddSim.tdStates A := by
  rw [BddSim.mem_tdStates]
  cases h with
  | final hf => exact Or.inl hf
  | step hr _ hk => exact Or.inr ⟨_, hr, hk⟩

/-- in a disjoint union of automata without useless states every state owns a top-down entry -/
theorem entry_of_useful_union {A' B' : TA} (hA : ∀ q, Occurs A' q → UsefulState A' q)
    (hB : ∀ q, Occurs B' q → UsefulState B' q) :
    ∀ q, q ∈ (unionDisjoint A' B').states → q ∈ BddSim.tdStates (unionDisjoint A' B') := by
  intro q hq
  rw [SimModel.mem_states] at hq
  have key : Occurs A' q ∨ Occurs B' q := by
    rcases hq with h | ⟨r, hr, h⟩
    · rcases List.mem_append.mp h with h | h
      · exact Or.inl (Or.inl h)
      · exact Or.inr (Or.inl h)
    · rcases List.mem_append.mp hr with hr | hr
      · exact Or.inl (Or.inr ⟨r, hr, h⟩)
      · exact Or.inr (Or.inr ⟨r, hr, h⟩)
  rw [BddSim.mem_tdStates]
  rcases key with h | h
  · rcases BddSim.mem_tdStates.mp (tdReachable_entry (UsefulAux.usefulState_good (hA q h)).2) with k | ⟨r, hr, k⟩
    · exact Or.inl (List.mem_append_left _ k)
    · exact Or.inr ⟨r, List.mem_append_left _ hr, k⟩
  · rcases BddSim.mem_tdStates.mp (tdReachable_entry (UsefulAux.usefulState_good (hB q h)).2) with k | ⟨r, hr, k⟩
    · exact Or.inl (List.mem_append_right _ k)
    · exact Or.inr ⟨r, List.mem_append_right _ hr, k⟩

/-- **the route of the bottom-up selection "downward + simulation", with the relation as the code computes it.**
`(A', B', n) = sanitize A B`, `U` their disjoint union: the simulation code returns a relation `R` within `fuelBound U`
iterations (all states are below `n`); on `U` – no useless states – `R` is the greatest downward simulation `downSimRef U`
(no pair is lost for want of a top-down entry); the recursive downward inclusion pruned by `R` answers the ORIGINAL
question exactly, and does answer for every fuel above its bound.  No hypothesis is left -/
theorem C07_bddsim_bu_downward_sim_exact (A B A' B' U : TA) (n : Nat) (hA' : A' = (sanitize A B).1)
    (hB' : B' = (sanitize A B).2.1) (hn : n = (sanitize A B).2.2) (hU : U = unionDisjoint A' B') :
    ∃ R, BddSim.bddDownSim U n (BddSim.fuelBound U) = some R ∧ relEq R (downSimRef U) = true ∧
      (∀ fuel b c, inclDownSim A' B' R fuel = some (b, c) → (b = true ↔ Incl A B)) ∧
      (∀ fuel, InclDown.fuelBoundD A' B' < fuel →
        (Incl A B → ∃ c, inclDownSim A' B' R fuel = some (true, c)) ∧
        (¬ Incl A B → ∃ c, inclDownSim A' B' R fuel = some (false, c))) := by
  subst hA' hB' hn hU
  have hbound : ∀ q, q ∈ (unionDisjoint (sanitize A B).1 (sanitize A B).2.1).states → q < (sanitize A B).2.2 := by
    intro q hq
    apply sanitize_bound A B q
    rw [SimModel.mem_states] at hq
    rcases hq with h | ⟨r, hr, h⟩
    · rcases List.mem_append.mp h with h | h
      · exact Or.inl (SimModel.final_mem_states h)
      · exact Or.inr (SimModel.final_mem_states h)
    · rcases List.mem_append.mp hr with hr | hr
      · rcases h with h | h
        · exact Or.inl (h ▸ SimModel.parent_mem_states hr)
        · exact Or.inl (SimModel.kid_mem_states hr h)
      · rcases h with h | h
        · exact Or.inr (h ▸ SimModel.parent_mem_states hr)
        · exact Or.inr (SimModel.kid_mem_states hr h)
  obtain ⟨R, hR⟩ := bddDownSim_total hbound (Nat.le_refl _)
  have hK : InclDown.KidsProductive (sanitize A B).1 := (trimmed_of_allUsefulB (sanitize_trimmed A B).1).1
  have hdis : InclDown.disjointB (sanitize A B).1 (sanitize A B).2.1 = true :=
    InclDown.disjointB_iff.mpr (sanitize_disjoint A B)
  have hq := checkIncl_sanitized A B
  have huse := sanitize_useful A B
  refine ⟨R, hR, bddDownSim_eq_downSimRef hR (entry_of_useful_union huse.1.1 huse.2.1), ?_, ?_⟩
  · exact fun fuel b c h => (inclDownSim_iff h).trans hq
  · intro fuel hf
    have h3 := inclDownSim_complete hK (bddDownSim_downSim hR) hdis hf
    rw [hq] at h3
    exact h3

-- operands that overlap (state 7 in both), the first not trimmed: the simulation code runs on the sanitised union and
-- the pruned inclusion gives both verdicts
example : ((BddSim.bddDownSim (unionDisjoint (sanitize SanEx.exA SanEx.exB).1 (sanitize SanEx.exA SanEx.exB).2.1)
      (sanitize SanEx.exA SanEx.exB).2.2 20).bind
    (fun R => inclDownSim (sanitize SanEx.exA SanEx.exB).1 (sanitize SanEx.exA SanEx.exB).2.1 R 20)).map (·.1) = some true := by
  decide
example : ((BddSim.bddDownSim (unionDisjoint (sanitize SanEx.exB SanEx.exA).1 (sanitize SanEx.exB SanEx.exA).2.1)
      (sanitize SanEx.exB SanEx.exA).2.2 20).bind
    (fun R => inclDownSim (sanitize SanEx.exB SanEx.exA).1 (sanitize SanEx.exB SanEx.exA).2.1 R 20)).map (·.1) = some false := by
  decide

/-!
## what this file closes / leaves open in `Vata/Properties/C07.lean` ("not yet proved")

* closes, at the rule-set abstraction, the last sentence of the item "The `SIM` selections …": *"That the relation computed
  by `ComputeSimulation` on the BDD union inside the bottom-up route is `downSimRef` of the union is C04 (explicit encoding;
  the BDD simulation code has no model)"* – the BDD simulation code now has a model (`Vata.BddSim.bddDownSim`), the model is
  proved to return `downSimRef` on the sanitised union (`C07_bddsim_bu_downward_sim_exact`) and, on arbitrary automata, the
  greatest simulation restricted to the states with a top-down entry (`C07_bddsim_greatest_on_entry_states`);
* still open (item "The encodings themselves"): the model reads the MTBDDs as functions symbol ↦ leaf; that the apply
  functors of the real MTBDD package act pointwise is taken from C10/C08 (`Vata/Proofs/MtbddOps.lean`), not re-proved
  here.  The three views the model takes of the automaton are linked to the MTBDD-level table models of C08 by
  `BddSim.tuples_bridge`, `BddSim.tdStates_bridge`, `BddSim.up_bridge`; the link from the model to the C++ is the `bddsim`
  correspondence check.
-/
end Vata.Props
