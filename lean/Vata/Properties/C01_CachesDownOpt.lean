import Vata.Proofs.FunctorCachesDownOptRun
import Vata.Proofs.FunctorCachesDownNonrec
import Vata.Properties.C01_CachesDown
/-!
# C01 / C07 – the caches and containers of `OptDownwardInclusionFunctor` and of the non-recursive downward algorithm are
transparent (library's deleter)

(second part of the file: the non-recursive algorithm, with its own header)

Property text served: C01 "each implemented inclusion algorithm of the explicit encoding returns true exactly when …" and C07
(the same for the BDD encodings) – for the selections `ANTICHAINS_DOWN_REC_OPT_NOSIM` / `ANTICHAINS_DOWN_REC_OPT_SIM`
(`src/explicit_tree_incl.cc`, `src/bdd_td_tree_aut_incl.cc`: `CheckDownwardTreeInclusion<…, OptDownwardInclusionFunctor, …>`).
The cache-free model is `inclDownOpt` (= `inclDownRec` by definition) / `inclDownSim` of `Vata/InclDown.lean`.

## Does the `Opt` functor compute something else?  (the code was read, `src/down_tree_opt_incl_fctor.hh`)

* VERDICT: no.  Its only additional test is `isInclusionImplied` on the global antichain `incl_`; `incl_` is filled by
  `processFoundGlobalInclusion` only, which runs over the elements of `consequent`; a `consequent` only ever receives the
  consequents returned by sub-calls (`cons_.insert(cons.begin(), cons.end())`), and every returned consequent is either
  `ConsequentType()` or such a local – so all of them are empty and `incl_` is never filled.  This is PROVED on the as-coded
  model (`incl_`, `cons_`, the returned tuples and the loop are all in the model; "`cons_` and `incl_` are empty" is part of the
  simulation invariant `FCD.DRelO`, and `C01_downward_opt_memo_sound` states it for the end of a run).
* HEAP and `lteCache`: yes.  A hit in the work-set returns the work-set element as antecedent; the calling functor merges every
  returned antecedent into its `ant_` (`Antichain2Cv2::get` / `contains` / `refine` / `insert` with `smallerComparer_`, i.e.
  through `lteCache`), and `ant_` is the `antecedent` of the enclosing `expand` (of `CheckDownwardTreeInclusion` for the root
  functor – never cleared).  So macro-states live longer and `lteCache` gets more entries than with the plain functor
  (example below: 2 live objects / 2 entries at the end against 1 / 0).  The theorem says this does not change any answer.

## How the C++ is read into the model (`Vata/FunctorCachesDownOpt.lean`)

* `FCD.runO o w pick A B fuel` = `CheckDownwardTreeInclusion<Aut, OptDownwardInclusionFunctor, Rel>`: `rootLoopO` (the root
  functor with its `childrenCache_`, `antecedent`, `consequent` shared by all turns), `expandO` (the five early exits in the
  order of the code, `isInWorkset` returning the element, the inner functor, `processFoundInclusion` /
  `processFoundNoninclusion`, the `antecedent.empty()` block, the returned tuple), `wrapO` (what `operator()` does around a call
  of `expand`: the temporary `biggerTypeCache_.lookup(..)`, on success the merge loop `antMergeC` and `cons_.insert`), `bodyG`
  (the control flow of `operator()`, the one of `InclDown.body`).
* `o`, `w`, `pick`, heap, deaths: as in `C01_CachesDown.lean`; the `hCollect`s are at the end of `expand` and where
  `operator()` leaves the block of the call, with all existing handles as roots (work-set, `key`, for every functor on the stack
  its `childrenCache_`, `ant_`, `cons_`, and `nonIncl_`, `incl_`).
* covered: explicit (C01) and top-down BDD (C07) instantiation of the shared template, with and without preorder.

## What is abstracted

As in `C01_CachesDown.lean`: iteration orders of hash containers / of `std::set<pair<state, shared_ptr>>` (list order;
`Antichain2Cv2::get` pops the head), reference counters (deaths by their effect), the ghost data of `InclDown`.
-/
namespace Vata.Props
open Vata Vata.InclDown Vata.FCD Vata.CM
open Vata.FCU (Heap hval pickLeast)

/-- **`ANTICHAINS_DOWN_REC_OPT_*`: `biggerTypeCache`, `lteCache`, `incl_`, the antecedents and consequents are transparent –
for every allocator.**  With the library's deleter, `CheckDownwardTreeInclusion` with `OptDownwardInclusionFunctor` as coded
returns, for all operands, every fuel and every allocator `pick`, exactly what the cache-free models return: `inclDownOpt`
(same verdict, same certificate, `none` at the same fuel), `inclDownSim` with a relation, and the exploration alone for any
preorder `o` with a reflexive `leB` – verdict, `nonIncl_` by value, ghost set; moreover the raw verdict is that of the plain
functor run with its caches and any other allocator.

Hypothesis `∀ q, o.leB q q = true`: as in `C01_downward_caches_transparent` (pointer equality in `SetComparerSmaller`); it
holds for `idOrd` and every `ordOf R A B` and cannot be dropped (`C01_downward_opt_refl_needed`). -/
theorem C01_downward_opt_caches_transparent (pick : List Nat → Nat) (A B : TA) (fuel : Nat) :
    checkInclDownOptC .lib pick A B fuel = inclDownOpt (removeUseless A) (removeUseless B) fuel ∧
    inclDownOptC .lib pick A B fuel = inclDownOpt A B fuel ∧
    (∀ R : Rel, inclDownOptSimC .lib pick A B R fuel = inclDownSim A B R fuel) ∧
    (∀ o : Ord, (∀ q, o.leB q q = true) →
      viewO (FCD.runO o .lib pick A B fuel) =
        rootLoop o A B (InclUp.prodWit A) fuel (InclUp.normS B.final) (dedup A.final) [] ⟨[], []⟩ ∧
      truesOfO (FCD.runO o .lib pick A B fuel) = InclDown.run o A B fuel ∧
      ∀ pick', rawVerdictO (FCD.runO o .lib pick A B fuel) = rawVerdictD (FCD.runC o .lib pick' A B fuel)) :=
  ⟨checkInclDownOpt_cached_eq pick A B fuel, inclDownOpt_cached_eq pick A B fuel,
    fun R => inclDownOptSim_cached_eq pick A B R fuel,
    fun _ hr => ⟨runO_eq hr pick A B fuel, truesOfO_runO_eq hr pick A B fuel,
      fun pick' => rawVerdictO_eq_plain hr pick pick' A B fuel⟩⟩

-- non-vacuity: runs in which macro-states die, their addresses are reused at once and `lteCache` is filled and purged
example : (checkInclDownOptC .lib pickLeast FCDEx.exA FCDEx.exB 20).map (·.1) = some false := by decide +kernel
example : (inclDownOptC .lib pickLeast FCDEx.exA FCDEx.exB2 20).map (·.1) = some true := by decide +kernel
example : (inclDownOptSimC .lib pickLeast InclDownEx.exS1 InclDownEx.exS2 [(5, 6)] 10).map (·.1) = some true := by
  decide +kernel

namespace OptEx
/-- `g(0) → 0`, `h(0) → 0`, `c → 0` -/
def exA2 : TA := ⟨[⟨1, [0], 0⟩, ⟨2, [0], 0⟩, ⟨0, [], 0⟩], [0]⟩
def exB3 : TA := ⟨[⟨1, [11], 10⟩, ⟨1, [12], 10⟩, ⟨2, [11], 10⟩, ⟨2, [12], 10⟩, ⟨0, [], 10⟩,
  ⟨1, [11], 11⟩, ⟨1, [12], 11⟩, ⟨2, [12], 11⟩, ⟨1, [12], 12⟩, ⟨2, [11], 12⟩, ⟨2, [12], 12⟩, ⟨0, [], 12⟩, ⟨0, [], 11⟩], [10]⟩
end OptEx

/-- **the `Opt` functor is a different computation on the heap**: on `exA2 ⊆ exB3` (same allocator, library's deleter, both
answer `true`) it ends with two live macro-states and two `lteCache` entries – handles kept by the root functor's antecedent,
entries made by the merge loop – where the plain functor ends with one object and an empty `lteCache` -/
theorem C01_downward_opt_heap_differs :
    (finalHeapO (FCD.runO idOrd .lib pickLeast OptEx.exA2 OptEx.exB3 30)).map (fun h => (h.store, h.lte.store.length)) =
      some ([(0, [11]), (1, [12])], 2) ∧
    (finalHeapD (FCD.runC idOrd .lib pickLeast OptEx.exA2 OptEx.exB3 30)).map (fun h => (h.store, h.lte.store.length)) =
      some ([(0, [11])], 0) ∧
    rawVerdictO (FCD.runO idOrd .lib pickLeast OptEx.exA2 OptEx.exB3 30) = some true := by
  refine ⟨by decide +kernel, by decide +kernel, by decide +kernel⟩

/-- … in the form of `C01_downward_rec_model_exact`: exact and total with all caches, for every allocator -/
theorem C01_downward_opt_cached_exact (pick : List Nat → Nat) (A B : TA) :
    (∀ fuel b c, checkInclDownOptC .lib pick A B fuel = some (b, c) → (b = true ↔ Incl A B)) ∧
    (∀ fuel, InclDown.fuelBoundD (removeUseless A) (removeUseless B) < fuel →
      (Incl A B → ∃ c, checkInclDownOptC .lib pick A B fuel = some (true, c)) ∧
      (¬ Incl A B → ∃ c, checkInclDownOptC .lib pick A B fuel = some (false, c))) := by
  have e : ∀ fuel, checkInclDownOptC .lib pick A B fuel = checkInclDownRec A B fuel :=
    fun fuel => checkInclDownOpt_cached_eq pick A B fuel
  simp only [e]
  exact C01_downward_rec_model_exact A B

example : (checkInclDownOptC .lib pickLeast FCDEx.exA FCDEx.exB2 20).map (·.1) = some true := by decide +kernel

/-- **the invariant behind it, and `incl_` is never filled**: at the end of every run that returns `true` (library's deleter,
every allocator, every preorder with reflexive `leB`) every entry of `lteCache` mentions two LIVE macro-states and stores
`NonCachedLte` of the values now at those addresses, and the global cache `incl_` is empty -/
theorem C01_downward_opt_memo_sound (o : Ord) (hr : ∀ q, o.leB q q = true) (pick : List Nat → Nat) (A B : TA) (fuel : Nat)
    (s : StO) (hf : FCD.runO o .lib pick A B fuel = some (.ok s)) :
    (∀ a b r, aget s.h.lte.store (a, b) = some r →
      a ∈ s.h.addrs ∧ b ∈ s.h.addrs ∧ r = setLe o (hval s.h a) (hval s.h b)) ∧ heapOKD o s.h = true ∧ s.incl = [] :=
  ⟨(runO_heap_sound hr pick A B fuel hf).1.sl, (runO_heap_sound hr pick A B fuel hf).2⟩

example : (finalHeapO (FCD.runO idOrd .lib pickLeast OptEx.exA2 OptEx.exB3 30)).map (heapOKD idOrd) = some true ∧
    finalInclO (FCD.runO idOrd .lib pickLeast OptEx.exA2 OptEx.exB3 30) = some [] := by
  refine ⟨by decide +kernel, by decide +kernel⟩

/-- **the wiring matters for the `Opt` selection too** (the seeded change: the deleter calls `invalidateFirst` twice).  On
`FCDEx.exA`, `FCDEx.exB` with an allocator that recycles the address of a dead macro-state at once the stale entry
`(&X, &D) ↦ true` answers `lte(X, D')` in `isInWorkset`: `return true` although `g(h(c))` is accepted by `exA` only.  The same
with no deleter; the library's deleter answers `false`.  The run with the slip ends with a table that violates the invariant,
and the certifying model refuses the wrong `true`. -/
theorem C01_downward_opt_wiring_matters :
    (rawVerdictO (FCD.runO idOrd .firstTwice pickLeast FCDEx.exA FCDEx.exB 20) = some true ∧
     rawVerdictO (FCD.runO idOrd .none pickLeast FCDEx.exA FCDEx.exB 20) = some true ∧
     rawVerdictO (FCD.runO idOrd .lib pickLeast FCDEx.exA FCDEx.exB 20) = some false ∧ ¬ Incl FCDEx.exA FCDEx.exB) ∧
    (finalHeapO (FCD.runO idOrd .firstTwice pickLeast FCDEx.exA FCDEx.exB 20)).map (heapOKD idOrd) = some false ∧
    inclDownOptC .firstTwice pickLeast FCDEx.exA FCDEx.exB 20 = none :=
  ⟨⟨by decide +kernel, by decide +kernel, by decide +kernel, FCDEx.ex_not_incl⟩, by decide +kernel, by decide +kernel⟩

/-- the reflexivity hypothesis cannot be dropped (as `C01_downward_refl_needed`) -/
theorem C01_downward_opt_refl_needed :
    rawVerdictO (FCD.runO FCDEx.oBad .lib pickLeast FCDEx.exA FCDEx.exB 20) = some false ∧
    InclDown.run FCDEx.oBad FCDEx.exA FCDEx.exB 20 = none := by
  refine ⟨by decide +kernel, by decide +kernel⟩

/-- whatever the wiring and the allocator: a verdict that passes the certificate check of the model is right -/
theorem C01_downward_opt_cached_verdicts (w : Wiring) (pick : List Nat → Nat) (A B : TA) (fuel : Nat) (b : Bool)
    (c : InclUp.Cert) (h : inclDownOptC w pick A B fuel = some (b, c)) : b = true ↔ Incl A B := by
  unfold inclDownOptC at h
  exact finish_iff (fun _ hX => downCertB_incl hX) h

/-- **C07, top-down BDD encoding** (`ANTICHAINS_DOWN_REC_OPT_NOSIM` / `…_OPT_SIM` of `BDDTDTreeAutCore::CheckInclusion`: the
same template with the same functor): with everything as coded, the library's deleter and any allocator the verdicts are
those of the models of `C07_td_downward_models_exact`, hence exact -/
theorem C07_td_downward_opt_caches_transparent (pick : List Nat → Nat) (A B : TA) (R : Rel) :
    (∀ fuel, checkInclDownOptC .lib pick A B fuel = checkInclDownRec A B fuel ∧
      inclDownOptSimC .lib pick A B R fuel = inclDownSim A B R fuel) ∧
    (∀ fuel b c, checkInclDownOptC .lib pick A B fuel = some (b, c) → (b = true ↔ Incl A B)) ∧
    (∀ fuel b c, inclDownOptSimC .lib pick A B R fuel = some (b, c) → (b = true ↔ Incl A B)) := by
  obtain ⟨h1, _, h3, _, _⟩ := C07_td_downward_models_exact A B R
  have e : ∀ fuel, checkInclDownOptC .lib pick A B fuel = checkInclDownRec A B fuel :=
    fun fuel => checkInclDownOpt_cached_eq pick A B fuel
  refine ⟨fun fuel => ⟨e fuel, inclDownOptSim_cached_eq pick A B R fuel⟩, ?_, ?_⟩
  · intro fuel b c h; rw [e] at h; exact h1 fuel b c h
  · intro fuel b c h; rw [inclDownOptSim_cached_eq] at h; exact h3 fuel b c h

/-!
# The non-recursive algorithm `src/explicit_tree_incl_down.cc` (`ANTICHAINS_DOWN_NONREC_NOSIM` / `…_SIM`, explicit encoding)

`FCD.runNC o w pick A B fuel` (`Vata/FunctorCachesDownNonrec.lean`) is `ExplicitDownwardInclusion::checkInternal` + the file-local
`expand` as coded, the emulated calls as recursion (as in `InclDown.expandN`): `biggerF`, the ONE variable `S` (a new set is
looked up while the old one is still held), `workset`, `top.P_B` / `top.childrenCache` and those of the saved frames,
`nonincluded`, and the frames the `CachingAllocator` of the call emulator keeps after `pop` – they still hold the caller's `P_B`
and, through the `std::swap`, the `childrenCache` of the call that returned, until `push` re-uses them (`StN.pool`); `lte` / `gte`
through pointer equality and `lteCache.lookup`; the deaths by `hCollect` with all these handles as roots.
-/

/-- **`biggerTypeCache` and `lteCache` are transparent for the non-recursive downward algorithm – for every allocator.**
With the library's deleter, `checkInternal` with its caches as coded returns, for all operands, every fuel and every allocator
`pick`, exactly what the cache-free models on top of `InclDown.expandN` return: the certifying models with and without
simulation, and the exploration alone for any preorder `o` with reflexive `leB` (verdict, `nonincluded` by value, ghost set). -/
theorem C01_downward_nonrec_caches_transparent (pick : List Nat → Nat) (A B : TA) (fuel : Nat) :
    checkInclDownNonrecC .lib pick A B fuel = checkInclDownNonrec A B fuel ∧
    inclDownNonrecC .lib pick A B fuel = inclDownNonrec A B fuel ∧
    (∀ R : Rel, inclDownNonrecSimC .lib pick A B R fuel = inclDownNonrecSim A B R fuel) ∧
    (∀ o : Ord, (∀ q, o.leB q q = true) →
      viewN (FCD.runNC o .lib pick A B fuel) =
        rootLoopN o A B (InclUp.prodWit A) fuel (InclUp.normS B.final) (dedup A.final) ⟨[], []⟩ ∧
      truesOfN (FCD.runNC o .lib pick A B fuel) = InclDown.runN o A B fuel) :=
  ⟨checkInclDownNonrec_cached_eq pick A B fuel, inclDownNonrec_cached_eq pick A B fuel,
    fun R => inclDownNonrecSim_cached_eq pick A B R fuel,
    fun _ hr => ⟨runNC_eq hr pick A B fuel, truesOfN_runNC_eq hr pick A B fuel⟩⟩

namespace NonrecEx
def nA : TA := ⟨[⟨1, [1], 0⟩, ⟨2, [1], 1⟩, ⟨0, [], 1⟩, ⟨1, [0], 1⟩], [0]⟩
def nB : TA := ⟨[⟨0, [], 11⟩, ⟨1, [11], 13⟩, ⟨2, [10], 10⟩, ⟨2, [10], 12⟩, ⟨1, [10], 10⟩, ⟨2, [13], 13⟩,
  ⟨1, [11], 10⟩, ⟨2, [13], 12⟩, ⟨0, [], 12⟩, ⟨2, [12], 10⟩], [10]⟩

theorem incl : Incl nA nB := by
  have hm : (inclDownNonrec nA nB 12).map (·.1) = some true := by decide +kernel
  cases h : inclDownNonrec nA nB 12 with
  | none => rw [h] at hm; cases hm
  | some r =>
    obtain ⟨b, c⟩ := r
    rw [h] at hm
    simp only [Option.map_some, Option.some.injEq] at hm
    subst hm
    exact (inclDownNonrec_iff h).mp rfl
end NonrecEx

-- non-vacuity: macro-states die, addresses are reused, `lteCache` is filled and purged
example : (inclDownNonrecC .lib pickLeast NonrecEx.nA NonrecEx.nB 12).map (·.1) = some true := by decide +kernel
example : (checkInclDownNonrecC .lib pickLeast FCDEx.exA FCDEx.exB 20).map (·.1) = some false := by decide +kernel
example : (finalHeapN (FCD.runNC idOrd .lib pickLeast NonrecEx.nA NonrecEx.nB 12)).map
    (fun h => (h.store, h.lte.store.length, heapOKD idOrd h)) = some ([(0, [10]), (4, [10, 13])], 2, true) := by decide +kernel
example : (inclDownNonrecSimC .lib pickLeast InclDownEx.exS1 InclDownEx.exS2 [(5, 6)] 10).map (·.1) = some true := by
  decide +kernel

/-- … in the form of `C01_downward_rec_model_exact`: every verdict with the caches is right, for every allocator -/
theorem C01_downward_nonrec_cached_exact (pick : List Nat → Nat) (A B : TA) (fuel : Nat) (b : Bool) (c : InclUp.Cert)
    (h : inclDownNonrecC .lib pick A B fuel = some (b, c)) : b = true ↔ Incl A B := by
  rw [inclDownNonrec_cached_eq] at h
  exact inclDownNonrec_iff h

/-- the invariant of `lteCache` at the end of every run of the non-recursive algorithm that returns `true` -/
theorem C01_downward_nonrec_memo_sound (o : Ord) (hr : ∀ q, o.leB q q = true) (pick : List Nat → Nat) (A B : TA)
    (fuel : Nat) (s : StN) (hf : FCD.runNC o .lib pick A B fuel = some (.ok s)) :
    (∀ a b r, aget s.h.lte.store (a, b) = some r →
      a ∈ s.h.addrs ∧ b ∈ s.h.addrs ∧ r = setLe o (hval s.h a) (hval s.h b)) ∧ heapOKD o s.h = true :=
  ⟨(runNC_heap_sound hr pick A B fuel hf).1.sl, (runNC_heap_sound hr pick A B fuel hf).2⟩

/-- **the wiring matters for the non-recursive algorithm**: on `nA ⊆ nB` (which holds) with an allocator that recycles a dead
address at once, `checkInternal` WITHOUT the deleter (`Wiring.none`, the default deleter of `Util::Cache`) finds a stale
`lteCache` entry and returns `false`; with the library's deleter it returns `true`.  The seeded slip `invalidateFirst` twice
leaves a table that violates the invariant (here without changing the verdict: the variable `S` and the reclaimed frames keep
most objects alive across the next allocation).  The certifying model refuses the wrong `false`. -/
theorem C01_downward_nonrec_wiring_matters :
    rawVerdictN (FCD.runNC idOrd .none pickLeast NonrecEx.nA NonrecEx.nB 12) = some false ∧
    rawVerdictN (FCD.runNC idOrd .lib pickLeast NonrecEx.nA NonrecEx.nB 12) = some true ∧ Incl NonrecEx.nA NonrecEx.nB ∧
    (finalHeapN (FCD.runNC idOrd .firstTwice pickLeast NonrecEx.nA NonrecEx.nB 12)).map (heapOKD idOrd) = some false ∧
    inclDownNonrecC .none pickLeast NonrecEx.nA NonrecEx.nB 12 = none :=
  ⟨by decide +kernel, by decide +kernel, NonrecEx.incl, by decide +kernel, by decide +kernel⟩

/-- whatever the wiring and the allocator: a verdict that passes the certificate check of the model is right -/
theorem C01_downward_nonrec_cached_verdicts (w : Wiring) (pick : List Nat → Nat) (A B : TA) (fuel : Nat) (b : Bool)
    (c : InclUp.Cert) (h : inclDownNonrecC w pick A B fuel = some (b, c)) : b = true ↔ Incl A B := by
  unfold inclDownNonrecC at h
  exact finish_iff (fun _ hX => downCertB_incl hX) h

/-!
## which "not yet proved" items this file closes

`C01_CachesDown.lean`, "still not proved": "`OptDownwardInclusionFunctor` … no cached model" and "the non-recursive variant
`src/explicit_tree_incl_down.cc` … no cached model" – both closed (explicit encoding; the `Opt` result also for the top-down BDD
instantiation of the shared template).

## still not proved

* no verdict-changing run of the NON-RECURSIVE algorithm with the seeded `firstTwice` deleter was found (40 000 random pairs of
  small automata; the invariant breaks in about 10 % of them, the verdict in none) – `C01_downward_nonrec_wiring_matters` shows
  a changed verdict for the missing deleter and a broken invariant for `firstTwice`; whether `firstTwice` can change a verdict
  there is open.
* the emulated calls of `explicit_tree_incl_down.cc` are modelled by recursion (as `InclDown.expandN` does): the `goto` / `retAddr`
  machine itself, the iterators saved in the frames and the test `smallerIndex.size() <= r_i` are not modelled; of a frame only what
  holds handles (`P_B`, `childrenCache`) is kept.
* reference counting is modelled by its effect (`hCollect` at the points where handles are dropped – for the merge loop of the
  `Opt` functor and for `S = biggerTypeCache.lookup(..)` see the headers of the two model files for why this equals the deaths one
  by one), not by counters; iteration orders of the hash containers and of `std::set<pair<state, shared_ptr>>` are list orders.
* the comparison is with the MODELS of `Vata/InclDown.lean`; that the cached models' verdicts equal the C++ verdicts is testable
  through `FCD.runO` / `FCD.rawVerdictO` and `FCD.runNC` / `FCD.rawVerdictN`, not proved.
-/
end Vata.Props
