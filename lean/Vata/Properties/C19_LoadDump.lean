import Vata.Proofs.LoadDump
import Vata.Lang
/-!
# C19 (continued) – registering symbols / states in another order, and the dumped-and-reloaded form

> … adding their rules in a different order, or registering the symbols in a different order never changes an inclusion
> or emptiness verdict … and A is equivalent to its reduced, trimmed, re-indexed and dumped-and-reloaded forms.

`C19.lean` proves the invariance for an *assumed* renumbering (`reindex f` with `InjOnStates`, `translateSymbols g` with
an injective `g`).  Here the renumberings are *derived* from the model of the loader (`Vata/LoadDump.lean`): the order in
which a description lists its symbols, final states and transitions determines the numbers that `LoadFromAutDesc` hands
out, and two orders give numberings related by bijections; and the automaton obtained by `DumpToString` followed by
`LoadFromString` is the original with its states renumbered injectively, hence has the same language (`LangEq`).
(Explicit tree automaton encoding; see `C13_LoadDump.lean` for how the load and the dump are modelled.)
-/
namespace Vata.Props
open Vata Vata.Timbuk Vata.LoadDump Vata.Dict

/-- **registering in another order.**  Two descriptions with the same sets of symbols, final states and transitions
(e.g. one a permutation of the other), loaded on fresh state dictionaries from the same alphabet state: there are a
bijection `h` of the state numbers and a bijection `g` of the symbol numbers, translating the first numbering to the
second name by name, such that the second automaton is the `h`,`g`-image of the first (as sets of rules and final
states) and accepts exactly the `g`-renamed trees of the first. -/
theorem C19_load_order_invariance (d₁ d₂ : AutDesc) (yd : SymDict) (hyd : yd.Ok) (hs : d₁.symbols ≈ d₂.symbols)
    (hf : d₁.final ≈ d₂.final) (ht : d₁.trans ≈ d₂.trans) :
    ∃ A₁ sd₁ yd₁ A₂ sd₂ yd₂ h g, loadTA d₁ [] yd = .ok (A₁, sd₁, yd₁) ∧ loadTA d₂ [] yd = .ok (A₂, sd₂, yd₂) ∧
      (Function.Injective h ∧ Function.Surjective h) ∧ (Function.Injective g ∧ Function.Surjective g) ∧
      (∀ q, q ∈ sd₁.keys → h (sd₁.get q) = sd₂.get q) ∧ (∀ k, k ∈ yd₁.keys → g (yd₁.get k) = yd₂.get k) ∧
      (∀ r, r ∈ A₂.rules ↔ r ∈ (translateSymbols g (reindex h A₁)).rules) ∧
      (∀ q, q ∈ A₂.final ↔ q ∈ (translateSymbols g (reindex h A₁)).final) ∧
      ∀ t, accepts A₂ (t.mapSyms g) = accepts A₁ t :=
  load_lang_perm d₁ d₂ yd hyd hs hf ht

/-- `exE` and `exE'` list the same things in different orders; the loads number both states and symbols differently -/
example : TimbukEx.exE.symbols ≈ LoadDumpEx.exE'.symbols ∧ TimbukEx.exE.final ≈ LoadDumpEx.exE'.final ∧
    TimbukEx.exE.trans ≈ LoadDumpEx.exE'.trans := LoadDumpEx.exE_exE'
example : (∃ A, loadTA TimbukEx.exE [] [] = .ok (A, [("r", 0), ("q", 1)], [(("a", 0), 0), (("f", 2), 1)])) ∧
    (∃ A, loadTA LoadDumpEx.exE' [] [] = .ok (A, [("q", 0), ("r", 1)], [(("f", 2), 0), (("a", 0), 1)])) :=
  ⟨⟨_, rfl⟩, ⟨_, rfl⟩⟩

/-- consequently the emptiness verdict is the same for the two loads (every tree is the `g`-image of a tree) -/
theorem C19_load_order_emptiness (d₁ d₂ : AutDesc) (yd : SymDict) (hyd : yd.Ok) (hs : d₁.symbols ≈ d₂.symbols)
    (hf : d₁.final ≈ d₂.final) (ht : d₁.trans ≈ d₂.trans) :
    ∃ A₁ sd₁ yd₁ A₂ sd₂ yd₂, loadTA d₁ [] yd = .ok (A₁, sd₁, yd₁) ∧ loadTA d₂ [] yd = .ok (A₂, sd₂, yd₂) ∧
      (LangEmpty A₁ ↔ LangEmpty A₂) :=
  load_perm_empty d₁ d₂ yd hyd hs hf ht

example : LoadDumpEx.ydUsed.Ok := LoadDumpEx.ydUsed_ok

/-- **dumped-and-reloaded form.**  For an automaton whose dictionaries name its states injectively and contain its symbols
with their ranks (`Dumpable`; the alphabet in the state the library keeps it, `yd.Ok`): the dump succeeds, loading it again
(fresh state dictionary, the same alphabet) succeeds, and the reloaded automaton is language-equivalent to the
original. -/
theorem C19_dump_reload_equivalent (A : TA) (sd : StateDict) (yd : SymDict) (hyd : yd.Ok) (hD : Dumpable A sd yd) :
    ∃ d₁ A' sd' yd', dumpTA A sd yd = .ok d₁ ∧ loadTA d₁ [] yd = .ok (A', sd', yd') ∧ LangEq A' A :=
  dump_reload_lang A sd yd hyd hD

example : LoadDumpEx.exYd.Ok ∧ Dumpable LoadDumpEx.exA LoadDumpEx.exSd LoadDumpEx.exYd :=
  ⟨LoadDumpEx.exYd_ok, LoadDumpEx.exA_dumpable⟩

/-- the same through the text (`DumpToString`, `LoadFromString`) when the names are good -/
theorem C19_dump_reload_text_equivalent (A : TA) (sd : StateDict) (yd : SymDict) (hyd : yd.Ok) (hD : Dumpable A sd yd)
    (hwf : (dumpOf (A.final.map (nameOf sd)) (A.rules.map (namedRule sd yd))).WellFormed) :
    ∃ txt A' sd' yd', dumpString A sd yd = .ok txt ∧ loadString txt [] yd = .ok (A', sd', yd') ∧ LangEq A' A :=
  dump_reload_text_lang A sd yd hyd hD hwf

example : (dumpOf (LoadDumpEx.exA.final.map (nameOf LoadDumpEx.exSd))
    (LoadDumpEx.exA.rules.map (namedRule LoadDumpEx.exSd LoadDumpEx.exYd))).WellFormed := by decide

/-- for automata that were loaded nothing has to be assumed about the dictionaries: load a well-formed description (any
alphabet in use), dump to text, load the text again – the two automata are language-equivalent -/
theorem C19_load_dump_reload_equivalent (d : AutDesc) (yd : SymDict) (hyd : yd.Ok) (hwf : d.WellFormed) :
    ∃ A sd yd' txt A' sd' yd'', loadTA d [] yd = .ok (A, sd, yd') ∧ dumpString A sd yd' = .ok txt ∧
      loadString txt [] yd' = .ok (A', sd', yd'') ∧ LangEq A' A :=
  load_dump_reload_lang d yd hyd hwf

example : LoadDumpEx.ydUsed.Ok ∧ TimbukEx.exD.WellFormed := ⟨LoadDumpEx.ydUsed_ok, by decide⟩

/-!
## which "not yet proved" items of `C19.lean` this file closes

* **Dumped-and-reloaded form**: now a `LangEq` between tree automata (`C19_dump_reload_equivalent`,
  `C19_dump_reload_text_equivalent`, `C19_load_dump_reload_equivalent`) for the explicit tree automaton encoding; the
  reload is on a fresh state dictionary (a pre-filled one is unsafe, `C13_prefilled_state_dictionary_clash`) and on the
  same alphabet, as in the library where the alphabet is shared.
* in addition, "registering the symbols in a different order" is no longer an assumed injective map but derived from the
  loader (`C19_load_order_invariance`).
* still open here: the other encodings; the `Dumpable` hypothesis for the results of the operations (e.g. that the state
  dictionary the command-line tool builds for a union or an intersection names the result's states injectively).
-/
end Vata.Props
