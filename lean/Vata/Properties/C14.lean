import Vata.Lang
import Vata.Reduce
import Vata.Proofs.Rename
/-!
# C14 – Renaming states or symbols yields exactly the image automaton

> ReindexStates and CollapseStates return exactly the image of the automaton under the given state map: a rule or final
> state is in the result if and only if it is the image of a rule or final state of the input, and TranslateSymbols
> does the same for a symbol map.  Consequently an injective renaming yields an isomorphic automaton with the same
> language and the same number of states and rules, and a non-injective state map yields an automaton whose language
> contains the original one.

## How the statement is read into the model

* **Specification (L0).**  The image of a rule `f(q₁..qₙ) → q` under a state map `h` is `mapRule h r = f(h q₁..h qₙ) → h q`
  (`Vata/Reduce.lean`), under a symbol map `g` it is `mapSym g r = (g f)(q₁..qₙ) → q` (`Vata/Ref.lean`).  "Is in the
  result iff it is the image of …" is the membership equivalence below.  `InjOnStates h A` = `h` is injective on the
  states occurring in `A`; `Tree.mapSyms g t` relabels a tree.
* **Model of the code.**  `reindex h A` is the model of both `ReindexStates` and `CollapseStates` (the two C++ functions
  differ only in how the functor is given; total maps `h : Nat → Nat` stand for the index functors / translators),
  `translateSymbols g A` of `TranslateSymbols`.  They are the automata the results of the real calls are compared with
  as sets of rules and final states (`taEq`).
-/
namespace Vata.Props
open Vata

/-- `ReindexStates` / `CollapseStates`: a rule (a final state) is in the result iff it is the image of a rule (a final
state) of the input; the states of the result are the images of the states -/
theorem C14_reindex_image (h : Nat → Nat) (A : TA) :
    (∀ r', r' ∈ (reindex h A).rules ↔ ∃ r, r ∈ A.rules ∧ r' = mapRule h r) ∧
    (∀ q', q' ∈ (reindex h A).final ↔ ∃ q, q ∈ A.final ∧ q' = h q) ∧
    (∀ q', q' ∈ (reindex h A).states ↔ ∃ q, q ∈ A.states ∧ q' = h q) :=
  ⟨reindex_rules h A, reindex_final h A, fun _ => mem_states_reindex⟩

-- a merging map hitting the same target repeatedly: both `f(1,1) → 1` and `g(1) → 2` land on parent `0`
example : (reindex (fun _ => 0) RenameEx.exA).rules = [⟨0, [], 0⟩, ⟨1, [0, 0], 0⟩, ⟨2, [0], 0⟩] ∧
    (reindex (fun _ => 0) RenameEx.exA).final = [0] := by decide

/-- `TranslateSymbols`: the same for a symbol map; final states are untouched -/
theorem C14_translateSymbols_image (g : Nat → Nat) (A : TA) :
    (∀ r', r' ∈ (translateSymbols g A).rules ↔ ∃ r, r ∈ A.rules ∧ r' = mapSym g r) ∧
    (translateSymbols g A).final = A.final :=
  ⟨fun r' => by
    simp only [translateSymbols, List.mem_map]
    exact ⟨fun ⟨r, hr, he⟩ => ⟨r, hr, he.symm⟩, fun ⟨r, hr, he⟩ => ⟨r, hr, he.symm⟩⟩, rfl⟩

example : (translateSymbols (· + 42) RenameEx.exA).rules = [⟨42, [], 1⟩, ⟨43, [1, 1], 1⟩, ⟨44, [1], 2⟩] := by decide

/-- an injective renaming (injective on the states that occur) yields an automaton with the same language, the same
number of states and the same number of rules -/
theorem C14_injective_renaming (h : Nat → Nat) (A : TA) (hinj : InjOnStates h A) :
    LangEq (reindex h A) A ∧ (reindex h A).states.length = A.states.length ∧
    (reindex h A).rules.length = A.rules.length :=
  ⟨fun t => reindex_inj_lang h A hinj t, reindex_states_length h A hinj, reindex_rules_length h A⟩

example : InjOnStates (fun q => 5 - q) RenameEx.exA := by
  intro q q' hq hq' h
  have h1 : q ∈ [1, 2] := hq
  have h2 : q' ∈ [1, 2] := hq'
  simp only [List.mem_cons, List.not_mem_nil, or_false] at h1 h2
  simp only at h
  omega

/-- under an injective renaming the run semantics itself is transported: the states reached on a tree are the images -/
theorem C14_injective_renaming_runs (h : Nat → Nat) (A : TA) (hinj : InjOnStates h A) (t : Tree) (x : Nat) :
    x ∈ reach (reindex h A) t ↔ ∃ q, q ∈ reach A t ∧ x = h q :=
  ⟨reindex_inj_reach_image h A hinj t x, fun ⟨q, hq, he⟩ => he ▸ reindex_mono h A t q hq⟩

example : 12 ∈ reach (reindex (· + 10) RenameEx.exA) RenameEx.exT := by decide

/-- any state map, injective or not: the language of the image contains the original one (runs are mapped to runs) -/
theorem C14_any_map_superset (h : Nat → Nat) (A : TA) :
    Incl A (reindex h A) ∧ ∀ t q, q ∈ reach A t → h q ∈ reach (reindex h A) t :=
  ⟨reindex_Incl h A, reindex_mono h A⟩

-- the inclusion can be strict: merging all states of `exA` makes `a` accepted
example : accepts RenameEx.exA (.node 0 []) = false ∧ accepts (reindex (fun _ => 0) RenameEx.exA) (.node 0 []) = true := by
  decide

/-- symbol maps: the translated automaton accepts the relabelled trees of the language; for an injective symbol map it
accepts a relabelled tree exactly when the original automaton accepts the tree -/
theorem C14_translateSymbols_lang (g : Nat → Nat) (A : TA) :
    (∀ t, accepts A t = true → accepts (translateSymbols g A) (Tree.mapSyms g t) = true) ∧
    ((∀ a b, g a = g b → a = b) → ∀ t, accepts (translateSymbols g A) (Tree.mapSyms g t) = accepts A t) :=
  ⟨translateSymbols_incl g A, fun hg t => translateSymbols_lang g hg A t⟩

example : (∀ a b : Nat, (· + 42) a = (· + 42) b → a = b) ∧ accepts RenameEx.exA RenameEx.exT = true :=
  ⟨by intro a b h; simp only at h; omega, by decide⟩

/-!
## closed since the last refresh of this file

* **"The copy-on-write handling of the destination (`ReindexStates(dst, index, addFinalStates)` into a *given* destination
  automaton …) is not modelled"** – closed in the extended heap model of C11: `ReindexStates(dst, …)` (and `Union`, which is two
  of them into a new object) is a sequence of `SetStateFinal` and insertions through the `unique…` helpers into `dst`, and no
  other object changes (`C11_ext_reindex_into` in `Vata/Properties/C11_Extended.lean`).
* **The translator classes** the index functors are instances of: `TranslatorStrict` (and the `const` call operator of the
  weak translators) is a pure lookup – a miss is an exception, never an insertion (`Util_Glue_strict_pure`); `TranslatorWeak`
  is lookup-or-create, keeps every old translation and stays injective when the functor's answer is fresh
  (`Util_Glue_weak_injective`, `Util_Glue_weak_eval_order` in `Vata/Properties/Util_Glue.lean`).
* Totality of the reference deciders the results are compared with: `C14_reference_total` (`Vata/Properties/RefTotal.lean`).
* The renaming `SanitizeAutsForInclusion` performs is an instance with all consequences proved (`C01_sanitise_model`), and so
  is the quotient map of `Reduce` as coded (`C05_pipeline`).

## not yet proved

* "Isomorphic" is rendered by its consequences (same language, same run semantics up to `h`, same counts); an
  explicit isomorphism statement (inverse map on the image with `reindex h⁻¹ (reindex h A) = A` up to set equality)
  is not stated.
* `reindex` takes a TOTAL map `h : Nat → Nat`; the composition "a translator object that throws on an unknown state, applied
  by `ReindexStates`" (which states are looked up, in which order, what is left in `dst` when the exception is thrown) is not
  modelled – only the translator classes on their own (above) and the total-map image.
* For `TranslateSymbols` with a non-injective symbol map only the inclusion is proved (the converse is false, see
  `RenameEx`); trees that are not of the form `mapSyms g t` are not covered by `C14_translateSymbols_lang` (they are by
  `C14_translateSymbols_image` together with the definition of `accepts`, and by `translateSymbols_accepts_image` in
  `Vata/Proofs/Equivariance.lean`: the renumbered automaton accepts only renumbered trees).
-/
end Vata.Props
