import Vata.Proofs.ReduceModel
import Vata.Properties.C05
/-!
# C05 – Reduce as coded: the quotient projection is computed, not assumed

> For any explicit tree automaton A, Reduce returns an automaton that accepts exactly the trees A accepts, has at most
> as many states and at most as many rules as A, and whose every state is the image of at least one state of A.

`Vata/Properties/C05.lean` proves the property for `removeUnreachable (reindex h A)` with the collapse map `h` a
HYPOTHESIS (`hh`: every state goes to a simulation-equivalent state; `IsQuotProj` for the size statements).  Here the map
is the one the code computes: `reduceModel A order` (`Vata/ReduceModel.lean`) mirrors `ExplicitTreeAutCore::Reduce` –
the simulation as a Boolean matrix over the state indices, `BinaryRelation::RestrictToSymmetric` (two nested loops with
`get`/`set`), `BinaryRelation::GetQuotientProjection` (the vector `quotProj` with `UNDEF_PROJ`),
`DiscontBinaryRelation::GetQuotientProjection` (back to states), `CollapseStates`, `RemoveUnreachableStates`.

* The only thing not computed by the model is the numbering of the states (`order[i]` = the state with index `i`): in
  the C++ it is the order in which the translation to an LTS meets the states, i.e. hash order.  It is a parameter, and
  every statement holds for EVERY `order` that is a permutation of `A.states` (the proofs only use that every state has
  an index).
* The simulation relation is `downSimRef A`; that `ComputeSimulation` returns this relation is property C04.
* "Number of rules" is stated both for the rule list and for the number of DISTINCT rules (`List.eraseDups`, the set
  semantics of the C++).
-/
namespace Vata.Props
open Vata

/-- the collapse map computed by `RestrictToSymmetric` + `GetQuotientProjection` from the simulation satisfies the
hypothesis `hh` of `C05_reduce_lang` and is a quotient projection (the hypothesis of `C05_quotient_size`): it maps every
state to a simulation-equivalent state and equivalent states to the same state -/
theorem C05_model_projection (A : TA) (order : List Nat) (hperm : order.Perm A.states) :
    (∀ q, q ∈ A.states → (q, quotientProjection A order q) ∈ downSimRef A ∧ (quotientProjection A order q, q) ∈ downSimRef A) ∧
    IsQuotProj A (quotientProjection A order) :=
  ⟨(quotientProjection_isQuotProj A order hperm).1, quotientProjection_isQuotProj A order hperm⟩

example : RMEx.exOrd.Perm SimModel.exA.states := RMEx.exOrd_perm
example : quotientMap SimModel.exA RMEx.exOrd = [(3, 3), (0, 0), (4, 4), (2, 3), (1, 0)] := by decide

/-- C05 for the model of the code: the language is kept, the result has at most as many states, at most as many
distinct rules and at most as many rule-list entries as `A`, and every state of the result is a state of `A` that is
the image of a state of `A` under the computed projection -/
theorem C05_model (A : TA) (order : List Nat) (hperm : order.Perm A.states) :
    LangEq (reduceModel A order) A ∧
    (reduceModel A order).states.length ≤ A.states.length ∧
    (reduceModel A order).rules.eraseDups.length ≤ A.rules.eraseDups.length ∧
    (reduceModel A order).rules.length ≤ A.rules.length ∧
    ∀ x, x ∈ (reduceModel A order).states → x ∈ A.states ∧ ∃ q, q ∈ A.states ∧ x = quotientProjection A order q :=
  ⟨fun t => reduceModel_lang A order hperm t, (reduceModel_never_grows A order).1, (reduceModel_never_grows A order).2.1,
   (reduceModel_never_grows A order).2.2, fun _ hx => reduceModel_states_sub A order hperm hx⟩

example : (reduceModel SimModel.exA RMEx.exOrd).states = [0, 3] ∧ SimModel.exA.states = [0, 1, 2, 3, 4] ∧
    (reduceModel SimModel.exA RMEx.exOrd).rules.eraseDups = [⟨0, [], 0⟩, ⟨1, [0, 0], 3⟩] ∧
    SimModel.exA.rules.eraseDups.length = 5 := by decide

/-- the "never grows" half needs nothing of the numbering -/
theorem C05_model_never_grows (A : TA) (order : List Nat) :
    (reduceModel A order).states.length ≤ A.states.length ∧
    (reduceModel A order).rules.eraseDups.length ≤ A.rules.eraseDups.length ∧
    (reduceModel A order).rules.length ≤ A.rules.length := reduceModel_never_grows A order

example : (reduceModel SimModel.exA []).states.length = 4 ∧ SimModel.exA.states.length = 5 := by decide

/-- hash order does not matter: for two numberings the results are the same automaton up to a renaming that is
injective on the states, so they have the same number of states, of rules and of distinct rules; that number of states
is the one of the canonical reduction `reduceRef` and at most the number of simulation-equivalence classes -/
theorem C05_model_order_independent (A : TA) (order order' : List Nat) (hperm : order.Perm A.states)
    (hperm' : order'.Perm A.states) :
    (∃ π, InjOnStates π (reduceModel A order) ∧ reduceModel A order' = reindex π (reduceModel A order)) ∧
    (reduceModel A order').states.length = (reduceModel A order).states.length ∧
    (reduceModel A order').rules.length = (reduceModel A order).rules.length ∧
    (reduceModel A order').rules.eraseDups.length = (reduceModel A order).rules.eraseDups.length ∧
    (reduceModel A order).states.length = (reduceRef A).states.length ∧
    (reduceModel A order).states.length ≤ simClasses A :=
  ⟨reduceModel_order_rename A order order' hperm hperm',
   (reduceModel_size_order_independent A order order' hperm hperm').1,
   (reduceModel_size_order_independent A order order' hperm hperm').2.1,
   (reduceModel_size_order_independent A order order' hperm hperm').2.2,
   (reduceModel_size_eq_reduceRef A order hperm).1, reduceModel_states_le_simClasses A order hperm⟩

example : (reduceModel SimModel.exA SimModel.exA.states).states = [0, 2] ∧
    (reduceModel SimModel.exA RMEx.exOrd).states = [0, 3] ∧ simClasses SimModel.exA = 3 := by decide

/-- the two matrix routines on their own: after `RestrictToSymmetric` an entry off the diagonal is the conjunction of the
two original entries (so the matrix is symmetric; `GetQuotientProjection` reads the part above the diagonal only), and
`GetQuotientProjection` on a matrix that decides an equivalence `E` above the diagonal gives every index an equivalent
representative that is not after it, the same for equivalent indices -/
theorem C05_model_matrix_routines :
    (∀ (n : Nat) (m : BMat), RM.Square n m → ∀ r c, r < c → c < n →
      mget (restrictToSymmetric m) r c = (mget m r c && mget m c r) ∧
      mget (restrictToSymmetric m) c r = (mget m r c && mget m c r)) ∧
    (∀ (m : BMat) (E : Nat → Nat → Prop), RM.IdxEquiv m m.length E →
      (∀ i, i < m.length → ∃ k, RM.pget (quotientProjectionIdx m) i = some k ∧ k ≤ i ∧ E k i) ∧
      (∀ i j, i < m.length → j < m.length → E i j →
        RM.pget (quotientProjectionIdx m) i = RM.pget (quotientProjectionIdx m) j)) :=
  ⟨fun _ _ h => (RM.restrictToSymmetric_spec h).2, fun _ _ hE => (RM.quotientProjectionIdx_spec hE).2⟩

example : RM.Square 5 (relMatrix (downSimRef SimModel.exA) RMEx.exOrd) := RM.square_relMatrix _ _
example : RM.IdxEquiv (RM.symMatrix SimModel.exA RMEx.exOrd) (RM.symMatrix SimModel.exA RMEx.exOrd).length
    (RM.IdxEq SimModel.exA RMEx.exOrd) := RM.idxEquiv_symMatrix _ _

/-- the model is sensitive to a realistic slip: if the outer loop of `RestrictToSymmetric` starts at row `1`, the state
with index `0` absorbs every state that simulates it and the language grows (`exS`: the tree `b` becomes accepted) -/
theorem C05_model_skip_row0_changes_language :
    ¬ ∀ (A : TA) (order : List Nat), order.Perm A.states → ∀ t, accepts (reduceModelSkip0 A order) t = accepts A t :=
  reduceModelSkip0_not_lang

example : accepts (reduceModelSkip0 RMEx.exS RMEx.exS.states) (.node 1 []) = true ∧
    accepts RMEx.exS (.node 1 []) = false := by decide

/-!
## items of `Vata/Properties/C05.lean` ("not yet proved") closed here

* "That the collapse map the C++ derives (`RestrictToSymmetric` + `GetQuotientProjection` on the relation returned by
  `ComputeSimulation`) satisfies the hypothesis `hh` (and is a quotient projection, `IsQuotProj`) is not a theorem about
  a model of these two functions" – now `C05_model_projection` (model `quotientProjection`), with the property itself in
  `C05_model`; independence of the hash order in `C05_model_order_independent`.
* "the statement with `eraseDups` on both sides is not proved" – now the third conjunct of `C05_model` /
  `C05_model_never_grows` and the fourth of `C05_model_order_independent`.

## still not proved

* That the numbering the C++ uses gives every state an index (it is the hypothesis `order.Perm A.states`; in the code the
  LTS translation visits every state that occurs in a rule or is final) and that the matrix it starts from is
  `relMatrix (downSimRef A) order` (C04).
* Minimality of the result (no two remaining states simulation-equivalent) is not claimed by the property and not proved.
-/
end Vata.Props
