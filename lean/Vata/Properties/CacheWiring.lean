import Vata.Generated.Tables
import Vata.CacheModel
/-! # Proof obligations over the regenerated cache wiring (kept in a module of its own so that a failure is reported for these
theorems only) -/
namespace Vata.CacheWiring
open Vata.Gen

/-! ## Cache wiring (regenerated from `tree_incl_down.hh`, `explicit_tree_incl_down.cc`, `explicit_tree_incl_up.cc`)

The inclusion algorithms intern macro-states in a `Util::Cache` and memoise set comparisons in `Util::CachedBinaryOp` tables
keyed by the ADDRESSES of the interned sets.  When the last handle of a set dies its address may be handed to the next set:
every memo entry that mentions the address – in either key position that holds a macro-state address – has to die with
it, otherwise the new set inherits the dead one's answer.  The obligation below is re-checked against the deleter lambdas
as they are written in the sources now. -/

/-- the three deleter lambdas and the memo-table declarations were found in the shape the translator reads -/
theorem wiring_parsed : wiringErrors = [] := by decide

/-- the deleter invalidates every (memo table, key position) that holds a macro-state address -/
def wiringOk (w : String × List (String × List Nat) × List (String × Nat) × Nat) : Bool :=
  w.2.1.all (fun t => t.2.all (fun k => w.2.2.1.contains (t.1, k)))

/-- three sites intern macro-states; each has a set-comparison memo keyed by two macro-state addresses -/
theorem cache_wiring_sites :
    cacheWiring.map (·.1) = ["src/tree_incl_down.hh", "src/explicit_tree_incl_down.cc", "src/explicit_tree_incl_up.cc"] ∧
    cacheWiring.all (fun w => w.2.1.any (fun t => t.1 == "lteCache" && t.2 == [0, 1])) = true := by decide

theorem cache_wiring_complete : cacheWiring.all wiringOk = true := by decide

/-! ## Link to the cache model (`Vata/CacheModel.lean`, `Vata/Proofs/CacheModel.lean`)

`Vata.CM.Wiring` is the deleter of the model: `.lib` purges both key positions of the comparison memo (and the second
position of the evaluation memo), `.firstTwice` is the one-word slip, `.none` the default deleter.  The deleter lambdas
as they are written in the sources now denote `.lib` at every site – the hypothesis `c.wiring = .lib` of
`Util_Cache_memo_sound` (memo soundness under address reuse; `Util_Cache_wiring_counterexample` shows a stale answer for
the other two). -/

/-- the wiring a regenerated deleter denotes -/
def wiringOf (w : String × List (String × List Nat) × List (String × Nat) × Nat) : Vata.CM.Wiring :=
  let calls := w.2.2.1
  if w.2.1.all (fun t => t.2.all (fun k => calls.contains (t.1, k))) then .lib
  else if calls.isEmpty then .none
  else .firstTwice

theorem cache_wiring_is_lib : cacheWiring.map wiringOf = [.lib, .lib, .lib] := by decide

end Vata.CacheWiring
