import Vata.Proofs.CowHeapX
/-!
# C11 (extended) – Explicit automata are values: final states, move, results that share storage with their operands

> After an explicit tree or finite automaton is copied, assigned or moved, any later modification of one object (adding
> rules, changing final states, clearing) is never visible through another object, and automata returned by operations
> stay unchanged when their operands are modified or destroyed afterwards.

`Vata/Properties/C11.lean` proves this for the operations of `CowHeap.HOp` (construct, copy, copy-assign, `AddTransition`,
the transition half of `Clear`, destroy).  This file is about the extended model `Vata/CowHeapX.lean`:

* **Specification (L0).**  `CowHeapX.specStepX` on `Nat → Option Store.Store`: every automaton object owns an independent
  value `Store.Store` (rule container `clusters` AND `final`, `Vata/Store.lean`).  An operation of a history
  (`CowHeapX.HOpX`) changes the value of its target handle only (`CowHeapX.targets`; a move also ends its source):
  `setFinal` / `setFinals` / `eraseFinal` / `clear` are `Store.setFinal` / `Store.setFinals` / `Store.eraseFinal` /
  `Store.clear`, `add` is `Store.addTransition`, `copy src dst copyTrans copyFinal` is the selective copy constructor,
  `move` / `moveAssign` hand the value of `src` over to `dst`, `shareAll src dst keepF` (RemoveUselessStates when nothing is
  removed; RemoveUnreachableStates returning `*this`) gives `dst` the rules of `src` and the kept final states,
  `shareClusters src dst keep` (RemoveUnreachableStates) gives `dst` the clusters of the kept states,
  `unionDisj a b dst` (UnionDisjointStates) gives `dst` the union `CowHeapX.unionStore`.
* **Model of the code.**  `CowHeapX.stepX` on `CowHeapX.HeapX` = the three-level reference-counted heap of
  `Vata/CowHeap3.lean` plus a final set per handle.  A move changes the owner of the root pointer without counting;
  `shareAll` makes the result point to the operand's map node; `shareClusters` writes the operand's cluster POINTERS into a
  freshly allocated map node (in place, without `uniqueClusterMap()`); `unionDisj` copies the left operand, clones its map
  node (`uniqueClusterMap()`), and writes the right operand's cluster pointers into the clone.
* **The property** is again the refinement `absX ∘ stepX = specStepX ∘ absX` along every history from the empty heap,
  with the reference-count invariant `InvX` (use count = number of handles / parent entries pointing to the node, at all
  three levels).
-/
namespace Vata.Props
open Vata
open Vata.CowHeapX (HOpX HeapX stepX absX specStepX specInitX initX InvX invBX targets ValX unionStore ofHOp reindexOps)

/-! ### every history: handles behave as independent values -/

/-- the extended heap model refines the value semantics for every history of operations from the empty heap: what is
read through the handles (rules and final states) after the history is what the independent-values specification
computes -/
theorem C11_ext_history_isolation (ops : List HOpX) :
    absX (ops.foldl stepX initX) = ops.foldl specStepX specInitX :=
  CowHeapX.history_isolationX ops

/-- a history with `RemoveUnreachableStates` (`shareClusters`), writes to operand and result, `UnionDisjointStates`,
`Clear`: the union (object 5) shares cluster nodes with both operands and shows none of the later modifications -/
example : absX (CowHeapX.CowExX.ops2.foldl stepX initX) 5 =
    some ⟨[(5, [(7, [[], [5, 5]])]), (6, [(8, [[5]])]), (10, [(7, [[]])])], [6, 5, 10]⟩ := by decide
example : CowHeapX.CowExX.H1.core.ment 8 = [(5, 1), (6, 3)] ∧ CowHeapX.CowExX.H1.core.crc 1 = 2 := by decide

/-- one step, from any heap that satisfies the invariant: every operation acts on the handle values exactly like the
value-level specification and keeps the reference-count invariant.  The hypothesis `InvX H` is needed: on a heap whose
`use_count` is too small a shared cluster node is modified in place (`CowExX.Hbad` below). -/
theorem C11_ext_step_refines_values (H : HeapX) (op : HOpX) (hI : InvX H) :
    absX (stepX H op) = specStepX (absX H) op ∧ InvX (stepX H op) :=
  CowHeapX.cowX_refines_values hI op

example : InvX CowHeapX.CowExX.H1 := (CowHeapX.invBX_iff _).mp (by decide)
/-- without the invariant the conclusion fails: the operand of `RemoveUnreachableStates` changes when the result is
modified -/
example : invBX CowHeapX.CowExX.Hbad = false ∧
    absX (stepX CowHeapX.CowExX.Hbad (.add 2 5 (8, []))) 1 ≠ absX CowHeapX.CowExX.Hbad 1 := ⟨by decide, by decide⟩

/-! ### the reference-count invariant -/

/-- after every history, at all three levels: the `use_count` of every allocated node equals the number of handles /
parent entries pointing to it, pointers go to allocated nodes, every allocated node is in use; the executable checker
decides exactly this -/
theorem C11_ext_invariant (ops : List HOpX) :
    InvX (ops.foldl stepX initX) ∧ invBX (ops.foldl stepX initX) = true :=
  ⟨CowHeapX.history_invX ops, (CowHeapX.invBX_iff _).mpr (CowHeapX.history_invX ops)⟩

example : (CowHeapX.CowExX.ops1.foldl stepX initX).core.ml = [8, 0] := by decide

/-- the invariant is preserved by every single operation -/
theorem C11_ext_invariant_step (H : HeapX) (op : HOpX) (hI : InvX H) : InvX (stepX H op) := CowHeapX.invX_step hI op

example : InvX CowHeapX.CowExX.H2 := CowHeapX.history_invX _

/-- destruction frees everything: after any history that leaves no live object, no node of any level is left -/
theorem C11_ext_no_garbage (ops : List HOpX) (hl : (ops.foldl stepX initX).core.hl = []) :
    (ops.foldl stepX initX).core.ml = [] ∧ (ops.foldl stepX initX).core.cl = [] ∧
      (ops.foldl stepX initX).core.tl = [] :=
  CowHeapX.no_garbageX (CowHeapX.history_invX ops) hl

example : (stepX CowHeapX.CowExX.H4 (.destroy 4)).core.hl = [] := by decide

/-! ### never visible through another object -/

/-- after any history, one more operation leaves the value (rules and final states) read through every handle that is
not a target of the operation exactly as it was -/
theorem C11_ext_other_handles_unchanged (ops : List HOpX) (op : HOpX) (x : Nat) (hx : x ∉ targets op) :
    absX (stepX (ops.foldl stepX initX) op) x = absX (ops.foldl stepX initX) x :=
  CowHeapX.stepX_other (CowHeapX.history_invX ops) op x hx

/-- objects 1 and 2 share two cluster nodes after `RemoveUnreachableStates`; a write through 2 is not seen through 1 -/
example : absX (stepX CowHeapX.CowExX.H1 (.add 2 5 (8, []))) 1 = absX CowHeapX.CowExX.H1 1 ∧
    absX (stepX CowHeapX.CowExX.H1 (.add 2 5 (8, []))) 2 ≠ absX CowHeapX.CowExX.H1 2 := ⟨by decide, by decide⟩

/-- "automata returned by operations stay unchanged when their operands are modified or destroyed afterwards": after any
history `ops`, an object `x` keeps its value through every continuation `later` in which `x` itself is never a target –
whatever is done to the objects it shares storage with -/
theorem C11_ext_result_survives (ops later : List HOpX) (x : Nat) (hx : ∀ op, op ∈ later → x ∉ targets op) :
    absX ((ops ++ later).foldl stepX initX) x = absX (ops.foldl stepX initX) x := by
  rw [List.foldl_append]
  exact CowHeapX.untouched_keeps_value (CowHeapX.history_invX ops) later x hx

/-- the union of 1 and 2 is moved into 4, written to, and both operands are destroyed: the value stays -/
example : absX CowHeapX.CowExX.H4 4 =
    some ⟨[(5, [(7, [[], [5]])]), (6, [(8, [[5]])]), (4, [(9, [[4]])])], [6]⟩ ∧ absX CowHeapX.CowExX.H4 1 = none := by
  decide

/-! ### what the operations return -/

/-- move construction and move assignment hand the value over: `dst` holds what `src` held, `src` is gone (and by
`C11_ext_other_handles_unchanged` nothing else changes) -/
theorem C11_ext_move (ops : List HOpX) (src dst : Nat) (s : ValX) (hs : absX (ops.foldl stepX initX) src = some s) :
    (absX (ops.foldl stepX initX) dst = none →
      absX (stepX (ops.foldl stepX initX) (.move src dst)) dst = some s ∧
      absX (stepX (ops.foldl stepX initX) (.move src dst)) src = none) ∧
    (∀ t, absX (ops.foldl stepX initX) dst = some t → src ≠ dst →
      absX (stepX (ops.foldl stepX initX) (.moveAssign src dst)) dst = some s ∧
      absX (stepX (ops.foldl stepX initX) (.moveAssign src dst)) src = none) :=
  ⟨fun hd => CowHeapX.move_value (CowHeapX.history_invX ops) hs hd,
   fun _ hd hne => CowHeapX.moveAssign_value (CowHeapX.history_invX ops) hs hd hne⟩

example : absX CowHeapX.CowExX.H2 5 ≠ none ∧ absX CowHeapX.CowExX.H2 6 = none ∧
    absX (stepX CowHeapX.CowExX.H2 (.move 5 6)) 6 = absX CowHeapX.CowExX.H2 5 := ⟨by decide, by decide, by decide⟩

/-- the selective copy constructor -/
theorem C11_ext_copy (ops : List HOpX) (src dst : Nat) (s : ValX) (copyTrans copyFinal : Bool)
    (hs : absX (ops.foldl stepX initX) src = some s) (hd : absX (ops.foldl stepX initX) dst = none) :
    absX (stepX (ops.foldl stepX initX) (.copy src dst copyTrans copyFinal)) dst =
      some ⟨if copyTrans then s.clusters else [], if copyFinal then s.final else []⟩ :=
  CowHeapX.copy_value (CowHeapX.history_invX ops) hs hd copyTrans copyFinal

example : absX CowHeapX.CowExX.H1 1 ≠ none ∧ absX CowHeapX.CowExX.H1 3 = none := ⟨by decide, by decide⟩

/-- results that share storage with an operand on purpose have the intended value:
`shareAll` (RemoveUselessStates with nothing to remove, RemoveUnreachableStates returning `*this`): rules of the operand,
kept final states; `shareClusters` (RemoveUnreachableStates): clusters of the kept states, final states of the operand;
`unionDisj` (UnionDisjointStates): `unionStore` -/
theorem C11_ext_sharing_results (ops : List HOpX) (src dst : Nat) (s : ValX)
    (hs : absX (ops.foldl stepX initX) src = some s) (hd : absX (ops.foldl stepX initX) dst = none) :
    (∀ keepF, absX (stepX (ops.foldl stepX initX) (.shareAll src dst keepF)) dst =
      some ⟨s.clusters, s.final.filter keepF⟩) ∧
    (∀ keep, absX (stepX (ops.foldl stepX initX) (.shareClusters src dst keep)) dst =
      some ⟨s.clusters.filter (fun kc => keep kc.1), s.final⟩) ∧
    (∀ b t, absX (ops.foldl stepX initX) b = some t →
      absX (stepX (ops.foldl stepX initX) (.unionDisj src b dst)) dst = some (unionStore s t)) :=
  ⟨fun keepF => CowHeapX.shareAll_value (CowHeapX.history_invX ops) hs hd keepF,
   fun keep => CowHeapX.shareClusters_value (CowHeapX.history_invX ops) hs hd keep,
   fun _ _ hb => CowHeapX.unionDisj_value (CowHeapX.history_invX ops) hs hb hd⟩

example : absX CowHeapX.CowExX.H1 2 = some ⟨[(5, [(7, [[]])]), (6, [(8, [[5]])])], [6]⟩ := by decide

/-- when the state sets are disjoint (what `UnionDisjointStates` `assert`s) the union is the concatenation of the rule
containers and the union of the final sets -/
theorem C11_ext_union_disjoint (s t : ValX) (hnd : (t.clusters.map Prod.fst).Nodup)
    (hdis : ∀ kc, kc ∈ t.clusters → s.clusters.lookup kc.1 = none) :
    unionStore s t = ⟨s.clusters ++ t.clusters, (Store.setFinals s t.final).final⟩ :=
  CowHeapX.unionStore_of_disjoint s t hnd hdis

example : unionStore ⟨[(5, [(7, [[]])])], [5]⟩ ⟨[(6, [(8, [[5]])])], [6]⟩ =
    ⟨[(5, [(7, [[]])]), (6, [(8, [[5]])])], [5, 6]⟩ := by decide

/-- `ReindexStates(dst, index)` (and `Union`, which is two of them into a new object) is a sequence of `SetStateFinal` and
insertions through the `unique…` helpers into `dst`: no other object changes -/
theorem C11_ext_reindex_into (ops : List HOpX) (s : ValX) (dst : Nat) (idx : Nat → Nat) (addFinal : Bool) (x : Nat)
    (hx : x ≠ dst) :
    absX ((reindexOps s dst idx addFinal).foldl stepX (ops.foldl stepX initX)) x = absX (ops.foldl stepX initX) x :=
  CowHeapX.reindexOps_other (CowHeapX.history_invX ops) s dst idx addFinal x hx

example : absX (CowHeapX.CowExX.opsU.foldl stepX CowHeapX.CowExX.H1) 3 =
    some ⟨[(15, [(7, [[]])]), (16, [(8, [[15]])]), (25, [(7, [[], [25, 25]])])], [16, 25]⟩ := by decide

/-! ### the extended model extends the model of `C11.lean` -/

/-- on histories of the old operations the shared part of the extended heap IS the heap of `Vata/CowHeap3.lean`, and
the rule containers read through the handles are the same -/
theorem C11_ext_conservative (ops : List CowHeap.HOp) (x : Nat) :
    ((ops.map ofHOp).foldl stepX initX).core = ops.foldl CowHeap3.step CowHeap3.init ∧
    (absX ((ops.map ofHOp).foldl stepX initX) x).map (·.clusters) =
      CowHeap3.abs (ops.foldl CowHeap3.step CowHeap3.init) x :=
  CowHeapX.extends_CowHeap3 ops x

example : (absX ((CowHeap3.CowEx3.ops1.map ofHOp).foldl stepX initX) 1).map (·.clusters) =
    some [(5, [(7, [[]]), (8, [[]])])] := by decide

/-!
## items of the "not yet proved" block of `C11.lean` closed here

* **Final states** – `SetStateFinal`, `SetStatesFinal`, `EraseFinalStates`, the final-state half of `Clear`, and the final
  sets in copy / assignment: operations of `HOpX`, the value is a whole `Store.Store`
  (`C11_ext_history_isolation`, `C11_ext_other_handles_unchanged`).
* **Move** construction / move assignment (`C11_ext_move`), and the selective copy constructor (`C11_ext_copy`).
* **Library operations that return sharing results** – `RemoveUnreachableStates` (both exits: `*this`, and the new map node
  holding the operand's cluster pointers), `RemoveUselessStates` with `result.transitions_ = transitions_`,
  `UnionDisjointStates`, `ReindexStates(dst, …)` / `Union`: `C11_ext_sharing_results`, `C11_ext_result_survives`,
  `C11_ext_reindex_into`.

## still not proved

* that the reachability / usefulness COMPUTATION inside these library operations yields the right `keep` / `keepF` (that
  is the subject of C03/C04): here `keep` is a parameter.  `RemoveUselessStates` with `remaining ≠ 0` builds its result by
  `internalAddTransition` (a sequence of `add`) and is not spelled out as a derived operation.
* state after a move: the moved-from C++ object still exists (null `transitions_`); the model treats it as dead.  Using it
  (other than destroying it or assigning to it, which is `copy src dst` on the heap) is not a C++ program we model.
* explicit finite automata, the process-wide caches, and the faithfulness of `stepX` as a transcription of the C++ remain
  as described in `C11.lean`.
-/
end Vata.Props
