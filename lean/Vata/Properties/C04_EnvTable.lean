import Vata.Proofs.EnvTable
import Vata.Properties.C04
/-!
# C04 – the environment table of `TranslateUpward` as a hash map with a user hash and a user equality

> For an automaton without useless states the upward simulation returned is the greatest relation in which q related to r
> implies that r is final whenever q is and that every rule using q at some child position is answered by a rule using r
> at the same position with identical siblings and a related parent.

`TranslateUpward` (`src/explicit_tree_transl.hh`) numbers the environments (a rule with one child position removed:
`children_`, `index_`, `symbol_`, `state_` = the parent) through `std::unordered_map<Env, size_t, env_hash> envMap`.
`env_hash` mixes ALL FOUR fields, `Env::operator==` compares `children_`, `index_`, `symbol_` but NOT `state_`.  The model
of `Vata/TaLts.lean` (`TaLts.envList`, `TaLts.envNode`, `C04_upward_via_lts`) takes all four fields as the key.  This file
justifies that reading and shows what happens without it.

## how the C++ is read (`Vata/EnvTable.lean`)

* `KeyOps κ` = (user hash, user equality).  `find ops tab k` = the first stored entry `n` with
  `hash (key n) == hash k && eq k (key n)` (`KeyOps.hit`): libstdc++ caches the hash code in the nodes of a table whose
  hash functor is not `noexcept` (`env_hash` is not), and `_M_equals` compares the cached code first, then calls the
  equality.  `translate` is `TranslatorWeak2::operator()` (`FindIfKnown`, else `stateCnt++` and `insert`), `run` the
  sequence of calls in the order of the loops, `lookup` the number of a finished table.
* `envKeyFull h4`: the code as it is (hash `h4` over four fields, equality over three); `envKeyNoState h3`: the seeded
  change (hash over three).  `boostHash4` / `boostHash3` are `env_hash` with `boost::hash_combine` /
  `boost::hash_range` on 64-bit words.
* `translateUpwardH ops A idx` / `upSimViaLtsH ops A size idx`: `TranslateUpward` / `ComputeUpwardSimulation(size)` over the
  table; edges of a rule use the number `envTranslator` returned, the loop `for (auto& envIndexPair : envMap)` adds the
  edge to the `state_` OF THE STORED KEY, `head` / `partition` are built from the stored keys (the allocation function
  runs for them only).

## abstracted

Buckets, rehashing and the order inside a bucket (the scan is over all entries in insertion order;
`C04_env_table_scan_order_irrelevant`: no stored key is accepted for a key stored later, and for the two disciplines at
most one stored entry is accepted for any key – every scan order finds the same entry); the iteration order of `envMap` (insertion order here; the theorems of `C04.lean` hold for every
order of the rules); the `head` loop of the allocation function (as in `Vata/TaLts.lean`: classes of `Env::equal` with
`Identity` = equal `key`).
-/
namespace Vata.Props
open Vata Vata.TaLts Vata.EnvTable Vata.EnvTableEx

/-- **C04, env table: the numbers returned during the loops are those of the finished table.**  For a reflexive user
equality the `i`-th call `envTranslator(ks[i])` returns the number the finished table has for `ks[i]` (entries are never
removed or changed) – so the edges may be read off the finished table, as `translateUpwardH` does. -/
theorem C04_env_table_returned_numbers {κ : Type} (ops : KeyOps κ) (hrefl : ∀ k, ops.eq k k = true) (st : TState κ)
    (ks : List κ) : (run ops st ks).1 = ks.map (lookup ops (run ops st ks).2.tab) :=
  run_fst hrefl ks st

example : (run (envKeyFull toyHash4) ⟨[], 6⟩ (allEnvs exM id)).1 = [6, 7, 6, 8] := by decide

/-- **C04, env table: the order of the bucket scan does not matter.**  In the table after the loops no stored key is
accepted (`hit`) for a key stored later (any `ops`); if the user equality is `Env::operator==` (equal `key`; both
disciplines) at most ONE stored entry is accepted for a key `e` – whichever accepted node a bucket scan meets first, it is
the one `find` returns. -/
theorem C04_env_table_scan_order_irrelevant (ops : KeyOps Env) (A : TA) (idx : Nat → Nat) :
    (envTab ops A idx).Pairwise (fun a b => ops.hit b.1 a = false) ∧
    ((∀ a b, ops.eq a b = decide (a.key = b.key)) → ∀ (e : Env) (n1 n2 : Env × Nat), n1 ∈ envTab ops A idx →
      n2 ∈ envTab ops A idx → ops.hit e n1 = true → ops.hit e n2 = true → n1 = n2) :=
  ⟨envTab_pairwise ops A idx, fun heq e _ _ h1 h2 a1 a2 => hit_unique heq A idx e h1 h2 a1 a2⟩

example : (∀ a b, (envKeyFull boostHash4).eq a b = decide (a.key = b.key)) ∧
    (∀ a b, (envKeyNoState boostHash3).eq a b = decide (a.key = b.key)) ∧
    envTab (envKeyNoState boostHash3) exM id = [(⟨[2], 0, 1, 3⟩, 6), (⟨[0], 1, 1, 3⟩, 7), (⟨[1], 1, 1, 4⟩, 8)] :=
  ⟨fun _ _ => rfl, fun _ _ => rfl, by decide⟩

/-- **C04, env table: with the four-field hash and no hash collision the table is the map keyed by all four fields.**
Assumption `NoCollision h4 A idx`: no two different environments of `A` have the same hash code (`h4` injective on the
four-field tuples that occur – for the 64-bit `boost` hash this is the stated assumption, it is decidable per automaton:
`noCollisionB`).  Then the table is `TaLts.envList A idx` numbered `N + 1, N + 2, …`, every look-up returns
`TaLts.envNode`, the translation IS `TaLts.translateUpward A idx` (LTS, partition and block relation), and
`ComputeUpwardSimulation` over it returns `upSimRef A` under the hypotheses of `C04_upward_via_lts`. -/
theorem C04_env_table_full_is_exact (h4 : List Nat × Nat × Nat × Nat → Nat) (A : TA) (idx : Nat → Nat)
    (hnc : NoCollision h4 A idx) :
    envTab (envKeyFull h4) A idx = (envList A idx).zipIdx ((parents A).length + 1) ∧
    (∀ e, e ∈ envList A idx → envNodeH (envKeyFull h4) A idx e = envNode A idx e) ∧
    translateUpwardH (envKeyFull h4) A idx = translateUpward A idx ∧
    (∀ size, upSimViaLtsH (envKeyFull h4) A size idx = upSimViaLts A size idx) ∧
    (∀ size, IdxOk A (parents A).length idx → (parents A).length ≤ size → AllOwnRule A →
      ∀ q r, (q, r) ∈ upSimViaLtsH (envKeyFull h4) A size idx ↔ (q, r) ∈ upSimRef A) := by
  have hex := exact_full hnc
  have h4' : ∀ size, upSimViaLtsH (envKeyFull h4) A size idx = upSimViaLts A size idx := by
    intro size
    unfold upSimViaLtsH upSimViaLts
    rw [translateUpwardH_exact hex]
  refine ⟨envTab_exact hex, fun e he => envNodeH_exact hex he, translateUpwardH_exact hex, h4', ?_⟩
  intro size hidx hsize hown q r
  rw [h4' size]
  exact upSimViaLts_iff A size idx hidx hsize hown q r

/-- non-vacuity: `env_hash` as coded (`boost::hash_combine` on 64-bit words) has no collision on the environments of
`exM` (two of which differ in `state_` only) and of `exC` under a non-identity numbering -/
example : NoCollision boostHash4 exM id ∧ NoCollision boostHash4 TaLtsEx.exC (TaLtsEx.perm [2, 3, 1, 0]) ∧
    (⟨[2], 0, 1, 3⟩ : Env) ∈ envList exM id ∧ (⟨[2], 0, 1, 4⟩ : Env) ∈ envList exM id ∧
    IdxOk exM (parents exM).length id ∧ (parents exM).length ≤ 5 ∧ AllOwnRule exM :=
  ⟨noCollisionB_iff.mp (by decide), noCollisionB_iff.mp (by decide), by decide, by decide, idxOkB_iff.mp (by decide),
    by decide, allOwnRuleB_iff.mp (by decide)⟩

/-- **C04, env table: a hash collision between two environments that differ in `state_` only merges them** (the latent
risk of the code as it is).  General part: for every four-field hash `h4`, two different environments with equal `key`
(children, index, symbol) and equal hash code get the same node and are never both stored – so only one of the two
parents gets an edge from that node.  Concrete part (toy hash `(Σ children + index + symbol + state²) mod 7`, automaton
`exM`: `a → 0, 1, 2`, `g(0,2) → 3`, `g(1,2) → 4`, `h(4) → 3`, `F = {3}`): `g(□,2) → 3` and `g(□,2) → 4` collide, the
second is not stored (while `g(1,□) → 4`, which has the same code but another `key`, is), and the upward simulation
computed relates `0` to `1`, which `upSimRef` does not (`3` is final, `4` is not).  The hypothesis `NoCollision` of
`C04_env_table_full_is_exact` can therefore not be dropped. -/
theorem C04_env_table_collision_merges :
    (∀ (h4 : List Nat × Nat × Nat × Nat → Nat) (A : TA) (idx : Nat → Nat) (e1 e2 : Env), e1 ≠ e2 → e1.key = e2.key →
      h4 (Env.tuple e1) = h4 (Env.tuple e2) →
      envNodeH (envKeyFull h4) A idx e1 = envNodeH (envKeyFull h4) A idx e2 ∧
      ¬ (e1 ∈ envListH (envKeyFull h4) A idx ∧ e2 ∈ envListH (envKeyFull h4) A idx)) ∧
    ((⟨[2], 0, 1, 3⟩ : Env) ∈ envList exM id ∧ (⟨[2], 0, 1, 4⟩ : Env) ∈ envList exM id ∧
      toyHash4 ([2], 0, 1, 3) = toyHash4 ([2], 0, 1, 4) ∧ ¬ NoCollision toyHash4 exM id ∧
      envListH (envKeyFull toyHash4) exM id = [⟨[2], 0, 1, 3⟩, ⟨[0], 1, 1, 3⟩, ⟨[1], 1, 1, 4⟩] ∧
      envList exM id = [⟨[2], 0, 1, 3⟩, ⟨[0], 1, 1, 3⟩, ⟨[2], 0, 1, 4⟩, ⟨[1], 1, 1, 4⟩] ∧
      (0, 1) ∈ upSimViaLtsH (envKeyFull toyHash4) exM 5 id ∧ (0, 1) ∉ upSimRef exM) :=
  ⟨fun h4 A idx e1 e2 hne hk hh =>
      ⟨envNodeH_collision (fun _ _ => rfl) A idx hh hk, not_both_stored (fun _ _ => rfl) A idx hne hh hk⟩,
    by decide, by decide, by decide, fun h => absurd (noCollisionB_iff.mpr h) (by decide), by decide, by decide,
    by decide, by decide⟩

/-- **C04, env table: the seeded change (`state_` removed from `env_hash`) is wrong.**  General part: for EVERY three-field
hash `h3`, any two environments that differ in `state_` only get the same node and are never both stored (which of the
two survives depends on the order of the loops) – the environments of `g(x,s) → p` and `g(y,s) → p'` are merged, the node
has an edge to one of the parents only.  Concrete part, `env_hash` without its last `hash_combine` (`boostHash3`) on the
automaton `exM` (`a → 0, 1, 2`, `g(0,2) → 3`, `g(1,2) → 4`, `h(4) → 3`, `F = {3}`; all states and rules useful, every
state owns a rule, the identity numbering is admissible): the table has three entries instead of four, the upward
simulation computed contains `(0, 1)`, `upSimRef exM` does not (`g(0,2) → 3` can only be answered by `g(1,2) → 4`, and `3`
is final while `4` is not); the code as it is (`boostHash4`) computes `upSimRef exM`. -/
theorem C04_env_table_nostate_wrong :
    (∀ (h3 : List Nat × Nat × Nat → Nat) (A : TA) (idx : Nat → Nat) (e1 e2 : Env), e1 ≠ e2 → e1.key = e2.key →
      envNodeH (envKeyNoState h3) A idx e1 = envNodeH (envKeyNoState h3) A idx e2 ∧
      ¬ (e1 ∈ envListH (envKeyNoState h3) A idx ∧ e2 ∈ envListH (envKeyNoState h3) A idx)) ∧
    (allUsefulB exM = true ∧ AllOwnRule exM ∧ IdxOk exM (parents exM).length id ∧ (parents exM).length = 5 ∧
      envListH (envKeyNoState boostHash3) exM id = [⟨[2], 0, 1, 3⟩, ⟨[0], 1, 1, 3⟩, ⟨[1], 1, 1, 4⟩] ∧
      envList exM id = [⟨[2], 0, 1, 3⟩, ⟨[0], 1, 1, 3⟩, ⟨[2], 0, 1, 4⟩, ⟨[1], 1, 1, 4⟩] ∧
      (0, 1) ∈ upSimViaLtsH (envKeyNoState boostHash3) exM 5 id ∧ (0, 1) ∉ upSimRef exM ∧
      (0, 1) ∉ upSimViaLtsH (envKeyFull boostHash4) exM 5 id ∧
      (∀ q r, (q, r) ∈ upSimViaLtsH (envKeyFull boostHash4) exM 5 id ↔ (q, r) ∈ upSimRef exM)) :=
  ⟨fun h3 A idx e1 e2 hne hk =>
      ⟨envNodeH_collision (fun _ _ => rfl) A idx (congrArg h3 hk) hk,
        not_both_stored (fun _ _ => rfl) A idx hne (congrArg h3 hk) hk⟩,
    by decide, allOwnRuleB_iff.mp (by decide), idxOkB_iff.mp (by decide), by decide, by decide, by decide, by decide,
    by decide, by decide,
    (C04_env_table_full_is_exact boostHash4 exM id (noCollisionB_iff.mp (by decide))).2.2.2.2 5
      (idxOkB_iff.mp (by decide)) (by decide) (allOwnRuleB_iff.mp (by decide))⟩

/-!
## still not proved

* `NoCollision` is an assumption about the 64-bit hash, not a theorem: `boost::hash_combine` is not injective, so for the
  code as it is the merge of `C04_env_table_collision_merges` remains possible in principle (decidable per automaton by
  `noCollisionB boostHash4 A idx`).
* Buckets / rehashing / the order of a bucket scan of libstdc++ are not modelled (scan over all entries, first match);
  `C04_env_table_scan_order_irrelevant` shows that at most one stored entry is accepted for a key, but a table with
  explicit buckets (and the theorem "every bucket order yields the same table") is not formalised.  If the hash codes were NOT cached (`noexcept` hash functor) the scan
  would call `operator==` on every node of the bucket and merge environments that merely share a bucket – not modelled.
* The wrongness of the seeded change is kernel-checked on the concrete automaton `exM` with `boostHash3` (the merge
  itself is proved for every hash and automaton); no general theorem "for every `A` with two such rules and parents
  that are not upward-similar the result differs from `upSimRef`" is proved.
* The `head` loop of the allocation function and the iteration order of `envMap` are read as in `Vata/TaLts.lean`
  (classes by `key`, insertion order), not mirrored statement by statement.
-/

end Vata.Props
