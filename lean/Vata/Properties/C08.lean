import Vata.Lang
import Vata.Isect
import Vata.Apply
import Vata.Proofs.Rename
import Vata.Proofs.TrimModel
import Vata.Proofs.IsectModel
import Vata.Proofs.MtbddOps
/-!
# C08 – BDD-encoded automata: load, union, intersection, trimming keep exact languages

> A Timbuk automaton loaded into either BDD encoding and dumped again denotes the same language as in the explicit
> encoding.  For both BDD encodings Union and UnionDisjointStates yield exactly the union, Intersection exactly the
> intersection, RemoveUnreachableStates and RemoveUselessStates keep the language (leaving no useless state after the
> latter), and converting a bottom-up automaton to top-down form keeps the language.  None of these calls changes the
> language of an operand.

## How the statement is read into the model

* **Specification (L0).**  A BDD-encoded automaton denotes the tree automaton whose rules are the paths of its
  transition MTBDDs; after dumping it is an ordinary `TA`.  The specifications are those of C02/C03 on the dumped
  automata: `∀ t, accepts U t = (accepts A t || accepts B t)`, `∀ t, accepts P t = (accepts A t && accepts B t)`,
  `LangEq`, and `UsefulState` / `UsefulRule` (`Vata/Spec.lean`) for "no useless state".
* **Reference / checkers.**  `isUnionM`, `isIsectM`, `equivM` (`Vata/Lang.lean`) and `allUsefulB` (`Vata/Ref.lean`)
  applied to the dumps of the results (and of the operands after the call) of the real BDD operations.
* **Model of the code.**  There is **no** model of the two symbolic encodings.  Proved are (a) the reference and the
  checker, (b) the abstract constructions the symbolic operations implement symbol-wise (plain union of automata with
  disjoint states, product on a closed set of pairs, restriction to useful states), and (c) that the MTBDD `apply`
  with which the transition functions are combined is pointwise, i.e. acts on every symbol (every assignment of the
  symbol variables) separately.  All theorems besides the reference are partial claims with respect to the property.
-/
namespace Vata.Props
open Vata

/-- every verdict of the reference checkers applied to the dumped results is exact -/
theorem C08_reference_checkers_exact (R A B : TA) (fuel : Nat) (b : Bool) :
    (isUnionM R A B fuel = some b → (b = true ↔ ∀ t, accepts R t = (accepts A t || accepts B t))) ∧
    (isIsectM R A B fuel = some b → (b = true ↔ ∀ t, accepts R t = (accepts A t && accepts B t))) ∧
    (equivM R A fuel = some b → (b = true ↔ LangEq R A)) :=
  ⟨isUnionM_iff R A B fuel b, isIsectM_iff R A B fuel b, equivM_iff R A fuel b⟩

example : isUnionM (unionDisjoint (reindex (· + 10) RenameEx.exA) RenameEx.exB) RenameEx.exA RenameEx.exB 10 = some true ∧
    isIsectM (isectFull IsectEx.exA IsectEx.exB) IsectEx.exA IsectEx.exB 10 = some true ∧
    equivM (removeUseless TrimEx.exA) TrimEx.exA 10 = some true ∧ equivM TrimEx.exEmpty TrimEx.exA 10 = some false := by
  decide

/-- "leaving no useless state": the Boolean check applied to the dump of `RemoveUselessStates` is sound -/
theorem C08_no_useless_state_check_sound (A : TA) (h : allUsefulB A = true) :
    (∀ q, Occurs A q → UsefulState A q) ∧ (∀ r, r ∈ A.rules → UsefulRule A r) := allUsefulB_sound A h

example : allUsefulB (removeUseless TrimEx.exA) = true ∧ allUsefulB TrimEx.exA = false := by decide

/-- the abstract constructions the symbolic operations implement are exact: union of automata with disjoint states,
product on a closed injectively numbered set of pairs containing `F_A × F_B`, removal of useless states.  Partial:
that the BDD operations compute these constructions is not modelled -/
theorem C08_abstract_constructions_partial (A B : TA) :
    ((∀ q, q ∈ A.states → q ∉ B.states) → ∀ t, accepts (unionDisjoint A B) t = (accepts A t || accepts B t)) ∧
    (∀ (D : List (Nat × Nat)) (m : Nat × Nat → Nat), Closed A B D → InjOn m D →
      (∀ p, p ∈ A.final → ∀ p', p' ∈ B.final → (p, p') ∈ D) →
      ∀ t, accepts (prodOn A B D m) t = true ↔ accepts A t = true ∧ accepts B t = true) ∧
    LangEq (removeUnreachable A) A ∧ LangEq (removeUseless A) A :=
  ⟨fun hdis t => unionDisjoint_lang A B hdis t, fun D m hc hinj hF t => isect_cert A B D m hc hinj hF t,
   fun t => removeUnreachable_lang A t, fun t => removeUseless_lang A t⟩

example : (∀ q, q ∈ (reindex (· + 10) RenameEx.exA).states → q ∉ RenameEx.exB.states) ∧
    Closed IsectEx.exA IsectEx.exB [(1, 1), (0, 0), (0, 1), (1, 2)] := ⟨by decide, Isx.isClosedB_iff.mp (by decide)⟩

/-- the MTBDD `apply` that combines two transition functions (set union for `Union`, pairwise product for
`Intersection`) acts pointwise: for every assignment of the symbol variables the leaf of the result is the leaf
operation applied to the leaves of the operands, and the result is again reduced and ordered.  Partial: the leaf
operations and the tables around them are not modelled -/
theorem C08_apply_pointwise_partial {α β γ : Type} [DecidableEq γ] (f : α → β → γ) (a : M.Node α) (b : M.Node β) :
    (∀ ρ, M.eval (M.apply2 f a b) ρ = f (M.eval a ρ) (M.eval b ρ)) ∧ (M.WF a → M.WF b → M.WF (M.apply2 f a b)) :=
  ⟨fun ρ => M.apply2_eval f ρ a b, M.apply2_wf f a b⟩

-- leaves are sets of states; `apply` with set union on two one-variable diagrams
example : M.apply2 (fun (s s' : List Nat) => s ++ s') (.node 0 (.leaf [1]) (.leaf [])) (.node 0 (.leaf [2]) (.leaf [3])) =
    .node 0 (.leaf [1, 2]) (.leaf [3]) := by simp [M.apply2, M.mk]

/-!
## not yet proved

* No model of the BDD encodings, hence nothing about: loading a Timbuk automaton into an encoding and dumping it
  (`addArityToSymbol`, 16-bit symbols), the symbolic `Union`, `UnionDisjointStates`, `Intersection`
  (`UnionApplyFunctor`, `IntersectionApplyFunctor`, product-state counter), the AND/OR-graph usefulness analysis, and
  `GetTopDownAut` (bottom-up to top-down conversion).  These are correspondence-check-only claims against
  `C08_reference_checkers_exact` and `C08_no_useless_state_check_sound`.
* "None of these calls changes the language of an operand" concerns transition tables shared between copies (defect
  D13 of the unchanged tree); the sharing of BDD transition tables is not modelled (the copy-on-write models of C11 are
  about the explicit encoding).
-/
end Vata.Props
