import Vata.Lang
import Vata.Isect
import Vata.Apply
import Vata.Proofs.Rename
import Vata.Proofs.TrimModel
import Vata.Proofs.IsectModel
import Vata.Proofs.MtbddOps
import Vata.Proofs.BddAbs
import Vata.Proofs.BddAbsLang
import Vata.Properties.C08_Tables
import Vata.Properties.C08_Isect
import Vata.Properties.RefTotal
/-!
# C08 – BDD-encoded automata: load, union, intersection, trimming keep exact languages

> A Timbuk automaton loaded into either BDD encoding and dumped again denotes the same language as in the explicit
> encoding.  For both BDD encodings Union and UnionDisjointStates yield exactly the union, Intersection exactly the
> intersection, RemoveUnreachableStates and RemoveUselessStates keep the language (leaving no useless state after the
> latter), and converting a bottom-up automaton to top-down form keeps the language.  None of these calls changes the
> language of an operand.

## How the statement is read into the model

* **Specification (L0).**  A BDD-encoded automaton denotes the tree automaton whose rules are the paths of its
  transition MTBDDs; after dumping it is an ordinary `TA`.  The specifications are those of C02/C03 on the dumped
  automata: `∀ t, accepts U t = (accepts A t || accepts B t)`, `∀ t, accepts P t = (accepts A t && accepts B t)`,
  `LangEq`, and `UsefulState` / `UsefulRule` (`Vata/Spec.lean`) for "no useless state".
* **Reference / checkers.**  `isUnionM`, `isIsectM`, `equivM` (`Vata/Lang.lean`) and `allUsefulB` (`Vata/Ref.lean`)
  applied to the dumps of the results (and of the operands after the call) of the real BDD operations.
* **Model of the code: the bottom-up transition tables** (`Vata/BddAbs.lean`).  A `BddAbs.Table` is a
  `TransTableWrapper`: the MTBDD `nullaryMtbdd_` for the empty tuple plus a map from non-empty children tuples to MTBDDs
  (default `leaf ∅`); an MTBDD is an `M.Node (List Nat)` over the 16 bits of the symbol (`SymbolicVarAsgn(16, f)`,
  `BddAbs.bits f`) whose leaves are SETS of parent states.  The abstraction is `HasRule T ρ ks p := p ∈ eval (T.get ks) ρ`
  ("the rule `ρ(ks) → p` is in the table"); `absBU syms T final` is the dump: the `TA` with these rules for the symbols
  of the dictionary `syms`.  Modelled operations: `addTransition` / `addCube` (`AddTransition`: `SetMtbdd(ks,
  union(GetMtbdd(ks), MTBDD(symbol, {p}, ∅)))`), `ofRules` (loading a rule list), `unionT` / `unionDisj` (`Union` /
  `UnionDisjointStates`: `UnionApplyFunctor` on the nullary MTBDDs, the tuple maps put together) and `isectAt` (one step
  of `Intersection`: `SetMtbdd(tuple, apply2 IntersectionApplyFunctor lhs rhs)`).
* **What is proved about it.**  (a) the reference and the checker are exact; (b) the tables denote exactly the rules that
  were put in, so load-then-dump keeps the rules and the language, the union tables hold exactly the rules of both
  operands and the dump accepts exactly the union, one intersection step installs exactly the product rules of the two
  tuples (`C08_bu_*`); (c) the abstract constructions (plain union on disjoint states, product on a closed set of pairs,
  trimming) are exact; (d) the MTBDD `apply` is pointwise.
* **The rest of the property** is in two topic files, summarised by `C08_loaded_both_encodings` at the end of this file:
  `Vata/Properties/C08_Tables.lean` – the top-down tables (`BddAbsTD.TableTD`: state ↦ MTBDD over 16 symbol and 6 arity
  variables with sets of children tuples in the leaves), load / dump of both encodings, the top-down unions, `GetTopDownAut`,
  the symbolic trimming of both encodings; `Vata/Properties/C08_Isect.lean` – the two symbolic `Intersection`s with their
  work-lists, translators and product-state counters (`Vata/BddIsect.lean`).  The 16-character `0/1/X` symbols of the Timbuk
  layer and the dictionary helpers are modelled in `Vata/Glue.lean` (`Vata/Properties/Util_Glue.lean`).
-/
namespace Vata.Props
open Vata

/-- every verdict of the reference checkers applied to the dumped results is exact -/
theorem C08_reference_checkers_exact (R A B : TA) (fuel : Nat) (b : Bool) :
    (isUnionM R A B fuel = some b → (b = true ↔ ∀ t, accepts R t = (accepts A t || accepts B t))) ∧
    (isIsectM R A B fuel = some b → (b = true ↔ ∀ t, accepts R t = (accepts A t && accepts B t))) ∧
    (equivM R A fuel = some b → (b = true ↔ LangEq R A)) :=
  ⟨isUnionM_iff R A B fuel b, isIsectM_iff R A B fuel b, equivM_iff R A fuel b⟩

example : isUnionM (unionDisjoint (reindex (· + 10) RenameEx.exA) RenameEx.exB) RenameEx.exA RenameEx.exB 10 = some true ∧
    isIsectM (isectFull IsectEx.exA IsectEx.exB) IsectEx.exA IsectEx.exB 10 = some true ∧
    equivM (removeUseless TrimEx.exA) TrimEx.exA 10 = some true ∧ equivM TrimEx.exEmpty TrimEx.exA 10 = some false := by
  decide

/-- "leaving no useless state": the Boolean check applied to the dump of `RemoveUselessStates` is sound -/
theorem C08_no_useless_state_check_sound (A : TA) (h : allUsefulB A = true) :
    (∀ q, Occurs A q → UsefulState A q) ∧ (∀ r, r ∈ A.rules → UsefulRule A r) := allUsefulB_sound A h

example : allUsefulB (removeUseless TrimEx.exA) = true ∧ allUsefulB TrimEx.exA = false := by decide

/-- the abstract constructions the symbolic operations implement are exact: union of automata with disjoint states,
product on a closed injectively numbered set of pairs containing `F_A × F_B`, removal of useless states.  Partial: only
the abstract constructions; that the BDD operations compute them is `C08_bu_union_lang`, `C08_td_union`, `C08_td_isect`,
`C08_bu_isect`, `C08_td_trim`, `C08_bu_trim` (summarised in `C08_loaded_both_encodings`) -/
theorem C08_abstract_constructions_partial (A B : TA) :
    ((∀ q, q ∈ A.states → q ∉ B.states) → ∀ t, accepts (unionDisjoint A B) t = (accepts A t || accepts B t)) ∧
    (∀ (D : List (Nat × Nat)) (m : Nat × Nat → Nat), Closed A B D → InjOn m D →
      (∀ p, p ∈ A.final → ∀ p', p' ∈ B.final → (p, p') ∈ D) →
      ∀ t, accepts (prodOn A B D m) t = true ↔ accepts A t = true ∧ accepts B t = true) ∧
    LangEq (removeUnreachable A) A ∧ LangEq (removeUseless A) A :=
  ⟨fun hdis t => unionDisjoint_lang A B hdis t, fun D m hc hinj hF t => isect_cert A B D m hc hinj hF t,
   fun t => removeUnreachable_lang A t, fun t => removeUseless_lang A t⟩

example : (∀ q, q ∈ (reindex (· + 10) RenameEx.exA).states → q ∉ RenameEx.exB.states) ∧
    Closed IsectEx.exA IsectEx.exB [(1, 1), (0, 0), (0, 1), (1, 2)] := ⟨by decide, Isx.isClosedB_iff.mp (by decide)⟩

/-- the MTBDD `apply` that combines two transition functions (set union for `Union`, pairwise product for
`Intersection`) acts pointwise: for every assignment of the symbol variables the leaf of the result is the leaf
operation applied to the leaves of the operands, and the result is again reduced and ordered.  Partial: the pure apply
only; the leaf operations and the tables around them are `C08_bu_union`, `C08_bu_isect_step` below, and the apply whose leaf
operation has a side effect on the translator (`Intersection`) is `C08_isect_apply_side_effect` -/
theorem C08_apply_pointwise_partial {α β γ : Type} [DecidableEq γ] (f : α → β → γ) (a : M.Node α) (b : M.Node β) :
    (∀ ρ, M.eval (M.apply2 f a b) ρ = f (M.eval a ρ) (M.eval b ρ)) ∧ (M.WF a → M.WF b → M.WF (M.apply2 f a b)) :=
  ⟨fun ρ => M.apply2_eval f ρ a b, M.apply2_wf f a b⟩

-- leaves are sets of states; `apply` with set union on two one-variable diagrams
example : M.apply2 (fun (s s' : List Nat) => s ++ s') (.node 0 (.leaf [1]) (.leaf [])) (.node 0 (.leaf [2]) (.leaf [3])) =
    .node 0 (.leaf [1, 2]) (.leaf [3]) := by simp [M.apply2, M.mk]

/-! ### the bottom-up transition tables denote exactly the rules put into them -/

/-- `AddTransition(ks, f, p)` on a bottom-up table adds exactly the rule `f(ks) → p` (first component: for 16-bit symbol
numbers `f`, `g`); with a symbolic assignment `asgn` (a cube, don't-cares allowed) exactly the rules `ρ(ks) → p` for the
valuations `ρ` in the cube (second component).  Every other rule is kept, none is invented -/
theorem C08_bu_add_transition (T : BddAbs.Table) (ks : List Nat) (p : Nat) :
    (∀ f, f < 2 ^ 16 → ∀ g, g < 2 ^ 16 → ∀ ks' p',
      BddAbs.HasRule (BddAbs.addTransition T ks f p) (BddAbs.bits g) ks' p' ↔
        BddAbs.HasRule T (BddAbs.bits g) ks' p' ∨ (g = f ∧ ks' = ks ∧ p' = p)) ∧
    (∀ asgn ρ ks' p', BddAbs.HasRule (BddAbs.addCube T ks asgn p) ρ ks' p' ↔
        BddAbs.HasRule T ρ ks' p' ∨ (ks' = ks ∧ p' = p ∧ M.agrees ρ asgn 0 = true)) :=
  ⟨fun f hf g hg ks' p' => BddAbs.absBU_addTransition T ks f p hf g hg ks' p',
    fun asgn ρ ks' p' => BddAbs.absBU_add T ks asgn p ρ ks' p'⟩

example : BddAbs.HasRule (BddAbs.addTransition (BddAbs.ofRules BddAbs.BddAbsEx.rsA) [2] 3 7) (BddAbs.bits 3) [2] 7 :=
  ((C08_bu_add_transition _ [2] 7).1 3 (by decide) 3 (by decide) [2] 7).mpr (Or.inr ⟨rfl, rfl, rfl⟩)

/-- "loaded into the (bottom-up) BDD encoding and dumped again": the table built by `AddTransition` for each rule of a
list holds exactly the rules of the list (as a set; symbols are 16-bit numbers), and the dumped automaton – the rules of
the table over a dictionary `syms` that covers the symbols of `A`, with the final states of `A` – accepts exactly the
trees `A` accepts -/
theorem C08_bu_load_dump (A : TA) (hrs : ∀ r, r ∈ A.rules → r.sym < 2 ^ 16) :
    (∀ g, g < 2 ^ 16 → ∀ ks p, BddAbs.HasRule (BddAbs.ofRules A.rules) (BddAbs.bits g) ks p ↔ (⟨g, ks, p⟩ : Rule) ∈ A.rules) ∧
    (∀ syms : List Nat, (∀ f, f ∈ syms → f < 2 ^ 16) → (∀ r, r ∈ A.rules → r.sym ∈ syms) →
      (∀ r, r ∈ (BddAbs.absBU syms (BddAbs.ofRules A.rules) A.final).rules ↔ r ∈ A.rules) ∧
      ∀ t, accepts (BddAbs.absBU syms (BddAbs.ofRules A.rules) A.final) t = accepts A t) :=
  ⟨fun g hg ks p => BddAbs.absBU_ofRules A.rules hrs g hg ks p,
    fun syms hs hc => ⟨BddAbs.mem_absRules_ofRules_cover A syms hrs hs hc, BddAbs.ofRules_lang A syms hrs hs hc⟩⟩

example : (∀ r, r ∈ BddAbs.BddAbsLangEx.exB.rules → r.sym < 2 ^ 16) ∧ (∀ f, f ∈ [0, 1, 2] → f < 2 ^ 16) ∧
    (∀ r, r ∈ BddAbs.BddAbsLangEx.exB.rules → r.sym ∈ [0, 1, 2]) := ⟨by decide, by decide, by decide⟩
-- the dump lists the rules in the order of the table, not of the input
example : (BddAbs.absRules [0, 1, 2, 3] (BddAbs.ofRules BddAbs.BddAbsEx.rsB)).map (fun r => (r.sym, r.kids, r.parent)) =
    [(0, [], 3), (1, [], 4), (2, [4, 4], 9), (2, [3, 3], 9)] := by decide +kernel

/-- `Union` / `UnionDisjointStates` on bottom-up tables.  Rule level: the table-wise union holds exactly the rules of the
two tables, and so does the union "maps put together, nullary MTBDDs united" when no non-empty tuple has an entry in both
tables (`hd`, the situation after the states were renumbered apart).  Language level: for the encodings of `A` and `B` with
disjoint state sets the dump accepts exactly `L(A) ∪ L(B)` -/
theorem C08_bu_union (T₁ T₂ : BddAbs.Table) :
    (∀ ρ ks p, BddAbs.HasRule (BddAbs.unionT T₁ T₂) ρ ks p ↔ BddAbs.HasRule T₁ ρ ks p ∨ BddAbs.HasRule T₂ ρ ks p) ∧
    ((∀ k, k ∈ T₁.entries.map (·.1) → k ∉ T₂.entries.map (·.1)) →
      ∀ ρ ks p, BddAbs.HasRule (BddAbs.unionDisj T₁ T₂) ρ ks p ↔ BddAbs.HasRule T₁ ρ ks p ∨ BddAbs.HasRule T₂ ρ ks p) :=
  ⟨BddAbs.absBU_union T₁ T₂, fun hd => BddAbs.absBU_unionDisj T₁ T₂ hd⟩

example : ∀ k, k ∈ (BddAbs.ofRules BddAbs.BddAbsEx.rsA).entries.map (·.1) →
    k ∉ (BddAbs.ofRules BddAbs.BddAbsEx.rsB).entries.map (·.1) := by decide

/-- "`Union` and `UnionDisjointStates` yield exactly the union", for the bottom-up encoding at the level of languages:
the dump of the union of the tables loaded from `A` and `B` (operands with disjoint state sets, dictionary `syms` covering
their symbols, all symbols 16-bit numbers), with the final states of both, accepts exactly `L(A) ∪ L(B)` – for the
table-wise union without further hypothesis, for the "maps put together" union under the hypothesis that no non-empty
tuple has an entry in both tables -/
theorem C08_bu_union_lang (A B : TA) (syms : List Nat)
    (hA : ∀ r, r ∈ A.rules → r.sym < 2 ^ 16) (hB : ∀ r, r ∈ B.rules → r.sym < 2 ^ 16)
    (hs : ∀ f, f ∈ syms → f < 2 ^ 16) (hcA : ∀ r, r ∈ A.rules → r.sym ∈ syms) (hcB : ∀ r, r ∈ B.rules → r.sym ∈ syms)
    (hdis : ∀ q, q ∈ A.states → q ∉ B.states) :
    (∀ t, accepts (BddAbs.absBU syms (BddAbs.unionT (BddAbs.ofRules A.rules) (BddAbs.ofRules B.rules)) (A.final ++ B.final)) t =
      (accepts A t || accepts B t)) ∧
    ((∀ k, k ∈ (BddAbs.ofRules A.rules).entries.map (·.1) → k ∉ (BddAbs.ofRules B.rules).entries.map (·.1)) →
      ∀ t, accepts (BddAbs.absBU syms (BddAbs.unionDisj (BddAbs.ofRules A.rules) (BddAbs.ofRules B.rules))
        (A.final ++ B.final)) t = (accepts A t || accepts B t)) :=
  ⟨BddAbs.unionT_lang A B syms hA hB hs hcA hcB hdis,
    fun hd => BddAbs.unionDisj_lang A B syms hd hA hB hs hcA hcB hdis⟩

example : (∀ q, q ∈ BddAbs.BddAbsLangEx.exA.states → q ∉ BddAbs.BddAbsLangEx.exB.states) ∧
    (BddAbs.absBU [0, 1, 2] (BddAbs.unionT (BddAbs.ofRules BddAbs.BddAbsLangEx.exA.rules)
      (BddAbs.ofRules BddAbs.BddAbsLangEx.exB.rules)) [2, 9]).rules.length = 7 := ⟨by decide, by decide +kernel⟩

/-- one step of the symbolic `Intersection`: `SetMtbdd(ks, apply2 IntersectionApplyFunctor (lhs.GetMtbdd ks₁)
(rhs.GetMtbdd ks₂))` installs for the tuple `ks` exactly the rules `ρ(ks) → tr(p₁, p₂)` with `ρ(ks₁) → p₁` in the left and
`ρ(ks₂) → p₂` in the right table (same symbol valuation `ρ`), and leaves every other tuple alone.  In terms of the product
automaton of C02: when the two tables hold the rules of `A` and `B` and `ks` is the tuple of product states of `ks₁`,
`ks₂`, these are the rules of `prodRules A B D m` built from an `A`-rule on `ks₁` and a `B`-rule on `ks₂` -/
theorem C08_bu_isect_step (tr : Nat × Nat → Nat) (T T₁ T₂ : BddAbs.Table) (ks₁ ks₂ ks : List Nat) :
    (∀ ρ ks' p, BddAbs.HasRule (BddAbs.isectAt tr T T₁ T₂ ks₁ ks₂ ks) ρ ks' p ↔
      if ks = ks' then ∃ p₁ p₂, BddAbs.HasRule T₁ ρ ks₁ p₁ ∧ BddAbs.HasRule T₂ ρ ks₂ p₂ ∧ tr (p₁, p₂) = p
      else BddAbs.HasRule T ρ ks' p) ∧
    (∀ (A B : TA) (D : List (Nat × Nat)) (f : Nat), ks₂.length = ks₁.length →
      (∀ p, BddAbs.HasRule T₁ (BddAbs.bits f) ks₁ p ↔ (⟨f, ks₁, p⟩ : Rule) ∈ A.rules) →
      (∀ p, BddAbs.HasRule T₂ (BddAbs.bits f) ks₂ p ↔ (⟨f, ks₂, p⟩ : Rule) ∈ B.rules) →
      (∀ p₁ p₂, (⟨f, ks₁, p₁⟩ : Rule) ∈ A.rules → (⟨f, ks₂, p₂⟩ : Rule) ∈ B.rules → (p₁, p₂) ∈ D) →
      ∀ p, BddAbs.HasRule (BddAbs.isectAt tr T T₁ T₂ ks₁ ks₂ ((ks₁.zip ks₂).map tr)) (BddAbs.bits f) ((ks₁.zip ks₂).map tr) p ↔
        ∃ r, r ∈ A.rules ∧ ∃ r', r' ∈ B.rules ∧ r.sym = f ∧ r'.sym = f ∧ r.kids = ks₁ ∧ r'.kids = ks₂ ∧
          tr (r.parent, r'.parent) = p ∧ (⟨f, (ks₁.zip ks₂).map tr, p⟩ : Rule) ∈ prodRules A B D tr) :=
  ⟨fun ρ ks' p => BddAbs.absBU_isect tr T T₁ T₂ ks₁ ks₂ ks ρ ks' p,
    fun A B D f hl h₁ h₂ hD p => BddAbs.absBU_isect_prod A B D tr T T₁ T₂ ks₁ ks₂ hl f h₁ h₂ hD p⟩

-- leaves and the tuples `(1,1)` / `(3,3)` of the example with the pairing `10·x + y`
example : (BddAbs.absRules [0, 1, 2]
    (BddAbs.isectAt (fun p => 10 * p.1 + p.2)
      (BddAbs.isectAt (fun p => 10 * p.1 + p.2) BddAbs.Table.empty (BddAbs.ofRules BddAbs.BddAbsEx.rsA)
        (BddAbs.ofRules BddAbs.BddAbsEx.rsB) [] [] [])
      (BddAbs.ofRules BddAbs.BddAbsEx.rsA) (BddAbs.ofRules BddAbs.BddAbsEx.rsB) [1, 1] [3, 3] [13, 13])).map
        (fun r => (r.sym, r.kids, r.parent)) = [(0, [], 13), (1, [], 14), (2, [13, 13], 29)] := by decide +kernel

/-! ### the property for loaded automata, both encodings, in one statement

Corollary of the topic files `Vata/Properties/C08_Tables.lean` (top-down tables, `GetTopDownAut`, symbolic trimming) and
`Vata/Properties/C08_Isect.lean` (the two symbolic intersections with their work-lists). -/

section
open Vata.M Vata.BddAbs Vata.BddAbsTD Vata.BddIsect

/-- **C08 for automata loaded into either encoding.**  `A`, `B` explicit automata whose symbols are 16-bit numbers of the
dictionary `syms` and whose arities are below 64 (`MAX_SYMBOL_ARITY`); "loaded" = the table built by `AddTransition` for
each rule (`ofRulesTD` top-down, `ofRules` bottom-up), "dumped" = the abstraction `absTD` / `absBU` over `syms`.  Then, in
BOTH encodings: (1) load-and-dump keeps the language; (2) for operands with disjoint states the table-wise union accepts
exactly `L(A) ∪ L(B)`; (3) the symbolic `Intersection` returns a result and it accepts exactly `L(A) ∩ L(B)`;
(4) `RemoveUnreachableStates` and `RemoveUselessStates` keep the language and (5) after the latter every remaining state and
rule takes part in an accepting run; (6) `GetTopDownAut` of the bottom-up table keeps the language. -/
theorem C08_loaded_both_encodings (A B : TA) (syms : List Nat)
    (hA : ∀ r, r ∈ A.rules → r.sym < 2 ^ 16 ∧ r.kids.length < 64 ∧ r.sym ∈ syms)
    (hB : ∀ r, r ∈ B.rules → r.sym < 2 ^ 16 ∧ r.kids.length < 64 ∧ r.sym ∈ syms) (hs : ∀ f, f ∈ syms → f < 2 ^ 16) :
    (∀ t, accepts (absTD syms (ofRulesTD A.rules) A.final) t = accepts A t ∧
      accepts (absBU syms (ofRules A.rules) A.final) t = accepts A t) ∧
    ((∀ q, q ∈ A.states → q ∉ B.states) → ∀ t,
      accepts (absTD syms (unionTD (ofRulesTD A.rules) (ofRulesTD B.rules)) (A.final ++ B.final)) t =
        (accepts A t || accepts B t) ∧
      accepts (absBU syms (unionT (ofRules A.rules) (ofRules B.rules)) (A.final ++ B.final)) t =
        (accepts A t || accepts B t)) ∧
    ((∃ R F m, bddIsectTDRef (ofRulesTD A.rules) A.final (ofRulesTD B.rules) B.final = some (R, F, m) ∧
        ∀ t, accepts (absTD syms R F) t = (accepts A t && accepts B t)) ∧
      (∃ R F m, bddIsectBURef (ofRules A.rules) A.final (ofRules B.rules) B.final = some (R, F, m) ∧
        ∀ t, accepts (absBU syms R F) t = (accepts A t && accepts B t))) ∧
    (∀ t, accepts (absTD syms (removeUnreachableTD (ofRulesTD A.rules) A.final) A.final) t = accepts A t ∧
      accepts (absTD syms (removeUselessTD (ofRulesTD A.rules) A.final).1 (removeUselessTD (ofRulesTD A.rules) A.final).2) t =
        accepts A t ∧
      accepts (absBU syms (removeUnreachableBU (ofRules A.rules) A.final).1 (removeUnreachableBU (ofRules A.rules) A.final).2) t =
        accepts A t ∧
      accepts (absBU syms (removeUselessBU (ofRules A.rules) A.final).1 (removeUselessBU (ofRules A.rules) A.final).2) t =
        accepts A t) ∧
    ((∀ q, Occurs (absTD syms (removeUselessTD (ofRulesTD A.rules) A.final).1 (removeUselessTD (ofRulesTD A.rules) A.final).2) q →
        UsefulState (absTD syms (removeUselessTD (ofRulesTD A.rules) A.final).1 (removeUselessTD (ofRulesTD A.rules) A.final).2) q) ∧
      (∀ q, Occurs (absBU syms (removeUselessBU (ofRules A.rules) A.final).1 (removeUselessBU (ofRules A.rules) A.final).2) q →
        UsefulState (absBU syms (removeUselessBU (ofRules A.rules) A.final).1 (removeUselessBU (ofRules A.rules) A.final).2) q)) ∧
    (∀ t, accepts (absTD syms (getTopDownAut (ofRules A.rules) A.final) A.final) t = accepts A t) := by
  have hA' : ∀ r, r ∈ A.rules → r.sym < 2 ^ 16 ∧ r.sym ∈ syms := fun r hr => ⟨(hA r hr).1, (hA r hr).2.2⟩
  have hB' : ∀ r, r ∈ B.rules → r.sym < 2 ^ 16 ∧ r.sym ∈ syms := fun r hr => ⟨(hB r hr).1, (hB r hr).2.2⟩
  have eTD := absTD_ofRulesTD_setEq A.rules syms A.final hA hs
  have eTDB := absTD_ofRulesTD_setEq B.rules syms B.final hB hs
  have eBU := absBU_ofRules_setEq A.rules syms A.final hA' hs
  have lTD : ∀ t, accepts (absTD syms (ofRulesTD A.rules) A.final) t = accepts A t := fun t => eTD.lang t
  have lTDB : ∀ t, accepts (absTD syms (ofRulesTD B.rules) B.final) t = accepts B t := fun t => eTDB.lang t
  have lBU : ∀ t, accepts (absBU syms (ofRules A.rules) A.final) t = accepts A t := fun t => eBU.lang t
  have wTD := (tableTD_ofRulesTD A.rules).1
  have cTD : SymsCompleteTD syms (ofRulesTD A.rules) := symsCompleteTD_ofRulesTD (fun r hr => (hA r hr).2.2)
  have wBU := tableWF_ofRules A.rules
  have cBU : SymsCompleteBU syms (ofRules A.rules) := symsCompleteBU_ofRules (fun r hr => (hA r hr).2.2)
  have tTD := C08_td_trim (syms := syms) A.final wTD cTD
  have tBU := C08_bu_trim (syms := syms) A.final wBU cBU
  refine ⟨fun t => ⟨lTD t, lBU t⟩, fun hdis t => ⟨?_, ?_⟩, C08_isect_loaded A B syms hA hB hs,
    fun t => ⟨?_, ?_, ?_, ?_⟩, ⟨tTD.2.2.2.2.1.1, tBU.2.2.2.2.1⟩, fun t => ?_⟩
  · rw [(C08_td_union syms (ofRulesTD A.rules) (ofRulesTD B.rules) A.final B.final ?_).1 t, lTD, lTDB]
    intro q h1 h2
    exact hdis q ((eTD.mem_states q).mp h1) ((eTDB.mem_states q).mp h2)
  · exact (C08_bu_union_lang A B syms (fun r hr => (hA r hr).1) (fun r hr => (hB r hr).1) hs
      (fun r hr => (hA r hr).2.2) (fun r hr => (hB r hr).2.2) hdis).1 t
  · rw [tTD.2.2.1 t, lTD]
  · rw [tTD.2.2.2.1 t, lTD]
  · rw [tBU.2.2.1 t, lBU]
  · rw [tBU.2.2.2.1 t, lBU]
  · rw [(C08_getTopDownAut (tableOk_ofRules A.rules) wBU A.final syms).2.2.2 t, lBU]

example : (∀ r, r ∈ BddIsectEx.exA.rules → r.sym < 2 ^ 16 ∧ r.kids.length < 64 ∧ r.sym ∈ BddIsectEx.syms) ∧
    (∀ r, r ∈ BddIsectEx.exB.rules → r.sym < 2 ^ 16 ∧ r.kids.length < 64 ∧ r.sym ∈ BddIsectEx.syms) ∧
    (∀ f, f ∈ BddIsectEx.syms → f < 2 ^ 16) := by decide

end

/-!
## closed since the last refresh of this file

* **"The top-down encoding … has no table model; load / dump, `Union`, `Intersection` and trimming on it are
  correspondence-check-only claims.  So is `GetTopDownAut`"** – closed: `C08_load_dump`, `C08_td_addTransition`,
  `C08_td_union` (table-wise union and `UnionDisjointStates`), `C08_getTopDownAut`, `C08_td_trim`
  (`Vata/Properties/C08_Tables.lean`); `C08_td_isect`, `C08_isect_total`, `C08_isect_loaded` (`Vata/Properties/C08_Isect.lean`).
* **"`C08_bu_isect_step` is ONE `SetMtbdd` of `Intersection`; the work-list … is not modelled for the BDD encoding …, hence no
  theorem 'the symbolic intersection accepts exactly the intersection'"** – closed: `C08_bu_isect` (the result is the
  bottom-up product of C02 on the discovered pairs, injectively numbered), `C08_isect_total` (the model always returns),
  `C08_isect_loaded`; the counter of defect D10: `C20_bdd_isect_numbers_dense_partial`.
* **"Symbolic trimming …: not modelled"** – closed at the level of the leaf visits: the abstraction of the result IS
  `removeUnreachable` / `removeUseless` (C03) of the abstraction, languages are kept, no useless state or rule is left
  (`C08_td_trim`, `C08_bu_trim`, `C08_load_convert_trim`).
* **The 16-bit symbol encoding** of the Timbuk layer: `SymbolicVarAsgn(16, f)` as coded is `BddAbs.symAsgn f`
  (`Util_Glue_asgn_ofNum_limits`), its string form, concretisation and order are `Util_Glue_asgn_string_roundtrip`,
  `Util_Glue_asgn_concretize`, `Util_Glue_asgn_lt_strict_total_order`.  The sets of states in the leaves are
  `OrdVector<StateType>`s, modelled as coded (`Util_OrdVector_history`); the instantiation with state TUPLES
  (`StateTupleSet`, lexicographic order on vectors) is not (see `Vata/Properties/Util_OrdVector.lean`).
* The relation `ComputeSimulation` computes on a bottom-up automaton: `Vata/Properties/C07_BddSim.lean`.
* Totality of the reference checkers applied to the dumps: `C08_reference_total` (`Vata/Properties/RefTotal.lean`).
* The clauses of the property for loaded automata in one theorem: `C08_loaded_both_encodings`.

## not yet proved

* **Inside the symbolic trimming.**  The AND/OR-graph propagation of the top-down `RemoveUselessStates` and the graph
  traversal of the bottom-up one are modelled by their fixpoints (`prodStates` / `tdReach` of `Vata/Ref.lean` on the leaf-visit
  skeletons), not edge by edge; only the work-list of the top-down `RemoveUnreachableStates` is mirrored
  (`tdUnreachWL`, last component of `C08_td_trim`).
* **Unions with renumbering.**  `C08_bu_union_lang` / `C08_td_union` take the disjointness of the state sets as a hypothesis;
  that the `ReindexStates` inside `Union` establishes it is the explicit-encoding fact C02 (`C02_union_model_exact`), not
  re-proved for BDD automata (the top-down `Union` with renumbering into a common table is not modelled), and for the
  "maps put together" unions the hypothesis on the tuple maps / state keys is not derived from the disjointness of the states.
* **The Timbuk layer above the tables.**  `C08_load_dump` / `C08_bu_load_dump` start from a rule list with symbol NUMBERS; the
  symbol dictionary that hands out the 16-bit numbers, `addArityToSymbol` as a function of the dictionary, the arity check
  (arities below 64) and the invariant `ArityOK` for tables obtained in other ways than loading and `GetTopDownAut` are
  hypotheses.  The state names of a dumped union / intersection go through `CreateUnionStringToStateMap` /
  `CreateProductStringToStateMap`: the product names are NOT injective in general (`Util_Glue_productNames_collide`; then the
  dumped intersection has a larger language than the computed automaton) – a finding about the dump, not about the tables.
* **The result cache of `Apply2Functor` and the sharing of MTBDD nodes** are not modelled in the intersections (the model
  calls the leaf operation once per path; `C08_isect_apply_side_effect` shows that additional calls change nothing).  The
  iteration orders of the hash containers are list orders, so the NUMBERS of the product states agree with the C++ only up
  to these orders (the set of values does not depend on them).
* "None of these calls changes the language of an operand": CLOSED by `C08_sharing_history` / `C08_sharing_isolation`
  (`Vata/Properties/C08_Sharing.lean`: handles on shared tables, the exact precondition `pre` of the in-place operations,
  sufficient and clause-wise necessary); what stays open there: tables at the abstraction of rule lists, fresh-table
  operations as reference constructions, `pre` evaluated by the driver on the dumps.
* Symbols `≥ 2^16` and arities `≥ 64` are outside the theorems (the hypotheses are needed: two numbers that agree on the low
  16 bits denote the same assignment).  State numbers are unbounded `Nat`.
-/
end Vata.Props
