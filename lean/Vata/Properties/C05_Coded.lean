import Vata.Proofs.ReduceCodedSize
import Vata.Proofs.ReduceCodedInv
/-!
# C05 (with C14, C03) – `Reduce` end to end ON THE STORE: coded collapse + coded trimming composed with the simulation pipeline

> For any explicit tree automaton A, Reduce returns an automaton that accepts exactly the trees A accepts, has at most
> as many states and at most as many rules as A, and whose every state is the image of at least one state of A.

`Vata/Properties/C05_Pipeline.lean` has `Reduce` as coded down to the collapse map, but its last two calls are the
RELATION-level models `reindex` / `removeUnreachable` ("still not proved", second item).  Here the last two calls are the
store-level models as well: `ReduceCoded.reduceFullyCoded A` (`Vata/ReduceCoded.lean`, which quotes the C++) is, in the order
of `ExplicitTreeAutCore::Reduce` (`src/explicit_tree_aut_core.cc`),

1. `BuildStateIndex` / `SetNumStates(stateCnt)` – only the counter is used (`A.states.length`), as in `SimPipeline`;
2. `ComputeSimulation` = `SimPipe.computeSimDownDisc` (fresh translator, `TranslateDownward` as coded, the engine model,
   `buildResult`, `StateDiscontBinaryRelation`);
3. `sim.RestrictToSymmetric()`, `sim.GetQuotientProjection(collapseMap)` on the matrix CLASS model (`BinRel.Disc`);
4. `CollapseStates(collapseMap)` = `ReindexStates(collapseMap)` on the three-level rule STORE: `RenameCoded.collapseCoded` with
   the translator object `strictT` – `index.at(state)` on a `std::unordered_map` is `unordered_map::at`, which throws on a
   missing key and leaves the container alone;
5. `RemoveUnreachableStates` = `TrimCoded.unreachCoded` (work-list, shortcut `return *this`, rebuild over `reachableStates`) on the
   rules the store of step 4 yields in its iteration order.

The automaton enters twice: as the rule list the loops of step 2 run over, and as the store step 4 walks.  `reduceCodedOn simA S`
has both as parameters; `reduceFullyCoded A = reduceCodedOn A (ofTA A)` (the protocol's rule list, and the store the loader builds
from it: comparable literally with `SimPipe.reduceAsCoded A`), `reduceStoreCoded S = reduceCodedOn (toTA S) S` (ONE iteration
order for everything, as in the C++ where both are the same hash containers).  All statements are proved for both.

Abstracted: `shared_ptr` sharing (the result of step 5 shares the surviving clusters with the store of step 4 – C11), the
alphabet pointer, the tuple cache; hash order = list order (every theorem holds for every order); `Outcome` has no branch for the
`assert(false)` of the `default:` case of the `switch` (only `TA_DOWNWARD` exists in `ReduceParam`).
-/
namespace Vata.Props
open Vata Vata.Store Vata.RenameCoded Vata.TrimCoded Vata.SimPipe Vata.ReduceCoded

/-- **why `CollapseStates` cannot throw inside `Reduce`**: the keys of the map `GetQuotientProjection` fills are exactly the
states of the automaton (in the order of the simulation's translator), and these are exactly the keys `ReindexStates` looks up
(`C14_coded_lookup_order` / `mem_lookupOrder`) -/
theorem C05_fully_coded_map_covers (A : TA) :
    ∃ m, collapseMapAsCoded A = some m ∧ m.map Prod.fst = downOrder A ∧ (downOrder A).Perm A.states ∧
      (∀ q, q ∈ usedStates (ofTA A) → ∃ v, m.lookup q = some v) ∧
      (∀ q, q ∈ lookupOrder (ofTA A) true ↔ q ∈ A.states) := by
  obtain ⟨m, d, hm, _⟩ := reduceFullyCoded_spec A
  refine ⟨m, hm, keys_collapseMap A m hm, downOrder_perm A, ?_, ?_⟩
  · intro q hq
    exact collapseMap_covers A m hm ((taEquiv_states (ofTA_spec A).2 q).mp ((usedStates_toTA _ q).mp hq))
  · intro q
    rw [mem_lookupOrder (ofTA_spec A).1, usedStates_toTA, taEquiv_states (ofTA_spec A).2]

/-- **the composition step by step**: the pipeline returns a collapse map `m`; `CollapseStates(m)` on the store does not throw,
leaves `m` unchanged and returns a store `d` – keys unique on both levels, no duplicate tuple / final state (`WInv`), every rule
yielded once – whose rules / final states are exactly those of the relation-level `reindex (applyMap m) A`; the answer of `Reduce`
is the coded `RemoveUnreachableStates` of `d`.  `d` satisfies the FULL store invariant of C12 (no empty cluster, no empty tuple
set: the `uniqueCluster` / `uniqueTuplePtrSet` calls that precede the translation of the children are absorbed by the `insert`). -/
theorem C05_fully_coded_steps (A : TA) :
    ∃ m d, collapseMapAsCoded A = some m ∧ collapseCoded strictT (ofTA A) m = .ok (d, m) ∧
      Inv d ∧ WInv d ∧ (iterate d).Nodup ∧
      (∀ r, r ∈ iterate d ↔ r ∈ (reindex (applyMap m) A).rules) ∧ (∀ q, q ∈ d.final ↔ q ∈ (reindex (applyMap m) A).final) ∧
      reduceFullyCoded A = .ok (unreachCoded (RenameCoded.toTA d)) := by
  obtain ⟨m, d, hm, hd, hw, he, hres, _, _⟩ := reduceFullyCoded_spec A
  exact ⟨m, d, hm, hd, (reduceCodedOn_collapsed_inv A (ofTA A) (ofTA_spec A).1 (ofTA_spec A).2 m d hm hd).1, hw,
    nodup_iterate_w hw, he.1, he.2, hres⟩

/-- **the collapsed store as a value** (C14 on the store, strict look-ups): for a source store that satisfies the store invariant
and a map that has an entry for every used state, `CollapseStates(m)` does not throw, leaves `m` alone and returns LITERALLY the
store that `SetStateFinal` on the images of the final states followed by `AddTransition` on the images of the rules (in the
source's iteration order) builds; that store satisfies the full store invariant.  (Closes, for a run that does not throw, the
first "still not proved" item of `Vata/Properties/C14_Coded.lean`.) -/
theorem C05_fully_coded_collapse_value (S : Store) (hS : Inv S) (m : List (Nat × Nat))
    (hm : ∀ q, q ∈ usedStates S → ∃ v, m.lookup q = some v) :
    collapseCoded strictT S m =
      .ok (((iterate S).map (mapRule (applyMap m))).foldl addTransition (setFinals empty (S.final.map (applyMap m))), m) ∧
    Inv (((iterate S).map (mapRule (applyMap m))).foldl addTransition (setFinals empty (S.final.map (applyMap m)))) :=
  collapse_strict_value S hS m hm

example : Inv (ofTA exR) ∧ ∀ q, q ∈ usedStates (ofTA exR) → ∃ v, [(2, 2), (3, 2), (0, 0), (1, 0), (4, 4)].lookup q = some v := by
  refine ⟨(ofTA_spec exR).1, ?_⟩
  have h : (usedStates (ofTA exR)).all (fun q => ([(2, 2), (3, 2), (0, 0), (1, 0), (4, 4)].lookup q).isSome) = true := by decide
  intro q hq
  exact Option.isSome_iff_exists.mp (List.all_eq_true.mp h q hq)

/-- … inside `Reduce`: the store handed to `RemoveUnreachableStates` is that value for the computed collapse map -/
theorem C05_fully_coded_collapsed_inv (A : TA) (m : List (Nat × Nat)) (d : Store) (hm : collapseMapAsCoded A = some m)
    (hd : collapseCoded strictT (ofTA A) m = .ok (d, m)) :
    Inv d ∧ d = ((iterate (ofTA A)).map (mapRule (applyMap m))).foldl addTransition
      (setFinals empty ((ofTA A).final.map (applyMap m))) :=
  reduceCodedOn_collapsed_inv A (ofTA A) (ofTA_spec A).1 (ofTA_spec A).2 m d hm hd

/-- **C05_fully_coded_eq**: `Reduce` with the store-level collapse and trimming returns an automaton, and that automaton has
exactly the rules and exactly the final states (as sets) of what `SimPipe.reduceAsCoded A` returns; moreover it lists every rule
once (the relation-level model keeps duplicates) -/
theorem C05_fully_coded_eq (A : TA) :
    ∃ B' B, reduceFullyCoded A = .ok B' ∧ reduceAsCoded A = some B ∧
      (∀ r, r ∈ B'.rules ↔ r ∈ B.rules) ∧ (∀ q, q ∈ B'.final ↔ q ∈ B.final) ∧ B'.rules.Nodup := by
  obtain ⟨B', B, _, h1, h2, _, hE, hnd, _⟩ := reduceCodedOn_props A (ofTA A) (ofTA_spec A).1 (ofTA_spec A).2
  exact ⟨B', B, h1, h2, hE.1, hE.2, hnd⟩

/-- **language**: for a ranked automaton (always the case for the explicit encoding) the fully coded `Reduce` accepts exactly
the trees `A` accepts -/
theorem C05_fully_coded_lang (A : TA) (hrk : TaLts.Ranked A) :
    ∃ B', reduceFullyCoded A = .ok B' ∧ LangEq B' A := by
  obtain ⟨B', _, _, h1, _, _, _, _, _, _, _, _, _, hl⟩ := reduceCodedOn_props A (ofTA A) (ofTA_spec A).1 (ofTA_spec A).2
  exact ⟨B', h1, hl hrk⟩

/-- **never grows** (no hypothesis, not even `Ranked`): at most as many states, at most as many distinct rules (`eraseDups` on
both sides, as in `C05_model_never_grows`), and – the store has no duplicates – the PLAIN number of rules of the result is at
most the number of DISTINCT rules of `A`, hence at most `A.rules.length`; every state of the result is the image of a state of
`A` under the collapse map that was computed -/
theorem C05_fully_coded_never_grows (A : TA) :
    ∃ B', reduceFullyCoded A = .ok B' ∧
      B'.states.length ≤ A.states.length ∧ B'.rules.eraseDups.length ≤ A.rules.eraseDups.length ∧
      B'.rules.length ≤ A.rules.eraseDups.length ∧ B'.rules.length ≤ A.rules.length ∧
      ∃ m, collapseMapAsCoded A = some m ∧ ∀ x, x ∈ B'.states → ∃ q, q ∈ A.states ∧ x = applyMap m q := by
  obtain ⟨B', _, m, h1, _, hm, _, _, s1, s2, s3, s4, s5, _⟩ := reduceCodedOn_props A (ofTA A) (ofTA_spec A).1 (ofTA_spec A).2
  exact ⟨B', h1, s1, s2, s3, s4, m, hm, s5⟩

/-- **totality**: neither `simFailed` (engine fuel, dictionary look-ups of `GetQuotientProjection`) nor `threw`
(`collapseMap.at`) occurs; the driver entry point always answers -/
theorem C05_fully_coded_total (A : TA) :
    ∃ B', reduceFullyCoded A = .ok B' ∧ reduceFullyCodedTA A = some B' ∧ (reduceFullyCoded A).thrownKey = none := by
  obtain ⟨B', _, _, h1, _⟩ := reduceCodedOn_props A (ofTA A) (ofTA_spec A).1 (ofTA_spec A).2
  refine ⟨B', h1, ?_, ?_⟩
  · unfold reduceFullyCodedTA reduceFullyCoded; rw [h1]; rfl
  · unfold reduceFullyCoded; rw [h1]; rfl

/-- **the one-order variant** (`*this` is ONE store; its iteration order is used by the simulation, the collapse and – through
the collapsed store – the trimming): for every store that satisfies the store invariant of C12 (every store the API builds,
`store_inv`) all of the above holds with `toTA S` in the place of `A` -/
theorem C05_fully_coded_store (S : Store) (hS : Inv S) :
    ∃ B' B m, reduceStoreCoded S = .ok B' ∧ reduceAsCoded (RenameCoded.toTA S) = some B ∧
      collapseMapAsCoded (RenameCoded.toTA S) = some m ∧
      (∀ r, r ∈ B'.rules ↔ r ∈ B.rules) ∧ (∀ q, q ∈ B'.final ↔ q ∈ B.final) ∧ B'.rules.Nodup ∧
      B'.states.length ≤ (RenameCoded.toTA S).states.length ∧
      B'.rules.eraseDups.length ≤ (iterate S).eraseDups.length ∧ B'.rules.length ≤ (iterate S).length ∧
      (∀ x, x ∈ B'.states → ∃ q, q ∈ (RenameCoded.toTA S).states ∧ x = applyMap m q) ∧
      (TaLts.Ranked (RenameCoded.toTA S) → LangEq B' (RenameCoded.toTA S)) := by
  obtain ⟨B', B, m, h1, h2, hm, hE, hnd, s1, s2, _, s4, s5, hl⟩ :=
    reduceCodedOn_props (RenameCoded.toTA S) S hS (TAEquiv.refl _)
  exact ⟨B', B, m, h1, h2, hm, hE.1, hE.2, hnd, s1, s2, s4, s5, hl⟩

/-- the same for the automaton of the protocol loaded into a store (`reduceStoreCodedTA`, the second driver entry point): it
always answers, with the language of `A` (ranked) and not more states / rules -/
theorem C05_fully_coded_store_loaded (A : TA) :
    ∃ B', reduceStoreCodedTA A = some B' ∧ B'.rules.Nodup ∧
      B'.states.length ≤ A.states.length ∧ B'.rules.length ≤ A.rules.eraseDups.length ∧
      (TaLts.Ranked A → LangEq B' A) := by
  obtain ⟨B', _, _, h1, _, _, _, hnd, s1, _, s3, _, _, hl⟩ :=
    reduceCodedOn_props (RenameCoded.toTA (ofTA A)) (ofTA A) (ofTA_spec A).1 (TAEquiv.refl _)
  have hE := (ofTA_spec A).2
  refine ⟨B', ?_, hnd, ?_, ?_, ?_⟩
  · unfold reduceStoreCodedTA reduceStoreCoded; rw [h1]; rfl
  · rw [← taEquiv_states_length hE]; exact s1
  · refine Nat.le_trans s3 (Nat.le_of_eq ?_)
    exact ((List.perm_ext_iff_of_nodup (RM.nodup_eraseDups _) (RM.nodup_eraseDups _)).mpr (fun r => by
      rw [List.mem_eraseDups, List.mem_eraseDups]; exact hE.1 r)).length_eq
  · intro hrk t
    have hrk' : TaLts.Ranked (RenameCoded.toTA (ofTA A)) := by
      intro ρ ρ' hρ hρ' hs
      exact hrk ρ ρ' ((hE.1 ρ).mp hρ) ((hE.1 ρ').mp hρ') hs
    rw [hl hrk' t]
    exact hE.lang t

/-! ### non-vacuity: a concrete run -/

/-- `exR` = a → 0, g(0,1) → 2, a → 1, g(1,0) → 3, h(2) → 4, b → 0, b → 1 with F = {2, 3}: it is ranked; the translator numbers
the states `2, 3, 0, 1, 4`; `0 ≈ 1` and `2 ≈ 3` are merged (collapse map `3 ↦ 2`, `1 ↦ 0`); the store `CollapseStates` returns
has three clusters (the 7 rules became 4, each once: the store absorbs the duplicates the relation-level model keeps); state `4`,
not reachable top-down from the final state, is then dropped with its rule by the coded `RemoveUnreachableStates` (slow path: the
shortcut test fails).  The result has 2 states and 3 rules; the relation-level `reduceAsCoded` has the same rules, each TWICE.
(A state whose class contains a reachable state stays reachable in the quotient, so trimming after the merge removes exactly the
classes that were unreachable before; here that is `{4}`.) -/
theorem C05_fully_coded_example :
    TaLts.Ranked exR ∧ downOrder exR = [2, 3, 0, 1, 4] ∧
    collapseMapAsCoded exR = some [(2, 2), (3, 2), (0, 0), (1, 0), (4, 4)] ∧
    collapsedStore exR = some ⟨[(0, [(0, [[]]), (3, [[]])]), (2, [(1, [[0, 0]])]), (4, [(2, [[2]])])], [2]⟩ ∧
    (reduceFullyCodedTA exR).map (fun B => (B.rules, B.final)) = some ([⟨1, [0, 0], 2⟩, ⟨0, [], 0⟩, ⟨3, [], 0⟩], [2]) ∧
    (reduceFullyCodedTA exR).map (fun B => B.states) = some [2, 0] ∧
    (reduceAsCoded exR).map (fun B => (B.rules, B.final)) =
      some ([⟨0, [], 0⟩, ⟨1, [0, 0], 2⟩, ⟨0, [], 0⟩, ⟨1, [0, 0], 2⟩, ⟨3, [], 0⟩, ⟨3, [], 0⟩], [2, 2]) ∧
    exR.states.length = 5 ∧ exR.rules.length = 7 :=
  ⟨TaLts.rankedB_iff.mp (by decide), by decide, by decide +kernel, by decide +kernel, by decide +kernel, by decide +kernel,
    by decide +kernel, by decide, by decide⟩

-- the shortcut of `RemoveUnreachableStates` does not fire on the collapsed `exR` (state 4 owns a cluster and is unreachable) …
example : (collapsedStore exR).map (fun d => testOwners (RenameCoded.toTA d) (unreachSet (RenameCoded.toTA d))) = some false := by
  decide +kernel
-- … and fires when `h(2) → 4` is absent: `Reduce` then returns the collapsed store as it is
example : (collapsedStore ⟨exR.rules.filter (fun r => r.parent != 4), exR.final⟩).map
    (fun d => testOwners (RenameCoded.toTA d) (unreachSet (RenameCoded.toTA d))) = some true := by decide +kernel

-- the one-order variant on the same automaton: the store's iteration order groups the rules by parent, the translator meets
-- the states in another order, the answer is the same here
example : (reduceStoreCodedTA exR).map (fun B => (B.rules, B.final)) = some ([⟨1, [0, 0], 2⟩, ⟨0, [], 0⟩, ⟨3, [], 0⟩], [2]) := by
  decide +kernel

/-! ### the `threw` branch is a branch of the model -/

/-- regression: if `GetQuotientProjection` left out ONE state (say an off-by-one in its outer loop drops the last index, state
`4`), `CollapseStates` would throw `std::out_of_range` for that state – the strict look-up makes the slip visible instead of
silently keeping the state (`applyMap` would) -/
theorem C05_fully_coded_missing_key_throws :
    reindexStrictTA exR [(2, 2), (3, 2), (0, 0), (1, 0)] = .error 4 ∧
    (reindexStrictTA exR [(2, 2), (3, 2), (0, 0), (1, 0), (4, 4)]).toOption.map (fun B => B.rules.length) = some 4 :=
  ⟨by rfl, by rfl⟩

/-- the hypothesis `Inv S` of `C05_fully_coded_store` cannot be dropped: on a store with an EMPTY cluster (which the API never
builds, C12) the owner of that cluster is looked up by `ReindexStates` although it is no state of the automaton, so it has no entry
in the collapse map and `Reduce` throws -/
theorem C05_fully_coded_store_needs_inv :
    invB ⟨[(9, [])], []⟩ = false ∧ (reduceStoreCoded ⟨[(9, [])], []⟩).thrownKey = some 9 := by
  decide +kernel

/-!
## Hypotheses

* `TaLts.Ranked A` in the language statements: inherited from C04 (`C04_downward_via_lts_needs_ranked`); always true for the
  explicit encoding.  Satisfiable: `C05_fully_coded_example`.  Sizes, totality and the refinement `C05_fully_coded_eq` need nothing.
* `Inv S` in `C05_fully_coded_store`: cannot be dropped (`C05_fully_coded_store_needs_inv`); holds for `ofTA A` and every
  `Store.run ops` (`store_inv`).

## items of "not yet proved" closed here

* `Vata/Properties/C05_Pipeline.lean`, second item ("`CollapseStates` / `RemoveUnreachableStates` are the relation-level models …
  not the store-level models"): closed by `C05_fully_coded_eq` / `C05_fully_coded_steps` (`collapseCoded` of C14 with the strict
  `unordered_map::at`, `unreachCoded` of C03).
* `Vata/Properties/C14_Coded.lean`: "no throw" for the strict translator inside `Reduce` is now a theorem
  (`C05_fully_coded_map_covers`, `C05_fully_coded_total`); its first "still not proved" item (the FULL store invariant of the
  destination after a successful `ReindexStates`) is closed for a fresh destination, final states included, a source satisfying the
  invariant and a strict map covering the used states (`C05_fully_coded_collapse_value`; the lemma behind it,
  `ReduceCoded.reindexInto_opt_value`, is for any stateless partial translator and any destination).

## still not proved

* The coded trimming (`TrimCoded.unreachCoded`) runs on the rule list the collapsed store yields, not on the cluster map itself
  (`genericLookup` = the rules of a parent); since that store satisfies the full store invariant (`C05_fully_coded_steps`: no empty
  cluster) the two views have the same cluster owners, but a cluster-map version of the work-list is not modelled.
* For a `CollapseStates` run that THROWS, the destination may hold an empty cluster / tuple set (`C14_coded_thrown_dst_breaks_invariant`);
  inside `Reduce` this cannot happen (`C05_fully_coded_total`).
* The answer of step 5 is a rule list / final-state list, not a store: which clusters the result shares with the collapsed store
  (`result.transitions_->insert(state, iter->second)`) is C11, not modelled here.
* Rule lists are compared as sets (plus "every rule once" for the coded result); no canonical order is fixed – the C++ order is a hash
  order.  `reduceFullyCoded A` and `reduceStoreCoded (ofTA A)` may pick different representatives of a class when the two orders
  differ; both have the language of `A` (ranked) and are set-equal to a `reduceAsCoded` result, whose number of states is that of
  `reduceRef` (`C05_pipeline_size`) – but neither "same number of states as `reduceRef A`" nor "the two results are isomorphic"
  (`C05_model_order_independent`) is stated as a theorem for the store-level results here.
* `BuildStateIndex` is represented by its counter only; the `default: assert(false)` of the `switch` is not a branch.
* Minimality of the result is not claimed by the property and not proved.
* The correspondence "model = real C++" is by testing (`reduceFullyCodedTA`, `reduceStoreCodedTA` against the library), not by proof.
-/
end Vata.Props
