import Vata.Lang
import Vata.Proofs.SimModel
import Vata.Proofs.TrimModel
import Vata.Proofs.PropAux
import Vata.Proofs.Equivariance
/-!
# C05 – Reduce preserves the language and never grows the automaton

> For any explicit tree automaton A, Reduce returns an automaton that accepts exactly the trees A accepts, has at most
> as many states and at most as many rules as A, and whose every state is the image of at least one state of A.

## How the statement is read into the model

* **Specification (L0).**  `LangEq` / `accepts` for the language; `A.states` (`Vata/Ref.lean`) is the duplicate-free
  list of the states occurring in `A`, so `A.states.length` is the number of states; `A.rules.length` the number of
  rules (of the rule *list*: it is the number of distinct rules when the list has no duplicates, as for automata read
  back from the C++ rule sets).
* **Model of the code.**  `ExplicitTreeAutCore::Reduce` computes the downward simulation, restricts it to its symmetric
  part, takes a quotient projection `h` (state ↦ representative of its class), applies `CollapseStates h` and then
  `RemoveUnreachableStates`.  The model is `removeUnreachable (reindex h A)` with `reindex` = image automaton (model of
  `CollapseStates`, C14), `removeUnreachable` = model of `RemoveUnreachableStates` (C03), for **any** map `h` that sends
  every state of `A` to a state equivalent to it in the greatest downward simulation `downSimRef A` (C04).  Which
  representative the C++ picks (`GetQuotientProjection`, hash-map order) is thereby irrelevant; that the map it uses
  has this property is the explicit hypothesis `hh` (it follows from C04 for the relation the code computes).
  The hypothesis is asked on `A.states` only: `downSimRef A ⊆ A.states × A.states`, so asked for all `q` it would be
  unsatisfiable (`reduce_hyp_all_unsat`).
* **The map as the code computes it.**  Two topic files (which import this one) remove the hypothesis:
  `Vata/Properties/C05_ReduceModel.lean` – `reduceModel A order` computes the collapse map with the matrix loops of
  `RestrictToSymmetric` / `GetQuotientProjection` from `downSimRef A` (`C05_model`, `C05_model_projection`); and
  `Vata/Properties/C05_Pipeline.lean` – `SimPipe.reduceAsCoded A` is `Reduce` end to end (`ComputeSimulation` as coded with the
  model of the LTS engine, the class models of `BinaryRelation` / `DiscontBinaryRelation`, `CollapseStates`,
  `RemoveUnreachableStates`): `C05_pipeline` is the property for it, with no hypothesis but `Ranked A`.
-/
namespace Vata.Props
open Vata

/-- `Reduce` keeps the language: quotient by simulation equivalence, then removal of the unreachable states
(`reduce_trim_lang` with its hypothesis discharged by `removeUnreachable_lang`) -/
theorem C05_reduce_lang (A : TA) (h : Nat → Nat)
    (hh : ∀ q, q ∈ A.states → (q, h q) ∈ downSimRef A ∧ (h q, q) ∈ downSimRef A) :
    LangEq (removeUnreachable (reindex h A)) A :=
  fun t => reduce_trim_lang removeUnreachable_lang A h hh t

example : ∀ q, q ∈ SimModel.exA.states → (q, SimModel.exH q) ∈ downSimRef SimModel.exA ∧
    (SimModel.exH q, q) ∈ downSimRef SimModel.exA := by decide
example : (removeUnreachable (reindex SimModel.exH SimModel.exA)).rules = [⟨0, [], 0⟩, ⟨0, [], 0⟩, ⟨1, [0, 0], 2⟩, ⟨1, [0, 0], 2⟩] ∧
    SimModel.exA.rules.length = 5 := by decide

/-- the quotient step alone (`CollapseStates` with the projection) already keeps the language -/
theorem C05_quotient_lang (A : TA) (h : Nat → Nat)
    (hh : ∀ q, q ∈ A.states → (q, h q) ∈ downSimRef A ∧ (h q, q) ∈ downSimRef A) : LangEq (reindex h A) A :=
  fun t => reduce_lang A h hh t

example : (reindex SimModel.exH SimModel.exA).states = [0, 2, 4] ∧ SimModel.exA.states.length = 5 := by decide

/-- the principle: collapsing along *any* transitive downward simulation `R` to `R`-equivalent representatives keeps
the language (this is where "the simulation must be a genuine downward simulation" enters) -/
theorem C05_collapse_principle (A : TA) (R : Nat → Nat → Prop) (hR : DownSim A R) (h : Nat → Nat)
    (hh : ∀ q, q ∈ A.states → R q (h q) ∧ R (h q) q) (hRt : ∀ a b c, R a b → R b c → R a c) :
    LangEq (reindex h A) A := fun t => collapse_lang_on A R hR h hh hRt t

example : DownSim SimModel.exA (RelOf (downSimRef SimModel.exA)) ∧
    (∀ a b c, RelOf (downSimRef SimModel.exA) a b → RelOf (downSimRef SimModel.exA) b c → RelOf (downSimRef SimModel.exA) a c) :=
  ⟨downSimRef_sim _, (greatest_downSim_preorder _).2⟩

/-- `Reduce` never grows the automaton and invents no state: at most as many states, at most as many rules, and every
state of the result is the image of a state of `A` under the collapse map – for every map `h`, no hypothesis needed -/
theorem C05_never_grows (A : TA) (h : Nat → Nat) :
    (removeUnreachable (reindex h A)).states.length ≤ A.states.length ∧
    (removeUnreachable (reindex h A)).rules.length ≤ A.rules.length ∧
    ∀ q', q' ∈ (removeUnreachable (reindex h A)).states → ∃ q, q ∈ A.states ∧ q' = h q :=
  ⟨PropAux.states_reduce_length h A, PropAux.rules_reduce_length h A, fun _ hq => PropAux.states_reduce hq⟩

example : (removeUnreachable (reindex SimModel.exH SimModel.exA)).states = [0, 2] ∧ SimModel.exA.states = [0, 1, 2, 3, 4] := by
  decide

/-- the size of the quotient: when the collapse map is a quotient projection (`IsQuotProj`: it sends every state to a
simulation-equivalent state *and* equivalent states to the same state) the result has at most as many states as there
are classes of downward-simulation equivalence (`simClasses A`, computed by picking representatives with a fold over
`A.states`), which is at most the number of states; and the size does not depend on which representatives are picked -/
theorem C05_quotient_size (A : TA) (h h' : Nat → Nat) (hh : IsQuotProj A h) (hh' : IsQuotProj A h') :
    (removeUnreachable (reindex h A)).states.length ≤ simClasses A ∧ simClasses A ≤ A.states.length ∧
    (removeUnreachable (reindex h' A)).states.length = (removeUnreachable (reindex h A)).states.length ∧
    (removeUnreachable (reindex h' A)).rules.length = (removeUnreachable (reindex h A)).rules.length :=
  ⟨reduce_states_le_simClasses A h hh.2, simClasses_le_states A,
   (reduce_size_choice_independent A h h' hh hh').1, (reduce_size_choice_independent A h h' hh hh').2⟩

example : IsQuotProj SimModel.exA (repOf SimModel.exA) := repOf_isQuotProj _
example : simClasses SimModel.exA = 3 ∧ SimModel.exA.states.length = 5 ∧
    (removeUnreachable (reindex (repOf SimModel.exA) SimModel.exA)).states = [0, 2] := by decide
-- "equivalent states to the same state" is needed for the bound: the identity satisfies the hypothesis of
-- `C05_reduce_lang` but keeps 4 states, more than the 3 classes
example : (∀ q, q ∈ SimModel.exA.states → (q, id q) ∈ downSimRef SimModel.exA ∧ (id q, q) ∈ downSimRef SimModel.exA) ∧
    (removeUnreachable (reindex id SimModel.exA)).states.length = 4 := by decide

/-- an executable quotient projection exists: `repOf A q` is the first state of `A.states` equivalent to `q`; with it
the model of `Reduce` is the closed term `reduceRef A`, which keeps the language, is bounded by the number of classes
and commutes with every renaming that is injective on the states -/
theorem C05_canonical_reduce (A : TA) :
    IsQuotProj A (repOf A) ∧ LangEq (reduceRef A) A ∧ (reduceRef A).states.length ≤ simClasses A ∧
    ∀ f, InjOnStates f A → reduceRef (reindex f A) = reindex f (reduceRef A) ∧ simClasses (reindex f A) = simClasses A :=
  ⟨repOf_isQuotProj A, reduceRef_lang A, reduceRef_states_le_simClasses A,
   fun f hf => ⟨reduceRef_reindex_eq f A hf, simClasses_equivariant f A hf⟩⟩

example : List.map (repOf SimModel.exA) [0, 1, 2, 3, 4] = [0, 0, 2, 2, 4] ∧ InjOnStates EqvEx.exF SimModel.exA :=
  ⟨by decide, EqvEx.exF_inj_simA⟩
example : (reduceRef (reindex EqvEx.exF SimModel.exA)).states = [40, 26] := by decide

/-!
## closed since the last refresh of this file

* **"That the collapse map the C++ derives (`RestrictToSymmetric` + `GetQuotientProjection` on the relation returned by
  `ComputeSimulation`) satisfies the hypothesis `hh` (and is a quotient projection) is not a theorem about a model of these
  two functions"** – closed twice: for the list-of-rows model of the two functions on the reference relation
  (`C05_model_projection`, `C05_model`, `C05_model_order_independent` in `C05_ReduceModel.lean`), and for the class-level
  functions (`BinRel.Disc.restrictToSymmetric`, `BinRel.Disc.quotProj` on the flat matrix with the two-way dictionary) applied to
  the relation `ComputeSimulation` as coded returns (`C05_pipeline`, `C05_pipeline_refines_reduceModel`, `C05_pipeline_matrix`,
  `C05_pipeline_class_level` in `C05_Pipeline.lean`; the class theorems are `Util_BinRel_restrictToSymmetric`,
  `Util_BinRel_quotient_equiv`, `Util_BinRel_discont`).  `Reduce` as coded always returns and never grows the automaton
  (`C05_pipeline_never_grows`), and hash order has no influence on the size of the result (`C05_pipeline_size`).
* **"the statement with `eraseDups` on both sides is not proved"** – closed: third conjunct of `C05_model` /
  `C05_model_never_grows` / `C05_pipeline`.
* Totality of the reference decider the outputs are compared with: `C05_reference_total` (`Vata/Properties/RefTotal.lean`),
  composed with `Reduce` as coded in `C05_pipeline_passes_reference`.

## not yet proved

* The order of the rule list stands for the hash order of the C++ (the order in which the translation to an LTS meets the
  states, `SimPipe.downOrder`); all statements hold for every order, but the order itself is not an object of the model.
* `Ranked A` is a hypothesis of the language statement for `Reduce` as coded (it always holds for the explicit encoding,
  whose symbols are (name, rank) pairs); without it the downward encoding is wrong (`C04_downward_via_lts_needs_ranked`),
  though `Reduce` still returns and does not grow the automaton.
* `CollapseStates` / `RemoveUnreachableStates` inside `Reduce` are the relation-level models `reindex` / `removeUnreachable`
  (C14, C03), not the store-level models of `Vata/Store.lean`; the engine inside treats its helper classes as values (C16).
* The model is sensitive to a realistic slip (`C05_model_skip_row0_changes_language`), but that the C++ loops are the loops
  of the model is the `binrel` correspondence check, not a theorem.
* Minimality of the result (no two remaining states simulation-equivalent) is not claimed by the property and not proved.
-/
end Vata.Props
