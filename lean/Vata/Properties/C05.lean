import Vata.Lang
import Vata.Proofs.SimModel
import Vata.Proofs.TrimModel
import Vata.Proofs.PropAux
/-!
# C05 – Reduce preserves the language and never grows the automaton

> For any explicit tree automaton A, Reduce returns an automaton that accepts exactly the trees A accepts, has at most
> as many states and at most as many rules as A, and whose every state is the image of at least one state of A.

## How the statement is read into the model

* **Specification (L0).**  `LangEq` / `accepts` for the language; `A.states` (`Vata/Ref.lean`) is the duplicate-free
  list of the states occurring in `A`, so `A.states.length` is the number of states; `A.rules.length` the number of
  rules (of the rule *list*: it is the number of distinct rules when the list has no duplicates, as for automata read
  back from the C++ rule sets).
* **Model of the code.**  `ExplicitTreeAutCore::Reduce` computes the downward simulation, restricts it to its symmetric
  part, takes a quotient projection `h` (state ↦ representative of its class), applies `CollapseStates h` and then
  `RemoveUnreachableStates`.  The model is `removeUnreachable (reindex h A)` with `reindex` = image automaton (model of
  `CollapseStates`, C14), `removeUnreachable` = model of `RemoveUnreachableStates` (C03), for **any** map `h` that sends
  every state of `A` to a state equivalent to it in the greatest downward simulation `downSimRef A` (C04).  Which
  representative the C++ picks (`GetQuotientProjection`, hash-map order) is thereby irrelevant; that the map it uses
  has this property is the explicit hypothesis `hh` (it follows from C04 for the relation the code computes).
  The hypothesis is asked on `A.states` only: `downSimRef A ⊆ A.states × A.states`, so asked for all `q` it would be
  unsatisfiable (`reduce_hyp_all_unsat`).
-/
namespace Vata.Props
open Vata

/-- `Reduce` keeps the language: quotient by simulation equivalence, then removal of the unreachable states
(`reduce_trim_lang` with its hypothesis discharged by `removeUnreachable_lang`) -/
theorem C05_reduce_lang (A : TA) (h : Nat → Nat)
    (hh : ∀ q, q ∈ A.states → (q, h q) ∈ downSimRef A ∧ (h q, q) ∈ downSimRef A) :
    LangEq (removeUnreachable (reindex h A)) A :=
  fun t => reduce_trim_lang removeUnreachable_lang A h hh t

example : ∀ q, q ∈ SimModel.exA.states → (q, SimModel.exH q) ∈ downSimRef SimModel.exA ∧
    (SimModel.exH q, q) ∈ downSimRef SimModel.exA := by decide
example : (removeUnreachable (reindex SimModel.exH SimModel.exA)).rules = [⟨0, [], 0⟩, ⟨0, [], 0⟩, ⟨1, [0, 0], 2⟩, ⟨1, [0, 0], 2⟩] ∧
    SimModel.exA.rules.length = 5 := by decide

/-- the quotient step alone (`CollapseStates` with the projection) already keeps the language -/
theorem C05_quotient_lang (A : TA) (h : Nat → Nat)
    (hh : ∀ q, q ∈ A.states → (q, h q) ∈ downSimRef A ∧ (h q, q) ∈ downSimRef A) : LangEq (reindex h A) A :=
  fun t => reduce_lang A h hh t

example : (reindex SimModel.exH SimModel.exA).states = [0, 2, 4] ∧ SimModel.exA.states.length = 5 := by decide

/-- the principle: collapsing along *any* transitive downward simulation `R` to `R`-equivalent representatives keeps
the language (this is where "the simulation must be a genuine downward simulation" enters) -/
theorem C05_collapse_principle (A : TA) (R : Nat → Nat → Prop) (hR : DownSim A R) (h : Nat → Nat)
    (hh : ∀ q, q ∈ A.states → R q (h q) ∧ R (h q) q) (hRt : ∀ a b c, R a b → R b c → R a c) :
    LangEq (reindex h A) A := fun t => collapse_lang_on A R hR h hh hRt t

example : DownSim SimModel.exA (RelOf (downSimRef SimModel.exA)) ∧
    (∀ a b c, RelOf (downSimRef SimModel.exA) a b → RelOf (downSimRef SimModel.exA) b c → RelOf (downSimRef SimModel.exA) a c) :=
  ⟨downSimRef_sim _, (greatest_downSim_preorder _).2⟩

/-- `Reduce` never grows the automaton and invents no state: at most as many states, at most as many rules, and every
state of the result is the image of a state of `A` under the collapse map – for every map `h`, no hypothesis needed -/
theorem C05_never_grows (A : TA) (h : Nat → Nat) :
    (removeUnreachable (reindex h A)).states.length ≤ A.states.length ∧
    (removeUnreachable (reindex h A)).rules.length ≤ A.rules.length ∧
    ∀ q', q' ∈ (removeUnreachable (reindex h A)).states → ∃ q, q ∈ A.states ∧ q' = h q :=
  ⟨PropAux.states_reduce_length h A, PropAux.rules_reduce_length h A, fun _ hq => PropAux.states_reduce hq⟩

example : (removeUnreachable (reindex SimModel.exH SimModel.exA)).states = [0, 2] ∧ SimModel.exA.states = [0, 1, 2, 3, 4] := by
  decide

/-!
## not yet proved

* That the collapse map the C++ derives (`RestrictToSymmetric` + `GetQuotientProjection` on the relation returned by
  `ComputeSimulation`) satisfies the hypothesis `hh` is not a theorem about a model of these two functions; it is the
  conjunction of C04 (the relation is `downSimRef A`) with the evident property of a quotient projection.
* The rule count is stated for rule *lists* (`List.length`); for the set semantics of the C++ ("number of distinct
  rules") it gives the claim when the input list has no duplicates, the statement with `eraseDups` on both sides is not
  proved.
* Minimality of the result (no two remaining states simulation-equivalent) is not claimed by the property and not proved.
-/
end Vata.Props
