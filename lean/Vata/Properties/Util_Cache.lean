import Vata.Proofs.CacheModel
/-!
# Utility classes `Util::Cache<T, Deleter>`, `Util::CachedBinaryOp<T1, T2, V>` and `expl_bu_index.hh` (support C01, C07, C09)

> Every inclusion algorithm on explicit tree automata keeps its macro-states (sets of states) INTERNED in a `Cache<StateSet>`:
> a macro-state is a `shared_ptr` to the one object with that value, antichains and work-lists hold such pointers, and the
> comparison `lte` of two macro-states is memoised in a `CachedBinaryOp` keyed by the two RAW POINTERS.  The models of the
> algorithms (`Vata/InclUp.lean`, `Vata/InclDown.lean`, `Vata/InclUpSim.lean`) treat a macro-state as a value and the comparison as
> a pure function.  This file states what makes that reading of the real classes legitimate – in particular under ADDRESS
> REUSE: a memo entry keyed by a pointer must die with the object, otherwise a new object allocated at the same address
> inherits a stale answer.  The same `Cache` (as `TupleCache`) interns the state tuples of EVERY explicit tree automaton: the
> tuple set of a rule cluster is a `std::set` of POINTERS, which is a set of tuples only because of interning.

## How the statement is read into the model

* **Specification (L0).**  Objects are values; a handle denotes the value it points to; a memoised call denotes the value of the
  pure function (`Cfg.F`, `Cfg.G`) on the denoted values; the index denotes the relation "rule `r` has state `q` at position `i`".
* **Model of the code (L2).**  `Vata/CacheModel.lean`: `Cache::store_` as value ↦ (address, `use_count`), `shared_ptr` variables and the
  temporary of the running statement, `DeleteElementF` (user deleter, then `store_.erase`), the three containers of
  `CachedBinaryOp` with `lookup` / `invalidateFirst` / `invalidateSecond` / `clear` loop by loop, the deleter wiring of
  `tree_incl_down.hh` / `explicit_tree_incl_down.cc` / `explicit_tree_incl_up.cc` (`Wiring.lib`), and two wrong wirings.  The
  ALLOCATOR is a parameter of every `lookup` step: any address that no live object has, in particular the address of a dead object.
  `BU.bottomUpIndex`, `BU.bottomUpIndex2`: the loops of `expl_bu_index.hh` on vectors with `resize`.
* **Correspondence (L3).**  kind `cacheh` (`harness/op_cacheh.inc`, `Driver/CacheChk.lean`, `tools/gen_cacheh.py`): histories on the real
  classes with `T = std::set<size_t>` / `OrdVector<size_t>`; the harness prints a number per distinct address, so address reuse
  by the real allocator is OBSERVED and replayed by the model; after every step every container is read back.
-/
namespace Vata.Props
open Vata.CM

/-! ### the histories of the theorems exist -/

/-- a valid history is one whose every statement is inside the contract; its end state is reachable -/
theorem Util_Cache_reach_of_run {α : Type} [DecidableEq α] {c : Cfg α} {n : Nat} {ops : List (Op α)} {s : Sys α} {as : List Ans}
    (h : CM.run c (Sys.init α n) ops = some (s, as)) : Reach c s :=
  run_reach (Reach.init n) h

/-- non-vacuity of everything below: the history with address reuse of theorem 4 is a valid history for each wiring -/
example : (CM.run (setCfg .lib) (Sys.init (List Nat) 2) staleHistory).isSome = true ∧
    (CM.run (setCfg .firstTwice) (Sys.init (List Nat) 2) staleHistory).isSome = true := by decide

/-! ### (1) interning -/

/-- **Interning.**  In every reachable state (any history of `lookup` / `find` / handle copy / handle release / memoised calls,
    any allocator, any wiring of the deleter): two non-null handles are pointer-equal iff the objects they point to have equal
    values; each points to a live object whose `use_count` is the number of handles that point to it. -/
theorem Util_Cache_interning {α : Type} [DecidableEq α] {c : Cfg α} {s : Sys α} (h : Reach c s) {i j a b : Nat}
    (hi : s.slots[i]? = some (some a)) (hj : s.slots[j]? = some (some b)) :
    ∃ va vb, byId s.store a = some (va, s.slots.count (some a)) ∧ byId s.store b = some (vb, s.slots.count (some b)) ∧
      (a = b ↔ va = vb) :=
  interning h hi hj

/-- three handles, two values: the two handles to `{1}` share one object with `use_count` 2 -/
example : (CM.run (setCfg .lib) (Sys.init (List Nat) 3) [.lookup 0 [1] 0, .lookup 1 [2] 1, .lookup 2 [1] 5]).map
    (fun x => (x.1.slots, x.1.store)) = some ([some 0, some 1, some 0], [([2], 1, 1), ([1], 0, 2)]) := by decide

/-- `store_` is a bijection between live values and live addresses; no entry without a handle (so the `weak_ptr` of an entry is
    never expired when `Cache::lookup` turns it into a `shared_ptr`) -/
theorem Util_Cache_store_bijective {α : Type} [DecidableEq α] {c : Cfg α} {s : Sys α} (h : Reach c s) {v v' : α} {id id' n n' : Nat}
    (hm : (v, id, n) ∈ s.store) (hm' : (v', id', n') ∈ s.store) :
    (v = v' ↔ id = id') ∧ 0 < n ∧ n = s.slots.count (some id) :=
  store_bijective h hm hm'

/-- no leak: when the last handle is gone the cache is empty (`assert(this->empty())` in `~Cache()`), and with the library's
    wiring so are the memo tables -/
theorem Util_Cache_no_leak {α : Type} [DecidableEq α] {c : Cfg α} {s : Sys α} (h : Reach c s) (hn : ∀ x ∈ s.slots, x = none) :
    s.store = [] ∧ (c.wiring = .lib → (∀ k, aget s.lte.store k = none) ∧ (∀ k, aget s.ev.store k = none)) :=
  ⟨no_leak h hn, fun hw => no_leak_memo h hw hn⟩

example : (CM.run (setCfg .lib) (Sys.init (List Nat) 2) (staleHistory ++ [.release 0, .release 1])).map
    (fun x => (x.1.slots, x.1.store.length, x.1.lte.store.length)) = some ([none, none], 0, 0) := by decide

/-! ### (2) memo soundness under address reuse -/

/-- **No entry for a dead identity.**  With the deleter wired as the library wires it, every key of `lteCache` consists of two
    LIVE addresses, every key of `evalTransitionsCache` has a live second component – and the stored answer is the function
    value on the objects that are at these addresses NOW. -/
theorem Util_Cache_memo_live {α : Type} [DecidableEq α] {c : Cfg α} {s : Sys α} (h : Reach c s) (hw : c.wiring = .lib) :
    (∀ a b r, aget s.lte.store (a, b) = some r →
      a ∈ ids s.store ∧ b ∈ ids s.store ∧
      ∃ va na vb nb, byId s.store a = some (va, na) ∧ byId s.store b = some (vb, nb) ∧ r = c.F va vb) ∧
    (∀ k b r, aget s.ev.store (k, b) = some r →
      b ∈ ids s.store ∧ ∃ vb nb, byId s.store b = some (vb, nb) ∧ r = c.G k vb) :=
  ⟨fun a b r hr => ⟨((memo_live h hw).1 a b r hr).1, ((memo_live h hw).1 a b r hr).2, (memo_entries_sound h hw).1 a b r hr⟩,
   fun k b r hr => ⟨(memo_live h hw).2 k b r hr, (memo_entries_sound h hw).2 k b r hr⟩⟩

/-- **Memo soundness.**  `lteCache.lookup(x.get(), y.get(), f)` answers `F (*x) (*y)`, whatever was memoised before and
    whichever addresses were reused; the same for the library's `lte` (pointer-equality shortcut, `F` reflexive) and for
    `evalTransitionsCache.lookup(key, y.get(), g)`. -/
theorem Util_Cache_memo_sound {α : Type} [DecidableEq α] {c : Cfg α} {s s' : Sys α} (h : Reach c s) (hw : c.wiring = .lib)
    {i j : Nat} {ans : Ans} :
    (CM.step c s (.memo i j) = some (s', ans) →
      ∃ a b va na vb nb, s.slots[i]? = some (some a) ∧ s.slots[j]? = some (some b) ∧ byId s.store a = some (va, na) ∧
        byId s.store b = some (vb, nb) ∧ ans = .bool (c.F va vb)) ∧
    ((∀ v, c.F v v = true) → CM.step c s (.lte i j) = some (s', ans) →
      ∃ a b va na vb nb, s.slots[i]? = some (some a) ∧ s.slots[j]? = some (some b) ∧ byId s.store a = some (va, na) ∧
        byId s.store b = some (vb, nb) ∧ ans = .bool (c.F va vb)) ∧
    (∀ k, CM.step c s (.eval k i) = some (s', ans) →
      ∃ b vb nb, s.slots[i]? = some (some b) ∧ byId s.store b = some (vb, nb) ∧ ans = .nat (c.G k vb)) :=
  ⟨memo_sound h hw, fun hr => lte_sound h hw hr, fun _ => eval_sound h hw⟩

/-- the hypotheses are satisfiable after an address was reused: the last statement of `staleHistory` is such a call, and `⊆`
    is reflexive -/
example : ((CM.run (setCfg .lib) (Sys.init (List Nat) 2) (staleHistory.take 5)).bind
    (fun x => CM.step (setCfg .lib) x.1 (.memo 0 1))).isSome = true := by decide

example (v : List Nat) : (setCfg .lib).F v v = true := by
  simp only [setCfg, subsetB, List.all_eq_true]
  intro a ha
  simpa using ha

/-- **A cache that never frees needs no invalidation.**  In a history in which no object dies (`ReachND`) every memo entry is
    the function value on the two live objects for ANY wiring of the deleter: the situation of `MacroStateCache` (its
    `std::list` nodes live as long as the functor) with the `subsetMap_` / `subsetNotMap_` memo tables of the NFA inclusion
    functors (`explicit_finite_incl_fctor_cache.hh`, `explicit_finite_congr_fctor_cache_opt.hh`), and of an upward / downward
    tree inclusion run up to the first death of a macro-state. -/
theorem Util_Cache_memo_sound_noDeath {α : Type} [DecidableEq α] {c : Cfg α} {s : Sys α} (h : ReachND c s) :
    (∀ a b r, aget s.lte.store (a, b) = some r →
      ∃ va na vb nb, byId s.store a = some (va, na) ∧ byId s.store b = some (vb, nb) ∧ r = c.F va vb) ∧
    (∀ k b r, aget s.ev.store (k, b) = some r → ∃ vb nb, byId s.store b = some (vb, nb) ∧ r = c.G k vb) :=
  memo_sound_noDeath h

/-- a history without a death under the wiring that does nothing -/
example : ReachND (setCfg .none) ({ store := [([1], 0, 1)], slots := [some 0] } : Sys (List Nat)) :=
  ReachND.step (op := .lookup 0 [1] 0) (a := .ptr (some 0)) (ReachND.init 1) rfl (by decide)

/-! ### (3) the secondary indices -/

/-- **Index exactness.**  In every reachable state, for ANY wiring: the entries listed by `storeMap1_` (`storeMap2_`) are exactly
    the entries of `store_`, each filed under its own first (second) component and listed once; consequently the
    `assert(j != storeMapN_.end())` inside the two invalidations never fires (in the NDEBUG build: no dereference of `end()`). -/
theorem Util_Cache_index_exact {α : Type} [DecidableEq α] {c : Cfg α} {s : Sys α} (h : Reach c s) (k : Nat × Nat) :
    ((k ∈ akeys s.lte.store ↔ ∃ l, (k.1, l) ∈ s.lte.map1 ∧ k ∈ l) ∧ (k ∈ akeys s.lte.store ↔ ∃ l, (k.2, l) ∈ s.lte.map2 ∧ k ∈ l)) ∧
    ((∀ x l, (x, l) ∈ s.lte.map1 → l.Nodup ∧ ∀ k ∈ l, k.1 = x) ∧ (∀ y l, (y, l) ∈ s.lte.map2 → l.Nodup ∧ ∀ k ∈ l, k.2 = y)) ∧
    (∀ id, deleterAsserts s id = true) :=
  ⟨(index_exact h).1.exact_mem k, (index_exact h).1.filed, deleter_asserts h⟩

/-- the same for the table with a plain first key (`evalTransitionsCache`) -/
theorem Util_Cache_index_exact_eval {α : Type} [DecidableEq α] {c : Cfg α} {s : Sys α} (h : Reach c s) (k : (Nat × Nat) × Nat) :
    ((k ∈ akeys s.ev.store ↔ ∃ l, (k.1, l) ∈ s.ev.map1 ∧ k ∈ l) ∧ (k ∈ akeys s.ev.store ↔ ∃ l, (k.2, l) ∈ s.ev.map2 ∧ k ∈ l)) ∧
    ((∀ x l, (x, l) ∈ s.ev.map1 → l.Nodup ∧ ∀ k ∈ l, k.1 = x) ∧ (∀ y l, (y, l) ∈ s.ev.map2 → l.Nodup ∧ ∀ k ∈ l, k.2 = y)) :=
  ⟨(index_exact h).2.exact_mem k, (index_exact h).2.filed⟩

/-- the class on its own (no cache around it): `lookup`, both invalidations and `clear` keep the representation invariant, and an
    invalidation removes exactly the entries with that component -/
theorem Util_Cache_binop_invariant {κ₁ κ₂ β : Type} [DecidableEq κ₁] [DecidableEq κ₂] {op : BinOp κ₁ κ₂ β} (h : op.Inv) (x : κ₁)
    (y : κ₂) (f : κ₁ → κ₂ → β) (k : κ₁ × κ₂) :
    (op.lookup x y f).1.Inv ∧ (op.invalidateFirst x).Inv ∧ (op.invalidateSecond y).Inv ∧ op.clear.Inv ∧
    (aget (op.invalidateFirst x).store k = if k.1 = x then none else aget op.store k) ∧
    (aget (op.invalidateSecond y).store k = if k.2 = y then none else aget op.store k) ∧
    (aget (op.lookup x y f).1.store k = if k = (x, y) then some (op.lookup x y f).2 else aget op.store k) :=
  ⟨BinOp.lookup_inv h x y f, BinOp.invalidateFirst_inv h x, BinOp.invalidateSecond_inv h y, BinOp.clear_inv op,
    BinOp.invalidateFirst_store h x k, BinOp.invalidateSecond_store h y k, BinOp.lookup_store op x y f k⟩

example : (BinOp.empty : BinOp Nat Nat Bool).Inv := BinOp.empty_inv

/-- an emptied set stays in the OTHER index (as in the C++): after `invalidateSecond(1)` the key `0` of `storeMap1_` maps to `{}` -/
example : let op := ((BinOp.empty : BinOp Nat Nat Bool).lookup 0 1 (fun _ _ => true)).1.invalidateSecond 1
    op.store = [] ∧ op.map1 = [(0, [])] ∧ op.map2 = [] := by decide

/-! ### (4) the wiring matters -/

/-- **Counterexample.**  With the deleter calling `invalidateFirst` twice instead of `invalidateFirst` + `invalidateSecond`
    (or with no invalidation at all) the history "intern `{1}`, `{1,2}`; compare; drop `{1,2}`; intern `{5}` at the reused
    address; compare" answers `{1} ⊆ {5}` with the stale `true`; the library's wiring answers `false`. -/
theorem Util_Cache_wiring_counterexample :
    ((CM.run (setCfg .firstTwice) (Sys.init (List Nat) 2) staleHistory).map (·.2) =
      some [.ptr (some 0), .ptr (some 1), .bool true, .unit, .ptr (some 1), .bool true] ∧ subsetB [1] [5] = false) ∧
    (CM.run (setCfg .none) (Sys.init (List Nat) 2) staleHistory).map (·.2) =
      some [.ptr (some 0), .ptr (some 1), .bool true, .unit, .ptr (some 1), .bool true] ∧
    (CM.run (setCfg .lib) (Sys.init (List Nat) 2) staleHistory).map (·.2) =
      some [.ptr (some 0), .ptr (some 1), .bool true, .unit, .ptr (some 1), .bool false] :=
  ⟨stale_answer_firstTwice, stale_answer_none, fresh_answer_lib⟩

/-! ### (5) the bottom-up index of the explicit upward inclusion -/

/-- **Index contents.**  For clusters that use their symbols with one rank (`BU.Ranked`; the rank is part of a symbol of the
    library's alphabets) and any symbol translation `tr`: `bottomUpIndex[q][a][i]` and `bottomUpIndex2[a][i][q]` hold exactly
    the rules with translated symbol `a` and state `q` at position `i`; `leaves[a]` exactly the leaf rules with symbol `a`. -/
theorem Util_Cache_bu_index (tr : Nat → Nat) (gs : List BU.Group) (hr : BU.Ranked gs) (r : Rule) (q a i : Nat) :
    (r ∈ BU.look1 (BU.bottomUpIndex tr gs).1 q a i ↔ r ∈ BU.rulesOf tr gs ∧ r.sym = a ∧ r.kids[i]? = some q) ∧
    (r ∈ BU.look2 (BU.bottomUpIndex2 tr gs).1 a i q ↔ r ∈ BU.rulesOf tr gs ∧ r.sym = a ∧ r.kids[i]? = some q) ∧
    (r ∈ BU.lookLeaves (BU.bottomUpIndex tr gs).2 a ↔ r ∈ BU.rulesOf tr gs ∧ r.sym = a ∧ r.kids = []) ∧
    (r ∈ BU.lookLeaves (BU.bottomUpIndex2 tr gs).2 a ↔ r ∈ BU.rulesOf tr gs ∧ r.sym = a ∧ r.kids = []) :=
  ⟨BU.mem_look1 tr gs hr r q a i, BU.mem_look2 tr gs hr r a i q, BU.mem_leaves1 tr gs hr r a, BU.mem_leaves2 tr gs hr r a⟩

namespace CacheEx
/-- `a -> 0`, `f(0,0) -> 1`, `f(0,1) -> 1`, `g(1) -> 0` with `a ↦ 2, f ↦ 0, g ↦ 1` -/
def gs : List BU.Group := [⟨0, 10, [[]]⟩, ⟨1, 11, [[0, 0], [0, 1]]⟩, ⟨0, 12, [[1]]⟩]
def tr (a : Nat) : Nat := if a = 10 then 2 else if a = 11 then 0 else 1
end CacheEx

example : BU.Ranked CacheEx.gs := BU.ranked_of_rankedB (by decide)

example : BU.look1 (BU.bottomUpIndex CacheEx.tr CacheEx.gs).1 0 0 0 = [⟨0, [0, 0], 1⟩, ⟨0, [0, 1], 1⟩] ∧
    BU.look2 (BU.bottomUpIndex2 CacheEx.tr CacheEx.gs).1 0 1 1 = [⟨0, [0, 1], 1⟩] ∧
    BU.lookLeaves (BU.bottomUpIndex CacheEx.tr CacheEx.gs).2 2 = [⟨2, [], 0⟩] := by decide

/-- the contract is needed (outside it the real code drops a leaf rule, resp. writes past the end of a vector) -/
theorem Util_Cache_bu_index_needs_ranked :
    ((⟨7, [], 0⟩ : Rule) ∈ BU.rulesOf id [⟨0, 7, [[1], []]⟩] ∧ BU.lookLeaves (BU.bottomUpIndex id [⟨0, 7, [[1], []]⟩]).2 7 = []) ∧
    ((⟨7, [1, 2], 0⟩ : Rule) ∈ BU.rulesOf id [⟨0, 7, [[1], [1, 2]]⟩] ∧
      BU.look2 (BU.bottomUpIndex2 id [⟨0, 7, [[1], [1, 2]]⟩]).1 7 1 2 = []) :=
  ⟨BU.unranked_loses_leaf, BU.unranked_loses_position⟩

/-!
## Not proved / outside the model

* The order of the elements inside a cell of the index, and that a rule is listed ONCE per position (the correspondence check
  compares the sorted cells with multiplicities; the theorems speak about membership).
* `~Cache()` / destruction order ("antichains need to be declared after the cache", `tree_incl_down.hh`): a handle that outlives
  its cache is outside the model (the harness keeps the library's declaration order).
* `MacroStateCache` / `MapToList` of the NFA functors (`explicit_finite_incl_fctor_cache.hh`,
  `explicit_finite_congr_fctor_cache_opt.hh`) are covered only as the special case "no object dies" of this model
  (`Util_Cache_memo_sound_noDeath`); the classes themselves are not run by the `cacheh` harness (the tables are private members of
  the functors and are exercised through the NFA inclusion cases of C09).  Read, not modelled: `MacroStateCache::insert` never
  shares the EMPTY macro-state (`areEqual` answers false for two empty sets), so for it "pointer-equal iff value-equal" holds only
  in the direction pointer-equal ⇒ value-equal; this costs sharing, not soundness.
* Exceptions thrown by the memoised function or by the allocator in the middle of `lookup` (an entry with `V()` would stay).
-/
end Vata.Props
