import Vata.Lang
import Vata.Candidate
import Vata.Proofs.Candidate
import Vata.Proofs.Store
import Vata.Properties.RefTotal
/-!
# C15 – The witness automaton is a sub-language, empty only for an empty language

> For any explicit tree automaton A, GetCandidateTree returns an automaton whose every accepted tree is accepted by A,
> and which accepts at least one tree whenever A does.

## How the statement is read into the model

* **Specification (L0).**  `Incl C A` (every tree accepted by the witness automaton `C` is accepted by `A`) and
  `(∃ t, accepts A t = true) → ∃ t, accepts C t = true`.
* **Model of the code.**  `candidate A` (`Vata/Candidate.lean`) mirrors `GetCandidateTree`
  (`src/explicit_tree_candidate.cc`): phase 1 over all rules (leaf rules recorded, the others get an info record with
  the set of their children, `remaining` counts open obligations), phase 2 the FIFO work-list that stops at the first
  reached final state (`goto found_`), the choice "all rules if `remaining = 0`, else the recorded ones", and the final
  `RemoveUnreachableStates`.  The only freedom of the C++ is the hash-map order in which the rules are enumerated;
  `candidateOrd ord A` runs the model on the rules enumerated as `ord A.rules`, and the theorems hold for **every**
  enumeration `ord` that lists exactly the rules of `A` (the two hypotheses of `C15_every_enumeration_order`).
* **Checker.**  `candidateOkB A C`: the Boolean contract applied to the automaton `C` the real code returns (rules and
  final states are taken from `A`, and `C` is empty iff `A` is).
-/
namespace Vata.Props
open Vata

/-- the witness automaton of the model is a sub-automaton (rules and final states are taken from `A`), hence a
sub-language, and it accepts some tree whenever `A` does; put together: it is empty exactly when `A` is -/
theorem C15_witness (A : TA) :
    ((∀ r, r ∈ (candidate A).rules → r ∈ A.rules) ∧ (∀ q, q ∈ (candidate A).final → q ∈ A.final)) ∧
    Incl (candidate A) A ∧
    ((∃ t, accepts A t = true) → ∃ t, accepts (candidate A) t = true) ∧
    (LangEmpty (candidate A) ↔ LangEmpty A) :=
  ⟨candidate_sub A, candidate_incl A, candidate_nonempty A, candidate_empty_iff A⟩

-- the search stops at the first final state; a final state that is not productive (3) and one that is reached later (6)
example : (candidate CandEx.exA).rules = [⟨0, [], 0⟩, ⟨3, [], 4⟩, ⟨1, [0, 0], 1⟩, ⟨4, [1, 4], 5⟩] ∧
    (candidate CandEx.exA).final = [5] ∧ CandEx.exA.final = [5, 3, 6] ∧ accepts CandEx.exA CandEx.exT = true := by decide
-- empty language although there are rules, a leaf rule and a final state
example : (candidate CandEx.exE).rules = [] ∧ (candidate CandEx.exE).final = [] ∧ isEmptyRef CandEx.exE = true := by decide

/-- the same for every order in which the rules are enumerated (the hash-map order of the C++): `ord` may permute,
repeat or (first part only) drop rules, as long as it lists only rules of `A` / all rules of `A` -/
theorem C15_every_enumeration_order (ord : List Rule → List Rule) (A : TA) :
    ((∀ r, r ∈ ord A.rules → r ∈ A.rules) → Incl (candidateOrd ord A) A) ∧
    ((∀ r, r ∈ A.rules → r ∈ ord A.rules) → (∃ t, accepts A t = true) → ∃ t, accepts (candidateOrd ord A) t = true) :=
  ⟨fun h => candidateOrd_incl ord A h, fun h => candidateOrd_nonempty ord A h⟩

example : (∀ r, r ∈ List.reverse CandEx.exA.rules → r ∈ CandEx.exA.rules) ∧
    (∀ r, r ∈ CandEx.exA.rules → r ∈ List.reverse CandEx.exA.rules) :=
  ⟨fun _ hr => List.mem_reverse.mp hr, fun _ hr => List.mem_reverse.mpr hr⟩
example : (candidateOrd List.reverse CandEx.exA).rules = [⟨3, [], 4⟩, ⟨0, [], 0⟩, ⟨1, [0, 0], 1⟩, ⟨4, [1, 4], 5⟩] := by decide

/-- the Boolean contract applied to the output of the real code is sound for the property, and the model satisfies it -/
theorem C15_contract_check_sound (A C : TA) :
    (candidateOkB A C = true → Incl C A ∧ ((∃ t, accepts A t = true) → ∃ t, accepts C t = true)) ∧
    candidateOkB A (candidate A) = true :=
  ⟨candidateOkB_sound A C, candidateOkB_candidate A⟩

example : candidateOkB CandEx.exA (candidate CandEx.exA) = true ∧ candidateOkB CandEx.exA ⟨[], []⟩ = false ∧
    candidateOkB CandEx.exA ⟨[⟨7, [], 5⟩], [5]⟩ = false := by decide

/-! ### the enumeration the container really provides, and the reference -/

/-- the hypothesis of `C15_every_enumeration_order` discharged by C12: take for the enumeration what ITERATING the rule
container yields after any history `ops` of the mutating calls (`Store.iterate (Store.run ops)`, in whatever order the container
stores the rules).  It lists exactly the rules added since the last `Clear`, so for the automaton `A` with these rules (any
final states) the witness automaton computed from that enumeration is a sub-language and is non-empty whenever `A` is -/
theorem C15_enumeration_by_container (ops : List Store.Op) (F : List Nat) :
    let A : TA := ⟨(Store.specRun ops).rules, F⟩
    Incl (candidateOrd (fun _ => Store.iterate (Store.run ops)) A) A ∧
    ((∃ t, accepts A t = true) → ∃ t, accepts (candidateOrd (fun _ => Store.iterate (Store.run ops)) A) t = true) := by
  intro A
  have h := (Store.iterate_exact ops).2
  exact ⟨(C15_every_enumeration_order _ A).1 (fun r hr => (h r).mp hr),
    (C15_every_enumeration_order _ A).2 (fun r hr => (h r).mpr hr)⟩

-- the container yields the rules in another order than they were added, and each once although two were added twice
example : Store.iterate (Store.run Store.StoreEx.ops1) =
      [Store.StoreEx.r1, Store.StoreEx.r2, Store.StoreEx.r3, Store.StoreEx.r4] ∧
    (Store.specRun Store.StoreEx.ops1).rules.length = 6 := by decide

/-- the checks the driver runs on the automaton the real code returns are decided above the explicit bound, and on the model
they come out as the property says: `inclM` answers `true`, and the two emptiness verdicts coincide -/
theorem C15_model_passes_reference (A : TA) (fuel : Nat) (h : fuelBoundM [candidate A, A] ≤ fuel) :
    inclM (candidate A) A fuel = some true ∧ emptyM (candidate A) fuel = emptyM A fuel := by
  obtain ⟨⟨b, hb, e⟩, ⟨b₁, hb₁, e₁⟩, ⟨b₂, hb₂, e₂⟩⟩ := C15_reference_total (candidate A) A fuel h
  refine ⟨by rw [hb, e.mpr (C15_witness A).2.1], ?_⟩
  rw [hb₁, hb₂]
  congr 1
  rw [Bool.eq_iff_iff, e₁, e₂]
  exact (C15_witness A).2.2.2

example : fuelBoundM [candidate CandEx.exE, CandEx.exE] ≤ 64 := by decide

/-!
## closed since the last refresh of this file

* **"The order-independence theorem quantifies over enumerations of the *rule list*; that the iteration of the C++ three-level
  container yields each rule (C12) is a separate property"** – composed: `C15_enumeration_by_container` (with
  `C12_iteration_exact`; for the iterator OBJECTS see `C12_iterator_protocol_yields_exact`).
* Totality of the reference deciders behind the check (`inclM`, `emptyM`): `C15_reference_total`
  (`Vata/Properties/RefTotal.lean`), composed with the model in `C15_model_passes_reference`.
* The same operation on word automata, with and without start symbols: `C10_witness`, `C10_start_witness_spec`.

## not yet proved

* Nothing of the property statement is missing for the model: sub-language and non-emptiness are proved for `candidate`
  and for every enumeration order.
* Not claimed (and not part of the statement): that the witness automaton accepts exactly one tree, or a smallest one.
* The final `RemoveUnreachableStates` of `GetCandidateTree` returns a result that may share storage with the intermediate
  automaton; sharing is C11 and is not composed with `candidate` here.
-/
end Vata.Props
