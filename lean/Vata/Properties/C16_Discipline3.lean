import Vata.Proofs.LtsEngineCalls2SLRun2
import Vata.Proofs.LtsUtilSC5
import Vata.Proofs.LtsUtilCA
import Vata.Properties.C16_Discipline
/-!
# C16 / C20 – the simulation engine ON `SharedList` and `SharedCounter`: the call discipline along the whole run

> C16: `computeSimulation(partition, relation, size)` returns the greatest simulation inside the initial relation.
> `Vata/Properties/C16_Discipline.lean`, "still not proved": *The discipline of `SharedCounter` (`SC.ok`), `SharedList` (`SL.ok`) …
> along the run; counter and remove-list calls are not emitted.*

## How the C++ is read into the model

* `Vata/LtsEngineCalls2.lean` (namespace `Vata.LEC2`): the engine functions of `Vata/LtsEngine.lean` as WRITERS of two more
  histories, in the order `src/explicit_lts_sim.cc` makes the calls:
  `Tr2.sl : List SL.Op` – the handles `Block::remove_[a]` (`slot L b a = b * labels + a`, `nSlots L = L.n * labels` handles):
  `newList` (`init`: `new RemoveList(new std::vector<size_t>(s.begin(), s.end()))`, only when `!s.empty()`), `take`
  (`processRemove`: `remove = block->remove_[label]; block->remove_[label] = nullptr;`, iterated by `split`), `copy` (`split`:
  `if (!block->remove_[a]) continue; … newBlock->remove_[a] = block->remove_[a]->copy()`), `release`
  (`remove->unsafeRelease(…)`), `append` (`enqueueToRemove`, called when `decr` returns `0`);
  `Tr2.sc : List SC.Op` – the member `counter_` of block `i` is counter object `i`: `new` (first `Block` constructor), `copyCtor b`
  (second constructor: `counter_(parent.counter_)`), `resize` / `set` (only when `count != 0`) / `init` ("initialize counters"),
  `copyLabels nb b (inset of nb)` (`split`), `decr b1 a pre` (`processRemove`), `destroy i` (`~SimulationEngine`: `delete block`).
  `scCfg L poison` is `key_` / `labelMap_` / `rowSize_` as the constructor and `init` compute them (`SC.mkCfg`, `SC.getRowSize`).
* `C16_trace_erasure2`: forgetting the histories gives `Vata.LE.computeSimulation` (function by function: `…J_fst`).
* The disciplines are `SL.okAll (SL.A.mk0 (nSlots L))` (`Vata/Proofs/LtsUtilSL2.lean`) and `SC.okAll cfg []`
  (`Vata/Proofs/LtsUtilSC5.lean`): the histories on which the classes AS CODED (heaps of nodes / vectors / rows, reference counts,
  free lists of the `CachingAllocator`s) are proved to refine their values.

## What is abstracted

* The interleaving between the classes is not recorded (one history per class; the classes share no memory).
* Read-only calls are not calls of `SC.Op` / `SL.Op`; the iteration of `*remove` is part of `take`.
* The destructors of the allocators (they `delete` the stored objects) are not modelled; "released" = handed to the deleter /
  back in the allocator's store.

## Result

`SharedList`: PROVED for every input satisfying the engine's preconditions (`C16_engine_discipline_SL`), with the corollaries on
heaps (`C16_engine_SL_on_heaps`, `C16_engine_SL_all_released`).  `SharedCounter`: emitted and evaluated (`decide`d examples; the
driver can evaluate `SC.okAll` on every generated case), NOT proved – see the end of the file.  No failing clause was found.
-/
namespace Vata.Props
open Vata.L Vata.LE Vata.LU Vata.LEC Vata.LEC2

/-- **trace erasure** for the counter / remove-list instrumentation: the instrumented engine returns what the engine model
returns, whatever `cfg` is (the histories are observers) -/
theorem C16_trace_erasure2 (L : LTS) (cfg : SC.Cfg) (part : List (List Nat)) (rel : Rel) (size : Nat) :
    (computeSimulationJ L cfg part rel size).map (·.1) = computeSimulation L part rel size ∧
    (∀ k, (stateAfterJ L cfg part rel k).1 = stateAfter L part rel k) :=
  ⟨trace_erasure2 L cfg part rel size, stateAfterJ_fst L cfg part rel⟩

/-- what `run()` returned is the state after some number of iterations, with an empty queue -/
theorem runJ_state {L : LTS} {cfg : SC.Cfg} {part : List (List Nat)} {rel : Rel} {et : JE}
    (hr : engineRunJ L (fuelBound L) (engineInitJ L cfg part rel) = some et) :
    ∃ k, et = stateAfterJ L cfg part rel k ∧ et.1.queue = [] := by
  obtain ⟨k, hk, hq⟩ := engineRunJ_some _ _ _ hr
  exact ⟨k, by rw [stateAfterJ_iter]; exact hk, hq⟩

/-- **the `SharedList` call discipline holds along the whole run.**  For every LTS / partition / block relation satisfying the
engine's preconditions (`isPartition`, `isConsistent` are the two `assert`s of `init`; edges inside `states()`; a transitive
block relation – the precondition of C16 itself, see `nontransitive_counterexample`): the history of ALL `SharedList` calls of
`init` and of the first `k` iterations of `run()` (every `k`), and the history of a completed `computeSimulation`, is inside
`SL.ok`: every `take` finds a non-null handle and nothing detached, every `copy` goes from a non-null handle to a null handle of
the block just created, `init` builds a list only in a null handle and only from a non-empty vector, `unsafeRelease` is called on
the detached list exactly once, and every handle index is below `L.n * labels`. -/
theorem C16_engine_discipline_SL (L : LTS) (part : List (List Nat)) (rel : Rel)
    (hL : ltsOKB L = true) (hp : isPartition part L.n = true) (hc : isConsistent part rel = true)
    (ht : isTransB rel = true) (cfg : SC.Cfg) :
    (∀ k, SL.okAll (SL.A.mk0 (nSlots L)) (stateAfterJ L cfg part rel k).2.sl = true) ∧
    (∀ size R t, computeSimulationJ L cfg part rel size = some (R, t) → SL.okAll (SL.A.mk0 (nSlots L)) t.sl = true) := by
  have hg := stateAfterJ_good (ltsOK_of_B hL) cfg hp hc (relTrans_of_B (part := part) ht)
  refine ⟨fun k => (hg k).1, ?_⟩
  intro size R t h
  unfold computeSimulationJ at h
  split at h
  · cases h; rfl
  · cases hr : engineRunJ L (fuelBound L) (engineInitJ L cfg part rel) with
    | none => rw [hr] at h; cases h
    | some et =>
      rw [hr] at h
      obtain ⟨k, hk, _⟩ := runJ_state hr
      have : t.sl = et.2.sl := by cases h; rfl
      rw [this, hk]; exact (hg k).1

/-- **the engine on heaps (`SharedList`), at every moment of the run.**  Running the class AS CODED (`SL.run`: node heap, vector
heap, the stores of `removeAllocator_` / `vectorAllocator_`) on the engine's history never reaches an undefined outcome, and in
the world reached: (1) the handle of `remove_[a]` of block `b` is non-null exactly when the engine model's is; (2) REFERENCE
COUNTS = NUMBER OF REFERRERS for all nodes reachable from a handle; (3) NO USE AFTER RELEASE: the stores hold nothing twice and
no node / vector reachable from a handle. -/
theorem C16_engine_SL_on_heaps (L : LTS) (part : List (List Nat)) (rel : Rel)
    (hL : ltsOKB L = true) (hp : isPartition part L.n = true) (hc : isConsistent part rel = true)
    (ht : isTransB rel = true) (cfg : SC.Cfg) (k : Nat) :
    ∃ W outs, SL.run (SL.World.mk0 (nSlots L)) (stateAfterJ L cfg part rel k).2.sl = some (W, outs) ∧
      (∀ b a, b < L.n → a < labels L →
        ((SL.aRun (SL.A.mk0 (nSlots L)) (stateAfterJ L cfg part rel k).2.sl).slots.getD (slot L b a) none).isSome =
          ((stateAfter L part rel k).remv b a).isSome) ∧
      (∃ liveN : List Nat, liveN.Nodup ∧ (∀ m, m ∈ liveN ↔ SL.OnChain W m) ∧
        ∀ m ∈ liveN, (W.w.nodes.get m).rc =
          (W.detached :: W.slots).count (some m) + liveN.countP (fun m' => (W.w.nodes.get m').next == some m)) ∧
      (W.w.nfree.Nodup ∧ W.w.vfree.Nodup ∧
        ∀ m, SL.OnChain W m → m ∉ W.w.nfree ∧ ∃ v, (W.w.nodes.get m).sub = some v ∧ v ∉ W.w.vfree) := by
  have hg := stateAfterJ_good (ltsOK_of_B hL) cfg hp hc (relTrans_of_B (part := part) ht) k
  obtain ⟨W, outs, hrun, _, _⟩ := SL.run_refines (nSlots L) _ hg.1
  refine ⟨W, outs, hrun, ?_, SL.reachable_rc hg.1 hrun, SL.reachable_free hg.1 hrun⟩
  intro b a hb ha
  rw [← stateAfterJ_fst L cfg]
  exact hg.2.shp b a hb ha

/-- an invariant world whose value has only null handles has no live node -/
theorem no_chain_of_all_null {W : SL.World} {a : SL.A} (I : SL.Inv W a) (hd : a.detached = none)
    (hs : ∀ k, a.slots.getD k none = none) : ∀ n, ¬ SL.OnChain W n := by
  rintro n ⟨h, hh, C, hC, hn⟩
  cases h with
  | none =>
    rw [SL.P.chain_none] at hC
    rw [← Option.some.inj hC] at hn
    cases hn
  | some x =>
    obtain ⟨k, hk⟩ := SL.P.mem_at' hh
    obtain ⟨_, f, hf, _⟩ := SL.inv_correspondence I
    have hnone : SL.P.at' (a.detached :: a.slots) k = none := by
      cases k with
      | zero => rw [SL.P.at'_cons_zero]; exact hd
      | succ k => rw [SL.P.at'_cons_succ]; exact hs k
    rw [((hf k).1).2 hnone] at hk
    cases hk

/-- **everything is released at the end** (`SharedList`): after a completed `computeSimulation` the class as coded has run
through the whole history and NO node is reachable from any handle – every `SharedList` node and every sub-vector ever
allocated was handed to the deleter (is back in the store of its `CachingAllocator`) -/
theorem C16_engine_SL_all_released (L : LTS) (part : List (List Nat)) (rel : Rel)
    (hL : ltsOKB L = true) (hp : isPartition part L.n = true) (hc : isConsistent part rel = true)
    (ht : isTransB rel = true) (cfg : SC.Cfg) (size : Nat) (R : Rel) (t : Tr2)
    (h : computeSimulationJ L cfg part rel size = some (R, t)) :
    ∃ W outs, SL.run (SL.World.mk0 (nSlots L)) t.sl = some (W, outs) ∧ ∀ n, ¬ SL.OnChain W n := by
  have hok := (C16_engine_discipline_SL L part rel hL hp hc ht cfg).2 size R t h
  obtain ⟨W, outs, hrun, hinv, _⟩ := SL.run_refines (nSlots L) t.sl hok
  refine ⟨W, outs, hrun, ?_⟩
  have key : (SL.aRun (SL.A.mk0 (nSlots L)) t.sl).detached = none ∧
      ∀ k, (SL.aRun (SL.A.mk0 (nSlots L)) t.sl).slots.getD k none = none := by
    unfold computeSimulationJ at h
    split at h
    · have : t.sl = [] := by cases h; rfl
      rw [this]
      refine ⟨rfl, fun k => ?_⟩
      have := mk0_sh (nSlots L) k
      unfold sh at this
      show (SL.A.mk0 (nSlots L)).slots.getD k none = none
      cases hx : (SL.A.mk0 (nSlots L)).slots.getD k none with
      | none => rfl
      | some x => rw [hx] at this; cases this
    · cases hr : engineRunJ L (fuelBound L) (engineInitJ L cfg part rel) with
      | none => rw [hr] at h; cases h
      | some et =>
        rw [hr] at h
        obtain ⟨k, hk, hq⟩ := runJ_state hr
        have hsl : t.sl = et.2.sl := by cases h; rfl
        have hg := stateAfterJ_good (ltsOK_of_B hL) cfg hp hc (relTrans_of_B (part := part) ht) k
        have inv := engine_invariant_always (ltsOK_of_B hL) hp hc (relTrans_of_B (part := part) ht) k
        rw [← stateAfterJ_fst L cfg, ← hk] at inv
        rw [← hk] at hg
        rw [hsl]
        have hnone : ∀ b a, (et.1.remv b a).isSome = false := by
          intro b a
          cases hx : (et.1.remv b a).isSome with
          | false => rfl
          | true => have := (inv.qk.hiff b a).mp hx; rw [hq] at this; cases this
        refine ⟨?_, fun s => ?_⟩
        · have := hg.2.det
          cases hx : (SL.aRun (SL.A.mk0 (nSlots L)) et.2.sl).detached with
          | none => rfl
          | some x => rw [hx] at this; cases this
        · by_cases hs : s < nSlots L
          · have hl : 0 < labels L := by
              unfold nSlots at hs
              cases hz : labels L with
              | zero => rw [hz] at hs; simp at hs
              | succ n => omega
            have hb : s / labels L < L.n := by
              unfold nSlots at hs
              exact Nat.div_lt_of_lt_mul (by rw [Nat.mul_comm]; exact hs)
            have ha : s % labels L < labels L := Nat.mod_lt _ hl
            have hsl' : slot L (s / labels L) (s % labels L) = s := by
              unfold slot; exact Nat.div_add_mod' s (labels L)
            have := hg.2.shp _ _ hb ha
            rw [hsl', hnone] at this
            unfold sh at this
            cases hx : (SL.aRun (SL.A.mk0 (nSlots L)) et.2.sl).slots.getD s none with
            | none => rfl
            | some x => rw [hx] at this; cases this
          · exact getD_ge _ _ _ (by rw [hg.2.len]; omega)
  exact no_chain_of_all_null hinv key.1 key.2

/-! ### non-vacuity, and the `SharedCounter` history on the examples -/

/-- the configuration of the engine for `EngEx.L3` (`getRowSize(4) = 31`) -/
theorem scCfg_small (L : LTS) (p : Nat) (h : L.n < 4096) :
    scCfg L p = SC.mkCfg 31 L.n p ((List.range (labels L)).map (delta1 L)) := by
  unfold scCfg; rw [SC.getRowSize_small h]

-- the run of `EngEx.L3` (two iterations of `run()`, each splitting a block): hypotheses, the remove-list history
-- (`newList`, `take`, `release`, `append`, `take`, `release`) is inside the discipline
example : ltsOKB EngEx.L3 = true ∧ isPartition [[0, 1, 2, 3]] EngEx.L3.n = true ∧ isConsistent [[0, 1, 2, 3]] [(0, 0)] = true ∧
    isTransB [(0, 0)] = true ∧
    (stateAfterJ EngEx.L3 (SC.mkCfg 31 4 7 [[0, 1, 3]]) [[0, 1, 2, 3]] [(0, 0)] 2).2.sl =
      [.newList 1 [1], .take 1, .release, .append 1 0, .take 1, .release] ∧
    SL.okAll (SL.A.mk0 (nSlots EngEx.L3)) (stateAfterJ EngEx.L3 (SC.mkCfg 31 4 7 [[0, 1, 3]]) [[0, 1, 2, 3]] [(0, 0)] 2).2.sl = true := by
  decide

-- the `SharedCounter` history of the same run (with the destructors) and of `EngEx.L2` is inside `SC.ok`; it contains a
-- `copyLabels` from a running counter and a `decr` on the parent afterwards (copy on write)
example : ((computeSimulationJ EngEx.L3 (SC.mkCfg 31 4 7 [[0, 1, 3]]) [[0, 1, 2, 3]] [(0, 0)] 4).map
    (fun rt => (SC.okAll (SC.mkCfg 31 4 7 [[0, 1, 3]]) [] rt.2.sc, rt.2.sc.length))) = some (true, 20) := by decide

example : scCfg EngEx.L3 7 = SC.mkCfg 31 4 7 [[0, 1, 3]] := by
  rw [scCfg_small _ _ (by decide)]; decide

example : ((computeSimulationJ EngEx.L2 (SC.mkCfg 31 5 7 ((List.range (labels EngEx.L2)).map (delta1 EngEx.L2))) EngEx.part2
      EngEx.rel2 5).map
    (fun rt => (SC.okAll (SC.mkCfg 31 5 7 ((List.range (labels EngEx.L2)).map (delta1 EngEx.L2))) [] rt.2.sc,
      SL.okAll (SL.A.mk0 (nSlots EngEx.L2)) rt.2.sl))) = some (true, true) := by decide

/-- the discipline is not vacuous on the class: a `take` of a null handle, a second `take` before `unsafeRelease`, a `copy` over
a non-null handle are outside -/
example : SL.okAll (SL.A.mk0 2) [.take 0] = false ∧ SL.okAll (SL.A.mk0 2) [.newList 0 [1], .newList 1 [2], .take 0, .take 1] = false ∧
    SL.okAll (SL.A.mk0 2) [.newList 0 [1], .newList 1 [2], .copy 0 1] = false := by decide

/-!
## which "still not proved" items of `C16_Discipline.lean` this file closes

* "The discipline of … `SharedList` (`SL.ok`) … along the run": closed – `C16_engine_discipline_SL` (no hypothesis beyond the
  preconditions of C16), `C16_engine_SL_on_heaps` (reference count = number of referrers, nothing live in the stores, handles of
  the heap world = handles of the engine model, at every iteration), `C16_engine_SL_all_released`.
* "counter and remove-list calls are not emitted": closed – `Vata/LtsEngineCalls2.lean`, `C16_trace_erasure2`.

## still not proved

* `C16_engine_discipline_SC`: `SC.okAll (scCfg L p) [] t.sc = true` for the `SharedCounter` history (along the run and with the
  destructors of `~SimulationEngine`), and its corollaries on heaps (`SC.decr_no_shared_write`, `SC.refcount_eq_sharers`,
  `SC.free_not_referenced`, all rows reclaimed after the destructors).  The history is emitted and is inside the discipline on
  the example systems (`decide`, above); `Vata.LEC2.computeSimulationJ` + `SC.okAll` can be evaluated on generated inputs.
  What a proof needs: (a) the `SC.A` value of counter `i` agrees with `cnt[i][a][·]` of the engine model on the labels of
  `inset(i)` (through `keyIdx` of `SC.mkCfg`; other labels of a shared row may hold stale numbers), (b) `decr` is only called on a
  positive counter – this is `JInv.hC` of `Vata/Proofs/LtsEnginePrune.lean` (counter = specification + pending decrements),
  (c) `set` hits a zero cell below `rows * rowSize` (`labelMap_` / `resizeArg`), (d) the phases (`fresh` → `filling` → `running`).
* The value of the `SharedList` world is related to the engine model only through the null / non-null state of every handle
  (enough for the discipline); that the segments behind a handle are the engine model's `RemList` (same ids, same vectors) is
  not stated.
* Everything listed at the end of `C16_Discipline.lean` that is not named above (`DeltaOK`, the `SplittingRelation` history).
-/
end Vata.Props
