import Vata.Proofs.MtbddOps
import Vata.Proofs.RcStore
import Vata.Proofs.StoreRefine
/-!
# C17 – MTBDD operations are pointwise correct and representations are canonical

> For MTBDDs over a fixed variable order, the value an MTBDD returns for a total assignment is the value it was built
> with, and the result of a unary, binary or ternary apply is, for every assignment, the leaf operation applied to the
> operands' values for that assignment. Two MTBDDs compare equal exactly when they denote the same function, and
> projection, renaming, prefix extension and prefix selection denote the corresponding functions.

(quantifier: *for all variable assignments (with don't-care positions), leaf values and operation trees, in every order
of construction within one process-wide node store*)

## How the statement is read into the model

* **Specification (L0).**  `M.eval a ρ` (`Vata/Mtbdd.lean`) is the function denoted by a diagram `a : M.Node α` under the
  total assignment `ρ : Nat → Bool` (variable `x` of an inner node selects `hi` when `ρ x`, else `lo`).  A symbolic
  assignment (`SymbolicVarAsgn`) is a `List (Option Bool)`: position `i` is variable `i`, `none` is `DONT_CARE`;
  `M.agrees ρ asgn 0` (equivalently `∀ i b, asgn[i]? = some (some b) → ρ i = b`, `M.agrees_iff`) says that the total
  assignment `ρ` lies in the cube `asgn`.  "The corresponding function" of an operation is written out on the right-hand
  side of each theorem in terms of `eval` only.
* **Model of the code.**  `M.construct`, `M.apply1`, `M.apply2`, `M.apply3`, `M.project`/`M.projectVar`, `M.rename`,
  `M.extendWith`, `M.getPrefix`, `M.getValue`, `M.getPaths`, `M.voidApply1/2` (`Vata/MtbddOps.lean`, `Vata/Apply.lean`)
  mirror `constructMTBDD`, `Apply{1,2,3}Functor::recDescend` with the case split of `classify_case.hh`, `Project`,
  `Rename`, `ExtendWith`, `GetMtbddForPrefix`, `GetValue`, `GetPaths`, `VoidApply{1,2}Functor` of
  `src/mtbdd/ondriks_mtbdd.hh` & co.  `M.mk` is the `low == high` reduction of `recDescend`.  The memo tables `ht` of the
  apply functors are not modelled (they only memoise).
* **Node identity.**  An MTBDD of the C++ is a pointer into the process-wide store; `spawnLeaf`/`spawnInternal`
  hash-cons through the two unique tables, so that two pointers are equal iff the diagrams below them are the same.
  In this model a diagram is a *tree* `M.Node α` and pointer equality (`operator==`) is modelled by structural equality
  `=` of `Node`.
* **`M.WF`** (well-formed) = *ordered* (on every path the variables strictly decrease from the root: `Below x lo`,
  `Below x hi`; the larger variable is nearer the root, as `constructMTBDD` builds them) and *reduced* (`lo ≠ hi` at every
  inner node).  This is the invariant that the unique tables together with the `low == high` test maintain; every
  operation of the model is proved to preserve it (`C17_construct_wellformed`, `C17_apply_wellformed`, the second
  components of `C17_project`, `C17_rename`, `C17_prefix_extension`, `C17_prefix_selection`), and on `WF` diagrams
  structural equality is semantic equality (`C17_equal_iff_same_function`).  Hypotheses `WF a` below therefore hold for
  every diagram obtained from `construct` by the operations of the model.
* **The store across a history.**  That the real store indeed keeps one node per content "in every order of
  construction" is a statement about the unique tables along an operation history; it is modelled in
  `Vata/RcStore.lean` (property C18).  Proved there: after every history the two tables contain exactly the allocated
  nodes, keyed by their contents (`RcS.tables_exact`).  From this (`Vata/Proofs/StoreRefine.lean`, last section of this
  file): two allocated nodes whose unfoldings (`RcS.unfold`, the tree below the node) are structurally equal are the same
  node and every unfolding is `M.WF` (`C17_store_nodes_canonical`), hence two live handles have the same root pointer iff
  they denote the same function (`C17_store_equal_iff_same_function`); and the store-level `RcS.construct` / `RcS.apply2`
  unfold to the tree-level `M.construct` / `M.apply2` of this file (`C17_store_construct`, `C17_store_apply`), so that
  modelling pointer equality by structural equality of trees is a theorem about the store model, not an assumption.
-/
namespace Vata.Props
open Vata Vata.M

/-! ### construction: "the value an MTBDD returns for a total assignment is the value it was built with" -/

open Classical in
/-- the diagram built by `OndriksMTBDD(asgn, v, d)` denotes: `v` on the cube `asgn` (don't-care positions are
unconstrained), the default value `d` elsewhere; `agrees` is the Boolean form of membership in the cube -/
theorem C17_construct_value {α : Type} [DecidableEq α] (asgn : List (Option Bool)) (v d : α) (ρ : Nat → Bool) :
    eval (construct asgn v d) ρ = (if (∀ i b, asgn[i]? = some (some b) → ρ i = b) then v else d) ∧
    eval (construct asgn v d) ρ = (if agrees ρ asgn 0 = true then v else d) :=
  ⟨construct_eval asgn v d ρ, construct_eval_agrees asgn v d ρ⟩

example : eval OpsEx.exA (fun i => i == 0 || i == 1) = 5 ∧ eval OpsEx.exA (fun _ => true) = 0 := by decide
example : agrees (fun i => i == 0 || i == 1) [some true, none, some false] 0 = true := by decide

/-- the constructed diagram is ordered and reduced, and mentions only the variables of the assignment -/
theorem C17_construct_wellformed {α : Type} [DecidableEq α] (asgn : List (Option Bool)) (v d : α) :
    WF (construct asgn v d) ∧ Below asgn.length (construct asgn v d) :=
  ⟨construct_wf asgn v d, construct_below asgn v d⟩

example : construct [some true, none, some false] 5 0 = .node 2 (.node 0 (.leaf 0) (.leaf 5)) (.leaf 0) := by decide
example : construct [some true, none] 7 7 = Node.leaf 7 := by decide

/-- `GetValue(q)` of a constructed diagram: the built-in value when the assignment read off the query lies in the cube;
the assignment read off a query `q` sets variable `i` iff `q[i]` is `ONE` (see `C17_getValue` for the treatment of
`DONT_CARE` in queries) -/
theorem C17_construct_getValue {α : Type} [DecidableEq α] (asgn q : List (Option Bool)) (v d : α) :
    getValue (construct asgn v d) q =
      if agrees (fun i => decide (q[i]? = some (some true))) asgn 0 = true then v else d := by
  rw [getValue_dontcare, construct_eval_agrees]

example : getValue (construct [some true, none, some false] 5 0) [some true, some true, some false] = 5 ∧
    getValue (construct [some true, none, some false] 5 0) [some true, some true, some true] = 0 := by decide

/-! ### apply -/

/-- unary, binary and ternary apply: for every assignment the value of the result is the leaf operation applied to the
values of the operands (no hypothesis on the operands is needed) -/
theorem C17_apply_pointwise {α β γ δ : Type} [DecidableEq δ] (f₁ : α → δ) (f₂ : α → β → δ) (f₃ : α → β → γ → δ)
    (a : Node α) (b : Node β) (c : Node γ) (ρ : Nat → Bool) :
    eval (apply1 f₁ a) ρ = f₁ (eval a ρ) ∧
    eval (apply2 f₂ a b) ρ = f₂ (eval a ρ) (eval b ρ) ∧
    eval (apply3 f₃ a b c) ρ = f₃ (eval a ρ) (eval b ρ) (eval c ρ) :=
  ⟨apply1_eval f₁ ρ a, apply2_eval f₂ ρ a b, apply3_eval f₃ ρ a b c⟩

example : apply2 (fun a b => a + b) OpsEx.exA OpsEx.exB
    = .node 2 (.node 1 (.node 0 (.leaf 0) (.leaf 5)) (.node 0 (.leaf 10) (.leaf 15))) (.node 1 (.leaf 0) (.leaf 10)) := by
  rw [OpsEx.exA_eq, OpsEx.exB_eq]; simp [apply2, mk]
example : eval (apply3 (fun a b c => a + b + c) OpsEx.exA OpsEx.exB OpsEx.exC) (fun i => i == 0) = 105 := by
  rw [(C17_apply_pointwise (fun a => a) (fun a b => a + b) _ OpsEx.exA OpsEx.exB OpsEx.exC _).2.2]; decide
-- the reduction `low == high` is exercised
example : apply1 (fun v => v % 5) OpsEx.exA = .leaf 0 := by decide

/-- the results of the three applies are ordered and reduced whenever the operands are -/
theorem C17_apply_wellformed {α β γ δ : Type} [DecidableEq δ] (f₁ : α → δ) (f₂ : α → β → δ) (f₃ : α → β → γ → δ)
    (a : Node α) (b : Node β) (c : Node γ) (wa : WF a) (wb : WF b) (wc : WF c) :
    WF (apply1 f₁ a) ∧ WF (apply2 f₂ a b) ∧ WF (apply3 f₃ a b c) :=
  ⟨apply1_wf f₁ wa, apply2_wf f₂ a b wa wb, apply3_wf f₃ a b c wa wb wc⟩

example : WF OpsEx.exA ∧ WF OpsEx.exB ∧ WF OpsEx.exC := ⟨OpsEx.exA_wf, OpsEx.exB_wf, OpsEx.exC_wf⟩

/-! ### canonicity: `operator==` -/

/-- on ordered reduced diagrams (the ones the unique tables keep) equality of the representation – pointer equality in
the C++, structural equality in the model – holds exactly when the two diagrams denote the same function.  The
hypotheses are needed: `.node 0 (.leaf 1) (.leaf 1)` and `.leaf 1` denote the same function (second example) -/
theorem C17_equal_iff_same_function {α : Type} (a b : Node α) (wa : WF a) (wb : WF b) :
    a = b ↔ ∀ ρ, eval a ρ = eval b ρ := eq_iff_sem wa wb

example : WF (apply2 (fun a b => a + b) OpsEx.exA OpsEx.exB) ∧ WF (apply2 (fun a b => b + a) OpsEx.exB OpsEx.exA) :=
  ⟨apply2_wf _ _ _ OpsEx.exA_wf OpsEx.exB_wf, apply2_wf _ _ _ OpsEx.exB_wf OpsEx.exA_wf⟩
example : (Node.node 0 (.leaf 1) (.leaf 1) : Node Nat) ≠ .leaf 1 ∧
    ∀ ρ, eval (Node.node 0 (.leaf 1) (.leaf 1) : Node Nat) ρ = eval (.leaf 1) ρ :=
  ⟨by decide, fun ρ => by simp [eval]⟩

/-- "equal functions share one root": two binary applies (any operands, any leaf operations) whose results denote the
same function return the identical diagram – this is what the apply caches and `operator==` rely on -/
theorem C17_apply_results_canonical {α β α' β' γ : Type} [DecidableEq γ] (f : α → β → γ) (g : α' → β' → γ)
    (a : Node α) (b : Node β) (a' : Node α') (b' : Node β') (wa : WF a) (wb : WF b) (wa' : WF a') (wb' : WF b')
    (h : ∀ ρ, f (eval a ρ) (eval b ρ) = g (eval a' ρ) (eval b' ρ)) : apply2 f a b = apply2 g a' b' :=
  (eq_iff_sem (apply2_wf f a b wa wb) (apply2_wf g a' b' wa' wb')).mpr
    (fun ρ => by rw [apply2_eval, apply2_eval]; exact h ρ)

example : apply2 (fun a b => a + b) OpsEx.exA OpsEx.exB = apply2 (fun a b => b + a) OpsEx.exB OpsEx.exA :=
  C17_apply_results_canonical _ _ _ _ _ _ OpsEx.exA_wf OpsEx.exB_wf OpsEx.exB_wf OpsEx.exA_wf (fun _ => rfl)

/-! ### projection -/

/-- `Project` of one variable `x` with the leaf operation `f`: the result combines the two cofactors of `x` by `f`, and is
again ordered and reduced.  The hypothesis that `f` is idempotent is needed: a variable on which the diagram does not
depend is not represented (reduction), so no `f` is applied for it (with `f = (· + ·)` the constant `1` projects to `1`,
not to `1 + 1`; second example) -/
theorem C17_project {α : Type} [DecidableEq α] (x : Nat) (f : α → α → α) (idem : ∀ v, f v v = v) (a : Node α)
    (wa : WF a) :
    (∀ ρ, eval (projectVar x f a) ρ = f (eval a (upd ρ x false)) (eval a (upd ρ x true))) ∧ WF (projectVar x f a) :=
  ⟨fun ρ => project_eval x f idem ρ wa, projectVar_wf x f wa⟩

example : projectVar 0 max OpsEx.exA = .node 2 (.leaf 5) (.leaf 0) := by
  rw [OpsEx.exA_eq]; simp [projectVar, project, apply2, mk]
example : eval (projectVar 0 (fun a b => a + b) (Node.leaf 1)) (fun _ => false)
    ≠ eval (Node.leaf 1) (upd (fun _ => false) 0 false) + eval (Node.leaf 1) (upd (fun _ => false) 0 true) := by
  decide

/-- `Project` of all variables selected by an arbitrary predicate `pred`, for an associative, commutative and idempotent
leaf operation `f` (e.g. union of state sets, which is how the library uses it).  Write `u ≤ v` for `f u v = v`; the value
of the projection at `ρ` is the least upper bound of the values `eval a ρ'` over all `ρ'` that coincide with `ρ` outside
`pred`: it is an upper bound, and it is below every upper bound `u`.  The result is ordered and reduced -/
theorem C17_project_lub {α : Type} [DecidableEq α] (pred : Nat → Bool) (f : α → α → α)
    (assoc : ∀ u v w, f (f u v) w = f u (f v w)) (comm : ∀ u v, f u v = f v u) (idem : ∀ v, f v v = v)
    (a : Node α) (wa : WF a) (ρ : Nat → Bool) :
    (∀ ρ', (∀ y, pred y = false → ρ' y = ρ y) → f (eval a ρ') (eval (project pred f a) ρ) = eval (project pred f a) ρ) ∧
    (∀ u, (∀ ρ', (∀ y, pred y = false → ρ' y = ρ y) → f (eval a ρ') u = u) → f (eval (project pred f a) ρ) u = u) ∧
    WF (project pred f a) :=
  ⟨fun ρ' hag => project_ub pred f assoc comm idem ρ ρ' hag a, fun u hu => project_least pred f assoc u ρ wa hu,
    project_wf pred f wa⟩

example : project (fun _ => true) max OpsEx.exA = .leaf 5 := by
  rw [OpsEx.exA_eq]; simp [project, apply2]
example : (∀ u v w : Nat, max (max u v) w = max u (max v w)) ∧ (∀ u v : Nat, max u v = max v u) ∧ ∀ v : Nat, max v v = v :=
  ⟨Nat.max_assoc, Nat.max_comm, Nat.max_self⟩

/-! ### renaming -/

/-- `Rename(r)`: the renamed diagram evaluated under `σ` is the original evaluated under `σ ∘ r` (for every `r`); it is
ordered and reduced when `r` is strictly monotone.  Monotonicity is needed for well-formedness only: `Rename` relabels the
nodes in place without re-ordering (`x ↦ 2 - x` breaks orderedness, second example) -/
theorem C17_rename {α : Type} (r : Nat → Nat) (a : Node α) :
    (∀ σ, eval (rename r a) σ = eval a (σ ∘ r)) ∧
    ((∀ x y, x < y → r x < r y) → WF a → WF (rename r a)) :=
  ⟨fun σ => rename_eval r σ a, fun mono wa => rename_wf r mono wa⟩

example : rename (fun x => 2 * x + 1) OpsEx.exA = .node 5 (.node 1 (.leaf 0) (.leaf 5)) (.leaf 0) ∧
    ∀ x y, x < y → 2 * x + 1 < 2 * y + 1 := ⟨by decide, fun x y h => by omega⟩
example : ¬ WF (rename (fun x => 2 - x) OpsEx.exA) := by
  rw [OpsEx.exA_eq]; simp [rename, WF, Below]

/-! ### prefix extension and prefix selection -/

/-- `ExtendWith(asgn, off)` on a diagram `a` with default value `d`: the result has the value of `a` where the variables
`off, off+1, …` lie in the cube `asgn`, and `d` elsewhere.  It is ordered and reduced provided all variables of `a` are
below the offset (`Below off a`), which is how the library calls it (`ExtendWith(prefix, SYMBOL_SIZE)`); without that
hypothesis the new nodes would be put above nodes with larger variables -/
theorem C17_prefix_extension {α : Type} [DecidableEq α] (asgn : List (Option Bool)) (off : Nat) (a : Node α) (d : α) :
    (∀ ρ, eval (extendWith asgn off a d) ρ = if agrees (fun j => ρ (j + off)) asgn 0 = true then eval a ρ else d) ∧
    (WF a → Below off a → WF (extendWith asgn off a d)) :=
  ⟨fun ρ => extendWith_eval asgn off a d ρ, fun wa ba => extendWith_wf asgn off a d wa ba⟩

example : extendWith [some true, some false] 3 OpsEx.exA 0
    = .node 4 (.node 3 (.leaf 0) (.node 2 (.node 0 (.leaf 0) (.leaf 5)) (.leaf 0))) (.leaf 0) := by decide
example : WF OpsEx.exA ∧ Below 3 OpsEx.exA := ⟨OpsEx.exA_wf, by rw [OpsEx.exA_eq]; simp [Below]⟩

/-- `GetMtbddForPrefix(asgn, off)`: the result denotes the function of `a` with the variables `off, off+1, …` fixed as
the prefix `asgn` says (variable `off + j` is set iff `asgn[j]` is `ONE`; `ZERO`, `DONT_CARE` and missing positions are
read as 0, as in `GetValue`), it is ordered and reduced and mentions only variables below `off` -/
theorem C17_prefix_selection {α : Type} (asgn : List (Option Bool)) (off : Nat) (a : Node α) (wa : WF a) :
    (∀ ρ, eval (getPrefix asgn off a) ρ
      = eval a (fun i => if i < off then ρ i else decide (asgn[i - off]? = some (some true)))) ∧
    WF (getPrefix asgn off a) ∧ Below off (getPrefix asgn off a) :=
  ⟨fun ρ => getPrefix_eval asgn off ρ wa, getPrefix_wf asgn off wa⟩

example : getPrefix [some true, some false] 3 (extendWith [some true, some false] 3 OpsEx.exA 0) = OpsEx.exA ∧
    getPrefix [some false, some false] 3 (extendWith [some true, some false] 3 OpsEx.exA 0) = .leaf 0 := by decide
example : WF (extendWith [some true, some false] 3 OpsEx.exA 0) :=
  (C17_prefix_extension _ _ _ _).2 OpsEx.exA_wf (by rw [OpsEx.exA_eq]; simp [Below])

/-! ### the observers `GetValue` and `GetPaths` -/

/-- `GetValue(q)`.  (1) For every query, with or without don't cares, it is the value under the total assignment that
sets variable `i` iff `q[i]` is `ONE`: a `DONT_CARE` of the *query* is read as 0 (it does not mean "all completions agree";
first example).  (2) Hence for a query that gives a definite value to every variable occurring in the diagram
(`Covers q a`) it is the value under any total assignment `ρ` in the cube `q` -/
theorem C17_getValue {α : Type} (q : List (Option Bool)) (a : Node α) :
    getValue a q = eval a (fun i => decide (q[i]? = some (some true))) ∧
    (∀ ρ, agrees ρ q 0 = true → Covers q a → getValue a q = eval a ρ) :=
  ⟨getValue_dontcare q a, fun ρ hag hc => getValue_total q ρ hag a hc⟩

example : getValue OpsEx.exA [some true, none, none] = 5 ∧ getValue OpsEx.exA [some true, none, some true] = 0 := by
  decide
example : agrees (fun i => i == 0) [some true, none, some false] 0 = true ∧
    Covers [some true, none, some false] OpsEx.exA :=
  ⟨by decide, by rw [OpsEx.exA_eq]; exact ⟨⟨false, rfl⟩, ⟨⟨true, rfl⟩, trivial, trivial⟩, trivial⟩⟩

/-- `GetPaths`: the listed (cube, value) pairs describe the function exactly – the value at `ρ` is `v` iff some listed
cube that contains `ρ` carries `v` (in particular the cubes cover all assignments and overlapping cubes agree) -/
theorem C17_getPaths {α : Type} (a : Node α) (wa : WF a) (ρ : Nat → Bool) (v : α) :
    eval a ρ = v ↔ ∃ p, (p, v) ∈ getPaths a ∧ agrees ρ p 0 = true := getPaths_iff wa ρ v

example : getPaths OpsEx.exA =
    [([some false, none, some false], 0), ([some true, none, some false], 5), ([none, none, some true], 0)] := by
  decide

/-- the traversals `VoidApply1Functor` / `VoidApply2Functor` call the leaf operation exactly on the values (pairs of
values) that occur together under some assignment -/
theorem C17_void_apply {α β : Type} (a : Node α) (b : Node β) (wa : WF a) (wb : WF b) :
    (∀ u, u ∈ voidApply1 a ↔ ∃ ρ, eval a ρ = u) ∧
    (∀ u v, (u, v) ∈ voidApply2 a b ↔ ∃ ρ, eval a ρ = u ∧ eval b ρ = v) :=
  ⟨fun _ => mem_voidApply1 wa, fun u v => mem_voidApply2 u v a b wa wb⟩

example : voidApply2 OpsEx.exB OpsEx.exC = [(0, 100), (10, 100), (0, 0), (10, 0)] := by
  rw [OpsEx.exB_eq, OpsEx.exC_eq]; simp [voidApply2]

/-! ### "in every order of construction within one process-wide node store" -/

/-- One level deep.  In the model of the process-wide store (`Vata/RcStore.lean`: the two unique tables, reference
counters, handles; histories of construct / copy / assign / binary apply with an arbitrary leaf operation `f` / destroy)
after every history two allocated nodes with the same contents (same leaf value, or same `(low, high, var)`) are the same
node, whatever the order of construction and release.  (The name is historical; the full clause – same unfolding, same
node; unfoldings are `M.WF`; the store operations unfold to the tree operations – is
`C17_store_nodes_canonical`, `C17_store_equal_iff_same_function`, `C17_store_construct`, `C17_store_apply` below.) -/
theorem C17_store_nodes_unique_partial (f : Nat → Nat → Nat) (ops : List RcS.Op) (n n' : Nat)
    (hn : n ∈ (RcS.runF f ops).ids) (hn' : n' ∈ (RcS.runF f ops).ids)
    (hd : (RcS.runF f ops).dat n = (RcS.runF f ops).dat n') : n = n' := by
  obtain ⟨hl, hi, _⟩ := RcS.tables_exact f ops
  cases e : (RcS.runF f ops).dat n' with
  | leaf v => exact Option.some.inj ((hl n v hn (hd.trans e)).symm.trans (hl n' v hn' e))
  | int lo hi' var => exact Option.some.inj ((hi n lo hi' var hn (hd.trans e)).symm.trans (hi n' lo hi' var hn' e))

-- a history with 4 leaves and 6 inner nodes allocated, in which the same leaf value was requested several times
example : RcS.tableSizes (RcS.runF RcS.applyOp RcS.Ex.ops) = (4, 6) ∧ (RcS.runF RcS.applyOp RcS.Ex.ops).ids.length = 10 := by
  decide

/-- Hash-consing in full.  After every history of the store model (1) two allocated nodes whose unfoldings – the trees
below them, `RcS.unfold` with the fuel used by `RcS.denote` – are structurally equal are the same node, and (2) the
unfolding of every allocated node is ordered and reduced (`M.WF`).  So the map node ↦ diagram is an injection of the
allocated nodes into the `WF` trees of this file: pointer equality of the store *is* structural equality of the tree
model.  ((2) is proved through a second invariant `RcS.WfInv` – every allocated inner node has `low ≠ high`, the
`assert` of `recDescend`, and children with smaller variables – preserved by every operation, `RcS.stepF_wfInv`) -/
theorem C17_store_nodes_canonical (f : Nat → Nat → Nat) (ops : List RcS.Op) :
    (∀ n n', n ∈ (RcS.runF f ops).ids → n' ∈ (RcS.runF f ops).ids →
      RcS.unfold (RcS.runF f ops).dat (n+1) n = RcS.unfold (RcS.runF f ops).dat (n'+1) n' → n = n') ∧
    (∀ n, n ∈ (RcS.runF f ops).ids → WF (RcS.unfold (RcS.runF f ops).dat (n+1) n)) :=
  ⟨fun _ _ hn hn' he => RcS.unfold_injective (RcS.runF_inv f ops) hn hn' he, RcS.unfold_wf f ops⟩

-- a store with 3 leaves and 7 inner nodes; the unfoldings of two of its inner nodes
example : (RcS.runF RcS.applyOp RcS.RefineEx.ops).ids = [9, 8, 7, 6, 5, 4, 3, 2, 1, 0] ∧
    RcS.unfold (RcS.runF RcS.applyOp RcS.RefineEx.ops).dat 8 7
      = .node 1 (.node 0 (.leaf 0) (.leaf 5)) (.node 0 (.leaf 7) (.leaf 5)) ∧
    RcS.unfold (RcS.runF RcS.applyOp RcS.RefineEx.ops).dat 10 9 = .node 1 (.node 0 (.leaf 0) (.leaf 5)) (.leaf 7) := by
  decide

/-- "Two MTBDDs compare equal exactly when they denote the same function", for handles of the store along any history:
two live handles `h₁`, `h₂` have the same root pointer (`operator==` compares `root_`) iff their roots denote the same
function (`RcS.denote`), iff `GetValue` agrees on them for every total assignment (`RcS.getValue`) -/
theorem C17_store_equal_iff_same_function (f : Nat → Nat → Nat) (ops : List RcS.Op) (h₁ h₂ r₁ r₂ : Nat)
    (hf₁ : RcS.find h₁ (RcS.runF f ops).hs = some r₁) (hf₂ : RcS.find h₂ (RcS.runF f ops).hs = some r₂) :
    (r₁ = r₂ ↔ ∀ ρ, RcS.denote (RcS.runF f ops) r₁ ρ = RcS.denote (RcS.runF f ops) r₂ ρ) ∧
    (RcS.find h₁ (RcS.runF f ops).hs = RcS.find h₂ (RcS.runF f ops).hs ↔
      ∀ ρ, RcS.getValue (RcS.runF f ops) h₁ ρ = RcS.getValue (RcS.runF f ops) h₂ ρ) :=
  ⟨RcS.handle_eq_iff_same_function f ops (RcS.find_some_mem hf₁) (RcS.find_some_mem hf₂),
   RcS.handle_eq_iff_same_getValue f ops hf₁ hf₂⟩

-- handles 3 and 4 are results of two applies with swapped operands, one operand built from a different cube list: same
-- root; handles 5 and 6 have different roots
example : RcS.find 3 (RcS.runF RcS.applyOp RcS.RefineEx.ops).hs = some 7 ∧
    RcS.find 4 (RcS.runF RcS.applyOp RcS.RefineEx.ops).hs = some 7 ∧
    RcS.find 5 (RcS.runF RcS.applyOp RcS.RefineEx.ops).hs = some 8 ∧
    RcS.find 6 (RcS.runF RcS.applyOp RcS.RefineEx.ops).hs = some 9 := by decide
example : RcS.RefineEx.ops = [.construct 0 [some true, none] 5 0, .construct 1 [some true] 5 0,
    .construct 2 [some false, some true] 7 0, .apply 0 2 3, .apply 2 1 4, .destroy 0, .construct 5 [none, some true] 7 0,
    .apply 5 1 6] := rfl

open Classical in
/-- Refinement of construction.  After any history, `OndriksMTBDD h(asgn, v, d)` for a fresh handle name `h` yields a
live handle whose root unfolds to exactly the diagram `construct asgn v d` of the tree model (so `C17_construct_value`,
`C17_construct_wellformed`, … speak about the store's node), and `GetValue` of the handle is `v` on the cube, `d`
elsewhere -/
theorem C17_store_construct (f : Nat → Nat → Nat) (ops : List RcS.Op) (h : Nat) (asgn : List (Option Bool)) (v d : Nat)
    (hf : RcS.find h (RcS.runF f ops).hs = none) :
    ∃ r, RcS.find h (RcS.runF f (ops ++ [.construct h asgn v d])).hs = some r ∧
      RcS.unfold (RcS.runF f (ops ++ [.construct h asgn v d])).dat (r+1) r = construct asgn v d ∧
      ∀ ρ, RcS.getValue (RcS.runF f (ops ++ [.construct h asgn v d])) h ρ
          = some (if agrees ρ asgn 0 = true then v else d) ∧
        RcS.getValue (RcS.runF f (ops ++ [.construct h asgn v d])) h ρ
          = some (if (∀ i b, asgn[i]? = some (some b) → ρ i = b) then v else d) := by
  obtain ⟨r, h1, h2, _⟩ := RcS.construct_denotes f ops h asgn v d hf
  refine ⟨r, h1, h2, fun ρ => ?_⟩
  have h3 := RcS.construct_getValue f ops h asgn v d hf ρ
  refine ⟨h3, ?_⟩
  rw [h3, ← construct_eval_agrees, construct_eval]

example : RcS.find 7 (RcS.runF RcS.applyOp RcS.RefineEx.ops).hs = none := by decide
example : RcS.find 7 (RcS.runF RcS.applyOp (RcS.RefineEx.ops ++ [.construct 7 [none, some false] 3 4])).hs = some 12 ∧
    RcS.unfold (RcS.runF RcS.applyOp (RcS.RefineEx.ops ++ [.construct 7 [none, some false] 3 4])).dat 13 12
      = .node 1 (.leaf 3) (.leaf 4) := by decide

/-- Refinement of the binary apply.  After any history, `OndriksMTBDD dst = apply(a, b)` with leaf operation `f`, for
live handles `a`, `b` (roots `ra`, `rb`) and a fresh name `dst`, yields a live handle whose root unfolds to exactly
`apply2 f` of the unfoldings of `ra` and `rb` (the store-level `recDescend` with its pointer test `low == high` and its
two unique tables computes the tree-level `apply2` with `mk`; so `C17_apply_pointwise`, `C17_apply_wellformed`,
`C17_apply_results_canonical` speak about the store's node), and denotes the pointwise `f` of the operands, which keep
their roots -/
theorem C17_store_apply (f : Nat → Nat → Nat) (ops : List RcS.Op) (a b dst ra rb : Nat)
    (ha : RcS.find a (RcS.runF f ops).hs = some ra) (hb : RcS.find b (RcS.runF f ops).hs = some rb)
    (hd : RcS.find dst (RcS.runF f ops).hs = none) :
    ∃ r, RcS.find dst (RcS.runF f (ops ++ [.apply a b dst])).hs = some r ∧
      RcS.find a (RcS.runF f (ops ++ [.apply a b dst])).hs = some ra ∧
      RcS.find b (RcS.runF f (ops ++ [.apply a b dst])).hs = some rb ∧
      RcS.unfold (RcS.runF f (ops ++ [.apply a b dst])).dat (r+1) r =
        apply2 f (RcS.unfold (RcS.runF f (ops ++ [.apply a b dst])).dat (ra+1) ra)
          (RcS.unfold (RcS.runF f (ops ++ [.apply a b dst])).dat (rb+1) rb) ∧
      ∀ ρ, RcS.denote (RcS.runF f (ops ++ [.apply a b dst])) r ρ =
        f (RcS.denote (RcS.runF f (ops ++ [.apply a b dst])) ra ρ)
          (RcS.denote (RcS.runF f (ops ++ [.apply a b dst])) rb ρ) :=
  RcS.apply_denotes f ops a b dst ra rb ha hb hd

example : RcS.find 5 (RcS.runF RcS.applyOp RcS.RefineEx.ops).hs = some 8 ∧
    RcS.find 1 (RcS.runF RcS.applyOp RcS.RefineEx.ops).hs = some 2 ∧
    RcS.find 7 (RcS.runF RcS.applyOp RcS.RefineEx.ops).hs = none := by decide
-- the result is the node that handle 6 (an earlier apply of the same operands) already has
example : RcS.find 7 (RcS.runF RcS.applyOp (RcS.RefineEx.ops ++ [.apply 5 1 7])).hs = some 9 := by decide

/-!
## closed since the last refresh of this file

No item of the list below was closed.  Related material that is new:

* The class behind "a symbolic assignment is a `List (Option Bool)`" is modelled as coded (`Vata/Glue.lean`): the packed
  two-bits-per-variable representation implements the sequence of values (`Util_Glue_asgn_packed`), `SymbolicVarAsgn(size, n)` is
  the binary representation of `n` for `size ≤ 31` – with undefined behaviour beyond 32 variables (`Util_Glue_asgn_ofNum`,
  `Util_Glue_asgn_ofNum_limits`) –, `GetVectorOfConcreteSymbols` enumerates exactly the total assignments in the cube
  (`Util_Glue_asgn_concretize`), `operator<` is a strict total order (`Util_Glue_asgn_lt_strict_total_order`).
* An apply whose leaf operation has a SIDE EFFECT (the `IntersectionApplyFunctor` of the BDD automata, which allocates
  product states): the result is the pure `M.apply2` of the pairing operation for the translation map left behind, and a
  repeated call on known leaves changes nothing – which is why the result cache of the functor does not matter there
  (`C08_isect_apply_side_effect` in `Vata/Properties/C08_Isect.lean`).
* MTBDDs with set-valued leaves as transition tables of both BDD encodings, built on the operations of this file:
  `Vata/Properties/C08.lean`, `C08_Tables.lean`.

## not yet proved

* The store model has the binary apply and the 3-argument constructor only; unary/ternary apply, `Project`, `Rename`,
  `ExtendWith`, `GetMtbddForPrefix` exist at tree level only (no store-level model, hence no refinement theorem for them).
* The refinement theorems (`C17_store_…`) are about the store *model* `Vata/RcStore.lean`; that this model and
  `OndriksMTBDD<T>` agree step by step is the correspondence check of the C17/C18 history drivers, not a theorem.
* The memo tables `ht` of the apply functors are not modelled (so "a cached result is the result that would be
  recomputed" is not a theorem; it follows informally from determinism of `recDescend` and from canonicity).
* Projection is characterised under algebraic hypotheses on the leaf operation (`C17_project`: idempotent, one variable;
  `C17_project_lub`: associative, commutative, idempotent, any predicate).  For a non-idempotent operation (the addition
  of the library's unit test) no closed form is proved – the obvious one is false (example after `C17_project`).
* `Rename` with a non-monotone renamer: the value equation holds (`C17_rename`), but the result is not ordered and
  nothing is proved about later operations on it (in the C++ `renameNode` `assert`s that the renamed children stay below
  the renamed variable, so such a renamer is outside its contract; with assertions compiled out it goes unnoticed).
* `getPrefix (extendWith …) = original` is shown on examples only, not as a theorem.
-/
end Vata.Props
