import Vata.Proofs.Glue
/-!
# The glue between names, numbers and BDD variables (supports C08, C13, C02)

> `SymbolicVarAsgn` turns a 16-character `0/1/X` symbol of a Timbuk file into the path of the MTBDDs (C08); `TwoWayDict`
> with the weak / strict translators turns state and symbol names into numbers when an automaton is loaded and back when it
> is dumped (C13); `Union` / `Intersection` report their state renaming through translation maps that
> `CreateUnionStringToStateMap` / `CreateProductStringToStateMap` turn into the dictionary of the result (C02, C08);
> `Convert` prints and parses the numbers.  The models of the automata operations treat all of that as "an injective
> renaming"; this file states what makes that reading of the real classes legitimate – and where it is not.

## How the statement is read into the model

* **Model of the code (L2).**  `Vata/Glue.lean`: every public member as coded, under `NDEBUG` (the way the library is
  built): a compiled-out `assert(false)` is followed by the code that really runs; undefined behaviour is `none`.
* **Specification (L0).**  Numbers (`toNum`, binary representation `bitsLE`), sets of total assignments (`agrees`),
  bijections (`TwoWayDict.Inv`), injectivity (`InjMap`), the decimal notation (`natStr` / `intStr`).
* **Correspondence (L3).**  kind `glue` (`harness/op_glue.inc`, `Driver/GlueChk.lean`, `tools/gen_glue.py`): histories on
  the real classes, every live object read back after every Glue.step and compared with the model.

## Findings about the real code (all confirmed on the real classes by the harness)

1. `CreateProductStringToStateMap` builds NON-INJECTIVE names: `[a_1|b_2]` does not determine `(a, b)` when names contain
   `_1|` (`Util_Glue_productNames_collide`).  With `NDEBUG` two product states silently get one name and the dumped
   intersection has a LARGER language than the computed automaton: `vata isect` of two copies of `{v(f), u(g)}` with the states
   named `a_1|b`, `a` resp. `c`, `b_1|c` prints an automaton accepting `{v(f), v(g), u(f), u(g)}` (case line in the
   report; `harness/glue_witness_productNames.txt`; the driver reports every such step, the generator produces them only
   with `GLUE_PRODNAMES=full`).  The names are injective when one operand's names are free of `|`
   (`Util_Glue_productNames_injective`).
2. `SymbolicVarAsgn(size, n)` computes `1 << i` in `int`: undefined behaviour for `size > 32`, and for `size = 32` variable 31
   is the OR of the bits 31 … 63 of `n` (`Util_Glue_asgn_ofNum_limits`).  The library only calls it with `(16, 0)`.
3. `a.append(a)` writes out of range (`appendSelf`); `operator++` on a `DONT_CARE` silently skips the variable;
   `TwoWayDict::Insert` of a present key leaves the forward map alone but still inserts the backward entry
   (`Util_Glue_dict_contract_needed`) – all three are outside the asserted contracts, listed for completeness.
-/
namespace Vata.Props
open Vata.Glue

/-! ### `SymbolicVarAsgn` -/

/-- `SymbolicVarAsgn(size, n)` (`size ≤ 31`) is the `size`-bit binary representation of `n`: variable `i` – the `i`-th
character of `ToString()`, counted from 0 – is bit `i`; its number is `n mod 2^size` -/
theorem Util_Glue_asgn_ofNum {size : Nat} (n : Nat) (h : size ≤ 31) :
    ofNum size n = some (bitsLE size n) ∧ length (bitsLE size n) = size ∧ isConcrete (bitsLE size n) = true ∧
      (∀ i, i < size → get (bitsLE size n) i = some (some (n.testBit i))) ∧ toNum (bitsLE size n) = n % 2 ^ size :=
  ⟨ofNum_eq_bitsLE n h, bitsLE_length size n, isConcrete_bitsLE size n, fun i hi => bitsLE_getElem? size n i hi,
    toNum_bitsLE size n⟩

example : (ofNum 5 6).map toStr = some "01100".toList := by decide

/-- the limits of that constructor: undefined behaviour beyond 32 variables; with exactly 32, variable 31 reads the bits
31 … 63 together.  The 16-variable symbols of the BDD encodings are inside the safe range, and they are the `symAsgn` of
`Vata/BddAbs.lean` -/
theorem Util_Glue_asgn_ofNum_limits :
    (∀ size n, ofNum size n = none ↔ 32 < size) ∧
      ((ofNum 32 (2 ^ 32)).map (fun a => get a 31) = some (some (some true)) ∧ (2 ^ 32).testBit 31 = false) ∧
      (∀ f, ofNum SYMBOL_SIZE f = some (BddAbs.symAsgn f)) ∧ zeroSymbol = some (List.replicate 16 (some false)) :=
  ⟨ofNum_eq_none_iff, ofNum_32_high, ofNum_symbol_size, zeroSymbol_eq⟩

/-- `operator++` is `+1` modulo `2^length()` with variable 0 the least significant bit (on concrete assignments – the
contract); the carry out of the last variable is dropped; it maps the representation of `k` to that of `k + 1` -/
theorem Util_Glue_asgn_inc :
    (∀ a, isConcrete a = true → toNum (inc a) = (toNum a + 1) % 2 ^ length a ∧ isConcrete (inc a) = true ∧
      length (inc a) = length a) ∧
    (∀ n, inc (List.replicate n (some true)) = List.replicate n (some false)) ∧
    (∀ s k, inc (bitsLE s k) = bitsLE s (k + 1)) :=
  ⟨fun a h => ⟨toNum_inc a h, inc_concrete a h, inc_length a⟩, inc_wrap, inc_bitsLE⟩

example : (ofStr "110".toList).map (fun a => toStr (inc a)) = some "001".toList ∧
    (ofStr "111".toList).map (fun a => toStr (inc a)) = some "000".toList := by decide

/-- string constructor and `ToString` are inverse to each other; the constructor throws exactly on a character other than
`0`, `1`, `X` -/
theorem Util_Glue_asgn_string_roundtrip :
    (∀ a, ofStr (toStr a) = some a) ∧ (∀ s a, ofStr s = some a → toStr a = s ∧ length a = s.length) ∧
      (∀ s, (ofStr s).isSome = true ↔ ∀ c ∈ s, c = '0' ∨ c = '1' ∨ c = 'X') :=
  ⟨ofStr_toStr, fun s a h => ⟨toStr_ofStr s a h, ofStr_length h⟩, ofStr_isSome_iff⟩

example : ofStr "01X".toList = some [some false, some true, none] ∧ ofStr "01x".toList = none := by decide

/-- `GetVectorOfConcreteSymbols` enumerates exactly the total assignments that agree with the symbolic one, each once,
`2^k` of them for `k` don't cares, in the lexicographic order of their `ToString()` (`0` before `1`, variable 0 first) -/
theorem Util_Glue_asgn_concretize (a : Asgn) :
    (∀ c, c ∈ concretize a ↔ (c.length = a.length ∧ isConcrete c = true ∧
        ∀ (i : Nat) (b : Bool), a[i]? = some (some b) → c[i]? = some (some b))) ∧
      (concretize a).Nodup ∧ (concretize a).length = 2 ^ a.count none ∧
      (concretize a).Pairwise (fun x y => lexLt x y = true) :=
  ⟨fun c => (mem_allSyms a c).trans (agrees_iff c a), allSyms_nodup a, allSyms_length a, allSyms_sorted a⟩

example : (concretize [some true, none, some false, none]).map (fun x => String.ofList (toStr x)) =
    ["1000", "1001", "1100", "1101"] := by decide

/-- `AddVariablesUpTo(m)` pads with `X` up to index `m` and never shortens; `append` puts the argument's variables behind -/
theorem Util_Glue_asgn_addVariablesUpTo (a p : Asgn) (m : Nat) :
    toStr (addVariablesUpTo a m) = toStr a ++ List.replicate (m + 1 - a.length) 'X' ∧
      length (addVariablesUpTo a m) = max a.length (m + 1) ∧ toStr (append a p) = toStr a ++ toStr p :=
  ⟨toStr_addVariablesUpTo a m, addVariablesUpTo_length a m, toStr_append a p⟩

example : toStr (addVariablesUpTo [some true] 3) = "1XXX".toList ∧ addVariablesUpTo [some true, none] 0 = [some true, none] := by
  decide

/-- `operator<` is a strict total order (irreflexive, transitive, total), shorter assignments first; on concrete
assignments of one length it is the order of the numbers -/
theorem Util_Glue_asgn_lt_strict_total_order :
    (∀ a, lt a a = false) ∧ (∀ a b c, lt a b = true → lt b c = true → lt a c = true) ∧
      (∀ a b, a ≠ b → lt a b = true ∨ lt b a = true) ∧ (∀ a b : Asgn, a.length < b.length → lt a b = true) ∧
      (∀ a b : Asgn, a.length = b.length → isConcrete a = true → isConcrete b = true → (lt a b = true ↔ toNum a < toNum b)) :=
  ⟨lt_irrefl, fun _ _ _ => lt_trans, fun _ _ => lt_total, fun _ _ => lt_of_length_lt, fun _ _ => lt_iff_toNum⟩

example : lt [some true, some false] [some false, some true] = true ∧ lt [none] [some true] = true ∧
    lt [some false] [none] = true := by decide

/-- the packed representation (two bits per variable in a `std::vector<char>`, shift-and-mask access) implements the
sequence of values: constructors, `SetIthVariableValue`, `AddVariablesUpTo` / `append` (`resize` + writes) -/
theorem Util_Glue_asgn_packed (a vals : Asgn) (i : Nat) (hi : i < a.length) (v : Val) :
    Packed.Refines (Packed.ofAsgn a) a ∧ (Packed.ofAsgn a).abs = a.map some ∧
      Packed.Refines ((Packed.ofAsgn a).setRaw i (valCode v)) (set a i v) ∧
      Packed.Refines ((Packed.ofAsgn a).extend vals) (a ++ vals) :=
  ⟨Packed.ofAsgn_refines a, Packed.refines_abs (Packed.ofAsgn_refines a), Packed.setRaw_refines (Packed.ofAsgn_refines a) hi v,
    Packed.extend_refines (Packed.ofAsgn_refines a) vals⟩

example : (Packed.ofAsgn [some true, none, some false, none, some true]).vars = [0xde#8, 0x02#8] := by decide

/-! ### `TwoWayDict` -/

/-- in every history inside the contracts every live dictionary is a bijection between its two maps:
`TranslateFwd` / `TranslateBwd` are inverse, different names have different numbers, `size()` is the size of both maps,
`GetReverseMap()` is the inverse map -/
theorem Util_Glue_dict_history (ops : List Op) (ok : RunOk Glue.StateDict.norm {} ops) (i : Nat) :
    let d := (Glue.run Glue.StateDict.norm {} ops).d i
    d.Inv ∧ (∀ n v, d.translateFwd n = some v ↔ d.translateBwd v = some n) ∧
      (∀ n n' v, d.translateFwd n = some v → d.translateFwd n' = some v → n = n') ∧
      d.size = d.getReverseMap.length ∧ (∀ n v, d.getReverseMap.lookup v = some n ↔ d.translateFwd n = some v) :=
  ⟨(history_inv norm_ok ops {} poolInv_empty ok).d i, history_observe norm_ok ops ok i⟩

example : RunOk Glue.StateDict.norm {} [.dNew, .dInsert 0 "a".toList 1, .dWeak 0 .counter 2 ["b".toList, "a".toList]] := by
  refine ⟨trivial, ?_, ?_, trivial⟩
  · show ((Glue.step Glue.StateDict.norm {} .dNew).d 0).insertOk "a".toList 1 = true
    decide
  · show ∀ e ∈ ((Glue.step Glue.StateDict.norm (Glue.step Glue.StateDict.norm {} .dNew) (.dInsert 0 "a".toList 1)).d 0).bwd, e.1 < 2
    decide

/-- the constructor from a map: returns a dictionary with that forward map, or throws – exactly when two names have the
same number -/
theorem Util_Glue_dict_ctor_from_map {m : List (Name × Nat)} (hm : IsMap m) :
    (∀ d, TwoWayDict.ofMap m = some d → d.Inv ∧ d.fwd = m) ∧ (TwoWayDict.ofMap m = none ↔ ¬ (m.map Prod.snd).Nodup) :=
  ⟨fun _ h => ⟨(TwoWayDict.ofMap_inv hm h).1, (TwoWayDict.ofMap_inv hm h).2.1⟩, TwoWayDict.ofMap_eq_none_iff m⟩

example : TwoWayDict.ofMap [(1, 5), (2, 5)] = (none : Option (TwoWayDict Nat Nat)) := by decide

/-- the contract IS needed: with `NDEBUG`, `Insert` of a present key with a new value leaves `fwdMap_` alone and still adds
the backward entry – afterwards the two maps are not inverse and have different sizes -/
theorem Util_Glue_dict_contract_needed :
    let d : TwoWayDict Nat Nat := ((TwoWayDict.empty.insert 7 1).1.insert 7 2).1
    d.translateFwd 7 = some 1 ∧ d.translateBwd 2 = some 7 ∧ d.size = 1 ∧ d.getReverseMap.length = 2 :=
  insert_present_key_breaks

/-! ### the translators -/

/-- `TranslatorWeak` with the library's counter functor is the lookup-or-create of `Vata/UnionModel.lean` (one call and a
whole sequence of calls), and on a `TwoWayDict` it is the `Dict.weak` of `Vata/LoadDump.lean` -/
theorem Util_Glue_weak_is_unionModel :
    (∀ m cnt q, Vata.weakTr m cnt q = ((weakMap m (fun _ _ => cnt) q).1, if (m.lookup q).isSome then cnt else cnt + 1)) ∧
      (∀ qs m cnt, (weakMapSeq .counter qs m cnt []).1 = (Vata.weakTrAll qs m cnt).1 ∧
        (weakMapSeq .counter qs m cnt []).2.1 = (Vata.weakTrAll qs m cnt).2) ∧
      (∀ (d : TwoWayDict String Nat) c k, (weakDict d (fun _ _ => c) k).2 = (Vata.Dict.weak d.fwd c k).1 ∧
        (weakDict d (fun _ _ => c) k).1.fwd = (Vata.Dict.weak d.fwd c k).2.1) :=
  ⟨weakMap_eq_weakTr, fun qs m cnt => weakMapSeq_counter_eq_weakTrAll qs m cnt [], fun d c k => weakDict_eq_loadDump d c k⟩

/-- lookup-or-create: afterwards the key translates to the result, no translation was changed, and the map stays
injective when the functor's answer is fresh -/
theorem Util_Glue_weak_injective {m : List (Nat × Nat)} (alloc : Nat → Nat → Nat) (a : Nat) :
    (weakMap m alloc a).1.lookup a = some (weakMap m alloc a).2 ∧
      (∀ x y, m.lookup x = some y → (weakMap m alloc a).1.lookup x = some y) ∧
      (InjMap m → (m.lookup a = none → Fresh m (alloc m.length a)) → InjMap (weakMap m alloc a).1) ∧
      (InjMap m → (m.lookup a = none → Fresh m (alloc (m.length + 1) a)) → InjMap (weak2Map m alloc a).1) :=
  ⟨weakMap_lookup_self m alloc a, fun _ _ h => weakMap_ext m alloc a h, fun hi hf => weakMap_inj hi alloc a hf,
    fun hi hf => weak2Map_inj hi alloc a hf⟩

/-- the order of evaluation: `TranslatorWeak` calls the functor before the insertion (a size-reading functor sees the old
size), `TranslatorWeak2` after inserting a default entry (it sees the new size) -/
theorem Util_Glue_weak_eval_order {m : List (Nat × Nat)} {a : Nat} (h : m.lookup a = none) :
    (weakMap m (fun sz _ => sz) a).2 = m.length ∧ (weak2Map m (fun sz _ => sz) a).2 = m.length + 1 :=
  ⟨weakMap_size_functor h, weak2Map_size_functor h⟩

example : (weakMap (weakMap ([] : List (Nat × Nat)) (fun sz _ => sz) 10).1 (fun sz _ => sz) 20).1 = [(10, 0), (20, 1)] ∧
    (weak2Map (weak2Map ([] : List (Nat × Nat)) (fun sz _ => sz) 10).1 (fun sz _ => sz) 20).1 = [(10, 1), (20, 2)] :=
  weak_size_functor_differ

/-- `TranslatorStrict` (and the `const` call operator of the weak translators) is a pure lookup – a miss is an exception
(`std::runtime_error`), never an insertion; no Glue.step of a history that only uses them changes a live object -/
theorem Util_Glue_strict_pure (m : List (Nat × Nat)) (a : Nat) (p : Glue.Pool) (i : Nat) (ks : List Name) (vs : List Nat) :
    strict m a = m.lookup a ∧ weakConst m a = m.lookup a ∧ Glue.step Glue.StateDict.norm p (.dStrict i ks) = p ∧
      Glue.step Glue.StateDict.norm p (.dStrictBwd i vs) = p ∧ Glue.step Glue.StateDict.norm p (.mStrict i vs) = p :=
  ⟨rfl, rfl, rfl, rfl, rfl⟩

/-! ### the dictionary helpers of `util.cc` -/

/-- `CreateUnionStringToStateMap` (repaired, D14): the forward map of the result is exactly `name_1 ↦ translation` for
the left and `name_2 ↦ translation` for the right entries WHOSE STATE HAS A TRANSLATION (pruned states are skipped; no
name can clash); if the numbers are pairwise different the result is a dictionary.  Where the old code was defined it
computed the same. -/
theorem Util_Glue_unionDict {l r : Glue.StateDict} (hl : IsMap l.fwd) (hr : IsMap r.fwd) (tl tr : Option (List (Nat × Nat))) :
    (unionDict l r tl tr).fwd = unionEntries l r tl tr ∧
      (((unionEntries l r tl tr).map Prod.snd).Nodup → (unionDict l r tl tr).Inv) ∧
      (∀ d, unionDictOld l r tl tr = some d → unionDict l r tl tr = d) :=
  ⟨unionDict_fwd hl hr tl tr, fun hv => (unionDict_inv hl hr tl tr hv).1, fun _ h => unionDictOld_eq h⟩

example : (unionDict ⟨[("a".toList, 0), ("b".toList, 1)], [(0, "a".toList), (1, "b".toList)]⟩
    ⟨[("a".toList, 0)], [(0, "a".toList)]⟩ (some [(1, 5)]) none).fwd = [("b_1".toList, 5), ("a_2".toList, 0)] := by decide

/-- `CreateProductStringToStateMap`: undefined exactly when a component of a pair has no name; otherwise a Glue.run of
`Insert`s of `[l_1|r_2] ↦ number`, and a dictionary with exactly these entries when names and numbers are pairwise
different -/
theorem Util_Glue_productDict (l r : Glue.StateDict) (pm : List ((Nat × Nat) × Nat)) :
    (productDict l r pm = none ↔ ∃ e ∈ pm, l.bwd.lookup e.1.1 = none ∨ r.bwd.lookup e.1.2 = none) ∧
      (∀ es, prodEntries l r pm = some es → (es.map Prod.fst).Nodup → (es.map Prod.snd).Nodup →
        ∃ d, productDict l r pm = some d ∧ d.Inv ∧ d.fwd = es ∧ d.bwd = es.map Prod.swap) :=
  ⟨productDict_eq_none_iff l r pm, fun _ he hk hv => productDict_inv he hk hv⟩

/-- the product names are injective when the names of one operand contain no `|` … -/
theorem Util_Glue_productNames_injective {l l' r r' : Name} (h : prodName l r = prodName l' r')
    (hfree : ('|' ∉ l ∧ '|' ∉ l') ∨ ('|' ∉ r ∧ '|' ∉ r')) : l = l' ∧ r = r' := by
  rcases hfree with ⟨h1, h2⟩ | ⟨h1, h2⟩
  · exact prodName_inj_left h1 h2 h
  · exact prodName_inj_right h1 h2 h

/-- … and NOT in general: `(a_1|b, c)` and `(a, b_1|c)` get the same name, the result of the helper is then no dictionary
(one forward entry, two backward entries) -/
theorem Util_Glue_productNames_collide :
    (prodName "a_1|b".toList "c".toList = prodName "a".toList "b_1|c".toList ∧ "a_1|b".toList ≠ "a".toList) ∧
    (let l : Glue.StateDict := ⟨[("a_1|b".toList, 0), ("a".toList, 1)], [(0, "a_1|b".toList), (1, "a".toList)]⟩
     let r : Glue.StateDict := ⟨[("c".toList, 0), ("b_1|c".toList, 1)], [(0, "c".toList), (1, "b_1|c".toList)]⟩
     (productDict l r [((0, 0), 7), ((1, 1), 8)]).map (fun d => (d.fwd.length, d.bwd.length, d.bwd.map Prod.fst)) =
       some (1, 2, [7, 8])) :=
  ⟨prodName_not_injective, productDict_collision⟩

/-- the union names never collide -/
theorem Util_Glue_unionNames_injective (n n' : Name) :
    (name1 n = name1 n' → n = n') ∧ (name2 n = name2 n' → n = n') ∧ name1 n ≠ name2 n' :=
  ⟨name1_inj, name2_inj, name1_ne_name2 n n'⟩

/-! ### `Convert` -/

/-- `FromString<T>(ToString(x)) = x` for unsigned and signed integer types of any width -/
theorem Util_Glue_convert_roundtrip {bits : Nat} :
    (∀ n, n < 2 ^ bits → fromStrUnsigned bits (natStr n) = some n) ∧
      (∀ z : Int, -(2 ^ (bits - 1) : Int) ≤ z → z < 2 ^ (bits - 1) → fromStrSigned bits (intStr z) = some z) :=
  ⟨fun _ h => fromStrUnsigned_natStr h, fun _ h1 h2 => fromStrSigned_intStr h1 h2⟩

example : fromStrSigned 32 (intStr (-2147483648)) = some (-2147483648) := by decide

/-- what `FromString` accepts: exactly  white space* · (`+` | `-`)? · digit+ · anything not starting with a digit;  the value is
that of the digits (trailing garbage ignored), a magnitude outside the type is rejected, a `-` in front of an unsigned
number wraps modulo `2^bits` -/
theorem Util_Glue_convert_accepts :
    (∀ ws ds rest sg, (∀ c ∈ ws, isSpaceC c = true) → ds ≠ [] → (∀ c ∈ ds, c.isDigit = true) →
        (∀ c, rest.head? = some c → c.isDigit = false) → scanInt (ws ++ signChars sg ++ ds ++ rest) = some (sg == some true, ds)) ∧
      (∀ s neg ds, scanInt s = some (neg, ds) → ∃ ws sign rest, s = ws ++ sign ++ ds ++ rest ∧ (∀ c ∈ ws, isSpaceC c = true) ∧
        (sign = [] ∨ sign = ['+'] ∨ sign = ['-']) ∧ (neg = true ↔ sign = ['-']) ∧ ds ≠ [] ∧ (∀ c ∈ ds, c.isDigit = true) ∧
        (∀ c, rest.head? = some c → c.isDigit = false)) ∧
      (∀ bits n, n < 2 ^ bits → fromStrUnsigned bits ('-' :: natStr n) = some ((2 ^ bits - n) % 2 ^ bits)) ∧
      (∀ bits s v, fromStrUnsigned bits s = some v → v < 2 ^ bits) ∧ scanInt [] = none :=
  ⟨scanInt_accepts, fun _ _ _ h => scanInt_shape h, fun _ _ h => fromStrUnsigned_neg h, fun _ _ v h => fromStr_range.1 v h,
    scanInt_nil⟩

example : fromStrSigned 32 " \t+007x".toList = some 7 ∧ fromStrUnsigned 32 "-1".toList = some 4294967295 ∧
    fromStrSigned 32 "2147483648".toList = none ∧ fromStrSigned 32 "".toList = none := by decide

/-!
## not proved / outside the model

* Keys and values of the dictionary theorems are arbitrary types with decidable equality; the harness instantiates
  `TwoWayDict<std::string, size_t>` (`Glue.StateDict`) and `std::unordered_map<size_t, size_t>` (`StateToStateMap`) only.  Numbers
  are `Nat`: the wrap-around of a counter functor at `2^64` and of `maxVariableIndex + 1` in `AddVariablesUpTo` is not
  modelled (the generator stays below).
* `std::map` / `std::unordered_map` / `std::function` / `std::istringstream` / `std::ostringstream` are modelled from their
  specification (association list with first-wins `insert`; libstdc++'s `num_get` for decimal integers in the "C" locale),
  not from the library sources.  The iteration order of `std::map` (increasing keys) is reproduced by `Glue.StateDict.norm`
  for the comparison; that `norm` sorts is not proved (only that it preserves the entries, `norm_ok`), and the order of a
  hash map is not modelled (the theorems are about entries; where the real order matters – colliding product names or
  values – the driver takes the real object over after checking it entry by entry).
* The concretisation is modelled on the suffix (the recursion of `getAllSymbols` on `pos`), not on the in-place
  mutation of the one working copy; `a.append(a)`, reads / writes at an index `≥ length()` and `SymbolicVarAsgn(size > 32, n)`
  are undefined behaviour and only marked as such (`none`), never executed by the harness.
* The exception texts and `operator<<` of the dictionary are compared at Glue.run time only.
* `ToString` of containers (`vecStr`, `setStr`, `mapStr`, `pairStr`) has examples and run-time comparison, no theorem
  (no injectivity claim); `FromString` is modelled for `int`, `unsigned`, `size_t` (the types the library and its tests
  use), not for floating point, `char` or `std::string`.
* `TwoWayDict::Union` is proved inside its contract (`inv_union`); outside it is compared at Glue.run time only.
-/
end Vata.Props
