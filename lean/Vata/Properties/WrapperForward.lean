import Vata.Generated.Tables
import Vata.Wrapper
/-!
# The public pimpl wrappers forward to the core method of their own name (over the table REGENERATED from the sources)

`tools/extract_tables.py` reads `src/explicit_tree_aut.cc`, `src/explicit_finite_aut.cc`, `src/bdd_bu_tree_aut.cc`, `src/bdd_td_tree_aut.cc` on
every run and lists, for every out-of-class method definition of the four public classes, the core methods its body calls
(`Vata.Gen.wrapperCalls`).  The theorems below are re-checked against what the code says now: a wrapper method that is rewired to another
core method (a behaviour-changing slip, or a harmless refactoring – then the alarm ends with `no-failing-input-found`) breaks them.
They are audited with the properties whose operations go through these wrappers (C02, C03, C08, C10, C14).

The hand-written forwarding table of `Vata/Wrapper.lean` (T110, the model of `ExplicitTreeAut`) is tied to the regenerated one by
`wrapper_model_table_regenerated`.
-/
namespace Vata.WrapperForward
open Vata

/-- the method name of an entry: the text before a blank -/
def mname (s : String) : String := String.ofList (s.toList.takeWhile (· != ' '))

/-- the two wrapper methods that forward to a core method of another name -/
def renamed : List (String × String × String) :=
  [("ExplicitFiniteAut", "LoadFromString", "LoadFromAutDesc"), ("BDDBottomUpTreeAut", "GetTransMTBDDForTuple const", "GetMtbdd")]

/-- the wrapper methods whose body calls no core method: an overload that calls another wrapper overload, a method that throws -/
def noCall : List (String × String) := [("ExplicitFiniteAut", "CheckInclusion"), ("BDDBottomUpTreeAut", "GetCandidateTree const")]

theorem wrapper_parsed : Gen.wrapperErrors = [] := by decide +kernel

theorem wrapper_methods_found : 120 ≤ Gen.wrapperCalls.length := by decide +kernel

/-- every wrapper method that calls the core calls the core method of its own name – except the two listed ones, which call exactly the listed method -/
theorem wrapper_forwards_same_name :
    Gen.wrapperCalls.all (fun e => e.2.2.isEmpty || e.2.2.contains (mname e.2.1) ||
      renamed.any (fun r => r.1 == e.1 && r.2.1 == e.2.1 && e.2.2 == [r.2.2])) = true := by decide +kernel

/-- the methods without a core call are exactly the two listed ones -/
theorem wrapper_no_call_exact :
    (Gen.wrapperCalls.filter (fun e => e.2.2.isEmpty)).map (fun e => (e.1, e.2.1)) = noCall := by decide +kernel

/-- the language-relevant operations of all four classes forward to their namesakes and to nothing with another operation's name -/
def operations : List String :=
  ["Union", "UnionDisjointStates", "Intersection", "IntersectionBU", "RemoveUnreachableStates", "RemoveUselessStates", "GetCandidateTree",
   "Reduce", "Complement", "Reverse", "CollapseStates", "ReindexStates", "TranslateSymbols", "ComputeSimulation", "CheckInclusion", "AddTransition",
   "SetStateFinal", "Clear"]

theorem wrapper_operations_not_crossed :
    Gen.wrapperCalls.all (fun e => !(operations.contains (mname e.2.1)) ||
      e.2.2.all (fun c => c == mname e.2.1 || !(operations.contains c))) = true := by decide +kernel

/-- the hand-written table of the wrapper MODEL (`Vata/Wrapper.lean`): every "forwards to its namesake" entry whose method is defined in
`src/explicit_tree_aut.cc` is confirmed by the regenerated table -/
theorem wrapper_model_table_regenerated :
    Wrapper.wrapperForwardsSame.all (fun e =>
      let n := String.ofList (Wrapper.methodName e.1)
      !(Gen.wrapperCalls.any (fun g => g.1 == "ExplicitTreeAut" && mname g.2.1 == n)) ||
      Gen.wrapperCalls.any (fun g => g.1 == "ExplicitTreeAut" && mname g.2.1 == n && g.2.2.contains e.2)) = true := by decide +kernel

end Vata.WrapperForward
