import Vata.Proofs.NfaOpsCodedMain
/-!
# C10 (continued) – `Intersection`, `Reverse`, `RemoveUnreachableStates`, `RemoveUselessStates`, `GetCandidateTree` AS CODED

> C10: For nondeterministic finite word automata, … Intersection accepts exactly the intersection of the operand languages,
> Reverse exactly the mirror images of the accepted words.  RemoveUnreachableStates and RemoveUselessStates keep the language,
> and GetCandidateTree returns an automaton whose language is a subset of the original that is empty only if the original
> language is empty.

`C10.lean` / `C10_StartSymbols.lean` prove this for the relation-level models of `Vata/NfaOps.lean` / `Vata/NfaStart.lean`
(`nfaIsect` saturates a set of pairs round by round and numbers it in order of discovery; `nfaRemoveUnreachable` saturates a
set of states; `nfaCandidate` scans lists in list order).  Their "not yet proved" sections name the gap: the numbering of
`Intersection` (`pTranslMap->size ()` in the order of a STACK and of hash containers) and the scan order of
`GetCandidateTree`.  This file closes it.

## how the C++ is read into the model (`Vata/NfaOpsCoded.lean`, namespace `Vata.NfaC`, the C++ lines are quoted there)

* `src/explicit_finite_isect.cc` → `isectInit` (the two loops over the start states: `insert (…, size ())`, unconditional
  `push_back`, start marking), `isectLoop` / `isectBody` (`back` / `pop_back`; final marking; the two `genericLookup`s with
  their `continue`; the loop over the symbols of the left cluster with `rcluster->find` and its `continue`; the two loops over
  the target sets; `insert (…, size ())`, `stateSet.insert`, `push_back` only when the insertion took place),
  `tmInsert` (the fresh number IS the size of the map; the map is kept as the list of entries with the number each was given, so
  `number = position` is a theorem – `TmWF` – not a definition), followed by `nfasUselessCoded`.  `nfasIsectCoded o A B` returns
  the result and the filled `*pTranslMap`.
* `src/explicit_finite_reverse.cc` → `nfasReverseCoded` (three nested loops of `AddTransition`, the map of start symbols copied
  and completed by `insert`).
* `src/explicit_finite_unreach.cc` → `unreachInit` (the set built from the start states, the vector built from the ITERATION of
  that set, popped from the back), `unreachLoop`, `unreachBuild`; `src/explicit_finite_useless.cc` → `nfasUselessCoded`
  (the composition written there).
* `src/explicit_finite_candidate.cc` → `candStartLoop` (early `return` at a final start state), `candLoop` / `candInner`
  (FIFO list; `insert` into `reachableStates`; early `return` at the first final target; `transitions_->insert` of the WHOLE
  cluster of `actState`, which does not overwrite), then `nfasUselessCoded`.
* **Iteration orders** of the three kinds of hash containers are the parameter `o : NfaOrd`; every theorem is for every `o` with
  `o.Ok` (each order enumerates exactly the elements).  `NfaOrd.ident`, `NfaOrd.rev` are two instances.
* **Variants** for the repaired defects: `IsectVariant.d4` (start marking inside the symbol loop, for a pair ONE of whose
  components is a start state – the code before `2c042d21`), `.d15` (`SetStateStart` once per start symbol – between
  `2c042d21` and `bb6bc616`), `fixD5 = false` (`Reverse` without the `insert` loop – before `dcf3cbe6`), `fixD6 = false`
  (`GetCandidateTree` without the early `return` – before `8ac4ac29`).

## what is abstracted

* Automata are lists (`Vata.NFAS`); the transition table `state ↦ symbol ↦ set` is read off the list by `nfaClusterOf`; a cluster
  or target set that exists but is empty is not represented (it is never iterated with an effect).
* The stack of `Intersection` holds pointers to map entries; the model holds the entries (an `unordered_map` never moves its
  nodes).
* The nested `for` loops whose bodies change the state only in the innermost body are proved equal to ONE fold over the
  flattened iteration sequence (`isectBody_fixed`, `isectInit_fixed`); the models themselves keep the nesting.
* "Same as the relation-level model" is `NfaSetEq` (same SETS of start states, final states, transitions) – the C++ containers
  are sets – plus `SymObsEq` for the start-symbol map.
* Fuel: every loop is fuel-indexed and returns `none` when the fuel runs out; **totality is proved with explicit fuels**
  (`isectFuel`, `unreachFuel`, `candFuel`), the wrappers `nfasIsectCoded`, `nfasUnreachCoded`, `nfasCandidateCoded` use them and
  their default value is proved unused.
-/
namespace Vata.Props
open Vata Vata.W Vata.NfaC

/-! ### `Intersection` -/

/-- **`Intersection` as coded refines the relation-level model.**  For every iteration order: the run with the fuel
`isectFuel` ends (`some st`, empty stack); the translation map is numbered by position (`TmWF`: the number handed out by
`insert (…, size ())` is the position of the entry); its keys are EXACTLY the pairs the relation-level model `nfaIsect` explores;
it is injective on them; `res` before `RemoveUselessStates` is the product automaton on these pairs under the reported map;
each product start state carries the union of the start symbols of its components. -/
theorem C10_coded_isect_refines {o : NfaOrd} (ho : o.Ok) (A B : NFAS) :
    ∃ st, nfasIsectCodedRaw o .fixed A B (isectFuel o .fixed A B) = some st ∧
      nfasIsectCoded o A B = (nfasUselessCoded o true st.res, st.tm) ∧
      st.stack = [] ∧ TmWF st.tm ∧
      (∀ p, p ∈ tmKeys st.tm ↔ p ∈ nfaIsectPairs A.toNFA B.toNFA) ∧
      NfaPairInjOn (tmFun st.tm) (nfaIsectPairs A.toNFA B.toNFA) ∧
      NfaSetEq st.res.toNFA (nfaProdOn A.toNFA B.toNFA (nfaIsectPairs A.toNFA B.toNFA) (tmFun st.tm)) ∧
      (∀ p, p ∈ nfaStartPairs A.toNFA B.toNFA →
        smFind st.res.startSyms (tmFun st.tm p) = some (A.symsOf p.1 ++ B.symsOf p.2)) := by
  obtain ⟨st, hst, he⟩ := nfasIsectCoded_eq ho A B
  obtain ⟨h1, h2, h3, h4, h5, _⟩ := nfasIsectCodedRaw_spec ho A B _ st hst
  refine ⟨st, hst, he, h1, h2, h3, ?_, h5.trans (nfaProdOn_setEq _ _ _ h3), nfasIsectCodedRaw_syms ho A B _ st hst⟩
  intro p hp q hq e
  exact h4 p ((h3 p).mpr hp) q ((h3 q).mpr hq) e

/-- the result of `Intersection` as coded and the relation-level model `nfaIsect` are the SAME construction – the trimmed
product on `nfaIsectPairs` – under two injective numberings: the reported translation map, resp. the position in the
round-by-round order of discovery -/
theorem C10_coded_isect_same_construction {o : NfaOrd} (ho : o.Ok) (A B : NFAS) :
    NfaSetEq (nfasIsectCoded o A B).1.toNFA
      (nfaRemoveUseless (nfaProdOn A.toNFA B.toNFA (nfaIsectPairs A.toNFA B.toNFA) (tmFun (nfasIsectCoded o A B).2))) ∧
    nfaIsect A.toNFA B.toNFA =
      nfaRemoveUseless (nfaProdOn A.toNFA B.toNFA (nfaIsectPairs A.toNFA B.toNFA)
        (fun p => (nfaIsectPairs A.toNFA B.toNFA).idxOf p)) := by
  obtain ⟨st, _, he, _, _, _, _, h5, _⟩ := C10_coded_isect_refines ho A B
  rw [he]
  exact ⟨(nfasUselessCoded_setEq ho true st.res).trans h5.removeUseless, nfaIsect_eq _ _⟩

/-- **`Intersection` as coded accepts exactly the intersection**, for every iteration order -/
theorem C10_coded_isect_lang {o : NfaOrd} (ho : o.Ok) (A B : NFAS) (w : List Nat) :
    acceptsW (nfasIsectCoded o A B).1.toNFA w = (acceptsW A.toNFA w && acceptsW B.toNFA w) := by
  obtain ⟨st, hst, he⟩ := nfasIsectCoded_eq ho A B
  rw [he, nfasUselessCoded_lang ho]
  exact (nfasIsectCodedRaw_spec ho A B _ st hst).2.2.2.2.2 w

/-- **totality of the stack loop with an explicit fuel**: `|start pairs pushed| + |joint transitions|` turns suffice (each turn
pops one entry; an entry is pushed only when a pair gets its number, and – after the start loops – such a pair is the target of
a joint transition that had no number before); and EVERY run that ends (any fuel) satisfies the specification -/
theorem C10_coded_isect_total {o : NfaOrd} (ho : o.Ok) (A B : NFAS) :
    (∃ st, nfasIsectCodedRaw o .fixed A B (isectFuel o .fixed A B) = some st) ∧
    isectFuel o .fixed A B =
      (iterSet o.sts A.start).length * (iterSet o.sts B.start).length + (nfaJointAll A.toNFA B.toNFA).length ∧
    ∀ fuel st, nfasIsectCodedRaw o .fixed A B fuel = some st →
      ∀ w, acceptsW st.res.toNFA w = (acceptsW A.toNFA w && acceptsW B.toNFA w) :=
  ⟨nfasIsectCodedRaw_total ho A B, by rw [isectFuel, isectInit_stack_length],
    fun fuel st h => (nfasIsectCodedRaw_spec ho A B fuel st h).2.2.2.2.2⟩

/-! ### `Reverse` -/

/-- **`Reverse` as coded**: the same automaton (as sets) as the relation-level `nfaReverse`, hence exactly the mirror images;
the same start-symbol entries as `nfasReverse` (every new start state has an entry – the repair D5) -/
theorem C10_coded_reverse_lang {o : NfaOrd} (ho : o.Ok) (A : NFAS) :
    NfaSetEq (nfasReverseCoded o true A).toNFA (nfaReverse A.toNFA) ∧
    (∀ w, acceptsW (nfasReverseCoded o true A).toNFA w = acceptsW A.toNFA w.reverse) ∧
    SymObsEq (nfasReverseCoded o true A) (nfasReverse A) ∧
    (∀ s, s ∈ (nfasReverseCoded o true A).start → smHas (nfasReverseCoded o true A).startSyms s = true) := by
  have h := nfasReverseCoded_setEq ho true A
  refine ⟨h, fun w => by rw [h.lang w, nfaReverse_lang], fun q => nfasReverseCoded_syms ho A q, ?_⟩
  intro s hs
  rw [(nfasReverseCoded_syms ho A s).1, nfasReverse_has]
  have : s ∈ A.final := hs
  rw [List.contains_iff_mem.mpr this, Bool.or_true]

/-! ### `RemoveUnreachableStates`, `RemoveUselessStates` -/

/-- **the trimming functions as coded return the same automata as the relation-level models** (same sets of start states,
final states, transitions; same start-symbol entries), for every iteration order; the stack search of
`RemoveUnreachableStates` ends within `unreachFuel` turns and its set `reachableStates` is the set of reachable states -/
theorem C10_coded_trim_same {o : NfaOrd} (ho : o.Ok) (A : NFAS) :
    (∃ R, nfaReachCoded o A.toNFA (unreachFuel o A.toNFA) = some R ∧ nfasUnreachCoded o A = unreachBuild o A R ∧
      ∀ q, q ∈ R ↔ q ∈ nfaReachable A.toNFA) ∧
    NfaSetEq (nfasUnreachCoded o A).toNFA (nfaRemoveUnreachable A.toNFA) ∧
    (nfasUnreachCoded o A).startSyms = A.startSyms ∧
    NfaSetEq (nfasUselessCoded o true A).toNFA (nfaRemoveUseless A.toNFA) ∧
    SymObsEq (nfasUselessCoded o true A) (nfasRemoveUseless A) ∧
    (∀ w, acceptsW (nfasUnreachCoded o A).toNFA w = acceptsW A.toNFA w) ∧
    (∀ w, acceptsW (nfasUselessCoded o true A).toNFA w = acceptsW A.toNFA w) := by
  obtain ⟨R, hR, e⟩ := nfasUnreachCodedF_isSome ho A
  have h1 := nfasUnreachCoded_setEq ho A
  refine ⟨⟨R, hR, e, nfaReachCoded_spec ho _ _ _ hR⟩, h1.1, h1.2.1, nfasUselessCoded_setEq ho true A,
    nfasUselessCoded_syms ho A, fun w => ?_, nfasUselessCoded_lang ho true A⟩
  rw [h1.1.lang w, nfaRemoveUnreachable_lang]

/-- consequence: every state of the coded `RemoveUselessStates` is reachable and co-reachable in the input -/
theorem C10_coded_trim_useful {o : NfaOrd} (ho : o.Ok) (A : NFAS) (q : Nat)
    (hq : q ∈ nfaStates (nfasUselessCoded o true A).toNFA) : NfaReach A.toNFA q ∧ NfaCoReach A.toNFA q := by
  apply nfaRemoveUseless_states_useful
  have h := nfasUselessCoded_setEq ho true A
  rcases mem_nfaStates.mp hq with h' | h' | ⟨e, he, h'⟩
  · exact mem_nfaStates.mpr (Or.inl ((h.1 q).mp h'))
  · exact mem_nfaStates.mpr (Or.inr (Or.inl ((h.2.1 q).mp h')))
  · exact mem_nfaStates.mpr (Or.inr (Or.inr ⟨e, (h.2.2 e).mp he, h'⟩))

/-! ### `GetCandidateTree` -/

/-- **`GetCandidateTree` as coded, for every scan order** of the start states, of the clusters and of the target sets: the
search ends within `candFuel` turns; the automaton handed to `RemoveUselessStates` is a sub-automaton of the input; the
result accepts only words of the input, and accepts some word exactly when the input does -/
theorem C10_coded_candidate_spec {o : NfaOrd} (ho : o.Ok) (A : NFAS) :
    (∃ r, nfasCandidateCodedRaw o true A (candFuel o A.toNFA) = some r ∧
      nfasCandidateCoded o A = nfasUselessCoded o true r ∧ NfaSub r.toNFA A.toNFA) ∧
    (∀ w, acceptsW (nfasCandidateCoded o A).toNFA w = true → acceptsW A.toNFA w = true) ∧
    ((∃ w, acceptsW (nfasCandidateCoded o A).toNFA w = true) ↔ ∃ w, acceptsW A.toNFA w = true) := by
  obtain ⟨r, hr, e⟩ := nfasCandidateCoded_eq ho A
  obtain ⟨h1, h2⟩ := nfasCandidateCodedRaw_spec ho A _ r hr
  have hsub : ∀ w, acceptsW (nfasCandidateCoded o A).toNFA w = true → acceptsW A.toNFA w = true := by
    intro w hw
    rw [e, nfasUselessCoded_lang ho] at hw
    exact h1.lang w hw
  refine ⟨⟨r, hr, e, h1⟩, hsub, ⟨fun ⟨w, hw⟩ => ⟨w, hsub w hw⟩, fun hne => ?_⟩⟩
  obtain ⟨w, hw⟩ := h2 hne
  exact ⟨w, by rw [e, nfasUselessCoded_lang ho]; exact hw⟩

/-- every run of the coded search that ends (any fuel, any order) is correct -/
theorem C10_coded_candidate_any_fuel {o : NfaOrd} (ho : o.Ok) (A : NFAS) (fuel : Nat) (r : NFAS)
    (h : nfasCandidateCodedF o true true A fuel = some r) :
    (∀ w, acceptsW r.toNFA w = true → acceptsW A.toNFA w = true) ∧
    ((∃ w, acceptsW A.toNFA w = true) → ∃ w, acceptsW r.toNFA w = true) := by
  simp only [nfasCandidateCodedF, Option.map_eq_some_iff] at h
  obtain ⟨r0, hr0, rfl⟩ := h
  obtain ⟨h1, h2⟩ := nfasCandidateCodedRaw_spec ho A _ r0 hr0
  refine ⟨fun w hw => ?_, fun hne => ?_⟩
  · rw [nfasUselessCoded_lang ho] at hw; exact h1.lang w hw
  · obtain ⟨w, hw⟩ := h2 hne
    exact ⟨w, by rw [nfasUselessCoded_lang ho]; exact hw⟩

/-! ### non-vacuity: the orders matter for the numbering and for the witness, not for the theorems -/

namespace CodedEx
/-- words over {7,8} ending in 8 -/
def A1 : NFAS := ⟨⟨[0], [1], [(0, 7, 0), (0, 8, 0), (0, 8, 1)]⟩, [(0, [3])]⟩
/-- words of even length -/
def B1 : NFAS := ⟨⟨[0], [0], [(0, 7, 1), (0, 8, 1), (1, 7, 0), (1, 8, 0)]⟩, [(0, [4])]⟩
/-- two ways to a final state -/
def C1 : NFAS := ⟨⟨[0], [2, 4], [(0, 7, 1), (1, 8, 2), (1, 9, 3), (3, 7, 4), (1, 9, 4)]⟩, [(0, [3])]⟩
end CodedEx
open CodedEx

example : NfaOrd.ident.Ok ∧ NfaOrd.rev.Ok := ⟨NfaOrd.ident_ok, NfaOrd.rev_ok⟩

/-- the hypothesis `o.Ok` cannot be dropped: an "iteration" of the state sets that skips their elements loses the start
states, and the product is empty although `[7, 8]` is accepted by both operands -/
example : acceptsW (nfasIsectCoded { sts := fun _ => [], syms := id, srcs := id } A1 B1).1.toNFA [7, 8] = false ∧
    (acceptsW A1.toNFA [7, 8] && acceptsW B1.toNFA [7, 8]) = true ∧
    acceptsW (nfasIsectCoded .ident A1 B1).1.toNFA [7, 8] = true := by decide

/-- the STACK numbering: with list order `(1,1)` gets number 2 and `(1,0)` number 3; with the reversed order `(1,1)` is
number 1 and `(0,1)` number 2; the relation-level model numbers breadth-first `(0,0),(0,1),(1,1),(1,0)` -/
example : (nfasIsectCoded .ident A1 B1).2 = [((0, 0), 0), ((0, 1), 1), ((1, 1), 2), ((1, 0), 3)] ∧
    (nfasIsectCoded .rev A1 B1).2 = [((0, 0), 0), ((1, 1), 1), ((0, 1), 2), ((1, 0), 3)] ∧
    nfaIsectPairs A1.toNFA B1.toNFA = [(0, 0), (0, 1), (1, 1), (1, 0)] := by decide

example : (nfasIsectCoded .rev A1 B1).1.trans = [(2, 8, 3), (0, 8, 2), (0, 7, 2), (2, 8, 0), (2, 7, 0)] ∧
    acceptsW (nfasIsectCoded .rev A1 B1).1.toNFA [7, 8] = true ∧
    acceptsW (nfasIsectCoded .rev A1 B1).1.toNFA [8] = false ∧
    (nfasIsectCoded .rev A1 B1).1.symsOf 0 = [3, 4] := by decide

/-- the scan order decides WHICH witness `GetCandidateTree` returns (final state 2 or 4); both satisfy the specification -/
example : (nfasCandidateCoded .ident C1).final = [2] ∧ (nfasCandidateCoded .rev C1).final = [4] ∧
    (nfasCandidateCoded .ident C1).trans = [(1, 8, 2), (0, 7, 1)] ∧
    (nfasCandidateCoded .rev C1).trans = [(1, 9, 4), (0, 7, 1)] := by decide

example : nfaReachCoded .ident C1.toNFA (unreachFuel .ident C1.toNFA) = some [0, 1, 2, 3, 4] ∧
    nfaReachCoded .rev C1.toNFA (unreachFuel .rev C1.toNFA) = some [0, 1, 4, 3, 2] := by decide

/-! ### regressions: the coded models of the code BEFORE the repairs show the defects (kernel-checked) -/

namespace CodedEx
/-- accepts only the empty word; its start state carries the symbol 5 -/
def E : NFAS := ⟨⟨[0], [0], []⟩, [(0, [5])]⟩
/-- the same with a start state WITHOUT start symbols (what `Reverse` produces) -/
def E0 : NFAS := ⟨⟨[0], [0], []⟩, [(0, [])]⟩
/-- `a*` -/
def As : NFAS := ⟨⟨[0], [0], [(0, 1, 0)]⟩, [(0, [9])]⟩
/-- `{aa}` -/
def Bs : NFAS := ⟨⟨[0], [2], [(0, 1, 1), (1, 1, 2)]⟩, [(0, [8])]⟩
/-- `{7}` -/
def R1 : NFAS := ⟨⟨[0], [1], [(0, 7, 1)]⟩, [(0, [3])]⟩
end CodedEx

/-- **D4** (first half): the original code marked start states inside the symbol loop – a start pair without a common outgoing
symbol was never marked, so `{ε} ∩ {ε}` came out EMPTY; the current code accepts `ε` -/
example : ((nfasIsectCodedF .ident .d4 true E E 5).map (fun r => (r.1.start, acceptsW r.1.toNFA []))) = some ([], false) ∧
    ((nfasIsectCodedF .ident .fixed true E E 5).map (fun r => (r.1.start, acceptsW r.1.toNFA []))) = some ([0], true) := by
  decide

/-- **D4** (second half): … and marked a pair when ONE component was a start state: `a* ∩ {aa}` accepted `a`
(the pair `(0,1)` became a start state); the current code does not -/
example : ((nfasIsectCodedF .ident .d4 true As Bs 9).map (fun r => (r.1.start, acceptsW r.1.toNFA [1], acceptsW r.1.toNFA [1, 1])))
      = some ([1, 0], true, true) ∧
    ((nfasIsectCodedF .ident .fixed true As Bs 9).map (fun r => (r.1.start, acceptsW r.1.toNFA [1], acceptsW r.1.toNFA [1, 1])))
      = some ([0], false, true) ∧
    (acceptsW As.toNFA [1] && acceptsW Bs.toNFA [1]) = false := by decide

/-- **D15**: between the two repairs the start flag was set once per start SYMBOL – operands whose start states carry no
symbols (results of `Reverse`) had a product without start states; with a symbol the same code was right -/
example : ((nfasIsectCodedF .ident .d15 true E0 E0 5).map (fun r => (r.1.start, acceptsW r.1.toNFA []))) = some ([], false) ∧
    ((nfasIsectCodedF .ident .d15 true E E 5).map (fun r => (r.1.start, acceptsW r.1.toNFA []))) = some ([0], true) ∧
    ((nfasIsectCodedF .ident .fixed true E0 E0 5).map (fun r => (r.1.start, acceptsW r.1.toNFA []))) = some ([0], true) := by
  decide

/-- **D5**: before the repair `Reverse` left its new start states without an entry in `startStateToSymbols_`
(`GetStartSymbols` then dereferenced `end ()`); the language was right -/
example : (nfasReverseCoded .ident false R1).start = [1] ∧ smHas (nfasReverseCoded .ident false R1).startSyms 1 = false ∧
    smHas (nfasReverseCoded .ident true R1).startSyms 1 = true ∧
    acceptsW (nfasReverseCoded .ident false R1).toNFA [7] = true := by decide

/-- **D6**: before the repair `GetCandidateTree` of an automaton accepting `ε` returned an EMPTY witness -/
example : ((nfasCandidateCodedF .ident false true E 5).map (fun r => (r.final, acceptsW r.toNFA []))) = some ([], false) ∧
    ((nfasCandidateCodedF .ident true true E 5).map (fun r => (r.final, acceptsW r.toNFA []))) = some ([0], true) ∧
    acceptsW E.toNFA [] = true := by decide

/-!
## still not proved

* The start-symbol map of the FINAL result of `Intersection` / `GetCandidateTree` (after `RemoveUselessStates`) is not stated
  separately: `C10_coded_isect_refines` gives the entries of `res` before the trimming and `C10_coded_trim_same` says that the
  coded trimming leaves the same entries as the relation-level `nfasRemoveUseless`, whose effect on the entries is
  `C10_start_trim_spec` (`C10_StartSymbols.lean`); the three are not composed here.  For `GetCandidateTree` the entries
  written by the start scan (`SetExistingStateStart (s, GetStartSymbols (s))`) are modelled but no theorem is stated about them.
* The coded `Intersection` is related to the relation-level model up to the numbering: same explored set, both numberings
  injective, same trimmed product (`C10_coded_isect_same_construction`).  That the two results are ISOMORPHIC as automata is a
  consequence that is not spelled out as a theorem (no notion of isomorphism is defined in this development).
* The variants `.d4`, `.d15`, `fixD5 = false`, `fixD6 = false` are only exercised by the `decide`d examples above; no general
  theorem characterises what the defective code computed.  Totality (`isectLoop_total`) is proved for the current code only.
* `Union` / `UnionDisjointStates` as coded are in `C10_CliPipeline.lean`; the load / dump of word automata in `C13`; neither is
  repeated here.  `Intersection` is modelled with `pTranslMap` initially EMPTY (the CLI and the tests pass a fresh or no map); a
  pre-filled caller map (as for `Union`) is not modelled.
* The iteration order of a hash container is a function of the LIST of its elements (`NfaOrd`); two containers with the same
  elements inserted in a different history are iterated in the same order by the model.  Since the theorems hold for every such
  function and use no relation between two applications of it, this loses no generality for the statements above, but an
  executable comparison with the real C++ must be done up to `NfaSetEq` / up to the reported translation map, not literally.
* The correspondence with the C++ on generated inputs has not been run (functions: `nfasIsectCoded`, `nfasReverseCoded`,
  `nfasUnreachCoded`, `nfasUselessCoded`, `nfasCandidateCoded`).
-/
end Vata.Props
