import Vata.Proofs.NfaInclSimEquiv
import Vata.Proofs.NfaInclSimAC
import Vata.Proofs.NfaInclSimCongr
import Vata.Proofs.NfaInclSimCongrInv
import Vata.Proofs.NfaInclTotal
import Vata.Generated.Tables
/-!
# C09 – the NFA inclusion selections WITH a simulation relation and the EQUIVALENCE functor

Property C09: *"`CheckInclusion` on finite (word) automata answers `L(smaller) ⊆ L(bigger)` for every implemented selection
of `InclParam`"*.  `Vata/Properties/C09.lean` covers the rows `ANTICHAINS_NOSIM`, `CONGR_DEPTH_NOSIM`, `CONGR_BREADTH_NOSIM` of
the dispatcher `src/explicit_finite_incl.cc`; its "not yet proved" block says that the other four rows have no model.  This
file serves that item.

## How the C++ is read into the model (`Vata/NfaInclSim.lean`, with the quoted source lines there)

* `CONGR_DEPTH_EQUIV_NOSIM`, `CONGR_BREADTH_EQUIV_NOSIM`: sanitise, `smaller := UnionDisjointStates(smaller, bigger)`, then
  `ExplicitFACongrEquivFunctor` with the depth / breadth product set: `checkNfaInclEquiv A B depthFirst fuel`
  (`nfaInclEquiv` = the functor on `(A ⊎ B, B)` for state-disjoint operands).  `Init`, `MakePostForAut`, the product set are
  those of the congruence functor; the head of `MakePost` computes the congruence closure (rules applied in BOTH directions)
  of `smaller` recording every intermediate set in `congrMap`, then that of `bigger`, leaving early when an intermediate set
  `areEqual` to the recorded one of the same rule, and finally compares the two closures with `areEqual` (which is `false` on
  empty sets).  The verdict of the model is the verdict of the exploration – NO certificate check.
* `ANTICHAINS_SIM`: the caller's operands and relation, unsanitised, antichain functor with
  `ExplicitFAStateSetComparatorSimulation`: `nfaInclACSim A B R fuel` (`∀∃` comparison of macro-states modulo `R`, candidates
  from `singleAntichain_`, `checkSmallerInBigger` skip).  Certify-then-trust: `true` only after `nfaUpCertSimB`, `false` only
  after the word check; `nfaInclACSimRaw` is the unchecked verdict.
* `CONGR_DEPTH_SIM`: the caller's operands, unsanitised and WITHOUT the union (the command line passes `smaller := A ⊎ B`):
  `congrSimFunctor U B R fuel`; `nfaInclCongrSim A B R fuel` runs it on `(A ⊎ B, B)` (`NormalFormRelSimulation::applyRule` on
  the start set of the closure and on every added rule side).  Certify-then-trust with `congrCertB` over the relation plus the
  simulation pairs as rules; `nfaInclCongrSimRaw` is the unchecked verdict.

Abstracted (as in `Vata/NfaIncl.lean`): macro-states are sorted duplicate-free lists compared by value (the macro-state cache,
which never shares the empty set, and the memo tables `subsetMap_`, `subsetNotMap_`, `usedRules_` are not modelled); iteration
orders of hash containers are list orders; a relation is a list of pairs and `get` outside it is `false`; `applyRule` inserts
into the set it iterates over – the model makes one pass over the original set.

Entry points for a comparison with the library (all `… → Option Bool`):
`checkNfaInclEquiv : NFA → NFA → Bool → Nat → Option Bool`, `nfaInclACSim`, `nfaInclACSimRaw`, `nfaInclCongrSim`,
`nfaInclCongrSimRaw : NFA → NFA → Rel → Nat → Option Bool`, and `C09Sel.model` for a row of the table.
-/
namespace Vata.Props
open Vata Vata.W Vata.NfaIncl

/-! ### 1. the equivalence functor -/

/-- **The two EQUIV selections answer the inclusion question.**  Every verdict of the model of `CheckInclusion` with
`CONGR_DEPTH_EQUIV_NOSIM` (`depthFirst = true`) or `CONGR_BREADTH_EQUIV_NOSIM` – sanitise, run the equivalence functor on
`(A ⊎ B, B)` – is the truth of `L(A) ⊆ L(B)`.  No hypothesis; the verdict is that of the exploration, there is no final check -/
theorem C09_equiv_functor_exact (A B : NFA) (depthFirst : Bool) (fuel : Nat) (b : Bool)
    (h : checkNfaInclEquiv A B depthFirst fuel = some b) : b = true ↔ InclW A B :=
  checkNfaInclEquiv_iff h

/-- the functor itself on `(A ⊎ B, B)`: exact for operands with disjoint states -/
theorem C09_equiv_functor_core_exact (A B : NFA) (hdis : ∀ q, q ∈ nfaStates A → q ∈ nfaStates B → False)
    (depthFirst : Bool) (fuel : Nat) (b : Bool) (h : nfaInclEquiv A B depthFirst fuel = some b) :
    b = true ↔ InclW A B :=
  nfaInclEquiv_iff hdis h

/-- … with what stands behind the verdict: a `return false` happens at a word accepted by `A` and not by `B`, a
`return true` leaves a `relation_` that is a bisimulation up to congruence relating the start macro-states of `A ⊎ B` and `B`
(Hopcroft–Karp / Bonchi–Pous) -/
theorem C09_equiv_functor_certified (A B : NFA) (hdis : ∀ q, q ∈ nfaStates A → q ∈ nfaStates B → False)
    (depthFirst : Bool) (fuel : Nat) :
    (∀ w, nfaInclEquivRun A B depthFirst fuel = some (.error w) → acceptsW A w = true ∧ acceptsW B w = false) ∧
    (∀ R, nfaInclEquivRun A B depthFirst fuel = some (.ok R) → CongrCert A B (rulesOf R)) :=
  nfaInclEquivRun_certified hdis

/-- **Totality**: above the explicit bound `fuelBoundCongr` (number of pairs of sets of states + 1; one unit of fuel per picked
pair) the model returns a verdict – hence, by `C09_equiv_functor_exact`, the right one.  The inner closure loops never run out
of their fuel (`NfaIncl.eqCloseLoop_not_stuck`) -/
theorem C09_equiv_functor_total (A B : NFA) (depthFirst : Bool) (fuel : Nat)
    (hf : fuelBoundCongr (nfaSanitize A B).1 (nfaSanitize A B).2 < fuel) :
    (InclW A B → checkNfaInclEquiv A B depthFirst fuel = some true) ∧
    (¬ InclW A B → checkNfaInclEquiv A B depthFirst fuel = some false) := by
  obtain ⟨b, hb⟩ := checkNfaInclEquiv_total A B (depthFirst := depthFirst) hf
  have hiff := checkNfaInclEquiv_iff hb
  constructor
  · intro hi
    have : b = true := hiff.mpr hi
    rw [hb, this]
  · intro hi
    cases b with
    | true => exact (hi (hiff.mp rfl)).elim
    | false => exact hb

/-- the pruning test is sound on its own: a pair of macro-states skipped by `MakePost` is in the congruence closure of the
rules `next_ ∪ relation_` (early exit through `congrMap` and the `areEqual` that rejects empty sets included) -/
theorem C09_equiv_skip_sound (rules : List CRule) (X Y : List Nat) (hX : List.Pairwise (· < ·) X)
    (hY : List.Pairwise (· < ·) Y) (h : equivSkip rules X Y = some true) : CongrCl rules X Y :=
  equivSkip_sound hX hY h

namespace C09SimEx
def a1 : NFA := ⟨[0], [0], [(0, 0, 0)]⟩
def ab1 : NFA := ⟨[1], [1], [(1, 0, 1), (1, 1, 1)]⟩
/-- `A` and `B` share the state `1`, final in `B` only -/
def shA : NFA := ⟨[0], [], [(0, 0, 1)]⟩
def shB : NFA := ⟨[5], [1], []⟩
end C09SimEx
open C09SimEx

-- non-vacuity: `a* ⊆ (a|b)*` and not conversely, depth-first and breadth-first
example : checkNfaInclEquiv a1 ab1 true 20 = some true ∧ checkNfaInclEquiv a1 ab1 false 20 = some true ∧
    checkNfaInclEquiv ab1 a1 true 20 = some false ∧ checkNfaInclEquiv ab1 a1 false 20 = some false := by
  decide +kernel
example : fuelBoundCongr (nfaSanitize a1 ab1).1 (nfaSanitize a1 ab1).2 < 20 := by decide +kernel
-- the regression pair of the repaired subset memo
example : checkNfaInclEquiv NfaInclEx.exMemoA NfaInclEx.exMemoB true 50 = some true ∧
    checkNfaInclEquiv NfaInclEx.exMemoB NfaInclEx.exMemoA false 50 = some false := by decide +kernel
-- up-to-congruence pruning at work: with the rule `{1,2,3} ~ {3}` the pair `({1,2,3,4}, {3,4})` is skipped
example : equivSkip [([1, 2, 3], [3])] [1, 2, 3, 4] [3, 4] = some true ∧
    equivSkip [([1, 2, 3], [3])] [1, 2, 3, 4] [4] = some false := by decide +kernel
/-- the hypothesis of `C09_equiv_functor_core_exact` cannot be dropped: on operands that share a state the functor on
`(A ⊎ B, B)` answers `false` although `L(A) = ∅` -/
theorem C09_equiv_functor_needs_disjoint :
    nfaInclEquiv shA shB true 20 = some false ∧ InclW shA shB := by
  refine ⟨by decide +kernel, ?_⟩
  intro w hw
  have : ∀ S, W.accepting shA S = false := by
    intro S; simp [W.accepting, shA]
  simp [W.acceptsW, this] at hw

/-! ### 2. the selections with a simulation relation -/

/-- the decidable checker of "simulation preorder on `U`" is the spec: `R` relates only states where the first being final
makes the second final, every move of the first is answered by a move of the second into `R` (`NfaSim`), `R` is reflexive on
the states of `U` and transitive -/
theorem C09_sim_checker_spec (U : NFA) (R : Rel) :
    (isNfaSimB U R = true ↔ NfaSim U R) ∧ (isNfaSimPreB U R = true ↔ NfaSimPre U R) :=
  ⟨isNfaSimB_iff, isNfaSimPreB_iff⟩

/-- **`ANTICHAINS_SIM`**: if the operands are state-disjoint and `R` is a simulation preorder on their disjoint union, every
verdict of the model is the truth of `L(A) ⊆ L(B)`.  (Used: `NfaSim` and transitivity; reflexivity is not needed for
exactness.)  The model is certify-then-trust: a finished exploration whose final antichain fails `nfaUpCertSimB` gives `none` -/
theorem C09_antichain_sim_exact (A B : NFA) (R : Rel) (hdis : ∀ q, q ∈ nfaStates A → q ∈ nfaStates B → False)
    (hR : isNfaSimPreB (nfaUnionDisjoint A B) R = true) (fuel : Nat) (b : Bool)
    (h : nfaInclACSim A B R fuel = some b) : b = true ↔ InclW A B := by
  obtain ⟨h1, _, h3⟩ := isNfaSimPreB_iff.mp hR
  exact nfaInclACSim_iff hdis h1 h3 h

/-- a `false` is right for every relation and all operands (it comes with a word accepted by `A` and not by `B`) -/
theorem C09_antichain_sim_false_unconditional (A B : NFA) (R : Rel) (fuel : Nat)
    (h : nfaInclACSim A B R fuel = some false) : ¬ InclW A B :=
  nfaInclACSim_false h

/-- the antichain principle modulo a simulation, on word automata: a set `X` of pairs (state, macro-state) that covers the
start states modulo `R`, whose successors are covered modulo `R` or simulated by a state of the successor macro-state, and
that has no bad pair, proves the inclusion -/
theorem C09_antichain_sim_certificate (A B : NFA) (R : Rel) (X : List (Nat × List Nat))
    (hdis : ∀ q, q ∈ nfaStates A → q ∈ nfaStates B → False)
    (hR : NfaSim (nfaUnionDisjoint A B) R) (ht : ∀ p q r, (p, q) ∈ R → (q, r) ∈ R → (p, r) ∈ R)
    (h : nfaUpCertSimB A B R X = true) : InclW A B :=
  nfa_up_cert_sim_incl hdis hR ht (nfaUpCertSimB_sound h).1 (nfaUpCertSimB_sound h).2

namespace C09SimEx
/-- `L = {aa}` -/
def bA : NFA := ⟨[0], [2], [(0, 0, 1), (1, 0, 2)]⟩
/-- `L = ∅` -/
def bB : NFA := ⟨[3], [], [(3, 0, 4), (4, 0, 5)]⟩
/-- all pairs of states: not a simulation (`2` is final, nothing in `bB` is) -/
def rAll : Rel := (List.range 6).flatMap (fun p => (List.range 6).map (fun q => (p, q)))
/-- `a* ⊆ (a|b)*` with the largest simulation on the union -/
def rStar : Rel := [(0, 0), (0, 1), (1, 1)]
/-- `aa a* b*` -/
def aab : NFA := ⟨[0], [2, 3], [(0, 0, 1), (1, 0, 2), (2, 0, 2), (2, 1, 3), (3, 1, 3)]⟩
/-- `a a*` -/
def aplus : NFA := ⟨[4], [5], [(4, 0, 5), (5, 0, 5)]⟩
/-- the largest simulation on `aab ⊎ aplus` -/
def rAAB : Rel := [(0, 0), (0, 2), (0, 1), (4, 4), (4, 2), (4, 5), (4, 1), (2, 2), (3, 2), (3, 3), (5, 2), (5, 5),
  (1, 2), (1, 1)]
end C09SimEx

/-- **the hypothesis on `R` cannot be dropped**: with the full relation (not a simulation) `checkSmallerInBigger` skips the
pair `(1, {4})`, the exploration returns `true`, the certificate check (which trusts `R`) passes – but `aa ∈ L(A) \ L(B)` -/
theorem C09_antichain_sim_needs_simulation :
    nfaInclACSimRaw bA bB rAll 20 = some true ∧ nfaInclACSim bA bB rAll 20 = some true ∧
    isNfaSimPreB (nfaUnionDisjoint bA bB) rAll = false ∧
    acceptsW bA [0, 0] = true ∧ acceptsW bB [0, 0] = false := by decide +kernel

-- non-vacuity of `C09_antichain_sim_exact`: disjoint operands, a simulation preorder, verdicts `true` and `false`
example : (∀ q, q ∈ nfaStates a1 → q ∈ nfaStates ab1 → False) ∧
    isNfaSimPreB (nfaUnionDisjoint a1 ab1) rStar = true ∧ nfaInclACSim a1 ab1 rStar 20 = some true := by
  refine ⟨by decide, by decide +kernel, by decide +kernel⟩
example : isNfaSimPreB (nfaUnionDisjoint ab1 a1) rStar = true ∧ nfaInclACSim ab1 a1 rStar 20 = some false := by
  decide +kernel
example : isNfaSimPreB (nfaUnionDisjoint aab aplus) rAAB = true ∧
    nfaInclACSim aab aplus rAAB 30 = some false ∧ nfaInclACSim aplus aab rAAB 30 = some false := by decide +kernel
-- the simulation prunes: with `rStar` the pair `(0, {1})` is the whole antichain and its successor is skipped
example : (runACSim a1 ab1 rStar 20).map (fun r => match r with | .ok P => P.map (fun i => (i.q, i.S)) | .error _ => []) =
    some [(0, [1])] := by decide +kernel

/-- **`CONGR_DEPTH_SIM`** (called as the command line does, `smaller := A ⊎ B`): every verdict of the model is the truth of
`L(A) ⊆ L(B)` – for EVERY relation and all operands, because the final check `congrCertB` verifies the simulation pairs as
rewriting rules together with the relation (and the disjointness of the operands).  What the hypothesis "`R` is a simulation"
buys is that the check does not fail: `C09_congr_sim_total` -/
theorem C09_congr_sim_exact (A B : NFA) (R : Rel) (fuel : Nat) (b : Bool)
    (h : nfaInclCongrSim A B R fuel = some b) : b = true ↔ InclW A B :=
  nfaInclCongrSim_iff h

/-- **the exploration of `CONGR_DEPTH_SIM` is right by itself**: for state-disjoint operands and a relation `R` that is a
simulation on their disjoint union (`isNfaSimB`; neither reflexivity nor transitivity is needed) the UNCHECKED verdict of the
congruence functor with `NormalFormRelSimulation` on `(A ⊎ B, B)` – what the C++ returns – is the truth of `L(A) ⊆ L(B)`:
`applyRule` and the one-sided closure test stay inside the congruence closure of `relation_ ∪ next_ ∪ {({s}, {s, r}) | r R s}`,
and the simulation pairs are a bisimulation up to congruence -/
theorem C09_congr_sim_exploration_exact (A B : NFA) (R : Rel) (hdis : ∀ q, q ∈ nfaStates A → q ∈ nfaStates B → False)
    (hR : isNfaSimB (nfaUnionDisjoint A B) R = true) (fuel : Nat) (b : Bool)
    (h : nfaInclCongrSimRaw A B R fuel = some b) : b = true ↔ InclW A B :=
  nfaInclCongrSimRaw_iff hdis (isNfaSimB_iff.mp hR) h

/-- **totality of `CONGR_DEPTH_SIM`**: above `fuelBoundCongr A B` the exploration ends for every relation (the inner closure
loop never runs out of its fuel), and under the hypotheses of `C09_congr_sim_exploration_exact` the final check of the
certify-then-trust model passes: both models return the right verdict -/
theorem C09_congr_sim_total (A B : NFA) (R : Rel) (fuel : Nat) (hf : fuelBoundCongr A B < fuel) :
    (∃ b, nfaInclCongrSimRaw A B R fuel = some b) ∧
    ((∀ q, q ∈ nfaStates A → q ∈ nfaStates B → False) → isNfaSimB (nfaUnionDisjoint A B) R = true →
      (InclW A B → nfaInclCongrSim A B R fuel = some true ∧ nfaInclCongrSimRaw A B R fuel = some true) ∧
      (¬ InclW A B → nfaInclCongrSim A B R fuel = some false ∧ nfaInclCongrSimRaw A B R fuel = some false)) := by
  refine ⟨nfaInclCongrSimRaw_total A B R hf, fun hdis hR => ?_⟩
  have hR' := isNfaSimB_iff.mp hR
  obtain ⟨b, hb⟩ := nfaInclCongrSim_total hdis hR' (fuel := fuel) hf
  obtain ⟨b', hb'⟩ := nfaInclCongrSimRaw_total A B R (fuel := fuel) hf
  have e := nfaInclCongrSim_iff hb
  have e' := nfaInclCongrSimRaw_iff hdis hR' hb'
  constructor
  · intro hi
    rw [hb, hb', e.mpr hi, e'.mpr hi]; exact ⟨rfl, rfl⟩
  · intro hi
    have h1 : b = false := by cases b <;> simp_all
    have h2 : b' = false := by cases b' <;> simp_all
    rw [hb, hb', h1, h2]; exact ⟨rfl, rfl⟩

example : fuelBoundCongr a1 ab1 < 20 ∧ isNfaSimB (nfaUnionDisjoint a1 ab1) rStar = true := by decide +kernel

/-- without the final check the congruence functor trusts the relation: with the single pair `(0, 3)` (not a simulation: the
successors `1`, `4` are not related) `applyRule` puts `0` into the closure of `{3}`, the start pair is skipped and the unchecked
verdict is a wrong `true`; the checked model refuses to answer -/
theorem C09_congr_sim_needs_simulation :
    nfaInclCongrSimRaw bA bB [(0, 3)] 20 = some true ∧ nfaInclCongrSim bA bB [(0, 3)] 20 = none ∧
    isNfaSimB (nfaUnionDisjoint bA bB) [(0, 3)] = false ∧
    acceptsW bA [0, 0] = true ∧ acceptsW bB [0, 0] = false := by decide +kernel

example : nfaInclCongrSim a1 ab1 rStar 20 = some true ∧ nfaInclCongrSim ab1 a1 rStar 20 = some false ∧
    nfaInclCongrSimRaw a1 ab1 rStar 20 = some true := by decide +kernel
example : nfaInclCongrSim aab aplus rAAB 30 = some false := by decide +kernel
-- `applyRule`: the states simulated by a state of the set are added
example : applyRuleSim rStar [1] = [0, 1] ∧ applyRuleSim rStar [0] = [0] := by decide

/-! ### 3. all seven rows of the dispatcher -/

/-- the model of the row of `Vata.Gen.faDispatch` with option word `word`; `R` is the relation of the caller (read by the two
rows with a simulation only).  Rows `0`, `1`, `33`: the models of `Vata/NfaIncl.lean` (their certificates dropped) -/
def C09Sel.model (word : Nat) (A B : NFA) (R : Rel) (fuel : Nat) : Option Bool :=
  match word with
  | 0 => (checkNfaInclAC A B fuel).map (·.1)            -- ANTICHAINS_NOSIM
  | 16 => nfaInclACSim A B R fuel                        -- ANTICHAINS_SIM
  | 33 => (checkNfaInclCongr A B true fuel).map (·.1)    -- CONGR_BREADTH_NOSIM
  | 1 => (checkNfaInclCongr A B false fuel).map (·.1)    -- CONGR_DEPTH_NOSIM
  | 17 => nfaInclCongrSim A B R fuel                     -- CONGR_DEPTH_SIM
  | 65 => checkNfaInclEquiv A B true fuel                -- CONGR_DEPTH_EQUIV_NOSIM
  | 97 => checkNfaInclEquiv A B false fuel               -- CONGR_BREADTH_EQUIV_NOSIM
  | _ => none

/-- the fuel bound of a row without a simulation -/
def C09Sel.bound (word : Nat) (A B : NFA) : Nat :=
  if word = 0 then fuelBoundAC (nfaSanitize A B).1 (nfaSanitize A B).2
  else fuelBoundCongr (nfaSanitize A B).1 (nfaSanitize A B).2

theorem map_fst_some {α β : Type} {r : Option (α × β)} {b : α} (h : r.map (·.1) = some b) : ∃ c, r = some (b, c) := by
  cases r with
  | none => cases h
  | some v =>
    obtain ⟨x, c⟩ := v
    simp only [Option.map_some, Option.some.injEq] at h
    subst h; exact ⟨c, rfl⟩

/-- **every implemented selection is exact.**  For every row `c` of the regenerated dispatch table `Vata.Gen.faDispatch`
(seven rows) every verdict of the model of that row is the truth of `L(A) ⊆ L(B)`.  Hypotheses: none for the five rows
without a simulation (the dispatcher sanitises) and none for `CONGR_DEPTH_SIM` (final check); for `ANTICHAINS_SIM` (word 16)
the operands must be state-disjoint and `R` a simulation preorder on their disjoint union -/
theorem C09_every_implemented_selection_exact (c : Gen.Case) (hc : c ∈ Gen.faDispatch) (A B : NFA) (R : Rel)
    (hsim : c.word = 16 → (∀ q, q ∈ nfaStates A → q ∈ nfaStates B → False) ∧
      isNfaSimPreB (nfaUnionDisjoint A B) R = true)
    (fuel : Nat) (b : Bool) (h : C09Sel.model c.word A B R fuel = some b) : b = true ↔ InclW A B := by
  simp only [Gen.faDispatch, List.mem_cons, List.not_mem_nil, or_false] at hc
  rcases hc with rfl | rfl | rfl | rfl | rfl | rfl | rfl
  · obtain ⟨_, h'⟩ := map_fst_some h
    exact checkNfaInclAC_iff h'
  · exact C09_antichain_sim_exact A B R (hsim rfl).1 (hsim rfl).2 fuel b h
  · obtain ⟨_, h'⟩ := map_fst_some h
    exact checkNfaInclCongr_iff h'
  · obtain ⟨_, h'⟩ := map_fst_some h
    exact checkNfaInclCongr_iff h'
  · exact nfaInclCongrSim_iff h
  · exact checkNfaInclEquiv_iff h
  · exact checkNfaInclEquiv_iff h

/-- **the five selections without a simulation are total**: above the explicit bound of the row the model returns the right
verdict -/
theorem C09_nosim_selections_total (c : Gen.Case) (hc : c ∈ Gen.faDispatch) (hrel : c.rel = "identity") (A B : NFA)
    (R : Rel) (fuel : Nat) (hf : C09Sel.bound c.word A B < fuel) :
    (InclW A B → C09Sel.model c.word A B R fuel = some true) ∧
    (¬ InclW A B → C09Sel.model c.word A B R fuel = some false) := by
  simp only [Gen.faDispatch, List.mem_cons, List.not_mem_nil, or_false] at hc
  rcases hc with rfl | rfl | rfl | rfl | rfl | rfl | rfl
  · have := checkNfaInclAC_complete A B (fuel := fuel) hf
    constructor
    · intro hi; obtain ⟨c, hc⟩ := this.1 hi; simp [C09Sel.model, hc]
    · intro hi; obtain ⟨c, hc⟩ := this.2 hi; simp [C09Sel.model, hc]
  · exact absurd hrel (by decide)
  · have := checkNfaInclCongr_complete A B (breadth := true) (fuel := fuel) hf
    constructor
    · intro hi; obtain ⟨c, hc⟩ := this.1 hi; simp [C09Sel.model, hc]
    · intro hi; obtain ⟨c, hc⟩ := this.2 hi; simp [C09Sel.model, hc]
  · have := checkNfaInclCongr_complete A B (breadth := false) (fuel := fuel) hf
    constructor
    · intro hi; obtain ⟨c, hc⟩ := this.1 hi; simp [C09Sel.model, hc]
    · intro hi; obtain ⟨c, hc⟩ := this.2 hi; simp [C09Sel.model, hc]
  · exact absurd hrel (by decide)
  · exact C09_equiv_functor_total A B true fuel hf
  · exact C09_equiv_functor_total A B false fuel hf

/-- the words of `C09Sel.model` are exactly the words of the table -/
example : Gen.faDispatch.map (·.word) = [0, 16, 33, 1, 17, 65, 97] := by decide

-- non-vacuity for each of the seven rows: `a* ⊆ (a|b)*` is answered `true`, the converse `false`
example : ∀ c, c ∈ Gen.faDispatch → C09Sel.model c.word a1 ab1 rStar 20 = some true ∧
    C09Sel.model c.word ab1 a1 rStar 20 = some false := by decide +kernel
example : (∀ q, q ∈ nfaStates a1 → q ∈ nfaStates ab1 → False) ∧ isNfaSimPreB (nfaUnionDisjoint a1 ab1) rStar = true := by
  refine ⟨by decide, by decide +kernel⟩

/-!
## still not proved

* **Totality of the antichain model with a simulation.**  `nfaInclACSim` is certify-then-trust; that the final check
  `nfaUpCertSimB` never fails on a finished run when `R` is a simulation preorder on the disjoint union (the invariant of the
  exploration with pruning modulo `R`: "every erased pair is covered by the inserted one, every skipped successor is simulated
  by a state of its macro-state"), and that the exploration terminates above an explicit bound (this needs reflexivity of
  `R`), is NOT proved; it is only observed on the examples above.  Consequently nothing is proved about the unchecked verdict
  `nfaInclACSimRaw` (what the C++ returns) beyond the counterexample for a relation that is no simulation.  For the
  equivalence functor and for the congruence functor with a simulation both parts ARE proved (`C09_equiv_functor_total`,
  `C09_congr_sim_exploration_exact`, `C09_congr_sim_total`).
* `C09_antichain_sim_exact` assumes state-disjoint operands: the certificate is checked in `A ⊎ B`; no counterexample for
  overlapping operands is given (the relation is meant to live on the disjoint union).
* The caller's side of `CONGR_DEPTH_SIM`: the dispatcher does not build the union for this row; `nfaInclCongrSim` fixes the
  call of the command line (`smaller := A ⊎ B`).  On other operands `congrSimFunctor U B R` decides `L(U) = L(B)`-like
  questions; nothing is stated about them.
* Abstractions inherited from `Vata/NfaIncl.lean` (macro-state cache incl. the never-shared empty set, memo tables
  `subsetMap_` / `subsetNotMap_` / `usedRules_`, hash iteration orders, address as third work-list criterion) are not modelled
  for the four new rows either; `Vata/Properties/C09_Caches.lean` covers them for the identity rows only.  A relation is a list
  of pairs (`get` outside the list is `false`; the library's `StateDiscontBinaryRelation` has a fixed size and is indexed
  through `index_`, not modelled).  `NormalFormRelSimulation::applyRule` inserts into the set it iterates over; the model
  makes one pass over the original set (equal for transitive relations, not proved).
* The link between the rows of the table and `C09Sel.model` is the reading of the table (by option word), not a theorem.
* From the command line none of the four rows can be run to a verdict (see `Vata/Properties/C09.lean`); the models are
  meant for a comparison through the library API (`CheckInclusion` with `InclParam::SetSimulation`).
-/
end Vata.Props
