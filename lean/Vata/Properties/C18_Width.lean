import Vata.Proofs.RcStoreWBound
import Vata.Proofs.RcStoreWNarrow
import Vata.Properties.C18
/-!
# C18 / C20 (width) – the reference counters are machine integers

> C18: Across any sequence of creating, copying, assigning, combining and destroying MTBDDs, no MTBDD that is still alive ever
> changes the function it denotes, no node is released while a live MTBDD or node refers to it, and no node is released
> twice. Once every MTBDD created by construction, copy or apply has been destroyed, the process-wide node store is back
> to the size it had before.
>
> C20: the executable models used for the other properties are faithful to the code (here: `Nat` counters vs. `uintptr_t`).

`Vata/Properties/C18.lean` proves C18 for the store model `RcS` whose counters are unbounded `Nat`s, and `C20.lean` lists
"64-bit wrap-around of reference counts is not modelled".  This file closes that item.

## How the C++ is read into the model (`Vata/RcStoreW.lean`)

    typedef uintptr_t RefCntType;                                                          // mtbdd_node.hh l. 91
    inline void IncrementRefCnt()              { ++refcnt_; }                              // l. 798
    inline const RefCntType& DecrementRefCnt() { assert(refcnt_ > 0); return --refcnt_; } // l. 811
    if (DecrementLeafRefCnt(node) == 0) disposeOfLeafNode(node);                           // ondriks_mtbdd.hh l. 262 (271)

`RcSW` is `RcS` with a width parameter `w` (`RefCntType` = `w`-bit unsigned): the same `RcS.Store`, the same five
operations `RcS.Op`, copied statement for statement, where `incRef` stores `(rc + 1) mod 2^w`, `decRef` stores
`(rc + 2^w - 1) mod 2^w` (and raises the ghost flag `err` exactly where the `assert` fails) and every `== 0` test
(`recursivelyDeleteMTBDDNode`, the unreferenced-sink test at the end of `constructMTBDD`) reads the stored value.
Everything that does not touch a counter is shared with `RcS`.  `RcSW.runF w f ops` is the `w`-bit store after the
history `ops`; it is executable (`RcSW.run w ops` uses the leaf operation `RcS.applyOp` of the C18 harness).
A narrowed `typedef` (the seeded change: 16 bits) is `w = 16`.

The bound on a history: `RcSW.histBounded w f ops : Bool` – in the unbounded store, before and after every operation of
`ops`, every allocated node has a counter `< 2^w`; by `C18_refcount_invariant` the counter IS the number of referrers
(edges from allocated inner nodes + live handles), so this says "no node ever has `2^w` or more referrers".
Equivalently `RcSW.maxRefs f ops < 2^w` (`C18_width_bound_iff_maxRefs`).  Only the states BETWEEN operations are
inspected: inside `construct` / `copy` / `apply` counters only grow, inside a destructor they only shrink, `operator=` is
a destructor followed by one increment – the proof (`Vata/Proofs/RcStoreW.lean`) shows that this suffices.

Abstracted: as in C18 (`Nat` leaf values and handle names, no memo table).  Fuel: as in `RcS`; under the bound the two
models coincide, so the fuel theorems of C18 (`err = false`) transfer (`C18_width_transfer`).
-/
namespace Vata.Props
open Vata Vata.RcS

/-! ### the `w`-bit store is the unbounded store as long as no node has `2^w` referrers -/

/-- **faithfulness.**  If in the history `ops` no node ever has `2^w` or more referrers, then the store with `w`-bit
counters is EQUAL to the store with unbounded counters after every prefix of the history – every component: allocated
nodes, contents, all counters, both unique tables, live handles, the log of deletions and the assertion flag. -/
theorem C18_width_faithful (w : Nat) (f : Nat → Nat → Nat) (ops : List Op) (hb : RcSW.histBounded w f ops = true)
    (k : Nat) : RcSW.runF w f (ops.take k) = RcS.runF f (ops.take k) :=
  RcSW.runF_eq w f (ops.take k) (RcSW.histBoundedFrom_take ops empty k hb)

/-- the bound, stated with the largest number of simultaneous referrers of a node in the history -/
theorem C18_width_bound_iff_maxRefs (w : Nat) (f : Nat → Nat → Nat) (ops : List Op) :
    RcSW.histBounded w f ops = true ↔ RcSW.maxRefs f ops < 2^w := RcSW.histBounded_iff_maxRefs w f ops

/-- the same with `maxRefs` -/
theorem C18_width_faithful_maxRefs (w : Nat) (f : Nat → Nat → Nat) (ops : List Op) (hb : RcSW.maxRefs f ops < 2^w)
    (k : Nat) : RcSW.runF w f (ops.take k) = RcS.runF f (ops.take k) :=
  C18_width_faithful w f ops ((C18_width_bound_iff_maxRefs w f ops).mpr hb) k

-- non-vacuity: the history `Ex.ops` of C18 (sharing, apply, assignment, destructors; 12 nodes, 2 freed) has at most 4
-- simultaneous referrers per node: it is bounded for 3-bit counters – and not for 2-bit counters, where the stores differ
-- (a counter wraps to 0 and a later decrement runs into `assert(refcnt_ > 0)`)
example : RcSW.maxRefs applyOp Ex.ops = 4 ∧ RcSW.histBounded 3 applyOp Ex.ops = true ∧
    RcSW.histBounded 2 applyOp Ex.ops = false := by decide
example : (RcSW.runF 3 applyOp Ex.ops).freed = [3, 8] ∧ (RcSW.runF 3 applyOp Ex.ops).rc 1 = 3 ∧
    (RcSW.runF 3 applyOp Ex.ops).err = false := by decide
example : (RcSW.runF 2 applyOp Ex.ops).err = true ∧ (RcS.runF applyOp Ex.ops).err = false := by decide

/-- **transfer.**  Under the bound all theorems of C18 hold for the store with `w`-bit counters; here the four that
mention counters or releases: counter = number of referrers (in particular the stored counter never wrapped); nothing
reachable from a live handle is released; nothing is released twice and no assertion fails (the fuel suffices); with no
live handle the store is empty. -/
theorem C18_width_transfer (w : Nat) (f : Nat → Nat → Nat) (ops : List Op) (hb : RcSW.histBounded w f ops = true) :
    (∀ n, n ∈ (RcSW.runF w f ops).ids →
      (RcSW.runF w f ops).rc n = indeg (RcSW.runF w f ops) n + handlesTo (RcSW.runF w f ops) n) ∧
    (∀ h r, (h, r) ∈ (RcSW.runF w f ops).hs → ∀ n, Reach (RcSW.runF w f ops).dat r n →
      n ∈ (RcSW.runF w f ops).ids ∧ n ∉ (RcSW.runF w f ops).freed) ∧
    ((RcSW.runF w f ops).freed.Nodup ∧ (∀ n, n ∈ (RcSW.runF w f ops).freed → n ∉ (RcSW.runF w f ops).ids) ∧
      (RcSW.runF w f ops).err = false) ∧
    ((RcSW.runF w f ops).hs = [] → tableSizes (RcSW.runF w f ops) = tableSizes empty ∧ (RcSW.runF w f ops).ids = []) := by
  have e : RcSW.runF w f ops = RcS.runF f ops := by
    have := C18_width_faithful w f ops hb ops.length
    rwa [List.take_length] at this
  rw [e]
  exact ⟨(C18_refcount_invariant f ops).1, fun h r hm n hr => C18_no_premature_free f ops h r hm n hr,
    C18_no_double_free f ops, (C18_all_released f ops).1⟩

/-- the bound cannot be dropped (for no width): `RcSW.narrowHist w v` has `2^w + 1` simultaneous referrers of one node,
and there the conclusion of `C18_width_transfer` fails – see `C18_width_narrow_releases_live_node`.  For `w = 3`: -/
example : RcSW.histBounded 3 applyOp (RcSW.narrowHist 3 7) = false ∧ RcSW.maxRefs applyOp (RcSW.narrowHist 3 7) = 9 := by
  decide

/-! ### 64 bits -/

/-- **`uintptr_t` on a 64-bit platform is practically unbounded.**  The counter of an allocated node is at most
`RcSW.size s = 2 * #allocated nodes + #live handles` (each inner node refers to a node at most twice, each handle once).
So every history in which `2 * #nodes + #handles` stays below `2^64` satisfies the bound, and the 64-bit store equals
the unbounded one after every prefix.  To leave the hypothesis a process needs `2^64` simultaneous references to one
node, i.e. at least `2^63` allocated inner nodes (32 bytes each) or `2^64` live `OndriksMTBDD` objects (16 bytes each)
– more than a 64-bit address space holds.

The task text suggests "any history with fewer than `2^64` operations satisfies the bound".  That statement is FALSE for
this model and for the code, because one operation can create many references: `C18_width_op_count_is_no_bound` below
is a one-operation history (a cube with 8 fixed positions) in which the sink leaf gets 8 referrers and a 3-bit counter
wraps.  What bounds the counters is the size of the store, which is what this theorem uses. -/
theorem C18_width_64_practically_unbounded (f : Nat → Nat → Nat) (ops : List Op)
    (hsz : ∀ k, RcSW.size (RcS.runF f (ops.take k)) < 2^64) :
    RcSW.histBounded 64 f ops = true ∧ ∀ k, RcSW.runF 64 f (ops.take k) = RcS.runF f (ops.take k) :=
  ⟨RcSW.histBounded_of_size 64 f ops hsz, C18_width_faithful 64 f ops (RcSW.histBounded_of_size 64 f ops hsz)⟩

/-- the general form: after every history the counter of every allocated node is at most
`2 * #allocated nodes + #live handles` -/
theorem C18_width_counter_le_size (f : Nat → Nat → Nat) (ops : List Op) (n : Nat) (hn : n ∈ (RcS.runF f ops).ids) :
    (RcS.runF f ops).rc n ≤ 2 * (RcS.runF f ops).ids.length + (RcS.runF f ops).hs.length :=
  RcSW.rc_le_size (runF_inv f ops) hn

example : ∀ k, RcSW.size (RcS.runF applyOp (Ex.ops.take k)) < 2^64 := by
  intro k
  have h : ∀ j, j < 9 → RcSW.size (RcS.runF applyOp (Ex.ops.take j)) < 2^64 := by decide
  by_cases hk : k < 9
  · exact h k hk
  · have : Ex.ops.take k = Ex.ops.take 8 := by
      rw [List.take_of_length_le (by simp [Ex.ops]; omega)]; rfl
    rw [this]; exact h 8 (by omega)

/-- the number of operations does not bound the counters: ONE `construct` of a cube with 8 fixed positions gives the sink
leaf (node 1) 8 referrers; its 3-bit counter wraps to 0 while 8 inner nodes point to it -/
theorem C18_width_op_count_is_no_bound :
    [Op.construct 0 (List.replicate 8 (some true)) 1 0].length < 2^3 ∧
    RcSW.histBounded 3 applyOp [Op.construct 0 (List.replicate 8 (some true)) 1 0] = false ∧
    (RcS.run [Op.construct 0 (List.replicate 8 (some true)) 1 0]).rc 1 = 8 ∧
    (RcSW.run 3 [Op.construct 0 (List.replicate 8 (some true)) 1 0]).rc 1 = 0 := by decide

/-! ### a narrow counter releases a live node (the seeded change as a theorem) -/

/-- **for every width `w`**: after "construct the constant `v` as handle 0; copy it to the handles `1 … 2^w`; destroy
handle 0" the store with `w`-bit counters has released node 0 (the leaf `v`: it is in the deletion log, it is not
allocated, both unique tables are empty) although the `2^w` handles `1 … 2^w` are alive and have node 0 as their root –
the conclusion of `C18_no_premature_free` fails.  (With `RefCntType` narrowed to 16 bits: 65 536 copies.) -/
theorem C18_width_narrow_releases_live_node (w : Nat) (f : Nat → Nat → Nat) (v : Nat) :
    (∀ j, 1 ≤ j → j ≤ 2^w → (j, 0) ∈ (RcSW.runF w f (RcSW.narrowHist w v)).hs) ∧
    0 ∈ (RcSW.runF w f (RcSW.narrowHist w v)).freed ∧
    (RcSW.runF w f (RcSW.narrowHist w v)).ids = [] ∧
    tableSizes (RcSW.runF w f (RcSW.narrowHist w v)) = (0, 0) ∧
    ¬ (∀ h r, (h, r) ∈ (RcSW.runF w f (RcSW.narrowHist w v)).hs →
        ∀ n, Reach (RcSW.runF w f (RcSW.narrowHist w v)).dat r n →
          n ∈ (RcSW.runF w f (RcSW.narrowHist w v)).ids ∧ n ∉ (RcSW.runF w f (RcSW.narrowHist w v)).freed) := by
  have e : RcSW.runF w f (RcSW.narrowHist w v) =
      RcSW.stepF w f ((RcSW.copies (2^w)).foldl (RcSW.stepF w f) (RcSW.stepF w f empty (.construct 0 [] v v)))
        (.destroy 0) := by
    simp only [RcSW.runF, RcSW.narrowHist, List.foldl_append, List.foldl_cons, List.foldl_nil]
  obtain ⟨h1, h2, h3, h4, -⟩ := RcSW.destroy_wrapped w f v (RcSW.foldl_copies w f v (2^w))
  rw [e]
  have hlive : ∀ j, 1 ≤ j → j ≤ 2^w → (j, 0) ∈ (RcSW.stepF w f ((RcSW.copies (2^w)).foldl (RcSW.stepF w f)
      (RcSW.stepF w f empty (.construct 0 [] v v))) (.destroy 0)).hs := by
    intro j hj hj'
    rw [h3]
    exact (List.mem_erase_of_ne (by intro e; cases e; omega)).mpr (RcSW.mem_hsK _ j hj')
  refine ⟨hlive, by rw [h2]; simp, h1, h4, ?_⟩
  intro hall
  have := (hall 1 0 (hlive 1 (Nat.le_refl _) (RcSW.two_pow_pos' w)) 0 .refl).1
  rw [h1] at this
  cases this

/-- in the unbounded store the same history keeps the node: it is allocated and was never deleted -/
theorem C18_width_narrow_unbounded_keeps_node (w : Nat) (f : Nat → Nat → Nat) (v : Nat) (j r : Nat)
    (hm : (j, r) ∈ (RcS.runF f (RcSW.narrowHist w v)).hs) :
    r ∈ (RcS.runF f (RcSW.narrowHist w v)).ids ∧ r ∉ (RcS.runF f (RcSW.narrowHist w v)).freed :=
  C18_no_premature_free f _ j r hm r .refl

-- `w = 3`: construct, 8 copies, destroy: the 3-bit store has deleted node 0 under the 8 live copies; the unbounded store
-- still has it, with counter 8; and the next destructor of a copy runs into the failed assertion (use after free)
example : RcSW.narrowHist 3 7 = [.construct 0 [] 7 7, .copy 0 1, .copy 0 2, .copy 0 3, .copy 0 4, .copy 0 5, .copy 0 6,
    .copy 0 7, .copy 0 8, .destroy 0] := rfl
example : (RcSW.run 3 (RcSW.narrowHist 3 7)).hs = [(8, 0), (7, 0), (6, 0), (5, 0), (4, 0), (3, 0), (2, 0), (1, 0)] ∧
    (RcSW.run 3 (RcSW.narrowHist 3 7)).freed = [0] ∧ (RcSW.run 3 (RcSW.narrowHist 3 7)).ids = [] ∧
    (RcSW.run 3 (RcSW.narrowHist 3 7)).err = false := by decide
example : (RcS.run (RcSW.narrowHist 3 7)).hs = (RcSW.run 3 (RcSW.narrowHist 3 7)).hs ∧
    (RcS.run (RcSW.narrowHist 3 7)).freed = [] ∧ (RcS.run (RcSW.narrowHist 3 7)).ids = [0] ∧
    (RcS.run (RcSW.narrowHist 3 7)).rc 0 = 8 := by decide
example : (RcSW.run 3 (RcSW.narrowHist 3 7 ++ [.destroy 1])).err = true := by decide
-- one copy fewer and the 3-bit store is exact
example : RcSW.histBounded 3 applyOp ([.construct 0 [] 7 7] ++ RcSW.copies 6 ++ [.destroy 0]) = true := by decide

/-!
## still not proved

* **The extended operation set.**  `RcSW` covers the five operations of `RcS.Op` (construct, copy, assign, binary apply,
  destroy).  The operations of `Vata/RcStoreX.lean` (unary / ternary apply, `Project`, `Rename`, `ExtendWith`,
  `GetMtbddForPrefix`) have no `w`-bit variant; the argument would be the same (they only allocate and increment), but it is
  not carried out.
* **A bound in terms of the number of operations.**  `C18_width_64_practically_unbounded` bounds the counters by the size
  of the store (`2 * #nodes + #handles`), not by the length of the history; the latter is false
  (`C18_width_op_count_is_no_bound`).  A bound of the form "`#operations` + total length of the cubes + number of nodes
  created by `apply`" is not stated.
* **States inside an operation.**  `histBounded` inspects the stores between operations; that the counters inside an
  operation stay below `2^w` as well is used implicitly (monotonicity inside an operation) but not stated as a theorem of
  its own.
* `VarType` (also `uintptr_t`), `size_t` indices and the other machine integers of the library are not covered by this
  file; neither are the other reference counters of the library (`SharedCounter`, `SharedList`, the macro-state cache),
  whose models still use `Nat`.
* As for C18: the theorems speak about the model; that `RcSW.run 64` / `RcS.run` and `OndriksMTBDD<T>` agree step by step
  is the correspondence check of the C18 driver.  `RcSW.run 16 : List RcS.Op → RcS.Store` is the model of the seeded
  16-bit variant and can be compared with it on generated histories (65 536 copies of one handle are needed to see a
  difference from `RcS.run`).
-/
end Vata.Props
