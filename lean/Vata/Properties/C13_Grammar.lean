import Vata.Proofs.TimbukGrammarReject
/-!
# C13 – a complete characterisation of the texts the Timbuk parser accepts / rejects

> For any input text whatsoever the parser and the loaders either succeed or throw a standard exception.

`C13_Layout.lean` proved four CLASSES of rejected texts and left open "a complete 'rejected iff …' characterisation".
This file gives it: a declarative grammar `Accepted` (`Vata/TimbukGrammar.lean`) with

* `C13_accepts_iff  : (∃ d, parseTimbuk (String.ofList t) = .ok d) ↔ Accepted t`
* `C13_rejects_iff  : (∃ e, parseTimbuk (String.ofList t) = .error e) ↔ ¬ Accepted t`
* `C13_parse_value  : Reads t R → parseTimbuk (String.ofList t) = .ok R.desc.toS` (and the converse, `C13_parse_value_iff`)
* `C13_acceptedB    : acceptedB t = true ↔ Accepted t` (the Boolean check; `Accepted` is `Decidable`)
* `C13_rejected_iff : (∃ e, parseTimbuk (String.ofList t) = .error e) ↔ Rejected t` – the complement spelled out positively,
  by the first offence: no `Transitions` line / a bad header line / a repeated keyword / a bad rule line; with the general
  corollaries `C13_rejects_final_without_states`, `C13_rejects_two_names`, `C13_rejects_unknown_first_word`,
  `C13_rejects_bad_rule_line`.

No hypothesis on the text: any list of characters (bytes: `parseTimbukBytes` embeds byte `b` as the character `b`).

## How the C++ is read into the grammar (`src/timbuk_parser-nobison.cc`, model `Vata/Timbuk.lean`)

The grammar is a set of `Prop`s that only DECOMPOSE strings (`l = pre ++ lhs ++ b ++ "->" ++ …` with side conditions);
it contains no search (`find`, `find_if`), no loop, no flag.  What each piece of C++ becomes:

* `split_delim(str, '\n')` → `Lines t ls`: `t` is the `\n`-free `ls` joined by `\n` (`lines_iff`).
* `trim(line)`, `if (str.empty()) continue;` → a line all of whose characters are white (`AllWs`; `std::isspace` in the
  "C" locale: blank `\t \n \v \f \r`) is skipped, in the header part and in the rule part (`HeaderPart.blank`, `RulePart.blank`).
* `read_word` in a loop → `Words l ws` (`C13_words_iff`): `l = g₀ w₁ g₁ … wₙ gₙ`, words non-empty and free of white space,
  gaps white, inner gaps non-empty.
* `if ("Transitions" == first_word) { are_transitions = true; continue; }` → `TransitionsLine`: first word `Transitions`, the
  rest of the line is free.
* `"Automaton"`: `result.name = read_word(str); if (!str.empty()) throw` → `HeaderLine.autNone` / `.autName`: zero or one
  further word; the name is any word (not a token).
* `"Ops"`, `"States"`, `"Final"` + `"States" != str_states → throw` → `HeaderLine.ops/.states/.final`: every further word a
  `Token` (`parse_colonned_token`: split at the FIRST `:`, then `Convert::FromString<int>` = `iss >> int`: `Numeral` –
  optional sign, ≥ 1 digit, longest digit run, trailing junk ignored, value in `int`; `C13_numeral_iff`, `C13_token_iff`).
  The ranks of states are parsed (and may make the line invalid) but dropped.
* `if (xxx_parsed) throw` (four flags) → `Reads.once`: the kinds of the header lines are `Nodup`.
* `if (!are_transitions) throw "Transitions not specified"` → the split `hdr ++ trl :: rules` of `Reads.split` must exist.
* rule lines: `str.find("->")`, `trim(substr)`, `rhs.empty() || contains_whitespace(rhs)`, `lhs.find("(")`, `lhs.find(")")`,
  the three position tests, `trim(lab)`, `lab.empty()`, `split_delim(…, ',')`, `trim` + `contains_whitespace` of every child,
  `size() == 1 && [0] == ""` → `TransLine`, `Lhs`, `KidList` (`C13_transLine_iff`).

Proof architecture: grammar ⇔ reader (`readText`, stateless, two passes: `reads_iff`) ⇔ parser model (`parseC_eq_read`).
All statements are about the model; its agreement with the compiled C++ was re-checked on the 39 texts of the examples
below with a probe linked against `/repo/_build/src/libvata.a` (all answers equal), in addition to the comparison
described in `Vata/Timbuk.lean`.  No discrepancy between model and C++ was found.

Abstracted: the exception TEXT (the grammar says *that* the parser throws, not which of its messages).
-/
namespace Vata.Props
open Vata Vata.Timbuk

/-! ### the characterisation -/

theorem parseTimbuk_ok_iff (s : String) (d : AutDesc) :
    parseTimbuk s = .ok d ↔ ∃ d', parseC s.toList = .ok d' ∧ d = d'.toS := by
  unfold parseTimbuk
  cases parseC s.toList with
  | error e => simp
  | ok d' => simp [eq_comm]

theorem parseTimbuk_error_iff (s : String) :
    (∃ e, parseTimbuk s = .error e) ↔ ∃ e, parseC s.toList = .error e := by
  unfold parseTimbuk
  cases parseC s.toList with
  | error e => simp
  | ok d' => simp

/-- **the value**: the parser returns `d` on `t` iff `t` has a reading `R` of the grammar (header lines with their tokens,
rules, in text order) and `d` is its description: the name of the `Automaton` line (else empty), the `Ops` tokens, the names
of the `States` / `Final States` tokens, the rules – each section as a `std::set` (`norm`: sorted, duplicate-free). -/
theorem C13_parse_value_iff (t : Str) (d : AutDesc) :
    parseTimbuk (String.ofList t) = .ok d ↔ ∃ R, Reads t R ∧ d = R.desc.toS := by
  rw [parseTimbuk_ok_iff, String.toList_ofList]
  constructor
  · rintro ⟨d', h, rfl⟩
    obtain ⟨R, hR, rfl⟩ := (parseC_ok_iff_reads t d').mp h
    exact ⟨R, hR, rfl⟩
  · rintro ⟨R, hR, rfl⟩
    exact ⟨R.desc, (parseC_ok_iff_reads t _).mpr ⟨R, hR, rfl⟩, rfl⟩

/-- **for accepted texts the description is the declarative reading, normalised** -/
theorem C13_parse_value (t : Str) (R : Reading) (h : Reads t R) :
    parseTimbuk (String.ofList t) = .ok R.desc.toS :=
  (C13_parse_value_iff t _).mpr ⟨R, h, rfl⟩

/-- **the parser succeeds exactly on the texts of the grammar** -/
theorem C13_accepts_iff (t : Str) : (∃ d, parseTimbuk (String.ofList t) = .ok d) ↔ Accepted t := by
  constructor
  · rintro ⟨d, h⟩
    obtain ⟨R, hR, _⟩ := (C13_parse_value_iff t d).mp h
    exact ⟨R, hR⟩
  · rintro ⟨R, hR⟩
    exact ⟨_, C13_parse_value t R hR⟩

/-- **an exception exactly outside the grammar** -/
theorem C13_rejects_iff (t : Str) : (∃ e, parseTimbuk (String.ofList t) = .error e) ↔ ¬ Accepted t := by
  rw [← C13_accepts_iff]
  cases h : parseTimbuk (String.ofList t) with
  | error e => simp
  | ok d => simp

/-- the same for a `String` -/
theorem C13_accepts_string (s : String) : (∃ d, parseTimbuk s = .ok d) ↔ Accepted s.toList := by
  have := C13_accepts_iff s.toList
  rwa [String.ofList_toList] at this

/-- the Boolean grammar check decides the grammar (hence, with `C13_accepts_iff`, success of the parser) -/
theorem C13_acceptedB (t : Str) : acceptedB t = true ↔ Accepted t := acceptedB_iff t

theorem C13_acceptedB_parse (t : Str) : acceptedB t = true ↔ ∃ d, parseTimbuk (String.ofList t) = .ok d :=
  (C13_acceptedB t).trans (C13_accepts_iff t).symm

theorem C13_acceptedB_false (t : Str) : acceptedB t = false ↔ ∃ e, parseTimbuk (String.ofList t) = .error e := by
  rw [C13_rejects_iff, ← C13_acceptedB]; simp

/-- the reading of a text is unique, and `readText` computes it -/
theorem C13_reading_unique {t : Str} {R R' : Reading} (h : Reads t R) (h' : Reads t R') : R = R' := reads_unique h h'

theorem C13_readText (t : Str) (R : Reading) : readText t = some R ↔ Reads t R := (reads_iff t R).symm

/-! ### the lexical level: the grammar's predicates against the C++ helpers -/

/-- `trim` + the `read_word` loop compute the `Words` of a line -/
theorem C13_words_iff (l : Str) (ws : List Str) : Words l ws ↔ readWords (trim l) = ws := words_iff l ws

/-- `Convert::FromString<int>` accepts exactly the `Numeral`s -/
theorem C13_numeral_iff (s : Str) (v : Int) : Numeral s v ↔ fromStringInt s = .ok v := numeral_iff s v

/-- `parse_colonned_token` on a word -/
theorem C13_token_iff {w : Str} (hw : NoWs w) (n : Str) (r : Int) : Token w n r ↔ parseColonned w = .ok (n, r) :=
  token_iff hw n r

/-- the whole processing of a non-blank line after `Transitions` succeeds, inserting `(kids, lab, rhs)`, exactly on the
`TransLine`s -/
theorem C13_transLine_iff (st : PState) (l lab : Str) (kids : List Str) (rhs : Str) :
    TransLine l lab kids rhs ↔ stepTrans st l (trim l) = .ok (addTrans st (kids, lab, rhs)) ∧
      readTransLine l = some (kids, lab, rhs) := by
  rw [transLine_iff]
  constructor
  · intro h
    refine ⟨?_, h⟩
    have := stepTrans_read st l l
    rw [h] at this
    exact optOk_eq_some.mp this
  · exact fun h => h.2

/-- a header line of the grammar is what the reader reads off the words -/
theorem C13_headerLine_iff (l : Str) (k : HKind) (ps : List (Str × Int)) :
    HeaderLine l k ps ↔ readHeader (readWords (trim l)) = some (k, ps) := headerLine_iff l k ps

/-- every accepted text has a `Transitions` line, everything before it is blank or a header line, everything after it blank
or a transition line (this IS the grammar; spelled out for reference) -/
theorem C13_accepted_shape {t : Str} (h : Accepted t) :
    ∃ hdr trl rules, Lines t (hdr ++ trl :: rules) ∧ TransitionsLine trl ∧
      (∀ l ∈ hdr, AllWs l ∨ ∃ k ps, HeaderLine l k ps) ∧
      (∀ l ∈ rules, AllWs l ∨ ∃ lab kids rhs, TransLine l lab kids rhs) := by
  obtain ⟨⟨hs, rs⟩, ⟨hdr, trl, rules, hl, hh, ht, hr⟩, hn⟩ := h
  simp only at hh hr
  refine ⟨hdr, trl, rules, hl, ht, ?_, ?_⟩
  · clear hl hn
    induction hh with
    | nil => intro l hl; cases hl
    | blank hb _ ih =>
      intro l hl
      rcases List.mem_cons.mp hl with e | e
      · subst e; exact Or.inl hb
      · exact ih l e
    | line hline _ ih =>
      intro l hl
      rcases List.mem_cons.mp hl with e | e
      · subst e; exact Or.inr ⟨_, _, hline⟩
      · exact ih l e
  · clear hl hn
    induction hr with
    | nil => intro l hl; cases hl
    | blank hb _ ih =>
      intro l hl
      rcases List.mem_cons.mp hl with e | e
      · subst e; exact Or.inl hb
      · exact ih l e
    | line hline _ ih =>
      intro l hl
      rcases List.mem_cons.mp hl with e | e
      · subst e; exact Or.inr ⟨_, _, _, hline⟩
      · exact ih l e

/-! ### the rejected texts, positively -/

/-- **an exception exactly on the `Rejected` texts** (first offence in text order: no `Transitions` line; a header-part
line that is neither blank, `Transitions …`, nor a header line; a keyword twice; a rule-part line that is neither blank nor a
transition line) -/
theorem C13_rejected_iff (t : Str) : (∃ e, parseTimbuk (String.ofList t) = .error e) ↔ Rejected t := by
  rw [C13_rejects_iff, rejected_iff]

/-- a non-blank line in the header part whose words the reader cannot read as a header line makes the parser throw -/
theorem C13_rejects_bad_header_words (t : Str) (pre post : List Str) (l : Str) (hs : List (HKind × List (Str × Int)))
    (ws : List Str) (hl : Lines t (pre ++ l :: post)) (hh : HeaderPart pre hs) (hw : Words l ws) (hne : ws ≠ [])
    (hT : ws.headD [] ≠ kwTransitions) (hr : readHeader ws = none) :
    ∃ e, parseTimbuk (String.ofList t) = .error e := by
  rw [C13_rejected_iff]
  have e := (words_iff l ws).mp hw
  refine .badHeader hl hh ?_ ?_ ?_
  · intro hb
    rw [trim_allWs hb, readWords_nil] at e
    exact hne e.symm
  · rintro ⟨ws', hw'⟩
    rw [(words_iff l _).mp hw'] at e
    subst e
    exact hT rfl
  · intro k ps hk
    have := (headerLine_iff _ _ _).mp hk
    rw [e, hr] at this
    cases this

/-- **`Final` not followed by `States`** (class left open in `C13_Layout`): in the header part, rejected -/
theorem C13_rejects_final_without_states (t : Str) (pre post : List Str) (l : Str) (hs : List (HKind × List (Str × Int)))
    (ws : List Str) (hl : Lines t (pre ++ l :: post)) (hh : HeaderPart pre hs) (hw : Words l (kwFinal :: ws))
    (hS : ws.headD [] ≠ kwStates) : ∃ e, parseTimbuk (String.ofList t) = .error e := by
  refine C13_rejects_bad_header_words t pre post l hs _ hl hh hw (by simp)
    (show kwFinal ≠ kwTransitions by decide) ?_
  rw [readHeader_cons, if_neg (by decide), if_neg (by decide), if_neg (by decide), if_pos rfl, if_pos hS]

/-- **two (or more) words after `Automaton`** (class left open in `C13_Layout`): in the header part, rejected -/
theorem C13_rejects_two_names (t : Str) (pre post : List Str) (l : Str) (hs : List (HKind × List (Str × Int)))
    (a b : Str) (ws : List Str) (hl : Lines t (pre ++ l :: post)) (hh : HeaderPart pre hs)
    (hw : Words l (kwAutomaton :: a :: b :: ws)) : ∃ e, parseTimbuk (String.ofList t) = .error e := by
  refine C13_rejects_bad_header_words t pre post l hs _ hl hh hw (by simp)
    (show kwAutomaton ≠ kwTransitions by decide) ?_
  rw [readHeader_cons, if_pos rfl, if_pos (by simp)]

/-- **unknown first word** in the header part (the class `C13_rejects_unknown_keyword`, now from the grammar) -/
theorem C13_rejects_unknown_first_word (t : Str) (pre post : List Str) (l : Str) (hs : List (HKind × List (Str × Int)))
    (w : Str) (ws : List Str) (hl : Lines t (pre ++ l :: post)) (hh : HeaderPart pre hs) (hw : Words l (w :: ws))
    (h0 : w ≠ kwTransitions) (h1 : w ≠ kwAutomaton) (h2 : w ≠ kwOps) (h3 : w ≠ kwStates) (h4 : w ≠ kwFinal) :
    ∃ e, parseTimbuk (String.ofList t) = .error e := by
  refine C13_rejects_bad_header_words t pre post l hs _ hl hh hw (by simp) h0 ?_
  rw [readHeader_cons, if_neg h1, if_neg h2, if_neg h3, if_neg h4]

/-- **a line after the `Transitions` line that is neither blank nor a `TransLine`**: rejected, whatever the other lines -/
theorem C13_rejects_bad_rule_line (t : Str) (hdr pre post : List Str) (trl l : Str) (hs : List (HKind × List (Str × Int)))
    (hl : Lines t (hdr ++ trl :: (pre ++ l :: post))) (hh : HeaderPart hdr hs) (ht : TransitionsLine trl)
    (hb : ¬ AllWs l) (hr : readTransLine l = none) : ∃ e, parseTimbuk (String.ofList t) = .error e := by
  rw [C13_rejected_iff]
  refine .badRule hl hh ht hb ?_
  intro lab kids rhs h
  rw [(transLine_iff _ _ _ _).mp h] at hr
  cases hr

/-- non-vacuity of the hypotheses of `C13_rejects_final_without_states` (the text `"Ops a:0\nFinal q\nTransitions"`) and of
`C13_rejects_bad_rule_line` (`"Transitions\na(q) r -> s"`: text after `)`) -/
example : Lines "Ops a:0\nFinal q\nTransitions".toList (["Ops a:0".toList] ++ "Final q".toList :: ["Transitions".toList]) ∧
    HeaderPart ["Ops a:0".toList] [(.ops, [("a".toList, 0)])] ∧ Words "Final q".toList [kwFinal, "q".toList] ∧
    ["q".toList].headD [] ≠ kwStates :=
  ⟨(lines_iff _ _).mpr (by decide), .line ((headerLine_iff _ _ _).mpr (by decide +kernel)) .nil,
    (words_iff _ _).mpr (by decide +kernel), by decide⟩
example : Lines "Transitions\na(q) r -> s".toList ([] ++ "Transitions".toList :: ([] ++ "a(q) r -> s".toList :: [])) ∧
    HeaderPart [] [] ∧ TransitionsLine "Transitions".toList ∧ ¬ AllWs "a(q) r -> s".toList ∧
    readTransLine "a(q) r -> s".toList = none :=
  ⟨(lines_iff _ _).mpr (by decide), .nil, (isTransitionsLine_iff _).mp (by decide +kernel),
    (isBlankLine_false_iff _).mp (by decide +kernel), by decide +kernel⟩

/-! ### non-vacuity: a concrete reading -/

namespace C13GrammarEx

def txt : Str := "\r\nOps a:0 f:2 g:1x\nAutomaton  A:x \nFinal States\tr:7\n\nTransitions etc -> etc\na -> q\n f ( q ,r ) ->r\r\na b() -> q->r\n".toList

def rd : Reading :=
  ⟨[(.ops, [("a".toList, 0), ("f".toList, 2), ("g".toList, 1)]), (.aut, [("A:x".toList, -1)]), (.final, [("r".toList, 7)])],
   [([], "a".toList, "q".toList), (["q".toList, "r".toList], "f".toList, "r".toList), ([], "a b".toList, "q->r".toList)]⟩

/-- the text has this reading … -/
theorem reads : Reads txt rd := (reads_iff _ _).mpr (by decide +kernel)
/-- … so it is accepted and parsed to the description of the reading -/
example : Accepted txt := ⟨rd, reads⟩
example : parseTimbuk (String.ofList txt) = .ok rd.desc.toS := C13_parse_value _ _ reads
example : rd.desc.toS = ⟨"A:x", [("a", 0), ("f", 2), ("g", 1)], [], ["r"],
    [([], "a", "q"), ([], "a b", "q->r"), (["q", "r"], "f", "r")]⟩ := by decide +kernel

/-- pieces of the grammar by hand (not through the reader): a numeral with trailing junk, a token, the words of a line -/
theorem num1x : Numeral "1x".toList 1 :=
  Numeral.pos (ds := ['1']) (junk := ['x']) ⟨by decide, by decide⟩
    (by intro c hc; simp at hc; subst hc; decide) (by decide)
example : Token "g:1x".toList ['g'] 1 := Token.ranked (name := ['g']) (by decide) num1x
example : Words " a\t".toList [['a']] :=
  Words.cons (g := [' ']) (w := ['a']) (rest := ['\t']) (by unfold AllWs; decide) ⟨by decide, by unfold NoWs; decide⟩
    (by intro c hc; simp at hc; subst hc; decide) (Words.nil (by unfold AllWs; decide))

end C13GrammarEx

/-! ### 3. consequences: every class of `C13_Layout.lean`, decided by `acceptedB`

`acc s` abbreviates `acceptedB s.toList`; by `C13_acceptedB_parse` / `C13_acceptedB_false` `acc s = true` says that the parser
returns a description and `acc s = false` that it throws.  (All 39 answers below were compared with the real library.) -/

abbrev acc (s : String) : Bool := acceptedB s.toList

/-- **the four known rejected classes**: no `Transitions` line; unknown keyword; repeated section; a line after
`Transitions` that is not a transition (no arrow, a header line, a second `Transitions`) -/
example : acc "Ops a:0\nAutomaton A\n" = false ∧ acc "Ops a:0\nautomaton A\nTransitions" = false ∧
    acc "States q\nStates r\nTransitions\n" = false ∧ acc "Transitions\na q" = false ∧
    acc "Transitions\nOps a:0" = false ∧ acc "Transitions\nTransitions" = false := by decide +kernel

/-- **the surprising acceptances**: rank mismatch with `Ops` and undeclared names; no `Automaton` line; `a b(q) -> r`;
text after `Transitions` on its line; `a(b(c) -> q->r`; empty child names; all sections empty -/
example : acc "Ops a:0\nStates p\nTransitions\na(q) -> r" = true ∧ acc "Transitions\na -> q" = true ∧
    acc "Transitions\na b(q) -> r\n" = true ∧ acc "Transitions x y z\n\n \t\na(b(c) -> q->r\n" = true ∧
    acc "Transitions\na(,) -> q\na( ) -> q\na(q, ) -> q" = true ∧ acc "\n\nTransitions" = true ∧
    acc "Final States\nAutomaton\nOps\nStates\nTransitions" = true ∧ acc "Transitions\na\x0b->\x0cq\r\n" = true := by
  decide +kernel

/-- **bad rank** (class left open in `C13_Layout`): no digit, sign alone, two signs, empty numeral, out of `int` – also on a
STATE (`States q:…`); accepted: junk after the digits, a second colon, an empty name, signs, `-0` -/
example : acc "Ops a:x\nTransitions\n" = false ∧ acc "Ops a:\nTransitions\n" = false ∧ acc "Ops a:+ \nTransitions\n" = false ∧
    acc "Ops a:+-1 \nTransitions\n" = false ∧ acc "Ops a:: \nTransitions\n" = false ∧
    acc "States q:5 r:-2147483648 s:2147483648\nTransitions\n" = false ∧
    acc "States q:5 r:-2147483648\nTransitions\n" = true ∧ acc "Ops a:1x :3 b:+2 c:-0\nTransitions\n" = true ∧
    acc "Ops a:1:x \nTransitions\n" = true := by decide +kernel

/-- **`Final` without `States`** (open class) -/
example : acc "Final\nTransitions\n" = false ∧ acc "Final q\nTransitions\n" = false ∧
    acc "Final States q\nTransitions\n" = true := by decide +kernel

/-- **two automaton names** (open class); one name may be anything, e.g. `A:x` -/
example : acc "Automaton A B\nTransitions\n" = false ∧ acc "Automaton A:x\nTransitions\n" = true := by decide +kernel

/-- **text after `)`** (open class), a second `)`, `)` before `(` -/
example : acc "Transitions\na(q) r -> s\n" = false ∧ acc "Transitions\na(q)r -> s\n" = false ∧
    acc "Transitions\na(q)) -> s\n" = false ∧ acc "Transitions\na)( -> s\n" = false := by decide +kernel

/-- **white space inside a child name** (open class) -/
example : acc "Transitions\na(q r) -> s\n" = false := by decide +kernel

/-- **empty label before `(`** (open class) -/
example : acc "Transitions\n(q) -> s\n" = false ∧ acc "Transitions\n  (q) -> s\n" = false := by decide +kernel

/-- the arrow: `- >` is none; nothing before or after it; `a-->s` is the symbol `a-` -/
example : acc "Transitions\na - > s\n" = false ∧ acc "Transitions\n-> s\n" = false ∧ acc "Transitions\n->s\n" = false ∧
    acc "Transitions\na->\n" = false ∧ acc "Transitions\na-->s\n" = true := by decide +kernel

/-- the classes as statements about the GRAMMAR (via `C13_acceptedB`), e.g.: -/
example : ¬ Accepted "Final q\nTransitions\n".toList := by
  rw [← C13_acceptedB]; decide +kernel
example : ∃ e, parseTimbuk "Automaton A B\nTransitions\n" = .error e :=
  (C13_acceptedB_false "Automaton A B\nTransitions\n".toList).mp (by decide +kernel)

/-- totality ("either succeed or throw a standard exception"): in the model every text is answered by `.ok` or `.error`;
which of the two is decided by the grammar -/
theorem C13_total (t : Str) : (Accepted t ∧ ∃ d, parseTimbuk (String.ofList t) = .ok d) ∨
    (¬ Accepted t ∧ ∃ e, parseTimbuk (String.ofList t) = .error e) := by
  by_cases h : Accepted t
  · exact Or.inl ⟨h, (C13_accepts_iff t).mpr h⟩
  · exact Or.inr ⟨h, (C13_rejects_iff t).mpr h⟩

/-!
## still not proved

* **Which exception text**: the grammar characterises THAT `parse_timbuk` throws, not which of its `runtime_error` /
  `invalid_argument` messages (the first offending line in text order determines it in the C++; the model `parseC` returns
  that message, but no theorem relates it to the grammar).
* **General (∀-quantified) corollaries** exist for `Final` without `States`, two automaton names, unknown first word, and
  "a rule-part line the reader cannot read" (`C13_rejects_bad_rule_line`, hypothesis `readTransLine l = none`, equivalently
  `∀ lab kids rhs, ¬ TransLine l lab kids rhs`).  The remaining classes – bad rank, text after `)`, white space inside a child
  name, empty label before `(` – are instances of `C13_rejects_bad_header_words` / `C13_rejects_bad_rule_line`, but the
  ∀-quantified lexical lemmas ("`lhs` of the shape `x(y)z`, `z ≠ ""` ⇒ `readTransLine = none`", "a word `n:x` with `x` not
  starting a numeral ⇒ `parseTokens` fails") are not proved; those classes are decided examples only.
* `Reading.desc` lists each section as `norm lt (tokens in text order)`; that `norm` yields a strictly sorted list (the
  order theory of `ltStr`, `ltSym`, `ltTrans`) is proved elsewhere (`C13_Normal.lean`), not re-used here.
* All statements are about the model `parseTimbuk`; agreement with the compiled C++ is by generated comparison
  (`Vata/Timbuk.lean`, plus the 39 texts of this file), not a theorem.  The loaders (`LoadFromAutDesc`) are not part of
  this file.
-/
end Vata.Props
