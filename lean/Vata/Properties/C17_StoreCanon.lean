import Vata.Proofs.RcStoreXWfRename
import Vata.Properties.C17_StoreOps
/-!
# C17 at STORE level – canonicity ("pointer equality = equality of functions") after the extended operations

> (C17) Two MTBDDs compare equal exactly when they denote the same function.

`OndriksMTBDD::operator==` compares the root pointers.  `Vata/Proofs/StoreRefine.lean` proves "roots equal ⟺ same function"
for histories over construct / copy / assign / apply2 / destroy (`handle_eq_iff_same_function`).  This file extends it to the
full operation set of `Vata/RcStoreX.lean` (unary / ternary apply, `Project`, `Rename`, `ExtendWith`, `GetMtbddForPrefix`; the
C++ is quoted there and in `Vata/RcStoreXMono.lean`).

## How the C++ is read

* Store, operations, histories: `RcSX.runX F ops` (see the header of `Vata/Properties/C18_Extended.lean`).
  `find h s.hs` = `getRoot()` of handle `h`; `getValue s h ρ` = `GetValue` under the total assignment `ρ`.
* The invariant: `WInv` (counters, the two unique tables are EXACT: an entry for every allocated node and nothing else, keys
  unique – hash-consing) holds after every history (`runX_winv`).  `WfInv` = every allocated inner node has `low ≠ high`
  (reduced) and children with smaller variables (ordered; larger variables are nearer the root, as `constructMTBDD` builds them).
* `WfInv` does NOT hold after every history.  Two operations put a variable on a node without any test:
  - `renameNode` (`spawnInternal(lowTree, highTree, renamer(var))`); it `assert`s `lowTree != highTree` and
    `GetVarFromInternal(child) < newVar`.  `RcSX.renOkT` is the conjunction of these assertions; it follows from
    "the renamer is strictly monotone on the variables that occur below the root" (`strictMonoOn … (varsBelow …)`).
  - `ExtendWith(asgn, offset)` (4-argument `constructMTBDD` with `var ↦ var + offset`) stacks the variables
    `offset + i` on top of the root and asserts NOTHING.  The result is ordered iff the root variable is below `offset`
    (or no node is built).  The library's only call is `ExtendWith(prefix, SYMBOL_SIZE)` on diagrams over the symbol
    variables, which satisfies it.  This second condition was forced by the proof; `C17_store_low_offset_extendWith_breaks_canonicity`
    shows it cannot be dropped.
  `Mono F ops` (decidable, `Vata/RcStoreXMono.lean`): every EXECUTED `rename` is strictly monotone on the occurring variables
  and every executed `extendWith` has `root variable < offset`.  `MonoW F ops` (weaker, also decidable): every executed
  `rename` passes the assertions of `renameNode`, and in every executed `extendWith` the first node stacked on the root (for
  the first `ZERO`/`ONE` position `k` of `asgn`, if any) has `root variable < offset + k`.  `Mono → MonoW` (`monoW_of_mono`),
  and `MonoW` is EXACT: it holds iff the store is ordered and reduced after every prefix of the history
  (`C17_store_wf_exact`).

## Abstracted

The memo tables of the functors; leaf values and handle names are `Nat`.  Fuel: see `C18_Extended` (never exhausted).
Stores may contain the garbage left by `Project` (nodes with counter 0): nothing here needs "no counter is 0".
-/
namespace Vata.RcSX.Ex
open Vata Vata.RcS Vata.RcSX

/-- every operation of the extended set; the two renamings are monotone on the variables that occur (`x₀ ↦ 1, x₂ ↦ 3` on a
    diagram over `x₀, x₂`; `x₀ ↦ 0, x₁ ↦ 2, x₂ ↦ 5`), the extension uses offset 3 above the variables `0, 1` -/
def exCanon : List RcSX.Op :=
  [.construct 0 [some true, none, some false] 5 0, .construct 1 [some false, some true] 7 0, .apply 0 1 2,
   .apply1 2 3, .apply3 0 1 2 4, .rename 0 5 [1, 2, 3], .project 2 9 [1], .extendWith 1 6 [some true] 3,
   .getPrefix 6 7 [some true] 3, .copy 3 8, .assign 4 8, .destroy 3, .rename 2 10 [0, 2, 5], .apply 10 5 11]

/-- `x₀ ∧ x₁ ↦ 5`, renamed with the swap `x₀ ↦ 1, x₁ ↦ 0` -/
def exSwap : List RcSX.Op := [.construct 0 [some true, some true] 5 0, .rename 0 1 [1, 0]]

/-- `x₀ ↦ 5`, extended by the prefix `x₀ = 1` at offset 0 (not above the root variable) -/
def exLowOffset : List RcSX.Op := [.construct 0 [some true] 5 0, .extendWith 0 1 [some true] 0]

end Vata.RcSX.Ex

namespace Vata.Props
open Vata Vata.RcS Vata.RcSX Vata.RcSX.Ex

/-- ONE operation of the extended set, executed in a store that satisfies both invariants, preserves both, provided a
`rename` passes the assertions of `renameNode` and an `extendWith` that builds a node has its offset above the root variable
(`opOkW`; every other operation: no condition) -/
theorem C17_store_wf_step (F : Fns) (dv : Nat → Nat) (s : Store) (op : RcSX.Op) (hw : WInv s []) (w : WfInv s)
    (ok : opOkW s op = true) : WInv (stepS F dv s op) [] ∧ WfInv (stepS F dv s op) :=
  ⟨(stepS_winv F dv op hw).1, stepS_wfInv F dv op hw w ok⟩

/-- … and the condition is exact: in a store satisfying both invariants the operation keeps the store ordered and reduced
IFF `opOkW` holds.  For an executed `rename` this says: the result is ordered and reduced iff the three `assert`s of
`renameNode` hold at every inner node of the operand. -/
theorem C17_store_wf_step_exact (F : Fns) (dv : Nat → Nat) (s : Store) (op : RcSX.Op) (hw : WInv s []) (w : WfInv s) :
    WfInv (stepS F dv s op) ↔ opOkW s op = true :=
  stepS_wfInv_iff F dv op hw w

/-- the assertions of `renameNode` (`renOkT`), at tree level: they hold iff the renamed diagram is ordered and reduced
(no assumption on the operand) -/
theorem C17_rename_asserts_iff_wf (ren : Nat → Nat) (t : M.Node Nat) : renOkT ren t = true ↔ M.WF (M.rename ren t) :=
  renOkT_iff_wf ren t

/-- `MonoW` is exact at history level: the store is ordered and reduced after EVERY prefix of the history iff every
executed `rename` passes the assertions and every executed `extendWith` stacks its first node above the root variable -/
theorem C17_store_wf_exact (F : Fns) (ops : List RcSX.Op) : MonoW F ops ↔ ∀ n, WfInv (runX F (ops.take n)).st :=
  monoW_iff_wfInv_prefixes F ops

/-- (1) After every `Mono` history over ALL operations of `RcSX.Op` the store is ordered, reduced and hash-consed:
every allocated inner node has `low ≠ high` and children with smaller variables (`WfInv`), the two unique tables contain
exactly the allocated nodes under unique keys, and consequently every allocated node unfolds to an ordered, reduced diagram -/
theorem C17_store_wf_extended (F : Fns) (ops : List RcSX.Op) (m : Mono F ops) :
    WfInv (runX F ops).st ∧
    (∀ n v, n ∈ (runX F ops).st.ids → (runX F ops).st.dat n = .leaf v → find v (runX F ops).st.leafT = some n) ∧
    (∀ n lo hi var, n ∈ (runX F ops).st.ids → (runX F ops).st.dat n = .int lo hi var →
      find (lo, hi, var) (runX F ops).st.intT = some n) ∧
    KeysNodup (runX F ops).st.leafT ∧ KeysNodup (runX F ops).st.intT ∧
    (∀ n, n ∈ (runX F ops).st.ids → M.WF (unfold (runX F ops).st.dat (n+1) n)) :=
  have w := runX_wfInv_of_mono F ops m
  have t := xtables_exact F ops
  ⟨w, t.1, t.2.1, t.2.2.1, t.2.2.2.1, fun _ hn => diagram_wf (runX_winv F ops) w hn⟩

/-- the same under the weaker condition "every executed `rename` passes the C++ assertions" -/
theorem C17_store_wf_extended_asserts (F : Fns) (ops : List RcSX.Op) (m : MonoW F ops) :
    WfInv (runX F ops).st ∧ (∀ n, n ∈ (runX F ops).st.ids → M.WF (unfold (runX F ops).st.dat (n+1) n)) :=
  have w := runX_wfInv F ops m
  ⟨w, fun _ hn => diagram_wf (runX_winv F ops) w hn⟩

/-- strict monotonicity on the occurring variables implies the assertions -/
theorem C17_store_mono_implies_asserts (F : Fns) (ops : List RcSX.Op) (m : Mono F ops) : MonoW F ops := monoW_of_mono m

/-- (2) "Two MTBDDs compare equal exactly when they denote the same function", for the full operation set: after any
history passing the assertions (in particular any `Mono` history), two live handles have the same root pointer iff
`GetValue` agrees on every total assignment -/
theorem C17_store_equality_extended_asserts (F : Fns) (ops : List RcSX.Op) (m : MonoW F ops) {a b ra rb : Nat}
    (ha : find a (runX F ops).st.hs = some ra) (hb : find b (runX F ops).st.hs = some rb) :
    ra = rb ↔ ∀ asg, getValue (runX F ops).st a asg = getValue (runX F ops).st b asg := by
  have hw := runX_winv F ops
  have := WInv.node_eq_iff_same_function hw (runX_wfInv F ops m) (hw.rin ra (root_mem ha)) (hw.rin rb (root_mem hb))
  simp only [getValue, ha, hb, Option.map_some, Option.some.injEq]
  exact this

theorem C17_store_equality_extended (F : Fns) (ops : List RcSX.Op) (m : Mono F ops) {a b ra rb : Nat}
    (ha : find a (runX F ops).st.hs = some ra) (hb : find b (runX F ops).st.hs = some rb) :
    ra = rb ↔ ∀ asg, getValue (runX F ops).st a asg = getValue (runX F ops).st b asg :=
  C17_store_equality_extended_asserts F ops (monoW_of_mono m) ha hb

/-- the same for arbitrary allocated nodes (not only roots; also the garbage nodes left by `Project`) -/
theorem C17_store_node_equality_extended (F : Fns) (ops : List RcSX.Op) (m : Mono F ops) {n₁ n₂ : Nat}
    (h₁ : n₁ ∈ (runX F ops).st.ids) (h₂ : n₂ ∈ (runX F ops).st.ids) :
    n₁ = n₂ ↔ ∀ ρ, denote (runX F ops).st n₁ ρ = denote (runX F ops).st n₂ ρ :=
  WInv.node_eq_iff_same_function (runX_winv F ops) (runX_wfInv_of_mono F ops m) h₁ h₂

/-- (3) `Mono` cannot be dropped: after renaming `x₀ ∧ x₁ ↦ 5` with the swap of `x₀` and `x₁` (which fails the assertion
`GetVarFromInternal(highTree) < newVar` of `renameNode`; a release build does not notice) the handles 0 and 1 denote the
same function but have different roots, i.e. `operator==` answers `false` -/
theorem C17_store_nonmonotone_rename_breaks_canonicity :
    ¬ Mono stdFns exSwap ∧ ¬ MonoW stdFns exSwap ∧
    find 0 (runX stdFns exSwap).st.hs = some 3 ∧ find 1 (runX stdFns exSwap).st.hs = some 5 ∧
    (∀ asg, getValue (runX stdFns exSwap).st 0 asg = getValue (runX stdFns exSwap).st 1 asg) ∧
    ¬ WfInv (runX stdFns exSwap).st := by
  have h0 : find 0 (runX stdFns exSwap).st.hs = some 3 := by decide
  have h1 : find 1 (runX stdFns exSwap).st.hs = some 5 := by decide
  have u0 : unfold (runX stdFns exSwap).st.dat 4 3 = .node 1 (.leaf 0) (.node 0 (.leaf 0) (.leaf 5)) := by decide
  have u1 : unfold (runX stdFns exSwap).st.dat 6 5 = .node 0 (.leaf 0) (.node 1 (.leaf 0) (.leaf 5)) := by decide
  refine ⟨by decide, by decide, h0, h1, ?_, ?_⟩
  · intro asg
    simp only [getValue, h0, h1, Option.map_some, denote, u0, u1, M.eval]
    cases asg 0 <;> cases asg 1 <;> rfl
  · intro w
    have h4 := (w.ord 5 (by decide) 1 4 0 (by decide)).2
    have d4 : (runX stdFns exSwap).st.dat 4 = .int 1 0 1 := by decide
    rw [d4] at h4
    exact absurd h4 (by simp [VLt])

/-- the condition on `ExtendWith` cannot be dropped either: extending `x₀ ↦ 5` by the prefix `x₀ = 1` at offset 0 puts a
second `x₀` node on top of the root; handles 0 and 1 denote the same function and have different roots.  (No assertion of
the C++ fails here.) -/
theorem C17_store_low_offset_extendWith_breaks_canonicity :
    ¬ Mono stdFns exLowOffset ∧ ¬ MonoW stdFns exLowOffset ∧
    find 0 (runX stdFns exLowOffset).st.hs = some 2 ∧ find 1 (runX stdFns exLowOffset).st.hs = some 3 ∧
    (∀ asg, getValue (runX stdFns exLowOffset).st 0 asg = getValue (runX stdFns exLowOffset).st 1 asg) := by
  have h0 : find 0 (runX stdFns exLowOffset).st.hs = some 2 := by decide
  have h1 : find 1 (runX stdFns exLowOffset).st.hs = some 3 := by decide
  have u0 : unfold (runX stdFns exLowOffset).st.dat 3 2 = .node 0 (.leaf 0) (.leaf 5) := by decide
  have u1 : unfold (runX stdFns exLowOffset).st.dat 4 3 = .node 0 (.leaf 0) (.node 0 (.leaf 0) (.leaf 5)) := by decide
  refine ⟨by decide, by decide, h0, h1, ?_⟩
  intro asg
  simp only [getValue, h0, h1, Option.map_some, denote, u0, u1, M.eval]
  cases asg 0 <;> rfl

/-! ### non-vacuity -/

/-- a history over every operation (two renamings, a projection, an extension) is `Mono` -/
theorem C17_store_exCanon_mono : Mono stdFns exCanon := by decide
example : (runX stdFns exCanon).st.hs =
    [(11, 40), (10, 33), (8, 26), (7, 6), (6, 30), (9, 29), (5, 28), (4, 26), (2, 9), (1, 6), (0, 3)] := by decide
-- hence all 32 allocated nodes (garbage of the projection included) are ordered and reduced …
example : WfInv (runX stdFns exCanon).st := (C17_store_wf_extended stdFns exCanon C17_store_exCanon_mono).1
example : M.WF (unfold (runX stdFns exCanon).st.dat 41 40) :=
  (C17_store_wf_extended stdFns exCanon C17_store_exCanon_mono).2.2.2.2.2 40 (by decide)
-- … stripping the prefix added by `ExtendWith` gives back the SAME pointer (handles 1 and 7), so they denote the same function
example : ∀ asg, getValue (runX stdFns exCanon).st 1 asg = getValue (runX stdFns exCanon).st 7 asg :=
  (C17_store_equality_extended stdFns exCanon C17_store_exCanon_mono (a := 1) (b := 7) (ra := 6) (rb := 6) (by decide) (by decide)).mp rfl
-- … and handles 5 and 10 (two renamings) have different roots, hence denote different functions
example : ¬ ∀ asg, getValue (runX stdFns exCanon).st 5 asg = getValue (runX stdFns exCanon).st 10 asg := fun h =>
  absurd ((C17_store_equality_extended stdFns exCanon C17_store_exCanon_mono (a := 5) (b := 10) (ra := 28) (rb := 33)
    (by decide) (by decide)).mpr h) (by decide)
-- the weak condition is strictly weaker: the table `x₀ ↦ 1, x₁ ↦ 0, x₂ ↦ 2` on `node 2 (node 0 …) (node 1 …)` is monotone along
-- the edges of the diagram (all the C++ asserts) but not on the set of occurring variables; an extension whose first
-- `ZERO`/`ONE` position is 2 stacks the variable `0 + 2` on the root variable 1; one without such a position builds nothing
example : MonoW stdFns [.construct 0 [some true, none, some false] 5 0, .construct 1 [none, some true, some true] 7 0,
      .apply 0 1 2, .rename 2 3 [1, 0, 2]] ∧
    ¬ Mono stdFns [.construct 0 [some true, none, some false] 5 0, .construct 1 [none, some true, some true] 7 0,
      .apply 0 1 2, .rename 2 3 [1, 0, 2]] := by decide
example : MonoW stdFns [.construct 0 [some true, some true] 5 0, .extendWith 0 1 [none, none, some true] 0] ∧
    ¬ Mono stdFns [.construct 0 [some true, some true] 5 0, .extendWith 0 1 [none, none, some true] 0] := by decide
example : MonoW stdFns [.construct 0 [none, some true, some true] 5 0, .extendWith 0 1 [none, none] 0] ∧
    ¬ Mono stdFns [.construct 0 [none, some true, some true] 5 0, .extendWith 0 1 [none, none] 0] := by decide
-- `C17_store_wf_step`: its hypotheses hold in the store reached by `exCanon`, e.g. for a further monotone renaming
example : WInv (runX stdFns exCanon).st [] ∧ WfInv (runX stdFns exCanon).st ∧
    opOkW (runX stdFns exCanon).st (.rename 0 12 [1, 2, 3]) = true :=
  ⟨runX_winv _ _, (C17_store_wf_extended stdFns exCanon C17_store_exCanon_mono).1, by decide⟩

/-!
## still not proved

* `MonoW` is necessary and sufficient for "`WfInv` after every prefix" (`C17_store_wf_exact`), but canonicity of the LIVE
  handles alone could survive a violation that only produced garbage or was destroyed again; no exact criterion for
  "pointer equality = semantic equality on the live handles" is given (only the two `decide`d histories above, where it fails).
* `Mono` / `MonoW` are conditions on the history as executed from process start (they inspect the store in which each
  `rename` / `extendWith` runs); there is no static criterion on the operation list alone.
* That `MonoW` coincides with "a debug build of the C++ does not abort in `renameNode`" rests on the reading of the three
  `assert`s into `renOkT`; it is not a theorem.  `RcSX.monoW` is available for a driver.
* The memo tables `ht` of the functors and the `VoidApply` traversals are not modelled (as in `C17_StoreOps`).
-/
end Vata.Props
