import Vata.Proofs.Store
import Vata.Properties.C12_Iterators
/-!
# C12 – Rule container, iterators and lookups reflect exactly the rules added

> After any sequence of AddTransition, SetStateFinal, SetStatesFinal, EraseFinalStates and Clear on an explicit tree
> automaton, iterating the automaton yields each distinct rule added since the last Clear exactly once and nothing else,
> and ContainsTransition answers true exactly for those rules. GetAcceptTrans yields exactly the rules whose parent is
> final, indexing by a state yields exactly the rules with that parent, GetUsedStates is exactly the set of states
> occurring in rules or the final set, and AreTransitionsEmpty is true exactly when no rule is present.

(quantifier: for all finite sequences of the mutating calls (with repeated rules, nullary rules, one symbol used with
several arities, final states without rules) interleaved with the read-only views)

## How the statement is read into the model

* **Histories.**  `Store.Op` (`Vata/Store.lean`) has one constructor per mutating call of the statement – `add r`
  (`AddTransition`), `setFinal q` (`SetStateFinal`), `setFinals qs` (`SetStatesFinal`), `eraseFinal`
  (`EraseFinalStates`), `clear` (`Clear`) – and a history is any `ops : List Op`.  A rule is a `Rule` of
  `Vata/Basic.lean` (symbol number, list of children of any length, parent), so repeated rules, nullary rules and one
  symbol number with several arities are all histories.
* **Specification (L0).**  `Store.specRun ops : Store.Abs` is a pair of plain lists read as sets: `specStep` conses the
  rule of an `add` onto `rules`, conses / appends the states of `setFinal` / `setFinals` onto `final`, empties `final` on
  `eraseFinal` and empties both on `clear` (the C++ `Clear` calls `EraseFinalStates`).  Hence
  `r ∈ (specRun ops).rules` says literally "`r` was added since the last `Clear`", and `q ∈ (specRun ops).final` says
  "`q` was made final since the last `EraseFinalStates` or `Clear`".  Nothing is ever removed or de-duplicated in the
  specification; "each distinct rule exactly once" is the `Nodup` half of the theorems about the model.
* **Model of the code.**  `Store.run ops : Store.Store` executes the history on the three-level container
  state ↦ (symbol ↦ set of child tuples) plus the final-state set, with the `insert`-or-find discipline of
  `internalAddTransition` (`upsert`, `insTuple`, `insN`); the views `iterate` (range-for / `Iterator`), `contains`
  (`ContainsTransition`), `acceptTrans` (`GetAcceptTrans` / `AcceptTransIterator`: walk the final states, look up the
  cluster of each, skip those without one), `down` / `downEmpty` (`operator[]`, `DownAccessor`), `usedStates`
  (`GetUsedStates`), `transEmpty` (`AreTransitionsEmpty`), `isFinal` and `.final` (`IsStateFinal`, `GetFinalStates`) are
  written after the C++ loops and return lists in storage order.
* The views are pure functions of the store, so "interleaved with the read-only views" adds nothing in the model: a
  theorem about the view after every history is a theorem about every interleaving.
* **The iterator objects.**  In this file a traversal is "the list of what a complete traversal yields".  The C++ iterator
  OBJECTS (`Iterator`, `AcceptTransIterator`, `DownAccessorIterator`: `begin()` / `end()`, `operator++`, `operator*`,
  comparison) are state machines over the store in `Vata/StoreIter.lean`; `Vata/Properties/C12_Iterators.lean` proves them
  against the list views for every history, and `C12_statement` at the end of this file is the whole property with the
  loops over the iterator objects in the place of the views.
-/
namespace Vata.Props
open Vata Vata.Store

/-! ### iteration and `ContainsTransition` -/

/-- iterating the automaton yields no rule twice, and yields exactly the rules added since the last `Clear` -/
theorem C12_iteration_exact (ops : List Op) :
    (iterate (run ops)).Nodup ∧ ∀ r, r ∈ iterate (run ops) ↔ r ∈ (specRun ops).rules :=
  iterate_exact ops

/-- `r1` and `r3` are added twice, `r1`/`r2` use symbol 7 with arities 0 and 2, state 5 is final without rules -/
example : iterate (run StoreEx.ops1) = [StoreEx.r1, StoreEx.r2, StoreEx.r3, StoreEx.r4] ∧
    (specRun StoreEx.ops1).rules =
      [StoreEx.r3, StoreEx.r4, StoreEx.r1, StoreEx.r3, StoreEx.r2, StoreEx.r1] := by decide
/-- rules added before a `Clear` are gone, in the specification and in the model -/
example : (specRun (StoreEx.ops1 ++ [.clear, .add StoreEx.r4])).rules = [StoreEx.r4] ∧
    iterate (run (StoreEx.ops1 ++ [.clear, .add StoreEx.r4])) = [StoreEx.r4] := by decide

/-- `ContainsTransition` answers true exactly for the rules added since the last `Clear` -/
theorem C12_contains_exact (ops : List Op) (r : Rule) :
    contains (run ops) r = true ↔ r ∈ (specRun ops).rules :=
  contains_exact ops r

example : contains (run StoreEx.ops1) StoreEx.r2 = true ∧ contains (run StoreEx.ops1) ⟨7, [1], 1⟩ = false ∧
    contains (run (StoreEx.ops1 ++ [.clear])) StoreEx.r2 = false := by decide

/-! ### `GetAcceptTrans`, indexing by a state -/

/-- `GetAcceptTrans` yields no rule twice, and yields exactly the present rules whose parent is final -/
theorem C12_acceptTrans_exact (ops : List Op) :
    (acceptTrans (run ops)).Nodup ∧
      ∀ r, r ∈ acceptTrans (run ops) ↔ r ∈ (specRun ops).rules ∧ r.parent ∈ (specRun ops).final :=
  acceptTrans_exact ops

example : acceptTrans (run StoreEx.ops1) = [StoreEx.r3, StoreEx.r4] ∧
    acceptTrans (run (StoreEx.ops1 ++ [.eraseFinal])) = [] := by decide

/-- indexing by a state `q` (`operator[]` / `GetDown`) yields no rule twice and exactly the present rules with parent `q`;
its `empty()` is true exactly when there is no such rule -/
theorem C12_index_by_state_exact (ops : List Op) (q : Nat) :
    ((down (run ops) q).Nodup ∧ ∀ r, r ∈ down (run ops) q ↔ r ∈ (specRun ops).rules ∧ r.parent = q) ∧
    (downEmpty (run ops) q = true ↔ ∀ r, r ∈ (specRun ops).rules → r.parent ≠ q) :=
  ⟨down_exact ops q, downEmpty_exact ops q⟩

example : down (run StoreEx.ops1) 1 = [StoreEx.r1, StoreEx.r2] ∧ down (run StoreEx.ops1) 5 = [] ∧
    downEmpty (run StoreEx.ops1) 5 = true ∧ downEmpty (run StoreEx.ops1) 1 = false := by decide

/-! ### `GetUsedStates`, `AreTransitionsEmpty`, the final states -/

/-- `GetUsedStates` has no duplicates and is exactly the set of states that are final or occur, as parent or as child, in
a present rule -/
theorem C12_usedStates_exact (ops : List Op) :
    (usedStates (run ops)).Nodup ∧
      ∀ q, q ∈ usedStates (run ops) ↔
        q ∈ (specRun ops).final ∨ ∃ r, r ∈ (specRun ops).rules ∧ (q = r.parent ∨ q ∈ r.kids) :=
  usedStates_exact ops

example : usedStates (run StoreEx.ops1) = [1, 2, 3, 5] ∧
    usedStates (run (StoreEx.ops1 ++ [.clear, .setFinal 9])) = [9] := by decide

/-- `AreTransitionsEmpty` is true exactly when no rule is present -/
theorem C12_transitionsEmpty_exact (ops : List Op) :
    transEmpty (run ops) = true ↔ (specRun ops).rules = [] :=
  transEmpty_exact ops

example : transEmpty (run StoreEx.ops1) = false ∧ transEmpty (run (StoreEx.ops1 ++ [.clear])) = true ∧
    transEmpty (run [.setFinal 1, .setFinals [2, 3]]) = true := by decide

/-- `GetFinalStates` has no duplicates and is exactly the set of states made final since the last `EraseFinalStates` /
`Clear`; `IsStateFinal` answers accordingly -/
theorem C12_final_exact (ops : List Op) :
    ((run ops).final.Nodup ∧ ∀ q, q ∈ (run ops).final ↔ q ∈ (specRun ops).final) ∧
    (∀ q, isFinal (run ops) q = true ↔ q ∈ (specRun ops).final) :=
  ⟨final_exact ops, fun q => isFinal_exact ops q⟩

example : (run StoreEx.ops1).final = [2, 3, 5] ∧ (specRun StoreEx.ops1).final = [3, 2, 5, 2] ∧
    (run (StoreEx.ops1 ++ [.eraseFinal])).final = [] ∧
    iterate (run (StoreEx.ops1 ++ [.eraseFinal])) = iterate (run StoreEx.ops1) := by decide

/-! ### the representation invariant and the refinement behind all of the above -/

/-- after every history the container is well formed: state keys unique, symbol keys unique in every cluster, no empty
cluster, no empty tuple set, no duplicate tuple, no duplicate final state – and the Boolean checker `invB` (usable on
stores rebuilt from dumps of the real object) decides exactly that -/
theorem C12_invariant (ops : List Op) : Inv (run ops) ∧ invB (run ops) = true :=
  ⟨store_inv ops, (invB_iff _).mpr (store_inv ops)⟩

/-- the invariant is not trivial: a store with a duplicate tuple violates it and its iterator yields a rule twice -/
example : invB ⟨[(1, [(7, [[2], [2]])])], []⟩ = false ∧
    iterate ⟨[(1, [(7, [[2], [2]])])], []⟩ = [⟨7, [2], 1⟩, ⟨7, [2], 1⟩] := by decide

/-- after every history the container represents the pair of sets of the specification -/
theorem C12_refines (ops : List Op) : Refines (run ops) (specRun ops) := refines_run ops

example : run StoreEx.ops1 =
    ⟨[(1, [(7, [[], [1, 1]])]), (2, [(8, [[1, 2]])]), (3, [(7, [[2]])])], [2, 3, 5]⟩ := by decide

/-! ### the property in one statement, with the iterator objects -/

/-- **C12, every clause, for every history of the five mutating calls**: the loop `for (it = begin(); it != end(); ++it)` over
the automaton terminates without undefined behaviour and yields each distinct rule added since the last `Clear` exactly once
and nothing else; `ContainsTransition` answers `true` exactly for those rules; the loop over `GetAcceptTrans()` yields exactly
the rules whose parent is final; the loop over `aut[q]` exactly the rules with parent `q`; `GetUsedStates` is exactly the set
of states occurring in rules or in the final set; `AreTransitionsEmpty` is `true` exactly when no rule is present -/
theorem C12_statement (ops : List Op) :
    (∃ out, iterAll (run ops) = .done out ∧ out.Nodup ∧ ∀ r, r ∈ out ↔ r ∈ (specRun ops).rules) ∧
    (∀ r, contains (run ops) r = true ↔ r ∈ (specRun ops).rules) ∧
    (∃ out, acceptAll (run ops) = .done out ∧ out.Nodup ∧
      ∀ r, r ∈ out ↔ r ∈ (specRun ops).rules ∧ r.parent ∈ (specRun ops).final) ∧
    (∀ q, ∃ out, downAll (run ops) q = .done out ∧ out.Nodup ∧ ∀ r, r ∈ out ↔ r ∈ (specRun ops).rules ∧ r.parent = q) ∧
    ((usedStates (run ops)).Nodup ∧ ∀ q, q ∈ usedStates (run ops) ↔
      q ∈ (specRun ops).final ∨ ∃ r, r ∈ (specRun ops).rules ∧ (q = r.parent ∨ q ∈ r.kids)) ∧
    (transEmpty (run ops) = true ↔ (specRun ops).rules = []) :=
  ⟨C12_iterator_protocol_yields_exact ops, C12_contains_exact ops, C12_iterator_protocol_acceptTrans_yields_exact ops,
    C12_iterator_protocol_down_yields_exact ops, C12_usedStates_exact ops, C12_transitionsEmpty_exact ops⟩

example : iterAll (run StoreEx.ops1) = .done [StoreEx.r1, StoreEx.r2, StoreEx.r3, StoreEx.r4] ∧
    acceptAll (run StoreEx.ops1) = .done [StoreEx.r3, StoreEx.r4] ∧ downAll (run StoreEx.ops1) 1 = .done [StoreEx.r1, StoreEx.r2] := by
  decide

/-!
## closed since the last refresh of this file

* **The iterator protocol** (`begin()` / `end()`, `operator++`, `operator*`, the end state of the three iterators,
  `DownAccessor::empty()`, partial traversals, iterator comparison): `C12_iterator_protocol`,
  `C12_iterator_protocol_yields_exact`, `C12_iterator_protocol_comparison`, `C12_iterator_protocol_acceptTrans`,
  `C12_iterator_protocol_down` (+ the two `…_yields_exact`) in `Vata/Properties/C12_Iterators.lean`; that the unchecked
  `begin()`s inside `operator++` / `init()` are never taken of an empty container, with the converse:
  `C20_iterators_never_dereference_empty_partial`, `C20_iterators_stuck_without_invariant_partial`.  The whole property with
  the iterator objects: `C12_statement`.
* **"Hash-consing. … that the tuple cache makes pointer equality coincide with tuple equality … is assumed, not modelled"** –
  the tuple cache is a `Util::Cache<StateTuple>`; the class is modelled as coded and checked against the real class
  (`Vata/CacheModel.lean`): in every reachable state, for any allocator, two non-null handles are pointer-equal iff the
  objects they point to have equal values (`Util_Cache_interning`, `Util_Cache_store_bijective`).  What is still missing is
  the last step: the store model of this file keeps tuples as values and is not stated over cache handles.
* Sharing with final states, moves and library results (the "Sharing" item): C11, `C11_statement`.

## not yet proved

Every clause of the statement is a theorem about the model `run` for every history over all five mutating calls (none
is missing from `Store.Op`).  What the theorems do not say:

* **Order and iterator invalidation.**  The real containers are `unordered_map`s, the model keeps insertion order; the
  theorems speak about the *set* of yielded rules and "no rule twice", and about the iterator objects following the
  storage order of the container they walk, not about that order being the real one.  An iterator is a triple of indices
  into ONE store value: what happens to a live iterator when a mutating call (or copy-on-write un-sharing) changes the
  container is not modelled; incrementing or dereferencing `end()` is `stuck` / `none` (caller errors, nothing is proved
  about callers never doing so); the comparison of a live `std::set` iterator with a value-initialised one in `operator==`
  is modelled as "the state is `.fin`".
* **Between tuple cache and store.**  See above: interning is a theorem about the cache class, value comparison is the
  store model; no theorem composes the two.
* **The public wrapper** `ExplicitTreeAut` (alphabet / symbol translation on top of the core) is not modelled; symbols
  are numbers.
* That `run`, the views and the iterator state machines are faithful transcriptions of the C++ is established by the
  correspondence check of the driver only, not by a theorem.
-/
end Vata.Props
