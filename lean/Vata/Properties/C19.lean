import Vata.Proofs.Rename
import Vata.Proofs.TrimModel
import Vata.Proofs.SimModel
import Vata.Proofs.IsectModel
import Vata.Proofs.InclUpTotal
import Vata.Proofs.PropAux
import Vata.Proofs.Equivariance
import Vata.Proofs.InclUpBdd
import Vata.Proofs.InclDown
import Vata.Properties.C01
import Vata.Properties.C04_Pipeline
import Vata.Properties.C05_Pipeline
/-!
# C19 – Results are invariant under renaming/reordering and obey the language laws

> Renaming the states of the operands by any bijection, adding their rules in a different order, or registering the
> symbols in a different order never changes an inclusion or emptiness verdict, maps a computed simulation relation to
> its renamed image, and leaves the number of states produced by reduction and trimming unchanged.  Verdicts on
> arbitrary automata obey the laws of language inclusion: A ⊆ A, A ⊆ A ∪ B, A ∩ B ⊆ A, inclusion is transitive, and A
> is equivalent to its reduced, trimmed, re-indexed and dumped-and-reloaded forms; every inclusion algorithm returns the
> same verdict.

## How the statement is read into the model

Each relation the metamorphic check evaluates on the implementation is a theorem for the exact models: a broken law or
a twin disagreement observed on the real code is therefore a failing input by itself (no reference verdict is needed,
which is what makes the check applicable to the large corpus automata).

* **Specification (L0).**  `Incl`, `LangEq`, `LangEmpty` (`Vata/Lang.lean`).  A correct inclusion / emptiness verdict
  *is* the truth value of `Incl A B` / `LangEmpty A` (C01, C03), so "the verdict does not change" is an equivalence
  between these propositions for the twin inputs.
* **Models.**  Renaming the states: `reindex f` with `InjOnStates f A` (a bijection restricted to the states of `A`).
  Adding the rules in a different order: another rule *list* with the same *set* of rules (and of final states).
  Registering the symbols in another order changes the internal symbol numbers by an injective map `g`:
  `translateSymbols g` on the automaton, `Tree.mapSyms g` on trees.  Union: `unionDisjoint` (operands with disjoint
  states, which is what the check feeds) ; intersection: `isectFull` (same language as the model `isectTD` of
  `Intersection`, C02); reduction, trimming, re-indexing: the models of C05, C03, C14.
  The lemmas (`Vata.incl_refl`, …) are in `Vata/Proofs/PropAux.lean`; the equivariance lemmas (`Vata.downSim_equivariant`,
  `Vata.removeUseless_reindex_eq`, `Vata.simClasses_equivariant`, `Vata.incl_symbol_equivariant`, …) in
  `Vata/Proofs/Equivariance.lean`.
  The model of `Reduce` needs a choice of representatives; for the size statements it is the canonical one,
  `reduceRef A = removeUnreachable (reindex (repOf A) A)` where `repOf A q` is the first state of `A.states` that is
  downward-simulation equivalent to `q` (C05).
-/
namespace Vata.Props
open Vata

/-! ### twins -/

/-- renaming the states of both operands by maps that are injective on their states changes neither the inclusion nor
the emptiness verdict -/
theorem C19_state_renaming_invariance (f g : Nat → Nat) (A B : TA) (hf : InjOnStates f A) (hg : InjOnStates g B) :
    (Incl (reindex f A) (reindex g B) ↔ Incl A B) ∧ (LangEmpty (reindex f A) ↔ LangEmpty A) :=
  ⟨incl_equivariant f g A B hf hg, empty_equivariant f A hf⟩

example : InjOnStates (· + 10) RenameEx.exA ∧ InjOnStates (fun q => 7 * q + 3) RenameEx.exB :=
  ⟨by intro q q' _ _ h; simp only at h; omega, by intro q q' _ _ h; simp only at h; omega⟩

/-- insertion order and repetitions do not matter: automata with the same *sets* of rules and final states have the
same language, hence the same inclusion and emptiness verdicts -/
theorem C19_insertion_order_invariance (A A' B B' : TA)
    (hA : (∀ r, r ∈ A.rules ↔ r ∈ A'.rules) ∧ (∀ q, q ∈ A.final ↔ q ∈ A'.final))
    (hB : (∀ r, r ∈ B.rules ↔ r ∈ B'.rules) ∧ (∀ q, q ∈ B.final ↔ q ∈ B'.final)) :
    LangEq A A' ∧ (Incl A B ↔ Incl A' B') ∧ (LangEmpty A ↔ LangEmpty A') := by
  have ha : LangEq A A' := lang_perm_invariant A A' hA.1 hA.2
  have hb : LangEq B B' := lang_perm_invariant B B' hB.1 hB.2
  refine ⟨ha, ⟨fun h t ht => ?_, fun h t ht => ?_⟩, ⟨fun h t => ?_, fun h t => ?_⟩⟩
  · rw [← hb t]; exact h t (by rw [ha t]; exact ht)
  · rw [hb t]; exact h t (by rw [← ha t]; exact ht)
  · rw [← ha t]; exact h t
  · rw [ha t]; exact h t

example : let A : TA := RenameEx.exA; let A' : TA := ⟨A.rules.reverse ++ A.rules, A.final⟩
    (∀ r, r ∈ A.rules ↔ r ∈ A'.rules) ∧ (∀ q, q ∈ A.final ↔ q ∈ A'.final) :=
  ⟨fun r => by simp, fun _ => Iff.rfl⟩

/-- renumbering the symbols by an injective map: an inclusion that holds between the renumbered automata holds between
the original ones (one direction only; the full invariance is `C19_symbol_renumbering_invariance` below) -/
theorem C19_symbol_renumbering_partial (g : Nat → Nat) (hg : ∀ a b, g a = g b → a = b) (A B : TA)
    (h : Incl (translateSymbols g A) (translateSymbols g B)) : Incl A B := by
  intro t ht
  rw [← translateSymbols_lang g hg B t]
  exact h _ (by rw [translateSymbols_lang g hg A t]; exact ht)

example : ∀ a b : Nat, (· + 42) a = (· + 42) b → a = b := by intro a b h; simp only at h; omega

/-- registering the symbols in a different order (renumbering them by an injective map `g`) changes neither the
inclusion nor the emptiness nor an equivalence verdict.  The direction "verdict on the originals ⇒ verdict on the
renumbered automata" rests on the fact that the renumbered automaton reaches no state on (hence rejects) every tree
that is not a renumbered tree – in particular every tree containing a symbol outside the image of `g` – which is the
last component -/
theorem C19_symbol_renumbering_invariance (g : Nat → Nat) (hg : ∀ a b, g a = g b → a = b) (A B : TA) :
    (Incl (translateSymbols g A) (translateSymbols g B) ↔ Incl A B) ∧
    (LangEmpty (translateSymbols g A) ↔ LangEmpty A) ∧
    (LangEq (translateSymbols g A) (translateSymbols g B) ↔ LangEq A B) ∧
    (∀ t', (¬ ∃ t, Tree.mapSyms g t = t') → reach (translateSymbols g A) t' = []) :=
  ⟨incl_symbol_equivariant g hg A B, empty_symbol_equivariant g hg A, langEq_symbol_equivariant g hg A B,
   translateSymbols_reach_outside g A⟩

example : ∀ a b : Nat, EqvEx.exG a = EqvEx.exG b → a = b := EqvEx.exG_inj
-- both verdicts occur: `exC ⊆ exB`, `exB ⊄ exA`; a tree with the symbol `6` (not of the form `2 s + 5`) is rejected
example : Incl (translateSymbols EqvEx.exG EqvEx.exC) (translateSymbols EqvEx.exG RenameEx.exB) ∧
    ¬ Incl (translateSymbols EqvEx.exG RenameEx.exB) (translateSymbols EqvEx.exG RenameEx.exA) :=
  ⟨(C19_symbol_renumbering_invariance _ EqvEx.exG_inj _ _).1.mpr (reindex_Incl (fun _ => 1) EqvEx.exC),
   fun h => absurd ((C19_symbol_renumbering_invariance _ EqvEx.exG_inj _ _).1.mp h RenameEx.exT' (by decide)) (by decide)⟩
example : reach (translateSymbols EqvEx.exG RenameEx.exB) (.node 9 [.node 6 []]) = [] ∧
    reach (translateSymbols EqvEx.exG RenameEx.exB) (.node 9 [.node 5 []]) = [1] := by decide

/-- renaming the states maps the computed simulation relations to their renamed images: the downward / upward
simulation of the renamed automaton consists exactly of the pairs `(f q, f r)` with `(q, r)` in the simulation of `A` -/
theorem C19_simulation_renaming (f : Nat → Nat) (A : TA) (hf : InjOnStates f A) :
    (∀ x y, (x, y) ∈ downSimRef (reindex f A) ↔ ∃ q r, (q, r) ∈ downSimRef A ∧ x = f q ∧ y = f r) ∧
    (∀ x y, (x, y) ∈ upSimRef (reindex f A) ↔ ∃ q r, (q, r) ∈ upSimRef A ∧ x = f q ∧ y = f r) :=
  ⟨downSimRef_reindex_image f A hf, upSimRef_reindex_image f A hf⟩

example : InjOnStates EqvEx.exF SimModel.exA := EqvEx.exF_inj_simA
example : (reindex EqvEx.exF SimModel.exA).states = [40, 33, 26, 19, 12] ∧
    (26, 19) ∈ downSimRef (reindex EqvEx.exF SimModel.exA) ∧ (2, 3) ∈ downSimRef SimModel.exA ∧
    (12, 26) ∉ downSimRef (reindex EqvEx.exF SimModel.exA) ∧ (4, 2) ∉ downSimRef SimModel.exA := by decide

/-- renaming the states leaves the result of trimming unchanged up to the renaming – trimming commutes with the
renaming, as an equality of automata – hence the numbers of states and of rules produced by trimming are unchanged -/
theorem C19_trimming_renaming (f : Nat → Nat) (A : TA) (hf : InjOnStates f A) :
    removeUseless (reindex f A) = reindex f (removeUseless A) ∧
    removeUnreachable (reindex f A) = reindex f (removeUnreachable A) ∧
    (removeUseless (reindex f A)).states.length = (removeUseless A).states.length ∧
    (removeUseless (reindex f A)).rules.length = (removeUseless A).rules.length ∧
    (removeUnreachable (reindex f A)).states.length = (removeUnreachable A).states.length :=
  ⟨removeUseless_reindex_eq f A hf, removeUnreachable_reindex_eq f A hf, trim_states_length_equivariant f A hf,
   trim_rules_length_equivariant f A hf, unreach_states_length_equivariant f A hf⟩

example : InjOnStates EqvEx.exF TrimEx.exA := EqvEx.exF_inj_trimA
example : (removeUseless (reindex EqvEx.exF TrimEx.exA)).states.length = 2 ∧ TrimEx.exA.states.length = 6 := by decide
-- injectivity is needed: merging the unproductive state `2` with the productive state `0` changes the count
example : let c : Nat → Nat := fun q => if q = 2 then 0 else q
    (removeUseless (reindex c TrimEx.exA)).states.length = 3 ∧ (removeUseless TrimEx.exA).states.length = 2 := by decide

/-- renaming the states leaves the result of reduction (canonical representatives) unchanged up to the renaming, hence
the numbers of states and rules it produces, and the number of simulation-equivalence classes, are unchanged -/
theorem C19_reduction_renaming (f : Nat → Nat) (A : TA) (hf : InjOnStates f A) :
    reduceRef (reindex f A) = reindex f (reduceRef A) ∧
    (reduceRef (reindex f A)).states.length = (reduceRef A).states.length ∧
    (reduceRef (reindex f A)).rules.length = (reduceRef A).rules.length ∧
    simClasses (reindex f A) = simClasses A :=
  ⟨reduceRef_reindex_eq f A hf, reduceRef_states_length_equivariant f A hf,
   reduceRef_rules_length_equivariant f A hf, simClasses_equivariant f A hf⟩

example : (reduceRef SimModel.exA).states = [0, 2] ∧ (reduceRef (reindex EqvEx.exF SimModel.exA)).states = [40, 26] ∧
    simClasses SimModel.exA = 3 := by decide

/-- the same for *every* choice of representatives: whatever quotient projections `h` (for `A`) and `h'` (for the
renamed automaton) are used – `IsQuotProj`: every state is sent to a simulation-equivalent state, equivalent states to
the same state – the model of `Reduce` produces the same numbers of states and rules on both sides -/
theorem C19_reduction_renaming_any_choice (f : Nat → Nat) (A : TA) (hf : InjOnStates f A) (h h' : Nat → Nat)
    (hh : IsQuotProj A h) (hh' : IsQuotProj (reindex f A) h') :
    (removeUnreachable (reindex h' (reindex f A))).states.length = (removeUnreachable (reindex h A)).states.length ∧
    (removeUnreachable (reindex h' (reindex f A))).rules.length = (removeUnreachable (reindex h A)).rules.length :=
  reduce_size_equivariant f A hf h h' hh hh'

example : IsQuotProj SimModel.exA (repOf SimModel.exA) ∧
    IsQuotProj (reindex EqvEx.exF SimModel.exA) (repOf (reindex EqvEx.exF SimModel.exA)) :=
  ⟨repOf_isQuotProj _, repOf_isQuotProj _⟩

/-! ### the laws of language inclusion -/

/-- `A ⊆ A`, and inclusion is transitive -/
theorem C19_inclusion_preorder (A B C : TA) : Incl A A ∧ (Incl A B → Incl B C → Incl A C) :=
  ⟨incl_refl A, incl_trans⟩

-- inclusion is a genuine preorder, not an equivalence: `{a} ⊆ {a,b}` holds, the converse does not
example : Incl InclUpEx.exA InclUpEx.exAB ∧ ¬ Incl InclUpEx.exAB InclUpEx.exA :=
  ⟨inclUp_true (fuel := 10) (c := .closed [(1, [3])]) rfl, inclUp_false (fuel := 10) (c := .witness (.node 1 [])) rfl⟩

/-- `A ⊆ A ∪ B`, `B ⊆ A ∪ B`, the union is the least upper bound, and `A ∪ B ⊆ B` exactly when `A ⊆ B`; the union of
the model needs operands with disjoint states (the check renames them apart first) -/
theorem C19_union_laws (A B C : TA) (hdis : ∀ q, q ∈ A.states → q ∉ B.states) :
    Incl A (unionDisjoint A B) ∧ Incl B (unionDisjoint A B) ∧
    (Incl A C → Incl B C → Incl (unionDisjoint A B) C) ∧ (Incl (unionDisjoint A B) B ↔ Incl A B) :=
  ⟨incl_union_left A B hdis, incl_union_right A B hdis, union_least A B C hdis, union_incl_iff A B hdis⟩

example : ∀ q, q ∈ (reindex (· + 10) RenameEx.exA).states → q ∉ RenameEx.exB.states := by decide

/-- `A ∩ B ⊆ A`, `A ∩ B ⊆ B`, the intersection is the greatest lower bound, and `A ⊆ A ∩ B` exactly when `A ⊆ B` -/
theorem C19_intersection_laws (A B C : TA) :
    Incl (isectFull A B) A ∧ Incl (isectFull A B) B ∧
    (Incl C A → Incl C B → Incl C (isectFull A B)) ∧ (Incl A (isectFull A B) ↔ Incl A B) :=
  ⟨isect_incl_left A B, isect_incl_right A B, isect_greatest A B C, incl_isect_iff A B⟩

example : accepts (isectFull IsectEx.exA IsectEx.exB) IsectEx.exT = true ∧ accepts IsectEx.exA IsectEx.exT' = true ∧
    accepts (isectFull IsectEx.exA IsectEx.exB) IsectEx.exT' = false := by decide

/-- `A` is equivalent to its trimmed forms, to its re-indexed form (injective map) and to its reduced form (collapse
map `h` to representatives of downward-simulation equivalence, then removal of unreachable states: the model of
`Reduce`, C05) -/
theorem C19_equivalent_forms (A : TA) (f h : Nat → Nat) (hf : InjOnStates f A)
    (hh : ∀ q, q ∈ A.states → (q, h q) ∈ downSimRef A ∧ (h q, q) ∈ downSimRef A) :
    LangEq (removeUseless A) A ∧ LangEq (removeUnreachable A) A ∧ LangEq (reindex f A) A ∧
    LangEq (removeUnreachable (reindex h A)) A :=
  ⟨equiv_trim A, equiv_unreach A, equiv_reindex f A hf, fun t => reduce_trim_lang removeUnreachable_lang A h hh t⟩

example : InjOnStates (· + 10) SimModel.exA ∧
    ∀ q, q ∈ SimModel.exA.states → (q, SimModel.exH q) ∈ downSimRef SimModel.exA ∧
      (SimModel.exH q, q) ∈ downSimRef SimModel.exA :=
  ⟨by intro q q' _ _ h; simp only at h; omega, by decide⟩

/-- equivalent automata are interchangeable in every inclusion question (what licenses checking the laws on the
reduced / trimmed / re-indexed forms) -/
theorem C19_equivalent_operands (A A' B B' : TA) (hA : LangEq A A') (hB : LangEq B B') : Incl A B ↔ Incl A' B' :=
  ⟨fun h => incl_trans (langEq_incl hA).2 (incl_trans h (langEq_incl hB).1),
   fun h => incl_trans (langEq_incl hA).1 (incl_trans h (langEq_incl hB).2)⟩

example : LangEq (removeUseless TrimEx.exA) TrimEx.exA := equiv_trim _

/-- re-indexing keeps the number of rules (any map) and the number of states (injective map) -/
theorem C19_renaming_keeps_sizes (f : Nat → Nat) (A : TA) :
    (reindex f A).rules.length = A.rules.length ∧ (InjOnStates f A → (reindex f A).states.length = A.states.length) :=
  ⟨rules_length_equivariant f A, reindex_states_length f A⟩

example : (reindex (· + 10) RenameEx.exA).states = [11, 12] ∧ RenameEx.exA.states = [1, 2] := by decide

/-! ### "every inclusion algorithm returns the same verdict" – also across twins -/

/-- any verdicts of the models of the inclusion algorithms – explicit upward, downward non-recursive, downward recursive,
downward recursive / non-recursive with a relation `R`, BDD bottom-up upward – agree, even when each is run on a
differently renamed twin of the pair (`f₁ … g₃` injective on the states of the operand they rename): the verdict of one
algorithm on one twin is the verdict of every other algorithm on every other twin.  The `Sim` models run on the
original pair (they validate `R`, which is a relation on the original states) -/
theorem C19_inclusion_algorithms_agree (A B : TA) (R : Rel) (f₁ g₁ f₂ g₂ f₃ g₃ : Nat → Nat)
    (hf₁ : InjOnStates f₁ A) (hg₁ : InjOnStates g₁ B) (hf₂ : InjOnStates f₂ A) (hg₂ : InjOnStates g₂ B)
    (hf₃ : InjOnStates f₃ A) (hg₃ : InjOnStates g₃ B)
    (n₀ n₁ n₂ n₃ n₄ n₅ n₆ : Nat) (b₀ b₁ b₂ b₃ b₄ b₅ b₆ : Bool) (c₀ c₁ c₂ c₃ c₄ c₅ c₆ : InclUp.Cert)
    (h₀ : checkInclUp A B n₀ = some (b₀, c₀))
    (h₁ : checkInclDownNonrec (reindex f₁ A) (reindex g₁ B) n₁ = some (b₁, c₁))
    (h₂ : checkInclDownRec (reindex f₂ A) (reindex g₂ B) n₂ = some (b₂, c₂))
    (h₃ : checkInclUpBdd (reindex f₃ A) (reindex g₃ B) n₃ = some (b₃, c₃))
    (h₄ : inclDownSim A B R n₄ = some (b₄, c₄))
    (h₅ : inclDownNonrecSim A B R n₅ = some (b₅, c₅))
    (h₆ : checkInclUp (reindex f₁ A) (reindex g₁ B) n₆ = some (b₆, c₆)) :
    b₁ = b₀ ∧ b₂ = b₀ ∧ b₃ = b₀ ∧ b₄ = b₀ ∧ b₅ = b₀ ∧ b₆ = b₀ := by
  have e₀ := InclUp.checkInclUp_iff h₀
  have e₁ := (checkInclDownNonrec_iff h₁).trans (incl_equivariant f₁ g₁ A B hf₁ hg₁)
  have e₂ := (checkInclDownRec_iff h₂).trans (incl_equivariant f₂ g₂ A B hf₂ hg₂)
  have e₃ := (checkInclUpBdd_iff h₃).trans (incl_equivariant f₃ g₃ A B hf₃ hg₃)
  have e₄ := inclDownSim_iff h₄
  have e₅ := inclDownNonrecSim_iff h₅
  have e₆ := (InclUp.checkInclUp_iff h₆).trans (incl_equivariant f₁ g₁ A B hf₁ hg₁)
  have key : ∀ b : Bool, (b = true ↔ Incl A B) → b = b₀ := fun b e => by
    cases b <;> cases b₀ <;> simp_all
  exact ⟨key _ e₁, key _ e₂, key _ e₃, key _ e₄, key _ e₅, key _ e₆⟩

-- twins of the pair `exG ⊄ exH` (the `g(a,b)` shape): every model answers `false` on its twin
example : (checkInclUp InclDownEx.exG InclDownEx.exH 20).map (·.1) = some false ∧
    (checkInclDownNonrec (reindex (· + 10) InclDownEx.exG) (reindex (fun q => 7 * q + 3) InclDownEx.exH) 10).map (·.1) = some false ∧
    (checkInclDownRec (reindex (fun q => 2 * q) InclDownEx.exG) (reindex (· + 1) InclDownEx.exH) 10).map (·.1) = some false ∧
    (checkInclUpBdd (reindex (· + 5) InclDownEx.exG) (reindex (· + 5) InclDownEx.exH) 20).map (·.1) = some false ∧
    (inclDownSim InclDownEx.exG InclDownEx.exH [] 10).map (·.1) = some false :=
  ⟨rfl, rfl, rfl, rfl, rfl⟩
example : InjOnStates (· + 10) InclDownEx.exG ∧ InjOnStates (fun q => 7 * q + 3) InclDownEx.exH :=
  ⟨by intro q q' _ _ h; simp only at h; omega, by intro q q' _ _ h; simp only at h; omega⟩

/-! ### the same two clauses for ALL eight selections and for `Reduce` as coded -/

/-- "every inclusion algorithm returns the same verdict", over all eight explicit selections (`C01Sel`,
`Vata/Properties/C01.lean` – the upward selection with simulation included) and across twins: the verdict of the model of any
selection on any renamed twin of the pair (`f`, `g` injective on the states of the operand they rename) is the verdict of
the model of any other selection on the original pair – whatever the fuels -/
theorem C19_every_selection_agrees_across_twins (s s' : C01Sel) (A B : TA) (f g : Nat → Nat) (hf : InjOnStates f A)
    (hg : InjOnStates g B) (n n' : Nat) (b b' : Bool) (c c' : InclUp.Cert)
    (h : s.model (reindex f A) (reindex g B) n = some (b, c)) (h' : s'.model A B n' = some (b', c')) : b = b' := by
  have e := ((C01_every_selection_exact_total s _ _).1 n b c h).trans (incl_equivariant f g A B hf hg)
  have e' := (C01_every_selection_exact_total s' A B).1 n' b' c' h'
  cases b <;> cases b' <;> simp_all

-- the upward selection with simulation on a twin of `exG ⊄ exH` against the non-recursive downward one on the original
example : (C01Sel.upSim.model (reindex (· + 10) InclDownEx.exG) (reindex (fun q => 7 * q + 3) InclDownEx.exH) 40).map (·.1) =
      some false ∧
    (C01Sel.downNonrecSim.model InclDownEx.exG InclDownEx.exH 40).map (·.1) = some false := ⟨rfl, rfl⟩

/-- "leaves the number of states produced by reduction … unchanged", for `Reduce` AS CODED (`SimPipe.reduceAsCoded`:
`ComputeSimulation` through the LTS engine model, `RestrictToSymmetric`, `GetQuotientProjection`, `CollapseStates`,
`RemoveUnreachableStates`; C05): on a renamed twin it produces the same number of states and of rules – no hypothesis on
the collapse map is left -/
theorem C19_reduce_as_coded_renaming (f : Nat → Nat) (A : TA) (hf : InjOnStates f A) (hrk : TaLts.Ranked A) (B B' : TA)
    (h : SimPipe.reduceAsCoded A = some B) (h' : SimPipe.reduceAsCoded (reindex f A) = some B') :
    B'.states.length = B.states.length ∧ B'.rules.length = B.rules.length := by
  obtain ⟨e1, e2, _⟩ := C05_pipeline_size A hrk B h
  obtain ⟨e1', e2', _⟩ := C05_pipeline_size (reindex f A) (ranked_reindex f A hrk) B' h'
  obtain ⟨_, r1, r2, _⟩ := C19_reduction_renaming f A hf
  exact ⟨by rw [e1', e1, r1], by rw [e2', e2, r2]⟩

example : InjOnStates (· + 10) TaLtsEx.exA ∧ TaLts.Ranked TaLtsEx.exA ∧
    (SimPipe.reduceAsCoded TaLtsEx.exA).map (·.states.length) = some 2 ∧
    (SimPipe.reduceAsCoded (reindex (· + 10) TaLtsEx.exA)).map (·.states.length) = some 2 :=
  ⟨by intro q q' _ _ h; simp only at h; omega, TaLts.rankedB_iff.mp (by decide), by decide +kernel, by decide +kernel⟩

/-!
## closed since the last refresh of this file

* **"That the map the C++ derives (`GetQuotientProjection`) is a quotient projection is the hypothesis, see C05"** – closed:
  `C05_model_projection`, `C05_pipeline_refines_reduceModel` (the computed map is a quotient projection), and for `Reduce` as
  coded the size statement without any hypothesis on the map: `C19_reduce_as_coded_renaming`.
* **"Dumped-and-reloaded form: the round trip is proved on the level of descriptions (C13), not as a `LangEq` between tree
  automata"** – closed for the explicit tree encoding in `Vata/Properties/C19_LoadDump.lean`: `C19_dump_reload_equivalent`,
  `C19_dump_reload_text_equivalent`, `C19_load_dump_reload_equivalent`; and "registering the symbols in a different order" is
  no longer an assumed injective map but derived from the loader (`C19_load_order_invariance`, `C19_load_order_emptiness`).
* **"the selection *upward with simulation* has no model"** – it has (`Vata/InclUpSim.lean`, `C01_upward_sim_prepared_exact`,
  `C01_upward_sim_agrees`); all eight selections, across twins: `C19_every_selection_agrees_across_twins`.  The BDD selections:
  `C07_every_selection_exact`; the word-automata algorithms: `C09_every_algorithm_exact_total`.
* The simulation relations under renaming, for `ComputeSimulation` as coded: `C04_pipeline_numbering_independent`; for the
  reference relations: `C19_simulation_renaming`, `C04_numbering_independent`.
* Totality of the engine behind every language law the driver checks: `C19_reference_total`, `C19_reference_bound`,
  `C19_reference_fuel_irrelevant` (`Vata/Properties/RefTotal.lean`).

## not yet proved

* **Dumped-and-reloaded form for the other encodings**, and the `Dumpable` hypothesis for the RESULTS of operations: that the
  state dictionary the command-line tool builds for a union or an intersection names the result's states injectively.  For
  the union it does (`Util_Glue_unionNames_injective`, `Util_Glue_unionDict`); for the intersection it does NOT in general
  (`Util_Glue_productNames_collide`: two product states can get one name, and the dumped automaton then has a larger language
  – a finding; injective when one operand's names are free of `|`, `Util_Glue_productNames_injective`).  So "A is equivalent to
  its dumped-and-reloaded form" can fail for an intersection dumped by the command line.
* "Adding their rules in a different order" is modelled by another rule LIST with the same set of rules; the hash order of the
  containers, which is what really changes, is not an object of the models (every theorem holds for every list order).
* `C19_reduce_as_coded_renaming` needs `Ranked A` (always true for the explicit encoding).
-/
end Vata.Props
