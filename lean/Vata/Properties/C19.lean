import Vata.Proofs.Rename
import Vata.Proofs.TrimModel
import Vata.Proofs.SimModel
import Vata.Proofs.IsectModel
/-!
# C19 – invariance under renaming and the laws of language inclusion (about the models)

Each relation the metamorphic check evaluates on the implementation is a theorem for the exact models: a broken law or
a twin disagreement observed on the real code is therefore a failing input by itself.
-/
namespace Vata

theorem incl_refl (A : TA) : Incl A A := fun _ h => h

theorem incl_trans {A B C : TA} (h₁ : Incl A B) (h₂ : Incl B C) : Incl A C := fun t h => h₂ t (h₁ t h)

theorem langEq_incl {A B : TA} (h : LangEq A B) : Incl A B ∧ Incl B A :=
  ⟨fun t ha => by rw [← h t]; exact ha, fun t hb => by rw [h t]; exact hb⟩

/-- renaming both operands by injective maps does not change the inclusion verdict -/
theorem incl_equivariant (f g : Nat → Nat) (A B : TA) (hf : InjOnStates f A) (hg : InjOnStates g B) :
    Incl (reindex f A) (reindex g B) ↔ Incl A B := by
  constructor
  · intro h t ha
    have := h t (by rw [reindex_inj_lang f A hf t]; exact ha)
    rw [reindex_inj_lang g B hg t] at this; exact this
  · intro h t ha
    rw [reindex_inj_lang f A hf t] at ha
    rw [reindex_inj_lang g B hg t]; exact h t ha

/-- … nor the emptiness verdict -/
theorem empty_equivariant (f : Nat → Nat) (A : TA) (hf : InjOnStates f A) :
    LangEmpty (reindex f A) ↔ LangEmpty A := by
  constructor
  · intro h t; rw [← reindex_inj_lang f A hf t]; exact h t
  · intro h t; rw [reindex_inj_lang f A hf t]; exact h t

/-- insertion order and duplicates do not matter: automata with the same rule and final *sets* have the same language -/
theorem lang_perm_invariant (A B : TA) (hr : ∀ r, r ∈ A.rules ↔ r ∈ B.rules) (hf : ∀ q, q ∈ A.final ↔ q ∈ B.final)
    (t : Tree) : accepts A t = accepts B t := by
  rw [Bool.eq_iff_iff]
  simp only [accepts, accepting, List.any_eq_true, List.contains_iff_mem]
  constructor
  · rintro ⟨q, hq, hfq⟩
    exact ⟨q, reach_mono A B (fun r h => (hr r).1 h) t q hq, (hf q).1 hfq⟩
  · rintro ⟨q, hq, hfq⟩
    exact ⟨q, reach_mono B A (fun r h => (hr r).2 h) t q hq, (hf q).2 hfq⟩

theorem incl_union_left (A B : TA) (hdis : ∀ q, q ∈ A.states → q ∉ B.states) : Incl A (unionDisjoint A B) := by
  intro t h; rw [unionDisjoint_lang A B hdis t, h]; rfl

theorem incl_union_right (A B : TA) (hdis : ∀ q, q ∈ A.states → q ∉ B.states) : Incl B (unionDisjoint A B) := by
  intro t h; rw [unionDisjoint_lang A B hdis t, h]; simp

theorem union_least (A B C : TA) (hdis : ∀ q, q ∈ A.states → q ∉ B.states) (ha : Incl A C) (hb : Incl B C) :
    Incl (unionDisjoint A B) C := by
  intro t h
  rw [unionDisjoint_lang A B hdis t, Bool.or_eq_true] at h
  rcases h with h | h
  · exact ha t h
  · exact hb t h

theorem isect_incl_left (A B : TA) : Incl (isectFull A B) A := by
  intro t h; rw [isectFull_lang, Bool.and_eq_true] at h; exact h.1

theorem isect_incl_right (A B : TA) : Incl (isectFull A B) B := by
  intro t h; rw [isectFull_lang, Bool.and_eq_true] at h; exact h.2

theorem isect_greatest (A B C : TA) (ha : Incl C A) (hb : Incl C B) : Incl C (isectFull A B) := by
  intro t h; rw [isectFull_lang, ha t h, hb t h]; rfl

/-- `A ⊆ A ∩ B` exactly when `A ⊆ B` (law instance 7 of the check) -/
theorem incl_isect_iff (A B : TA) : Incl A (isectFull A B) ↔ Incl A B :=
  ⟨fun h => incl_trans h (isect_incl_right A B), fun h => isect_greatest A B A (incl_refl A) h⟩

/-- `A ∪ B ⊆ B` exactly when `A ⊆ B` (law instance 8 of the check) -/
theorem union_incl_iff (A B : TA) (hdis : ∀ q, q ∈ A.states → q ∉ B.states) :
    Incl (unionDisjoint A B) B ↔ Incl A B :=
  ⟨fun h => incl_trans (incl_union_left A B hdis) h, fun h => union_least A B B hdis h (incl_refl B)⟩

theorem equiv_trim (A : TA) : LangEq (removeUseless A) A := fun t => removeUseless_lang A t
theorem equiv_unreach (A : TA) : LangEq (removeUnreachable A) A := fun t => removeUnreachable_lang A t
theorem equiv_reindex (f : Nat → Nat) (A : TA) (hf : InjOnStates f A) : LangEq (reindex f A) A :=
  fun t => reindex_inj_lang f A hf t

/-- trimming commutes with injective renaming up to the renaming, hence the sizes agree -/
theorem rules_length_equivariant (f : Nat → Nat) (A : TA) : (reindex f A).rules.length = A.rules.length :=
  reindex_rules_length f A

example : Incl (⟨[⟨0, [], 1⟩], [1]⟩ : TA) (unionDisjoint ⟨[⟨0, [], 1⟩], [1]⟩ ⟨[⟨1, [], 2⟩], [2]⟩) :=
  incl_union_left _ _ (by decide)

end Vata
