import Vata.Proofs.CounterRows
import Vata.Properties.C16_Discipline4
/-!
# C16 / C20 – the counter rows of the simulation engine: row size, allocator size, index bounds

> C20: the utility classes are used inside their (unchecked) preconditions.
> C16: `computeSimulation(partition, relation, size)` returns the greatest simulation inside the initial relation.

This file serves the part of C20 that is about MEMORY: `SharedCounter` (`src/util/shared_counter.hh`) indexes raw `size_t*`
blocks obtained from a `CachingArrayAllocator<size_t>` (`src/util/caching_allocator.hh`) with no check at all; that the indices
fit is a contract between two lines of the `SimulationEngine` constructor (`src/explicit_lts_sim.cc`):
```
rowSize_(SimulationEngine::getRowSize(lts.states())),        // used by SharedCounter: index / rowSize_, index % rowSize_,
                                                             //   data_[rowSize_] (reference count), memcpy(rowSize_ cells)
counterAllocator_(rowSize_ + 1),                             // every block has rowSize_ + 1 cells
```
A seeded change sized the allocator by `getRowSize(lts.labels()) + 1`: identical below 4096 states, a heap overflow from 4096
states on (blocks of 32 cells indexed up to 63).

## How the C++ is read into the model

* `SC.getRowSize` (`Vata/LtsUtil.lean`): `treshold = sqrt(states) >> 1; rowSize_ = 32; while (rowSize_ <= treshold) rowSize_ <<= 1;
  return rowSize_ - 1;` – the loop with fuel 64 (a `size_t` doubles at most 64 times).
* `CR.Ctor` / `CR.ctorAsCoded` / `CR.ctorVariant` (`Vata/CounterRows.lean`): the pair (`rowSize_`, allocator `size_`) as the
  constructor fixes it, as coded and in the seeded variant.
* **"allocated size" in the model**: `SC.alloc cfg` (the model of `allocator_()`) stores the list `SC.poisonRow cfg` of
  `cfg.rowSize + 1` cells at the block address in `Mem.cells`; the allocated size of block `p` in world `W` is
  `(W.mem.cells.get p).length`.  For `cfg = scCfg L poison` this is `getRowSize L.n + 1 = (ctorAsCoded L.n (labels L)).allocSize`
  (first clause of the theorem).  `SC.setCell` on a list is `List.set`, which silently ignores an index `≥ length`; therefore the
  bounds are stated on the INDICES (`CR.cellsOf`: every `row.data_[j]` of the member function's body, including the `memcpy`
  range and the reference-count cell `rowSize_`) and on the lengths of the blocks in the world at the moment of the call, not
  derived from "the model did not crash".  `CR.setFreshB` is the first access sequence to a fresh block with CHECKED writes and
  the allocator size as its own parameter.
* the engine's history of `SharedCounter` calls: `stateAfterJ` / `computeSimulationJ` (`Vata/LtsEngineCalls2.lean`), proved
  inside the call discipline by `C16_engine_discipline_SC`.

## What is abstracted

`cellsOf` lists the accesses in the BODY of the member function (an upper bound: `decr` on a row without data returns early,
`init` / `~SharedCounter` / `copyLabels` skip rows without data); only for `set` every listed access happens on every path
(both branches write `row.data_[colIndex]` and `row.data_[rowSize_]`).  Read-only `get` calls are not in the history (the engine
makes them only inside `assert`); its accesses (`key_`, `data_[rowIndex]`, `row.data_[colIndex]`) are those of `set`.  Bytes,
`sizeof(size_t)` and `operator new` are not modelled: a block is a list of cells.

## Hypotheses

Those of `C16_engine_discipline_SC` (engine preconditions; `labels L * L.n < 2 ^ 64`, see `C16_Discipline4.lean`).
-/
namespace Vata.Props
open Vata.L Vata.LE Vata.LU Vata.LEC Vata.LEC2 Vata.CR

/-- `hist` is the `SharedCounter` history of an engine run: constructor, `init` and `k` iterations of `run()`, or a completed
`computeSimulation` including the destructors of `~SimulationEngine` -/
def EngineSCHist (L : LTS) (poison : Nat) (part : List (List Nat)) (rel : Rel) (hist : List SC.Op) : Prop :=
  (∃ k, hist = (stateAfterJ L (scCfg L poison) part rel k).2.sc) ∨
  (∃ size R t, computeSimulationJ L (scCfg L poison) part rel size = some (R, t) ∧ hist = t.sc)

/-- every engine history is inside the discipline (`C16_engine_discipline_SC`, both forms) -/
theorem engineSCHist_ok (L : LTS) (part : List (List Nat)) (rel : Rel)
    (hL : ltsOKB L = true) (hp : isPartition part L.n = true) (hc : isConsistent part rel = true)
    (ht : isTransB rel = true) (poison : Nat) (hsmall : labels L * L.n < 2 ^ 64) {hist : List SC.Op}
    (hh : EngineSCHist L poison part rel hist) : SC.okAll (scCfg L poison) [] hist = true := by
  have hd := C16_engine_discipline_SC L part rel hL hp hc ht poison hsmall
  rcases hh with ⟨k, rfl⟩ | ⟨size, R, t, h, rfl⟩
  · exact hd.1 k
  · exact hd.2 size R t h

/-- **every cell index of every `SharedCounter` call of every engine run lies inside its array** (PARTIAL: see "still not
proved" – the statement is about the accesses listed by `cellsOf` / `keyCellOf` / `rowIdxOf`; bytes are not modelled).

For the configuration as coded, `cfg = scCfg L poison`, `C = ctorAsCoded L.n (labels L)`:
(0) `cfg.rowSize = C.rowSize = getRowSize L.n > 0`, and the block `allocator_()` hands out in the model has `C.allocSize =
    rowSize_ + 1` cells;
and for every call `op` of every engine history (`hist = pre ++ op :: post`), in the heap world `W` the class as coded has
reached when the call is made (it IS defined there, and at the call):
(1) every block access index of the body of `op` (`colIndex`, the `memcpy` range, the reference-count cell `rowSize_`) is
    `< C.allocSize`;
(2) the access `key_[label * states_ + state]` is inside `key_`;
(3) the access `data_[rowIndex]` is inside the row vector of the counter object;
(4) every block a live counter points to – before and after the call – has EXACTLY `C.allocSize` cells and was handed out by
    the allocator (`p < next`). -/
theorem C20_counter_rows_in_bounds_partial (L : LTS) (part : List (List Nat)) (rel : Rel)
    (hL : ltsOKB L = true) (hp : isPartition part L.n = true) (hc : isConsistent part rel = true)
    (ht : isTransB rel = true) (poison : Nat) (hsmall : labels L * L.n < 2 ^ 64) :
    ((scCfg L poison).rowSize = (ctorAsCoded L.n (labels L)).rowSize ∧ 0 < (scCfg L poison).rowSize ∧
      (SC.poisonRow (scCfg L poison)).length = (ctorAsCoded L.n (labels L)).allocSize ∧
      ∀ m, ((SC.alloc (scCfg L poison) m).2.cells.get (SC.alloc (scCfg L poison) m).1).length =
        (ctorAsCoded L.n (labels L)).allocSize) ∧
    ∀ hist, EngineSCHist L poison part rel hist → ∀ pre op post, hist = pre ++ op :: post →
      ∃ W outs W' out, SC.run (scCfg L poison) SC.World.empty pre = some (W, outs) ∧
        SC.step (scCfg L poison) W op = some (W', out) ∧
        (∀ j ∈ cellsOf (scCfg L poison) op, j < (ctorAsCoded L.n (labels L)).allocSize) ∧
        (∀ x, keyCellOf (scCfg L poison) op = some x → x < (scCfg L poison).key.length) ∧
        (∀ i r, rowIdxOf (scCfg L poison) op = some (i, r) → ∃ c, W.cnt i = some c ∧ r < c.length) ∧
        BlocksSized W (ctorAsCoded L.n (labels L)).allocSize ∧ BlocksSized W' (ctorAsCoded L.n (labels L)).allocSize := by
  refine ⟨⟨rfl, getRowSize_pos L.n, by simp [SC.poisonRow, ctorAsCoded]; rfl, fun m => ?_⟩, ?_⟩
  · rw [← allocV_eq_alloc]; exact allocV_len _ _ m
  · intro hist hh pre op post hsplit
    have hok := engineSCHist_ok L part rel hL hp hc ht poison hsmall hh
    rw [hsplit] at hok
    exact call_safe (cfg := scCfg L poison) (getRowSize_pos L.n) hok

/-- **the row of a keyed pair lies in the row range of its label** (`scCfg_ok`, from `layout_row_in_range`): for `a < labels`
and `q ∈ delta1[a]` the row index `key_[a * states + q] / rowSize_` is in `[labelMap_[a].first, labelMap_[a].second)` – the
range `resize` and `copyLabels` size the row vectors by – and different keyed pairs have different cells. -/
theorem C20_counter_rows_label_range (L : LTS) (poison : Nat) (hsmall : labels L * L.n < 2 ^ 64)
    (a q : Nat) (ha : a < labels L) (hq : q ∈ delta1 L a) :
    rowIdxOf (scCfg L poison) (.decr 0 a q) = some (0, keyOf (scCfg L poison) a q / (scCfg L poison).rowSize) ∧
    (lm (scCfg L poison) a).1 ≤ keyOf (scCfg L poison) a q / (scCfg L poison).rowSize ∧
    keyOf (scCfg L poison) a q / (scCfg L poison).rowSize < (lm (scCfg L poison) a).2 ∧
    keyOf (scCfg L poison) a q % (scCfg L poison).rowSize < (scCfg L poison).rowSize ∧
    ∀ a' q', a' < labels L → q' ∈ delta1 L a' → keyOf (scCfg L poison) a q = keyOf (scCfg L poison) a' q' → a = a' ∧ q = q' := by
  have ok := scCfg_ok L poison hsmall
  exact ⟨rfl, (ok.rng a q ha hq).1, (ok.rng a q ha hq).2, Nat.mod_lt _ ok.rs,
    fun a' q' ha' hq' h => ok.inj a q a' q' ha ha' hq hq' h⟩

/-- no call of an engine history overflows its block: the executable check `firstOverflow` finds nothing, as coded -/
theorem C20_counter_rows_no_overflow (L : LTS) (poison : Nat) (hist : List SC.Op) :
    firstOverflow (ctorAsCoded L.n (labels L)) (scCfg L poison) hist = none :=
  firstOverflow_none _ _ hist (fun op _ =>
    opInBlock_of_le _ (scCfg L poison) (getRowSize_pos L.n) (Nat.le_refl _) op)

/-! ### `getRowSize` as coded -/

/-- `getRowSize` is monotone in the number of states -/
theorem C20_getRowSize_mono {m n : Nat} (h : m ≤ n) : SC.getRowSize m ≤ SC.getRowSize n := getRowSize_mono h

/-- the bands: 31 below `64² = 4096`, 63 below `128² = 16384`, 127 below `256² = 65536`; never below 31 -/
theorem C20_getRowSize_bands (n : Nat) :
    31 ≤ SC.getRowSize n ∧ (n < 4096 → SC.getRowSize n = 31) ∧ (4096 ≤ n → n < 16384 → SC.getRowSize n = 63) ∧
    (16384 ≤ n → n < 65536 → SC.getRowSize n = 127) :=
  ⟨getRowSize_ge_31 n, SC.getRowSize_small, SC.getRowSize_medium, getRowSize_large⟩

/-- the table at the thresholds.  (`decide` does not evaluate `Nat.sqrt` – well-founded recursion – so the rows come from the
band lemmas; `#eval` prints the same list.) -/
theorem C20_getRowSize_table :
    [1, 31, 32, 63, 64, 1023, 1024, 4095, 4096, 4097].map SC.getRowSize = [31, 31, 31, 31, 31, 31, 31, 31, 63, 63] := by
  simp only [List.map_cons, List.map_nil]
  rw [SC.getRowSize_small (n := 1) (by omega), SC.getRowSize_small (n := 31) (by omega),
    SC.getRowSize_small (n := 32) (by omega), SC.getRowSize_small (n := 63) (by omega),
    SC.getRowSize_small (n := 64) (by omega), SC.getRowSize_small (n := 1023) (by omega),
    SC.getRowSize_small (n := 1024) (by omega), SC.getRowSize_small (n := 4095) (by omega),
    SC.getRowSize_medium (n := 4096) (by omega) (by omega), SC.getRowSize_medium (n := 4097) (by omega) (by omega)]

/-! ### the allocator sized from the number of labels -/

/-- **the seeded variant overflows.**  With `counterAllocator_(getRowSize(lts.labels()) + 1)` and
`getRowSize (labels) < getRowSize (states)`:
(1) the allocated block has at most `rowSize_` cells, so the reference-count cell `data_[rowSize_]` – an access of the body of
    every call that touches a block, and written on EVERY path of `set` – is outside: for every such call `opInBlock` is false;
(2) the class with checked writes fails at the very first access to a fresh block (`row.data_[rowSize_] = 0` in `set`),
    whatever the memory, column and count;
(3) the executable check `firstOverflow` reports a call and an index `≥` the allocated size for every history that contains a
    call touching a block (in particular a `set`). -/
theorem C20_counter_rows_wrong_allocator (L : LTS) (poison : Nat)
    (hlt : SC.getRowSize (labels L) < SC.getRowSize L.n) :
    (ctorVariant L.n (labels L)).allocSize ≤ (scCfg L poison).rowSize ∧
    (∀ op, touchesBlock op = true → (scCfg L poison).rowSize ∈ cellsOf (scCfg L poison) op ∧
      opInBlock (ctorVariant L.n (labels L)) (scCfg L poison) op = false) ∧
    (∀ m col count, setFreshB (ctorVariant L.n (labels L)).allocSize (scCfg L poison) m col count = none) ∧
    (∀ hist op, op ∈ hist → touchesBlock op = true →
      ∃ op' j, firstOverflow (ctorVariant L.n (labels L)) (scCfg L poison) hist = some (op', j) ∧ op' ∈ hist ∧
        j ∈ cellsOf (scCfg L poison) op' ∧ (ctorVariant L.n (labels L)).allocSize ≤ j) := by
  have hle : (ctorVariant L.n (labels L)).allocSize ≤ (scCfg L poison).rowSize := by
    show SC.getRowSize (labels L) + 1 ≤ SC.getRowSize L.n
    omega
  refine ⟨hle, fun op h => ⟨rowSize_mem_cellsOf _ h, opInBlock_false _ _ hle h⟩,
    fun m col count => setFreshB_overflow _ _ m col count hle, fun hist op hmem h => ?_⟩
  exact firstOverflow_some _ _ hist hmem (opInBlock_false _ _ hle h)

/-- **the smallest size at which the variant differs**, for one label (more generally: fewer than 4096 labels): the two
allocator sizes differ exactly from 4096 states on; at 4096 states and one label `rowSize_ = 63`, the block has 32 cells, the
reference count is cell 63 and `memcpy` copies 63 cells. -/
theorem C20_counter_rows_smallest_difference :
    (∀ n, SC.getRowSize 1 < SC.getRowSize n ↔ 4096 ≤ n) ∧
    (∀ l n, l < 4096 → (SC.getRowSize l < SC.getRowSize n ↔ 4096 ≤ n)) ∧
    ctorAsCoded 4096 1 = ⟨63, 64⟩ ∧ ctorVariant 4096 1 = ⟨63, 32⟩ ∧ ctorVariant 4095 1 = ctorAsCoded 4095 1 := by
  refine ⟨fun n => getRowSize_lt_iff (by omega), fun l n hl => getRowSize_lt_iff hl, ?_, ?_, ?_⟩
  · simp [ctorAsCoded, SC.getRowSize_medium (n := 4096) (by omega) (by omega)]
  · simp [ctorVariant, SC.getRowSize_medium (n := 4096) (by omega) (by omega), SC.getRowSize_small (n := 1) (by omega)]
  · simp [ctorVariant, ctorAsCoded, SC.getRowSize_small (n := 4095) (by omega), SC.getRowSize_small (n := 1) (by omega)]

/-- **below the threshold the variant is conservative.**  With fewer than 4096 states the variant's blocks are at least as
large as the coded ones (`getRowSize ≥ 31` always), so every access of every call is inside the block; with also fewer than
4096 labels the two constructors are EQUAL (the change is invisible to every test below 4096 states).  More generally the
variant is safe whenever `getRowSize (states) ≤ getRowSize (labels)`, e.g. `states ≤ labels`. -/
theorem C20_counter_rows_variant_equal_below (L : LTS) (poison : Nat) :
    (L.n < 4096 → labels L < 4096 → ctorVariant L.n (labels L) = ctorAsCoded L.n (labels L)) ∧
    (L.n < 4096 → (ctorAsCoded L.n (labels L)).allocSize ≤ (ctorVariant L.n (labels L)).allocSize) ∧
    (SC.getRowSize L.n ≤ SC.getRowSize (labels L) →
      (∀ op, opInBlock (ctorVariant L.n (labels L)) (scCfg L poison) op = true) ∧
      (∀ hist, firstOverflow (ctorVariant L.n (labels L)) (scCfg L poison) hist = none) ∧
      (∀ m col count, col < (scCfg L poison).rowSize → SC.getRowSize L.n = SC.getRowSize (labels L) →
        setFreshB (ctorVariant L.n (labels L)).allocSize (scCfg L poison) m col count =
          setFreshB (ctorAsCoded L.n (labels L)).allocSize (scCfg L poison) m col count)) := by
  refine ⟨fun h1 h2 => ?_, fun h1 => ?_, fun h => ?_⟩
  · simp [ctorVariant, ctorAsCoded, SC.getRowSize_small h1, SC.getRowSize_small h2]
  · show SC.getRowSize L.n + 1 ≤ SC.getRowSize (labels L) + 1
    have := getRowSize_ge_31 (labels L)
    rw [SC.getRowSize_small h1]; omega
  · have hle : (scCfg L poison).rowSize + 1 ≤ (ctorVariant L.n (labels L)).allocSize := by
      show SC.getRowSize L.n + 1 ≤ SC.getRowSize (labels L) + 1
      omega
    have hall : ∀ op, opInBlock (ctorVariant L.n (labels L)) (scCfg L poison) op = true :=
      fun op => opInBlock_of_le _ (scCfg L poison) (getRowSize_pos L.n) hle op
    refine ⟨hall, fun hist => firstOverflow_none _ _ hist (fun op _ => hall op), fun m col count _ he => ?_⟩
    simp only [ctorVariant, ctorAsCoded, he]

/-! ### non-vacuity -/

-- the hypotheses of the bounds theorem hold for `EngEx.L3` (4 states, one label), and its completed history is an engine
-- history with 20 calls, 14 touching a block, 6 of them `set` / `decr` (each with a `key_`, a row-vector and two block accesses)
example : ltsOKB EngEx.L3 = true ∧ isPartition [[0, 1, 2, 3]] EngEx.L3.n = true ∧ isConsistent [[0, 1, 2, 3]] [(0, 0)] = true ∧
    isTransB [(0, 0)] = true ∧ labels EngEx.L3 * EngEx.L3.n < 2 ^ 64 := by decide

example : (computeSimulationJ EngEx.L3 (SC.mkCfg 31 4 7 [[0, 1, 3]]) [[0, 1, 2, 3]] [(0, 0)] 4).map
    (fun rt => (rt.2.sc.length, (rt.2.sc.filter touchesBlock).length,
      (rt.2.sc.filter (fun op => (keyCellOf (SC.mkCfg 31 4 7 [[0, 1, 3]]) op).isSome)).length,
      firstOverflow ⟨31, 32⟩ (SC.mkCfg 31 4 7 [[0, 1, 3]]) rt.2.sc)) = some (20, 14, 6, none) := by decide

-- the same history checked against a block of 16 cells (what the variant's arithmetic would give if the bands were lower):
-- the first `set` is reported, with the reference-count cell 31
example : (computeSimulationJ EngEx.L3 (SC.mkCfg 31 4 7 [[0, 1, 3]]) [[0, 1, 2, 3]] [(0, 0)] 4).bind
    (fun rt => firstOverflow ⟨31, 16⟩ (SC.mkCfg 31 4 7 [[0, 1, 3]]) rt.2.sc) = some (.set 0 0 0 1, 31) := by decide

-- the hypothesis of the overflow theorem is satisfiable: an LTS with 4096 states and one label …
example : SC.getRowSize 1 < SC.getRowSize 4096 := (getRowSize_lt_iff (by omega)).2 (Nat.le_refl _)

-- … and the checked first access: fine with 64 cells, outside with 32 (row size 63, as for 4096 states / 1 label)
example : (setFreshB 64 (SC.mkCfg 63 4 7 [[0, 1, 3]]) SC.Mem.empty 2 5).isSome = true ∧
    setFreshB 32 (SC.mkCfg 63 4 7 [[0, 1, 3]]) SC.Mem.empty 2 5 = none := by decide

-- the hypothesis `getRowSize (labels) < getRowSize (states)` of the overflow theorem cannot be dropped: with equal sizes the
-- variant is the coded constructor
example : ctorVariant 4096 4096 = ctorAsCoded 4096 4096 := rfl

/-!
## still not proved

* `C20_counter_rows_in_bounds_partial` is PARTIAL in this sense: the accesses are those listed by `cellsOf` / `keyCellOf` /
  `rowIdxOf` (read off the bodies of `set`, `decr`, `init`, `~SharedCounter`, `copyLabels`, quoted in `Vata/CounterRows.lean`);
  the model `SC.setCell` is not itself bounds-checked, so "inside the block" is the conjunction (index `< allocSize`) ∧ (the
  block has exactly `allocSize` cells in the world of the call), not a statement derived from a checked heap.  A checked version
  of the whole class (`setCellB` in every member function) and its agreement with `SC.step` on engine histories is done only
  for the first accesses to a fresh block (`setFreshB_asCoded` in `Vata/Proofs/CounterRows.lean`).
* The accesses of `copyLabels` to `labelMap_[label]`, `cnt.data_[i]`, `this->data_[i]` and `rowMask[i]` (vectors, not blocks)
  are not listed; `SC.ok` requires `labels < labelMap_.size()` and `SC.copyRanges` cuts the ranges at `cnt.data_.size()`.
* That an engine history of a system with at least one transition CONTAINS a `set` (so that the overflow of the variant is
  actually reached, not only "reached by every call that touches a block") is shown on the example only; a run with 4096
  states cannot be `decide`d.  `firstOverflow` is executable and can be run on such a system outside the kernel.
* The hypothesis `labels L * L.n < 2 ^ 64` (from `C16_engine_discipline_SC`) is not dropped.
-/
end Vata.Props
