import Vata.Proofs.InclDownStackTop
import Vata.Proofs.InclUpTotal
/-!
# C01 — the call emulator of the non-recursive downward inclusion AS CODED

**Property served (C01).**  The verdict of `CheckInclusion` is exact for every selection of the algorithm; here the
selection `ANTICHAINS_DOWN_NONREC_NOSIM` (`src/explicit_tree_incl_down.cc`).  `Vata/Properties/C01.lean` proves exactness
for the model `inclDownNonrec`, in which the function `expand` is *recursive* (`InclDown.expandN`), and lists under "not
yet proved" that the real `expand` is written without recursion (explicit stack of `ExpandStackFrame`s,
`ExpandCallEmulator`, the macros `EXPAND_CALL` / `EXPAND_PUSH` / `EXPAND_RETURN` / `EXPAND_POP_RETURN`, the labels `_call`,
`_simret`, `_stdret`, `_nextchoice`, `_nexttuple`, `_end`).  This file closes that item.

**How the C++ is read into the model** (`Vata/InclDownStack.lean`, each transition quotes its C++ lines):
`Frame` = `struct ExpandStackFrame` (all fields the C++ `push` / `pop` save and restore), `Machine` = `top`, the saved
frames, the antichains `workset` and `nonincluded`, the registers `r_i`, `S`, `retAddr`, `found`, and a program counter
with one value per label / loop head; `stepM` is one transition, `runM n` at most `n` transitions (`none` = more are
needed).  `expandStack` starts the machine in the initial state of `expand`; `rootLoopS` / `runS` are
`checkInternal`; `inclDownNonrecStack` adds the certify-then-trust end of `inclDownNonrec`.
`ExpandCallEmulator::pop` is a parameter of the machine (`popAll` = the C++: every field is restored).

**Abstracted** (as in the recursive model, whose functions are reused for the call-free local computations):
iterators are suffixes of lists, hash-container orders are list orders; `smallerIndex` / `biggerIndex` and the
construction of `W` are `lhsGroups` / `lhsTuples` / `rhsTuples`; the `post` antichain is `posSet` with `maxElems`; the
`Antichain2Cv2` operations with `lte` / `gte` are `covers` / `niFind` / `niAdd`; `biggerTypeCache` / `lteCache` are
transparent; the test `smallerIndex.size() <= r_i` is the general path; the recycled-frame `swap`s of `push` leave dead
values; witnesses (`trees`, the tree inside `found`) and `trues` are ghost state for the certificate.

**Proved.**  One induction on the fuel of `expandN` (`InclDownStack.expandN_reach`), with one simulation lemma per C++
loop (`reach_simI`, `reach_tuple2`, `reach_cfI`, `reach_cfAll` — the `do … while (choiceFunction.next())` enumeration
against the nested recursion `cfAll` —, `reach_procTuple`, `reach_tuples`, `reach_body`): from `_call` with ANY `top` and
ANY stack of saved frames the machine reaches `EXPAND_RETURN` with the same `top`, the same stack, the same work-set,
`r_i`, `S`, `retAddr` as at the call, `found` = the verdict of `expandN` and `nonincluded` (and `trues`) = those of
`expandN`.  The full machine is covered, not only a skeleton.
-/
namespace Vata.Props
open InclDown InclDownStack
open InclUp (Wit Cert prodWit)

/-- **The stack machine refines the recursion.**  Whenever the recursive model `expandN` of `expand` (with any fuel, any
preorder `o`, on any automata, any contents of `nonincluded`) returns a result for the root call `(p, P)`, the stack
machine as coded, started in the initial state of `expand`, returns within some number `n` of transitions — and for
every larger bound — exactly the same verdict (with the same witness tree) and exactly the same final `nonincluded` (the
antichain that persists across the calls of `expand` from `checkInternal`) and ghost `trues`.  `expandN` itself passes
the `childrenCache` argument through. -/
theorem C01_stack_machine_refines_recursion (o : Ord) (A B : TA) (wit : Wit) (fuel : Nat) (cc : List Pair) (st : St)
    (p : Nat) (P : List Nat) (v : Verdict) (cc' : List Pair) (st' : St)
    (h : expandN o A B wit fuel [] cc st p P = some (v, cc', st')) :
    cc' = cc ∧ ∃ n, ∀ k, n ≤ k → expandStack o A B wit popAll k st p P = some (v, st') :=
  ⟨(expandN_reach fuel [] cc st p P v cc' st' h).1, expandStack_of_expandN h⟩

/-- the same for a call at any depth: from `_call` with any `top`, any saved frames `K`, the work-set `ws`, any return
address `k`, the machine gets to `EXPAND_RETURN` with everything restored, `found` and the antichains as the recursive
model says (the simulation invariant itself) -/
theorem C01_stack_machine_call_return (o : Ord) (A B : TA) (wit : Wit) (fuel : Nat) (ws cc : List Pair) (st : St)
    (q : Nat) (Q : List Nat) (v : Verdict) (cc' : List Pair) (st' : St)
    (h : expandN o A B wit fuel ws cc st q Q = some (v, cc', st')) (top : Frame) (K : List Frame) (k : Nat)
    (f0 : Verdict) :
    Reach o A B wit ⟨.call, top, K, ws, st, q, Q, k, f0⟩ ⟨.ret, top, K, ws, st', q, Q, k, v⟩ :=
  (expandN_reach fuel ws cc st q Q v cc' st' h).2 top K k f0

/-- `checkInternal` and the certified wrapper: every answer of the recursive models (`runN`, `inclDownNonrec`, any fuel)
is the answer of the stack-machine models for every sufficiently large bound on the transitions of one `expand` -/
theorem C01_stack_checkInternal_refines (A B : TA) (fuel : Nat) :
    (∀ o r, runN o A B fuel = some r → ∃ n, ∀ k, n ≤ k → runS o A B popAll k = some r) ∧
    (∀ r, inclDownNonrec A B fuel = some r → ∃ n, ∀ k, n ≤ k → inclDownNonrecStack A B k = some r) :=
  ⟨fun _ _ h => runS_of_runN h, fun _ h => inclDownNonrecStack_of_rec h⟩

/-- **Exactness of the stack machine.**  Every answer of `inclDownNonrecStack` (any operands, any bound `k`) is the
answer of the recursive model with the fuel `fuelBoundD A B + 1`, and its verdict is exact. -/
theorem C01_nonrec_stack_exact (A B : TA) (k : Nat) (b : Bool) (c : Cert)
    (h : inclDownNonrecStack A B k = some (b, c)) :
    inclDownNonrec A B (fuelBoundD A B + 1) = some (b, c) ∧ (b = true ↔ Incl A B) :=
  ⟨inclDownNonrecStack_eq h, inclDownNonrec_iff (inclDownNonrecStack_eq h)⟩

/- Full statement asked for: "… and total above an explicit bound (steps ≤ some function of the recursive fuel bound)":
   `∀ k, stepBound A B ≤ k → (Incl A B → ∃ c, inclDownNonrecStack A B k = some (true, c)) ∧ (¬ Incl A B → …false…)` with
   an explicit `stepBound`.  Proved below with an existential bound only: the simulation lemmas produce `Reach` (some
   number of transitions) and do not count them. -/
/-- **Totality (partial: the bound is not explicit).**  When the children of all rules of `A` are productive (the
hypothesis of `C01_downward_core_exact`, needed already for the recursive model; `InclDownEx.exUs` is the counterexample
without it) there is a number of transitions above which the stack machine returns the right verdict. -/
theorem C01_nonrec_stack_total_partial (A B : TA) (hA : KidsProductive A) :
    ∃ n, ∀ k, n ≤ k → (Incl A B → ∃ c, inclDownNonrecStack A B k = some (true, c)) ∧
      (¬ Incl A B → ∃ c, inclDownNonrecStack A B k = some (false, c)) := by
  have hc := inclDownNonrec_complete (A := A) (B := B) hA (fuel := fuelBoundD A B + 1) (by omega)
  obtain ⟨b, c, hbc⟩ := inclDownNonrec_total (A := A) (B := B) hA (fuel := fuelBoundD A B + 1) (by omega)
  obtain ⟨n, hn⟩ := inclDownNonrecStack_of_rec hbc
  refine ⟨n, fun k hk => ⟨fun hi => ?_, fun hi => ?_⟩⟩
  · obtain ⟨c', hc'⟩ := hc.1 hi
    rw [hc'] at hbc
    exact ⟨c', by rw [hn k hk, ← hbc]⟩
  · obtain ⟨c', hc'⟩ := hc.2 hi
    rw [hc'] at hbc
    exact ⟨c', by rw [hn k hk, ← hbc]⟩

/-! ### non-vacuity

(`decide +kernel`: plain kernel evaluation of the closed Boolean statement, no axiom; the elaborator's own evaluator
needs minutes for 60 transitions) -/

/-- the Boolean part of a result of `expand` -/
def verdictBit (r : Option (Verdict × InclDown.St)) : Option Bool :=
  r.map (fun x => match x.1 with | .holds => true | .fails _ => false)

-- the hypothesis of `C01_stack_machine_refines_recursion` on a non-trivial call (`g(x,y)` against `g(a,a) | g(b,b)`):
-- the recursive model answers (`false`), and so does the machine within 60 transitions
example : (expandN idOrd InclDownEx.exG InclDownEx.exH (prodWit InclDownEx.exG) 10 [] [] ⟨[], []⟩ 2 [9]).isSome = true := by
  decide +kernel
example : verdictBit ((expandN idOrd InclDownEx.exG InclDownEx.exH (prodWit InclDownEx.exG) 10 [] [] ⟨[], []⟩ 2 [9]).map
    (fun x => (x.1, x.2.2))) = some false := by decide +kernel
example : verdictBit (expandStack idOrd InclDownEx.exG InclDownEx.exH (prodWit InclDownEx.exG) popAll 60 ⟨[], []⟩ 2 [9])
    = some false := by decide +kernel
-- both verdicts of the certified wrapper occur; too few transitions give `none`
example : (inclDownNonrecStack InclDownEx.exG InclDownEx.exH 60).map (·.1) = some false := by decide +kernel
example : (inclDownNonrecStack InclDownEx.exH InclDownEx.exG 50).map (·.1) = some true := by decide +kernel
example : (inclDownNonrecStack InclDownEx.exG InclDownEx.exH 30).map (·.1) = none := by decide +kernel
example : KidsProductive InclDownEx.exG := (InclUp.trimmed_of_allUsefulB (by decide)).1

/-! ### regression: a `pop` that forgets to restore one local

`ExpandCallEmulator::pop` restores `top.a` (`top.a = ptr_->a;`).  `popNoA` does not: after a simulated return the caller
continues with the callee's symbol counter, which stands at the end of the callee's cluster, and skips its own
remaining symbols.  `A` : `a → 1`, `f(1) → 2`, `b → 2`, final `2` (the language `{f(a), b}`); `B` : `a → 11`,
`f(11) → 12`, final `12` (`{f(a)}`).  The machine of the C++ answers `false` (the tree `b`), the faulty one `true`. -/

def regA : TA := ⟨[⟨0, [], 1⟩, ⟨1, [1], 2⟩, ⟨2, [], 2⟩], [2]⟩
def regB : TA := ⟨[⟨0, [], 11⟩, ⟨1, [11], 12⟩], [12]⟩

example : rawVerdictStack popAll regA regB 25 = some false := by decide +kernel
example : rawVerdictStack popNoA regA regB 25 = some true := by decide +kernel
example : ∃ c, inclDownNonrecStack regA regB 25 = some (false, c) := ⟨_, rfl⟩
example : ¬ Incl regA regB := fun h =>
  absurd ((C01_nonrec_stack_exact regA regB 25 false (.witness (.node 2 [])) rfl).2.mpr h) (by decide)

/-!
## still not proved

* **No explicit bound on the number of transitions.**  `C01_nonrec_stack_total_partial` gives *some* number of
  transitions above which the machine answers; the simulation lemmas (`Reach`) do not count transitions.  An explicit
  bound (a function of `fuelBoundD A B`, `|A.rules|`, `|B.rules|` and the maximal arity: per frame at most
  `|A.rules|² · (|B.rules|·arity + arity^|B.rules|·arity)` calls) is not proved.
* The refinement is stated for the answers of the recursive model (`some`); when `expandN` runs out of its fuel (`none`,
  the nesting depth) nothing is claimed here — the machine has no depth limit; by `C01_nonrec_stack_exact` whatever it
  answers is the answer of the recursive model with the fuel `fuelBoundD A B + 1`.
* Only the `NOSIM` wrapper (`inclDownNonrecStack`, preorder `idOrd`) is defined; `C01_stack_machine_refines_recursion` and
  `runS_of_runN` hold for every preorder `o`, but the wrapper with a validated simulation (`inclDownNonrecSim`) on top of
  `runS` is not written out.
* The call-free local computations are those of the recursive model (see "Abstracted"): the index structures, the
  inner loops that fill `W` and `post`, the caches `biggerTypeCache` / `lteCache` and the real `Antichain2Cv2` class are
  not re-modelled here; the `CachingAllocator` recycling of frames is modelled as dead values.
-/
end Vata.Props
