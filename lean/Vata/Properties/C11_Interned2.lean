import Vata.Properties.C11_Interned
import Vata.Proofs.CowInternedLink2
import Vata.Proofs.CowInternedLink4
/-!
# C11 / C12 – the copy-on-write model and the eager-copy model of interned tuple sets agree; moves, storage-sharing results
and `ContainsTransition` for named automata over the one tuple cache

> C11.  Explicit tree automata are values: after copy construction / assignment the copy and the original can be modified
> (AddTransition, SetStateFinal, Clear, destruction) independently of one another, although the implementation shares the
> transition storage copy-on-write at three levels …
> C12.  … iterating the automaton yields each distinct rule added since the last Clear exactly once and nothing else, and
> ContainsTransition answers true exactly for those rules.

`Vata/Properties/C11_Interned.lean` ("still not proved"): *"The eager-copy model of `Vata/StoreInterned.lean` (`copyOutI`) is not
formally related to this one …  Move construction / move assignment and the storage-sharing library operations of
`Vata/CowHeapX.lean` (`shareAll`, `shareClusters`, `unionDisj`) are not threaded with the cache …  `ContainsTransition` … is in
`Vata/StoreInterned.lean` for one automaton, not here."*  This file closes the three items.

## How the C++ is read into the model (`Vata/CowInterned2.lean`, on top of `Vata/CowInterned.lean`)

* **Histories** `Op2` = the calls `Op` of `Vata/CowInterned.lean` (`base`) plus
  `move` (`transitions_(std::move(aut.transitions_))`: the root pointer changes its owner, NO use count changes, the
  moved-from name is dead), `moveAssign` (`shared_ptr::operator=(shared_ptr&&)` = `shared_ptr(std::move(r)).swap(*this)`:
  the OLD map pointer of the target is released – the cascade `releaseMapI` → `releaseClusterI` → `releaseTsI` may run
  `~TuplePtrSet()` and destroy `TuplePtr`s), `shareAll` (`RemoveUselessStates`, nothing removed:
  `ExplicitTreeAutCore result(cache_); result.transitions_ = transitions_;`), `shareClusters` (`RemoveUnreachableStates`:
  `result.transitions_ = Ptr(new Map()); for (state : reachable) result.transitions_->insert(make_pair(state, iter->second))`),
  `unionDisj` (`UnionDisjointStates`: `ExplicitTreeAutCore res(lhs); res.uniqueClusterMap()->insert(rhs…begin(), rhs…end())`)
  and `query` (`ContainsTransition`).  The heap actions are those of `Vata/CowHeapX.lean` re-coded over heap × cache with the
  THREADED releases of `Vata/CowInterned.lean` (`…_fst`: the heap component of every threaded action IS the `CowHeapX` action);
  they copy and release `shared_ptr`s to NODES only, so the only way they reach a `TuplePtr` is a release cascade that
  frees a tuple set.  Guards as in `CowHeapX.stepX` (calls that are not C++ programs are no-ops).
* **`containsMI`** = `ContainsTransition` on the automaton named `h`: `transitions_->find(parent)`, `cluster.find(symbol)` –
  through the possibly SHARED map / cluster nodes, no `unique…` call, nothing cloned –, then `tupleLookup(children)` (a
  temporary `TuplePtr`: the asked tuple is INTERNED for the duration of the call, a node is created and destroyed if it is
  unknown; the allocator offer `ch` is part of the call), `tuplePtrSet.find` comparing POINTERS (`contains (cell p)`), death
  of the temporary.  When one of the two `find`s fails nothing is interned.
* **The eager-copy reading** `projI s h : Option StoreI.Sys` of automaton `h` in the copy-on-write world `s`: tuple sets of
  `h` as lists of identities (`toI`), `final`, `ext` := the identities every OTHER live automaton would hold after an eager
  copy (`heldBy`, one occurrence per automaton, map entry, cluster entry and set element) ++ the outside holders, and the
  cache with the same tuples at the same addresses and `use_count` := number of eager holders (`eagerCache`).  This is
  the world `Vata/StoreInterned.lean` talks about ("a copy of the automaton is an EAGER copy of its tuple sets owned by the
  environment").
* **Abstracted**: as in `Vata/Properties/C11_Interned.lean` (container order, control block folded into the map entry).

## What is proved

`C11_interned_models_agree` (+ `_counts`, `_liveness`, `_add`, `_contains`, `_other`), `C11_interned_refines_values2`,
`C11_interned_cache_inv2`, `C11_interned_no_leak2`, `C11_interned_total2`, `C11_interned_move_touches_no_tuple`,
`C11_interned_threaded_is_CowHeapX`, `C11_interned_conservative`, `C12_interned_contains_exact_multi` (+ `_iterate`).
-/
namespace Vata.Props
open Vata Vata.CowI
open Vata.CowHeapX (specStepX specInitX HOpX ValX)

/-! ### 1. the two models agree -/

/-- **The copy-on-write world, seen from one automaton, IS a world of the eager-copy model.**  Let `s` be reachable by any
    history of calls on any number of named automata (copies, assignments, moves, storage-sharing results, queries,
    pointer traffic – every allocator, every interleaving) and let automaton `x` be alive with value `v`.  Then the
    eager-copy reading `t = projI s x`
    * satisfies the invariant `StoreI.Inv` of `Vata/StoreInterned.lean` (use count = number of holders, nothing dangles, one
      address per tuple and one tuple per address) – so every theorem of `Vata/Properties/C12_Interned.lean` that starts
      from `StoreI.Inv` applies to each automaton of the copy-on-write world;
    * has the value store `v` (the value-level views coincide);
    * has the same tuples at the same addresses in its cache as the real cache (an entry is alive in one iff in the other);
    * holds exactly the identities the real world holds (in live tuple-set nodes, every shared node ONCE, or outside). -/
theorem C11_interned_models_agree {ops : List Op2} {s : Sys} (h : run2 .lib ops = some s) {x : Nat} {v : ValX}
    (hv : absV s x = some v) :
    ∃ t, projI s x = some t ∧ StoreI.Inv t ∧ StoreI.abs t = v ∧
      (∀ w id, (∃ rc, (w, id, rc) ∈ t.cache) ↔ (∃ rc, (w, id, rc) ∈ s.cache)) ∧
      (∀ id, id ∈ StoreI.refs t ↔ id ∈ refsT s.hx.core ++ s.ext) := by
  have hi := (run2_lib h).1
  have hx := mem_of_absV hv
  refine ⟨_, projI_of_mem hx, projI_inv hi (projI_of_mem hx), ?_, ?_, ?_⟩
  · have := projI_abs hi (projI_of_mem hx)
    rw [hv] at this
    exact (Option.some.inj this).symm
  · intro w id
    exact eager_same_entries s w id
  · intro id
    rw [← mem_eagerRefs hi.heap, ← List.count_pos_iff, ← List.count_pos_iff, count_refs_projI (projI_of_mem hx)]

/-- **Sharing holds an identity ONCE where the eager copy holds it once per automaton.**  For every cache entry the real
    `use_count` (cells of live tuple-set nodes + outside holders) is at most the `use_count` of the eager reading, both
    are positive, and the eager one is the number of holders of the projection.  (Strictly smaller on
    `C11_ex_counts`: 1 against 5.) -/
theorem C11_interned_models_agree_counts {ops : List Op2} {s : Sys} (h : run2 .lib ops = some s) {x : Nat}
    {t : StoreI.Sys} (ht : projI s x = some t) {w : List Nat} {id rc : Nat} (hm : (w, id, rc) ∈ s.cache) :
    ∃ rc', (w, id, rc') ∈ t.cache ∧ rc' = (StoreI.refs t).count id ∧ 0 < rc ∧ rc ≤ rc' := by
  have hi := (run2_lib h).1
  have hc := use_count hi hm
  refine ⟨(eagerRefs s).count id, ?_, (count_refs_projI ht id).symm, hc.2, ?_⟩
  · rw [projI_cache ht]
    exact mem_eagerCache.2 ⟨rfl, rc, hm⟩
  · have := shared_count_le_eager hi.heap id
    unfold eagerRefs
    rw [List.count_append]
    omega

/-- **No identity dies while some automaton's value contains its tuple – in both models.**  Every children tuple that
    occurs in the value of a live automaton `x` is an entry of the real cache with a positive use count, held by a live
    tuple-set node, and an entry (same address) of the cache of the eager reading of ANY live automaton `y`, with a
    positive use count there. -/
theorem C11_interned_models_agree_liveness {ops : List Op2} {s : Sys} (h : run2 .lib ops = some s) {x : Nat} {v : ValX}
    (hv : absV s x = some v) {tup : List Nat} (htup : tup ∈ tuplesOf v) {y : Nat} {t : StoreI.Sys}
    (ht : projI s y = some t) :
    ∃ id rc rc', (tup, id, rc) ∈ s.cache ∧ 0 < rc ∧ id ∈ refsT s.hx.core ∧
      (tup, id, rc') ∈ t.cache ∧ 0 < rc' ∧ id ∈ StoreI.refs t := by
  have hi := (run2_lib h).1
  obtain ⟨id, rc, hm, hid⟩ := tuple_live hi hv htup
  have hm' : (tup, id, (eagerRefs s).count id) ∈ t.cache := by
    rw [projI_cache ht]
    exact mem_eagerCache.2 ⟨rfl, rc, hm⟩
  have hpos := ((projI_inv hi ht).cnt _ _ _ hm').2
  refine ⟨id, rc, _, hm, (use_count hi hm).2, hid, hm', hpos, ?_⟩
  rw [← List.count_pos_iff, count_refs_projI ht]
  exact hpos

/-- **`AddTransition` agrees.**  The call on automaton `x` of the copy-on-write world (which may clone a shared map node,
    cluster node and tuple set and copy every `TuplePtr` of the set) and the call of the one-automaton model on the
    eager reading, with the same allocator offer: the latter succeeds too, keeps `StoreI.Inv`, and its value store is the
    value store of the eager reading of the new world. -/
theorem C11_interned_models_agree_add {ops : List Op2} {s s' : Sys} (h : run2 .lib ops = some s) {x : Nat} {r : Rule}
    {ch : Nat} (hs : stepC2 .lib s (.base (.add x r ch)) = some s') {t : StoreI.Sys} (ht : projI s x = some t) :
    ∃ t' u, StoreI.addI .lib t r ch = some t' ∧ StoreI.Inv t' ∧ projI s' x = some u ∧ StoreI.abs t' = StoreI.abs u :=
  agree_add (run2_lib h).1 hs ht

/-- **`ContainsTransition` agrees.**  With an offer the allocator can make (not the address of a live tuple – the same
    condition in both models) the call on automaton `x` of the copy-on-write world and the call of the one-automaton model
    on the eager reading both succeed, give the SAME answer (that of `Store.contains` on the value), change no value
    and keep the invariants. -/
theorem C11_interned_models_agree_contains {ops : List Op2} {s : Sys} (h : run2 .lib ops = some s) {x : Nat} (r : Rule)
    {ch : Nat} {t : StoreI.Sys} (ht : projI s x = some t) (hch : ch ∉ StoreI.liveIds s.cache) :
    ∃ s' t' b, containsMI s x r ch = some (s', b) ∧ StoreI.containsI .lib t r ch = some (t', b) ∧
      Inv' s' ∧ absV s' = absV s ∧ StoreI.Inv t' ∧ StoreI.abs t' = StoreI.abs t ∧
      b = Store.contains (StoreI.abs t) r :=
  agree_contains r (run2_lib h).1 ht hch

/-- **Whatever the others do is environment activity.**  A call that does not target `x` (calls on other automata –
    including copies of `x`, assignments FROM `x`, results sharing the storage of `x` –, pointer traffic, queries) leaves
    the value store of the eager reading of `x` unchanged, as `copyOut` / `envLookup` / `envRelease` do in
    `Vata/StoreInterned.lean`. -/
theorem C11_interned_models_agree_other {ops : List Op2} {s s' : Sys} {op : Op2} (h : run2 .lib ops = some s)
    (hs : stepC2 .lib s op = some s') {x : Nat} (hx : ∀ o, valOp2 s op = some o → x ∉ CowHeapX.targets o)
    {t : StoreI.Sys} (ht : projI s x = some t) :
    ∃ u, projI s' x = some u ∧ StoreI.Inv u ∧ StoreI.abs u = StoreI.abs t := by
  have hi := (run2_lib h).1
  obtain ⟨hi', hv⟩ := stepC2_lib hi hs
  have hvx : absV s' x = absV s x := by
    rw [hv]
    cases ho : valOp2 s op with
    | none => rfl
    | some o => exact CowHeapX.specStepX_other _ o x (hx o ho)
  rw [projI_abs hi ht] at hvx
  have hx' := mem_of_absV hvx
  refine ⟨_, projI_of_mem hx', projI_inv hi' (projI_of_mem hx'), ?_⟩
  have := projI_abs hi' (projI_of_mem hx')
  rw [hvx] at this
  exact (Option.some.inj this).symm

/-! ### 2. move and the storage-sharing results threaded with the cache -/

/-- **Every automaton denotes the value the value-level specification gives it** – now for histories with moves,
    `shareAll` / `shareClusters` / `unionDisj` results and `ContainsTransition` calls (extends
    `C11_interned_refines_values`): `specStepX` moves the value with a move (the source dies), gives the result of a
    sharing operation the filtered / united value, and changes nothing else. -/
theorem C11_interned_refines_values2 {ops : List Op2} {s : Sys} (h : run2 .lib ops = some s) :
    absV s = (valOps2 CowI.init ops).foldl specStepX specInitX := by
  rw [← C11_absV_init]
  exact (run2_lib h).2

/-- one call in a reachable state -/
theorem C11_interned_refines_values2_step {ops : List Op2} {s s' : Sys} {op : Op2} (h : run2 .lib ops = some s)
    (hs : stepC2 .lib s op = some s') : absV s' = specV (absV s) (valOp2 s op) :=
  (stepC2_lib (run2_lib h).1 hs).2

/-- **The cache invariant under sharing** for the extended histories (extends `C11_interned_cache_inv`): use count =
    number of tuple-set CELLS holding the address (every shared node once) + outside holders, positive; no entry dies
    while a live set or a temporary holds it; the reference-count invariant of the three node levels. -/
theorem C11_interned_cache_inv2 {ops : List Op2} {s : Sys} (h : run2 .lib ops = some s) :
    (∀ v id rc, (v, id, rc) ∈ s.cache → rc = (refsT s.hx.core).count id + s.ext.count id ∧ 0 < rc) ∧
    (∀ id, id ∈ refsT s.hx.core ++ s.ext → ∃ v rc, (v, id, rc) ∈ s.cache ∧ StoreI.derefC s.cache id = v) ∧
    CowHeapX.InvX s.hx := by
  have hi := (run2_lib h).1
  exact ⟨fun v id rc hm => use_count hi hm, fun id hid => held_is_live hi hid, hi.heap⟩

/-- all entries die when all automata die (extends `C11_interned_no_leak`) -/
theorem C11_interned_no_leak2 {ops : List Op2} {s : Sys} (h : run2 .lib ops = some s) (hl : s.hx.core.hl = [])
    (he : s.ext = []) : s.cache = [] ∧ s.hx.core.ml = [] ∧ s.hx.core.cl = [] ∧ s.hx.core.tl = [] := by
  have hi := (run2_lib h).1
  exact ⟨no_leak hi hl he, CowHeapX.no_garbageX hi.heap hl⟩

/-- a call fails only on an impossible allocator choice (extends `C11_interned_total`; `query` offers an address too) -/
theorem C11_interned_total2 (md : Mode) (s : Sys) (op : Op2)
    (h : ∀ ch, opChoice2 op = some ch → ch ∉ StoreI.liveIds s.cache) : (stepC2 md s op).isSome = true :=
  stepC2_isSome md s op h

/-- **A move touches no tuple pointer and no node**: the cache, the tuple-set nodes and all use counts are literally
    unchanged (`std::move` of the root `shared_ptr`). -/
theorem C11_interned_move_touches_no_tuple {s s' : Sys} {src dst : Nat} (hs : stepC2 .lib s (.move src dst) = some s') :
    s'.cache = s.cache ∧ s'.ext = s.ext ∧ refsT s'.hx.core = refsT s.hx.core ∧ s'.hx.core.trc = s.hx.core.trc ∧
      s'.hx.core.crc = s.hx.core.crc ∧ s'.hx.core.mrc = s.hx.core.mrc := by
  simp only [stepC2] at hs
  split at hs
  · rw [← Option.some.inj hs]
    exact ⟨rfl, rfl, rfl, rfl, rfl, rfl⟩
  · rw [← Option.some.inj hs]
    exact ⟨rfl, rfl, rfl, rfl, rfl, rfl⟩

/-- the heap component of every threaded action IS the action of the copy-on-write heap of `Vata/CowHeapX.lean` -/
theorem C11_interned_threaded_is_CowHeapX (S : HC) (a b dst : Nat) (keep : Nat → Bool) :
    (moveI S a dst).1 = CowHeapX.moveCore S.1 a dst ∧
    (moveAssignI S a dst).1 = CowHeapX.moveAssignCore S.1 a dst ∧
    (shareAllI S a dst).1 = CowHeapX.shareAllCore S.1 a dst ∧
    (shareClustersI S a dst keep).1 = CowHeapX.shareClustersCore S.1 a dst keep ∧
    (unionDisjI S a b dst).1 = CowHeapX.unionDisjCore S.1 a b dst :=
  ⟨moveI_fst S a dst, moveAssignI_fst S a dst, shareAllI_fst S a dst, shareClustersI_fst S a dst keep,
    unionDisjI_fst S a b dst⟩

/-- the extended histories are conservative over those of `Vata/CowInterned.lean` -/
theorem C11_interned_conservative (md : Mode) (s : Sys) (ops : List Op) :
    runFrom2 md s (ops.map Op2.base) = runFrom md s ops := by
  induction ops generalizing s with
  | nil => rfl
  | cons op ops ih =>
    simp only [List.map_cons, runFrom2, runFrom, stepC2]
    cases stepC md s op with
    | none => rfl
    | some s' => exact ih s'

/-! ### 3. `ContainsTransition` for named automata -/

/-- **`ContainsTransition`, for any automaton of a copy-on-write world.**  In every reachable state the call on automaton
    `x` – which walks the shared nodes, interns the asked tuple, compares POINTERS and drops the temporary – answers what
    `Store.contains` answers on the VALUE the value-level specification gives to `x` after the history (`false` on a dead
    name); it changes the value of no automaton, keeps the invariant, and is the `query` step of the histories (so any
    history can go on after it). -/
theorem C12_interned_contains_exact_multi {ops : List Op2} {s s' : Sys} (h : run2 .lib ops = some s) {x : Nat}
    {r : Rule} {ch : Nat} {b : Bool} (hc : containsMI s x r ch = some (s', b)) :
    b = (match (valOps2 CowI.init ops).foldl specStepX specInitX x with
         | some v => Store.contains v r
         | none => false) ∧
    absV s' = absV s ∧ Inv' s' ∧ stepC2 .lib s (.query x r ch) = some s' := by
  obtain ⟨a1, a2, a3⟩ := containsMI_lib (run2_lib h).1 hc
  refine ⟨?_, a2, a1, ?_⟩
  · rw [← C11_interned_refines_values2 h]
    exact a3
  · simp only [stepC2, hc, Option.map_some]

/-- … and for a value with unique state / symbol keys (`Store.invB`, which every `Store.run` value satisfies) the answer
    is `true` exactly for the rules the iteration of the value yields.  (That ALL values of `specStepX` satisfy
    `Store.invB` is not proved – see below; without unique keys `find` sees the first entry only:
    `C12_contains_needs_keys`.) -/
theorem C12_interned_contains_exact_multi_iterate {ops : List Op2} {s s' : Sys} (h : run2 .lib ops = some s) {x : Nat}
    {v : ValX} (hv : absV s x = some v) (hinv : Store.invB v = true) {r : Rule} {ch : Nat} {b : Bool}
    (hc : containsMI s x r ch = some (s', b)) : b = true ↔ r ∈ Store.iterate v := by
  obtain ⟨_, _, a3⟩ := containsMI_lib (run2_lib h).1 hc
  rw [hv] at a3
  simp only at a3
  rw [a3]
  exact Store.contains_iff_mem_iterate ((Store.invB_iff v).1 hinv) r

theorem C12_contains_needs_keys :
    Store.contains ⟨[(1, [(7, [[]])]), (1, [(8, [[]])])], []⟩ ⟨8, [], 1⟩ = false ∧
    (⟨8, [], 1⟩ : Rule) ∈ Store.iterate ⟨[(1, [(7, [[]])]), (1, [(8, [[]])])], []⟩ := by decide

/-! ### non-vacuity -/

/-- automaton 1 gets a rule; 2 is a copy, moved to 3, which gets a second rule (cloning map, cluster); 4 shares the whole
    map of 1; 5 shares the clusters of 3 for state 5; 6 is the disjoint union of 1 and 3; a query on 6 for a known rule (no
    node created: the offer 102 is unused); `SetStateFinal`; then 1 is move-assigned to 3 -/
def C11_ex_ops : List Op2 :=
  [.base (.new 1), .base (.add 1 ⟨7, [3, 4], 5⟩ 100), .base (.copy 1 2), .move 2 3, .base (.add 3 ⟨8, [4], 6⟩ 101),
   .shareAll 1 4 (fun _ => true), .shareClusters 3 5 (fun q => q == 5), .unionDisj 1 3 6,
   .query 6 ⟨8, [4], 6⟩ 102, .base (.setFinal 1 5), .moveAssign 1 3]

/-- before the move assignment five automata are alive over TWO tuple-set nodes: the real use counts are 1 and 1, an eager
    copy would hold `[3, 4]` five times and `[4]` twice -/
theorem C11_ex_counts :
    (run2 .lib (C11_ex_ops.take 10)).map (fun s => (s.hx.core.hl, s.hx.core.tl, refsT s.hx.core)) =
      some ([6, 5, 4, 3, 1], [5, 2], [101, 100]) ∧
    (run2 .lib (C11_ex_ops.take 10)).map (fun s => (s.cache, invB s)) =
      some ([([3, 4], 100, 1), ([4], 101, 1)], true) ∧
    (run2 .lib (C11_ex_ops.take 10)).map (fun s => (eagerRefs s, eagerCache s)) =
      some ([100, 101, 100, 100, 100, 101, 100], [([3, 4], 100, 5), ([4], 101, 2)]) := by
  refine ⟨by decide, by decide, by decide⟩

/-- the eager reading of automaton 6 there, and it passes the executable invariant test of `Vata/StoreInterned.lean` -/
example : (run2 .lib (C11_ex_ops.take 10)).map (fun s => (projI s 6).map (fun t => (t, StoreI.invB t))) =
    some (some ({ cache := [([3, 4], 100, 5), ([4], 101, 2)], clusters := [(5, [(7, [100])]), (6, [(8, [101])])],
                  final := [], ext := [100, 100, 100, 101, 100] }, true)) := by decide

/-- the values at the end: 1 and 2 are dead (moved from), 3 took over the value of 1 with its final state, 6 keeps both rules
    although 3 – from which it got the cluster of state 6 – was overwritten -/
example : (run2 .lib C11_ex_ops).map (fun s => [1, 2, 3, 4, 5, 6].map (absV s)) =
    some [none, none, some ⟨[(5, [(7, [[3, 4]])])], [5]⟩, some ⟨[(5, [(7, [[3, 4]])])], []⟩,
          some ⟨[(5, [(7, [[3, 4]])])], []⟩, some ⟨[(5, [(7, [[3, 4]])]), (6, [(8, [[4]])])], []⟩] ∧
    (run2 .lib C11_ex_ops).map (fun s => (s.cache, invB s)) = some ([([3, 4], 100, 1), ([4], 101, 1)], true) := by
  refine ⟨by decide, by decide⟩

/-- a move assignment can kill tuples: the old value of the target was the last holder of `[4]` -/
example : (run2 .lib [.base (.new 1), .base (.add 1 ⟨7, [3, 4], 5⟩ 100), .base (.new 2), .base (.add 2 ⟨8, [4], 6⟩ 101),
      .moveAssign 1 2]).map (fun s => (s.hx.core.hl, s.cache, s.hx.core.tl, invB s)) =
    some ([2], [([3, 4], 100, 1)], [2], true) := by decide

/-- `ContainsTransition` on the union automaton 6 (its nodes are shared with 1, 3, 4, 5): a known rule; an unknown tuple
    (a cache node is created at 102 and destroyed: the cache is unchanged); and the offer 100 – the address of a live
    tuple – is refused -/
example :
    (run2 .lib (C11_ex_ops.take 8)).bind (fun s => (containsMI s 6 ⟨8, [4], 6⟩ 102).map (·.2)) = some true ∧
    (run2 .lib (C11_ex_ops.take 8)).bind (fun s => (containsMI s 6 ⟨8, [9], 6⟩ 102).map (fun x => (x.2, x.1.cache))) =
      some (false, [([3, 4], 100, 1), ([4], 101, 1)]) ∧
    (run2 .lib (C11_ex_ops.take 8)).bind (fun s => (containsMI s 6 ⟨8, [9], 6⟩ 100).map (·.2)) = none ∧
    (run2 .lib (C11_ex_ops.take 8)).bind (fun s => (containsMI s 2 ⟨7, [3, 4], 5⟩ 102).map (·.2)) = some false := by
  refine ⟨by decide, by decide, by decide, by decide⟩

/-- the hypotheses of the theorems are satisfiable: the history runs, automaton 6 is alive, its value passes `Store.invB`,
    and the value-level reading of the history has 10 calls (the query is invisible) -/
example : (run2 .lib C11_ex_ops).isSome = true ∧
    (run2 .lib C11_ex_ops).map (fun s => (absV s 6).map Store.invB) = some (some true) ∧
    (valOps2 CowI.init C11_ex_ops).length = 10 := by
  refine ⟨by decide, by decide, by decide⟩

/-!
## still not proved

* The agreement of the two models is stated per STATE (`projI` of every reachable copy-on-write state is a consistent state
  of the eager-copy model with the same value, the same live tuples at the same addresses, the same set of held
  identities) and per CALL up to the value store (`_add`, `_contains`, `_other`); that `projI` commutes with the calls
  LITERALLY (`addI .lib (projI s x) r ch = projI s' x`, including the order of the cache list) is not proved, and a history
  of the copy-on-write world is not translated into one `StoreI.OpI` history (`copyOut` / `envRelease` sequences).
* `C11_interned_models_agree_counts` gives `≤` between the real and the eager use count; the exact eager count (number of
  paths automaton → map entry → cluster entry → cell) is its definition, not related to `use_count`s of NODES.
* That every value of `CowHeapX.specStepX` satisfies `Store.invB` (unique state / symbol keys; `unionStore` and the filters
  keep it) is not proved; `C12_interned_contains_exact_multi_iterate` takes it as a (decidable, on the example `true`)
  hypothesis.  The main form `C12_interned_contains_exact_multi` needs no such hypothesis.
* For `shareAll` / `shareClusters` / `unionDisj` the threaded actions are proved to keep the invariants and refine the
  values; that they leave the cache LITERALLY unchanged (the only release they perform hits a fresh empty map node or only
  decrements) is evaluated on the example, proved only for `move`.
* `SetStatesFinal`, `EraseFinalStates`, the selective copy constructor and `ReindexStates` of `CowHeapX` are not in `Op2`
  (they touch no tuple pointer; `ReindexStates` is a sequence of `add` / `setFinal`).  The constructor with a NON-global tuple
  cache, the pointer ORDER of `std::set<TuplePtr>`: as in `Vata/Properties/C11_Interned.lean`.
-/

end Vata.Props
