import Vata.Lang
import Vata.Spec
import Vata.TrimCoded
import Vata.Proofs.TrimCodedResult
import Vata.Proofs.PropAux
/-!
# C03 (coded) – the work-lists of explicit trimming AS CODED

> RemoveUnreachableStates and RemoveUselessStates return an automaton with the same language as their input.  After
> RemoveUnreachableStates every state that still occurs is reachable top-down from a final state; after
> RemoveUselessStates every remaining state and rule takes part in some accepting run.  IsLangEmpty returns true exactly
> when the automaton accepts no tree.

This file closes the two items "the shortcut is not a branch of the model" and "the `remaining` counters are modelled
by rounds" of `Vata/Properties/C03.lean`.

## How the C++ is read into the model (`Vata/TrimCoded.lean`; every definition quotes the lines it mirrors)

* `src/explicit_tree_useless.cc`, `ExplicitTreeAutCore::RemoveUselessStates` → `uselessCoded`:
  the first loop over all transitions (`initLoop`/`initStep`: a leaf transition is pushed to `reachableTransitions`
  and its parent inserted/pushed; a non-leaf transition is appended to `stateMap[s]` and `++remaining` once for every
  element `s` of its `childrenSet_`, a `std::set`, so a REPEATED child is counted once), the `while` over the stack
  `newStates` (`mainLoop`: pop, `stateMap.find`, for every registered info `reachedBy` = erase from `childrenSet_` and
  test emptiness (`innerStep`); when it fires: `push_back`, `--remaining` – ONCE PER TRANSITION, although the counter was
  incremented once per distinct child –, insert/push the parent), the filtering of the final states, the branch
  `if (!remaining)` (share `transitions_`) versus re-adding the fired transitions, and the final call of
  `RemoveUnreachableStates` (`finish`).
  So in the C++ `remaining == 0` does not mean "no pair is waiting" but "as many transitions fired as pairs were
  registered"; it can only hold when every non-leaf transition has exactly one distinct child and fired.  The branch is
  therefore a conservative shortcut; `C03_coded_useless_shortcut_sound` proves it sound.
* `src/explicit_tree_unreach.cc`, `RemoveUnreachableStates` → `unreachCoded`: seed set/stack from the final states,
  `while` loop with `genericLookup` (`clusterOf`) and insert/push of every child (`unreachLoop`, `procCluster`,
  `pushNew`), the repaired shortcut "every cluster owner is reachable → `return *this`" (`testOwners`), else the new
  cluster map built by iterating over `reachableStates` (`R.flatMap (clusterOf A)`).
* `IsLangEmpty` (`explicit_tree_aut_core.hh`) → `isLangEmptyCoded`.
* Hash-container iteration orders are list orders (rule order of the input, insertion order of the sets); the theorems
  hold for every input list, i.e. for every order.  Shared pointers to `TransitionInfo` are indices.
* Fuel: `mainLoop` runs with fuel `|rules|`, `unreachLoop` with `unreachFuel A = |dedup final| + |states|`;
  `C03_coded_total` proves that the work-lists are empty at the end (so no iteration is cut off).
* The slips are the same code with another parameter: `uselessWith decArity …` (`remaining -= arity`),
  `unreachWith testSizes` (the shortcut before commit f15a7dcd).

## Abstracted

* The pointer structure (`transitions_` as a map of maps with shared clusters; `result.transitions_ = transitions_`
  is "the same rule list"): sharing is the subject of C11.  A cluster owner with an EMPTY cluster does not exist in the
  rule-list view.  `pTranslMap` (identity map on the reachable states) is not modelled.
* `std::set` iteration order of `childrenSet_` (insertion order is used; it has no influence, see `Vata/TrimCoded.lean`).
* The relation-parametrised template `RemoveUnreachableStates(rel, index)` of `explicit_tree_unreach.hh` is not modelled.
* `assert`s are not branches of the model; that the one in `reachedBy` never fails is part of the loop invariant
  (`TrimCoded.Inv.assert_holds`).
-/
namespace Vata.Props
open Vata Vata.TrimCoded

/-! ### the computed sets -/

/-- the counters/work-list of `RemoveUselessStates` compute exactly the productive states, the work-list of
`RemoveUnreachableStates` exactly the states reachable top-down from a final state (no hypothesis on `A`) -/
theorem C03_coded_worklists_exact (A : TA) :
    (∀ q, q ∈ prodCoded A ↔ q ∈ prodStates A) ∧ (∀ q, q ∈ prodCoded A ↔ Productive A q) ∧
    (∀ q, q ∈ unreachSet A ↔ q ∈ tdReach A) ∧ (∀ q, q ∈ unreachSet A ↔ TdReachable A q) :=
  ⟨mem_prodCoded A, fun q => (mem_prodCoded A q).trans (prodStates_iff A q),
    mem_unreachSet A, fun q => (mem_unreachSet A q).trans (tdReach_iff A q)⟩

example : prodCoded TrimEx.exA = [0, 4, 1, 5] ∧ unreachSet TrimEx.exA = [1, 3, 2, 0] := by decide

/-- totality: with the fuel built into `uselessCoded` / `unreachCoded` both work-lists are empty at the end -/
theorem C03_coded_total (A : TA) :
    (finalSt decOne A).work = [] ∧
    (unreachLoop A (unreachFuel A) (dedupL A.final, (dedupL A.final).reverse)).2 = [] :=
  ⟨finalSt_work A, unreachLoop_done A⟩

example : (finalSt decOne TrimEx.exA).rtrans = [0, 3, 1, 4] ∧ (finalSt decOne TrimEx.exA).remaining = 2 := by decide

/-! ### `RemoveUnreachableStates` as coded -/

/-- `unreachCoded A` and `removeUnreachable A` have equal final-state lists and the same rules up to order and
multiplicity (mutual membership) -/
theorem C03_coded_unreach_same (A : TA) :
    (unreachCoded A).final = (removeUnreachable A).final ∧
    (∀ r, r ∈ (unreachCoded A).rules ↔ r ∈ (removeUnreachable A).rules) :=
  ⟨unreachCoded_final A, mem_unreachCoded_rules A⟩

/-- when the shortcut fires the input is returned AND the filter of the slow path / of `removeUnreachable` removes
nothing (equal lists); conversely the shortcut fires whenever nothing would be removed -/
theorem C03_coded_unreach_shortcut_sound (A : TA) :
    (testOwners A (unreachSet A) = true → unreachCoded A = A ∧ removeUnreachable A = A) ∧
    (testOwners A (unreachSet A) = true ↔ (removeUnreachable A).rules = A.rules) :=
  ⟨shortcut_sound A, shortcut_iff A⟩

-- both branches occur
example : testOwners (removeUnreachable TrimEx.exA) (unreachSet (removeUnreachable TrimEx.exA)) = true ∧
    testOwners TrimEx.exA (unreachSet TrimEx.exA) = false := by decide

/-- same language -/
theorem C03_coded_unreach_lang (A : TA) : LangEq (unreachCoded A) A :=
  fun t => ((unreachCoded_equiv A).lang t).trans (removeUnreachable_lang A t)

/-- every state that still occurs is reachable top-down from a final state -/
theorem C03_coded_unreach_post (A : TA) (q : Nat) (h : Occurs (unreachCoded A) q) : TdReachable (unreachCoded A) q :=
  (unreachCoded_equiv A).symm.tdReachable (removeUnreachable_post A q ((unreachCoded_equiv A).occurs h))

example : (unreachCoded TrimEx.exA).rules = [⟨1, [0, 0], 1⟩, ⟨2, [2], 3⟩, ⟨0, [], 0⟩] ∧ TrimEx.exA.rules.length = 5 ∧
    accepts (unreachCoded TrimEx.exA) TrimEx.exT = true := by decide

/-! ### `RemoveUselessStates` as coded -/

/-- `uselessCoded A` and `removeUseless A` have equal final-state lists and the same rules up to order and
multiplicity (mutual membership) -/
theorem C03_coded_useless_same (A : TA) :
    (uselessCoded A).final = (removeUseless A).final ∧
    (∀ r, r ∈ (uselessCoded A).rules ↔ r ∈ (removeUseless A).rules) :=
  ⟨uselessCoded_final A, (uselessCoded_equiv A).1⟩

/-- the branch `if (!remaining)`: when the counter is 0 at the end, every rule of the input survives the restriction
to the productive states, so sharing `transitions_` equals re-adding the fired transitions -/
theorem C03_coded_useless_shortcut_sound (A : TA) (h : (finalSt decOne A).remaining = 0) :
    (restrict A (prodStates A)).rules = A.rules := by
  unfold restrict
  simp only
  rw [List.filter_eq_self]
  intro r hr
  have := remaining_zero_sound A h r hr
  unfold restrict at this
  exact (List.mem_filter.mp this).2

-- the branch is taken on a unary automaton, and not on `exA`
example : (finalSt decOne ⟨[⟨0, [], 0⟩, ⟨1, [0], 1⟩, ⟨2, [1, 1], 2⟩], [2]⟩).remaining = 0 ∧
    (finalSt decOne TrimEx.exA).remaining = 2 := by decide

/-- same language -/
theorem C03_coded_useless_lang (A : TA) : LangEq (uselessCoded A) A :=
  fun t => ((uselessCoded_equiv A).lang t).trans (removeUseless_lang A t)

/-- every remaining state and every remaining rule takes part in some accepting run -/
theorem C03_coded_useless_post (A : TA) :
    (∀ q, Occurs (uselessCoded A) q → UsefulState (uselessCoded A) q) ∧
    (∀ r, r ∈ (uselessCoded A).rules → UsefulRule (uselessCoded A) r) :=
  ⟨fun q h => (uselessCoded_equiv A).symm.usefulState
      (removeUseless_post_state A q ((uselessCoded_equiv A).occurs h)),
   fun r h => (uselessCoded_equiv A).symm.usefulRule
      (removeUseless_post_rule A r (((uselessCoded_equiv A).1 r).mp h))⟩

example : (uselessCoded TrimEx.exA).rules = [⟨1, [0, 0], 1⟩, ⟨0, [], 0⟩] ∧ (uselessCoded TrimEx.exA).final = [1] ∧
    accepts (uselessCoded TrimEx.exA) TrimEx.exT = true ∧ TrimEx.exA.rules.length = 5 := by decide

/-- `IsLangEmpty` as coded answers `true` exactly when no tree is accepted -/
theorem C03_coded_emptiness_exact (A : TA) : isLangEmptyCoded A = true ↔ LangEmpty A := by
  unfold isLangEmptyCoded
  rw [List.isEmpty_iff, uselessCoded_final, PropAux.removeUseless_final_nil]
  exact isEmptyRef_iff A

example : isLangEmptyCoded TrimEx.exEmpty = true ∧ isLangEmptyCoded TrimEx.exA = false := by decide

/-! ### regression: the two slips are visible in the model -/

/-- `a → 0`, `f(0,0) → 1`, `g(2) → 1`, final `1`: state `2` is not productive -/
def CodedEx.slip1 : TA := ⟨[⟨0, [], 0⟩, ⟨1, [0, 0], 1⟩, ⟨2, [2], 1⟩], [1]⟩

/-- with the slip `remaining -= arity` (instead of `--remaining`) the counter reaches 0 although `g(2) → 1` never
fired (`f(0,0)` was registered once but subtracts 2): the sharing branch is taken and the useless rule and state
are kept; the code as written removes them -/
theorem C03_coded_regression_remaining :
    (finalSt decArity CodedEx.slip1).remaining = 0 ∧
    (uselessWith decArity testOwners CodedEx.slip1).rules = [⟨0, [], 0⟩, ⟨1, [0, 0], 1⟩, ⟨2, [2], 1⟩] ∧
    allUsefulB (uselessWith decArity testOwners CodedEx.slip1) = false ∧
    (finalSt decOne CodedEx.slip1).remaining = 1 ∧
    (uselessCoded CodedEx.slip1).rules = [⟨0, [], 0⟩, ⟨1, [0, 0], 1⟩] ∧
    allUsefulB (uselessCoded CodedEx.slip1) = true := by decide

/-- `a → 1`, final `0`: the reachable state `0` owns no rule, the unreachable state `1` owns one -/
def CodedEx.slip2 : TA := ⟨[⟨0, [], 1⟩], [0]⟩

/-- with the OLD shortcut (set SIZES compared, before commit f15a7dcd) the unreachable state `1` and its rule are
kept; the repaired code removes them -/
theorem C03_coded_regression_shortcut :
    testSizes CodedEx.slip2 (unreachSet CodedEx.slip2) = true ∧
    (unreachWith testSizes CodedEx.slip2).rules = [⟨0, [], 1⟩] ∧
    allReachableB (unreachWith testSizes CodedEx.slip2) = false ∧
    testOwners CodedEx.slip2 (unreachSet CodedEx.slip2) = false ∧
    (unreachCoded CodedEx.slip2).rules = [] ∧
    allReachableB (unreachCoded CodedEx.slip2) = true := by decide

/-!
## still not proved

* Rule lists are compared up to order and multiplicity (mutual membership; the final-state lists are equal).  No
  canonical order is fixed: the order in which the C++ result enumerates its rules is a hash order anyway.
* The pointer level (which clusters of the result are shared with the input, `pTranslMap`, cluster owners with an empty
  cluster) is not part of this model; sharing is treated in C11.
* The template `RemoveUnreachableStates(rel, index)` of `explicit_tree_unreach.hh` (antichain pruning with a
  simulation relation) is not modelled here.
* That `remaining` never underflows in the C++ (`size_t`) is not stated as a theorem of its own; the model uses
  truncated subtraction and the proofs only need `(remaining - 1) + 1 ≥ remaining`.  (It follows from the invariant:
  a transition fires at most once and contributed at least 1.)
* The correspondence "model = real C++" is established by testing (`uselessCoded`, `unreachCoded`, `prodCoded`
  against the library on generated inputs), not by proof.
-/
end Vata.Props
