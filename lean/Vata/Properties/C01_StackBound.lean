import Vata.Proofs.InclDownStackStepsTop
import Vata.Properties.C01_Stack
/-!
# C01 — an explicit bound on the number of transitions of the call emulator of `expand`

**Property served (C01).**  The verdict of `CheckInclusion` is exact and the algorithm terminates for every selection; here
the selection `ANTICHAINS_DOWN_NONREC_NOSIM` (`src/explicit_tree_incl_down.cc`).  `Vata/Properties/C01_Stack.lean` proves
that the stack machine of `ExplicitDownwardInclusion::expand` (`Vata/InclDownStack.lean`: `stepM` = one transition, `runM k`
= at most `k` transitions) refines the recursive model `InclDown.expandN`, but its totality theorem
(`C01_nonrec_stack_total_partial`) has only an existential bound on the transitions ("the `Reach` lemmas do not count
steps").  This file closes that item: every simulation lemma is re-proved with a count and the totality of the machine is
stated above the explicit number `stepBound A B`.

**How the C++ is read into the model.**  Unchanged: the machine of `Vata/InclDownStack.lean` (one `PC` value per label / loop
head of `expand`, one transition per loop test / `goto` / macro).  What is counted are these transitions; the call-free
local computations inside one transition (the construction of `W`, `post`, the antichain look-ups) are single transitions
as in the machine.

**The count** (`Vata/Proofs/InclDownStackSteps*.lean`; `ReachN n m m'` = at most `n` transitions from `m` to `m'`; `t` = the
bound for one simulated call from `_call` to `EXPAND_RETURN`):

| C++ loop | lemma | bound |
|---|---|---|
| phase 1, positions `for (top.i …) EXPAND_CALL(2) _simret` | `reach_simI_n` | `len·(t+3) + 1` |
| phase 1, `for (top.tupleSetIter2 …)` over `W` | `reach_tuple2_n` | `|W|·(n·(t+3)+3) + 1` |
| one choice function `for (top.i …) EXPAND_CALL(1) _stdret` | `reach_cfI_n` | `len·(t+3) + 1` |
| `do … while (choiceFunction.next())` | `reach_cfAll_n` | `costCfAll n (n·(t+3)+2) |W|` (`< (n·(t+3)+3)·(n+1)^|W|`) |
| one lhs tuple | `reach_procTuple_n` | `costTuple n |W| t ≤ costTupleB a b t` |
| `for (top.tupleSetIter …)` | `reach_tuples_n` | `|L|·(c+1) + 1` |
| `for (top.a …)` | `reach_body_n` | `costBody a b l g t = g·(l·(costTupleB a b t + 1) + 2) + 1` |
| the call (`_call`, push, …, `EXPAND_POP_RETURN`) | `expandN_reach_n` | `stepT a b l g (fuel+1) = costBody … (stepT … fuel) + 2` |

with `a = maxAr A` (maximal arity), `b = |B.rules|` (≥ the number of rhs tuples), `l = g = |A.rules|` (≥ the lhs tuples of a
symbol, the symbols of a cluster).  `costBody` is linear in `t`: `costBody a b l g t + 5 ≤ (t+3)·frameFactor a b l g`
(`costBody_le`), hence `stepT … fuel + 3 ≤ 3·frameFactor^fuel` (`stepT_closed`) and, the recursive model being total with
the nesting depth `fuelBoundD A B + 1 = |Q_A|·2^|Q_B| + 1`,

`stepBound A B = 3 · (|A.rules|·(|A.rules|·(|B.rules|·(a+1) + (a+1)·(a+1)^|B.rules| + 2) + 1) + 2) ^ (|Q_A|·2^|Q_B| + 1)`.

**Abstracted.**  As in `C01_Stack.lean`.  The bound is a worst-case bound of the call TREE: it does not use the caches
(`childrenCache`, `nonincluded`, the work-set) to bound the number of distinct calls, only the nesting depth.
-/
namespace Vata.Props
open InclDown InclDownStack
open InclUp (Wit Cert prodWit)

/-- **The counting simulation.**  Whenever the recursive model `expandN` (any preorder, any automata, any fuel, any
work-set `ws`, any contents of `nonincluded`) returns for the call `(q, Q)`, the stack machine gets from `_call` (any `top`,
any saved frames `K`, any return address) to `EXPAND_RETURN` with everything restored and the verdict / antichains of the
recursive model in AT MOST `stepT (maxAr A) |B.rules| |A.rules| |A.rules| fuel` transitions. -/
theorem C01_stack_call_return_steps (o : Ord) (A B : TA) (wit : Wit) (fuel : Nat) (ws cc : List Pair) (st : St)
    (q : Nat) (Q : List Nat) (v : Verdict) (cc' : List Pair) (st' : St)
    (h : expandN o A B wit fuel ws cc st q Q = some (v, cc', st')) (top : Frame) (K : List Frame) (k : Nat)
    (f0 : Verdict) :
    ReachN o A B wit (stepT (maxAr A) B.rules.length A.rules.length A.rules.length fuel)
      ⟨.call, top, K, ws, st, q, Q, k, f0⟩ ⟨.ret, top, K, ws, st', q, Q, k, v⟩ :=
  (expandN_reach_n fuel ws cc st q Q v cc' st' h).2 top K k f0

/-- the count in the form "some number `n` of transitions below the bound" (`stepsM n` = exactly `n` transitions) -/
theorem C01_stack_call_return_steps_exists (o : Ord) (A B : TA) (wit : Wit) (fuel : Nat) (ws cc : List Pair) (st : St)
    (q : Nat) (Q : List Nat) (v : Verdict) (cc' : List Pair) (st' : St)
    (h : expandN o A B wit fuel ws cc st q Q = some (v, cc', st')) (top : Frame) (K : List Frame) (k : Nat)
    (f0 : Verdict) :
    ∃ n, n ≤ stepT (maxAr A) B.rules.length A.rules.length A.rules.length fuel ∧
      stepsM o A B wit popAll n ⟨.call, top, K, ws, st, q, Q, k, f0⟩ = some ⟨.ret, top, K, ws, st', q, Q, k, v⟩ :=
  C01_stack_call_return_steps o A B wit fuel ws cc st q Q v cc' st' h top K k f0

/-- **`expand` as coded returns within `stepsOf A B fuel` transitions** (`= stepT … fuel + 2`: the call, `EXPAND_RETURN`
with `retAddr = 0`, `_end`) whenever the recursive model returns with the nesting depth `fuel` — and for EVERY larger
bound, with the same verdict, witness, `nonincluded` and `trues`. -/
theorem C01_stack_machine_refines_recursion_steps (o : Ord) (A B : TA) (wit : Wit) (fuel : Nat) (cc : List Pair)
    (st : St) (p : Nat) (P : List Nat) (v : Verdict) (cc' : List Pair) (st' : St)
    (h : expandN o A B wit fuel [] cc st p P = some (v, cc', st')) (k : Nat) (hk : stepsOf A B fuel ≤ k) :
    expandStack o A B wit popAll k st p P = some (v, st') :=
  expandStack_of_expandN_n h k hk

/-- `checkInternal` and the certified wrapper: every answer of the recursive models with the fuel `fuel` is the answer of
the stack-machine models for every bound `k ≥ stepsOf A B fuel` on the transitions of one `expand` -/
theorem C01_stack_checkInternal_refines_steps (A B : TA) (fuel k : Nat) (hk : stepsOf A B fuel ≤ k) :
    (∀ o r, runN o A B fuel = some r → runS o A B popAll k = some r) ∧
    (∀ r, inclDownNonrec A B fuel = some r → inclDownNonrecStack A B k = some r) :=
  ⟨fun _ _ h => runS_of_runN_n h hk, fun _ h => inclDownNonrecStack_of_rec_n h hk⟩

/-- **The closed form**: each level of nesting multiplies the cost of a call by at most `frameFactor`; the bound for one
`expand` from `checkInternal` with the depth `fuelBoundD A B + 1` is below `stepBound A B`. -/
theorem C01_stepBound_closed (A B : TA) :
    (∀ a b l g fuel, stepT a b l g fuel + 3 ≤ 3 * frameFactor a b l g ^ fuel) ∧
    stepsOf A B (fuelBoundD A B + 1) ≤ stepBound A B ∧
    stepBound A B = 3 * (A.rules.length * (A.rules.length * (B.rules.length * (maxAr A + 1)
      + (maxAr A + 1) * (maxAr A + 1) ^ B.rules.length + 2) + 1) + 2) ^ (A.states.length * 2 ^ B.states.length + 1) :=
  ⟨stepT_closed, stepsOf_le_stepBound A B, rfl⟩

/-- **Totality of the stack machine above the explicit bound.**  When the children of all rules of `A` are productive
(the hypothesis of `C01_downward_core_exact`, needed already for the recursive model: `InclDownEx.exUs` is the
counterexample without it, there the certify-then-trust end refuses), the machine as coded with any bound
`k ≥ stepBound A B` on the transitions of one call of `expand` returns, and the verdict is the right one.
(The task statement has `stepBound A B < k`; `≤` is proved.) -/
theorem C01_nonrec_stack_total (A B : TA) (hA : KidsProductive A) (k : Nat) (hk : stepBound A B ≤ k) :
    (Incl A B → ∃ c, inclDownNonrecStack A B k = some (true, c)) ∧
    (¬ Incl A B → ∃ c, inclDownNonrecStack A B k = some (false, c)) := by
  have hc := inclDownNonrec_complete (A := A) (B := B) hA (fuel := fuelBoundD A B + 1) (by omega)
  have hk' : stepsOf A B (fuelBoundD A B + 1) ≤ k := Nat.le_trans (stepsOf_le_stepBound A B) hk
  refine ⟨fun hi => ?_, fun hi => ?_⟩
  · obtain ⟨c, hc'⟩ := hc.1 hi
    exact ⟨c, inclDownNonrecStack_of_rec_n hc' hk'⟩
  · obtain ⟨c, hc'⟩ := hc.2 hi
    exact ⟨c, inclDownNonrecStack_of_rec_n hc' hk'⟩

/-- the same with the sharper (recursively defined) bound `stepsOf A B (fuelBoundD A B + 1)` -/
theorem C01_nonrec_stack_total_stepsOf (A B : TA) (hA : KidsProductive A) (k : Nat)
    (hk : stepsOf A B (fuelBoundD A B + 1) ≤ k) :
    (Incl A B → ∃ c, inclDownNonrecStack A B k = some (true, c)) ∧
    (¬ Incl A B → ∃ c, inclDownNonrecStack A B k = some (false, c)) := by
  have hc := inclDownNonrec_complete (A := A) (B := B) hA (fuel := fuelBoundD A B + 1) (by omega)
  refine ⟨fun hi => ?_, fun hi => ?_⟩
  · obtain ⟨c, hc'⟩ := hc.1 hi
    exact ⟨c, inclDownNonrecStack_of_rec_n hc' hk⟩
  · obtain ⟨c, hc'⟩ := hc.2 hi
    exact ⟨c, inclDownNonrecStack_of_rec_n hc' hk⟩

/-- without a hypothesis on the operands: whatever the machine answers within `stepBound A B` transitions is exact, and
it does answer unless the final certificate check refuses (the recursive model with the fuel `fuelBoundD A B + 1` returns
`none` only then) -/
theorem C01_nonrec_stack_bound_agrees (A B : TA) (k : Nat) (hk : stepBound A B ≤ k) :
    inclDownNonrecStack A B k = inclDownNonrec A B (fuelBoundD A B + 1) := by
  have hk' : stepsOf A B (fuelBoundD A B + 1) ≤ k := Nat.le_trans (stepsOf_le_stepBound A B) hk
  cases h : inclDownNonrec A B (fuelBoundD A B + 1) with
  | some r => exact inclDownNonrecStack_of_rec_n h hk'
  | none =>
    cases h2 : inclDownNonrecStack A B k with
    | none => rfl
    | some r => rw [inclDownNonrecStack_eq h2] at h; cases h

/-! ### non-vacuity (`decide +kernel`: plain kernel evaluation, no axiom) -/

-- the bound evaluated on a concrete pair (`g(x,y)` with `x, y ∈ {a, b}` against `g(a,a) | g(b,b)`): 3 resp. 4 rules, arity 2,
-- 2 resp. 3 states, nesting depth `2·2³ + 1 = 17`, `frameFactor = 2318`
example : maxAr InclDownEx.exG = 2 ∧ fuelBoundD InclDownEx.exG InclDownEx.exH = 16 ∧
    frameFactor 2 4 3 3 = 2318 := by decide +kernel
example : stepBound InclDownEx.exG InclDownEx.exH = 3 * 2318 ^ 17 := by decide +kernel
example : stepBound InclDownEx.exG InclDownEx.exH
    = 4831139660093730794982455600267784804618066529733097160704 := by decide +kernel
example : stepsOf InclDownEx.exG InclDownEx.exH 17 = 6252879696947959073352215675243690783589928057553956832 := by
  decide +kernel
-- the hypothesis of `C01_nonrec_stack_total` holds and a run with `stepBound` transitions returns — both verdicts occur
example : KidsProductive InclDownEx.exG := (InclUp.trimmed_of_allUsefulB (by decide)).1
example : KidsProductive InclDownEx.exH := (InclUp.trimmed_of_allUsefulB (by decide)).1
example : (inclDownNonrecStack InclDownEx.exG InclDownEx.exH (stepBound InclDownEx.exG InclDownEx.exH)).map (·.1)
    = some false := by decide +kernel
example : (inclDownNonrecStack InclDownEx.exH InclDownEx.exG (stepBound InclDownEx.exH InclDownEx.exG)).map (·.1)
    = some true := by decide +kernel
-- the theorem applied: the verdicts above are forced by `C01_nonrec_stack_total`, and decide (non-)inclusion
example : ¬ Incl InclDownEx.exG InclDownEx.exH := fun hi => by
  obtain ⟨c, hc⟩ := (C01_nonrec_stack_total InclDownEx.exG InclDownEx.exH
    (InclUp.trimmed_of_allUsefulB (by decide)).1 _ (Nat.le_refl _)).1 hi
  have h2 : (inclDownNonrecStack InclDownEx.exG InclDownEx.exH (stepBound InclDownEx.exG InclDownEx.exH)).map (·.1)
      = some false := by decide +kernel
  rw [hc] at h2
  cases h2
-- a bound is needed: with too few transitions the machine has not returned yet (`none`); the worst-case bound is far
-- from tight (60 transitions suffice here)
example : (inclDownNonrecStack InclDownEx.exG InclDownEx.exH 30).map (·.1) = none := by decide +kernel
example : (inclDownNonrecStack InclDownEx.exG InclDownEx.exH 60).map (·.1) = some false := by decide +kernel
-- the hypothesis of the counting simulation on a non-trivial call, and the count for that fuel
example : (expandN idOrd InclDownEx.exG InclDownEx.exH (prodWit InclDownEx.exG) 3 [] [] ⟨[], []⟩ 2 [9]).isSome = true := by
  decide +kernel
example : stepsOf InclDownEx.exG InclDownEx.exH 3 = 16233046832 := by decide +kernel
example : verdictBit (expandStack idOrd InclDownEx.exG InclDownEx.exH (prodWit InclDownEx.exG) popAll
    (stepsOf InclDownEx.exG InclDownEx.exH 3) ⟨[], []⟩ 2 [9]) = some false := by decide +kernel
-- the cost of the choice-function loop: 2 rhs tuples, arity 2, cost 1 per choice function: the 4 choice functions and
-- the 3 `_nextchoice` transitions between them make 7 transitions, the bound counts one more per round of a loop: 10
example : costCfAll 2 1 2 = 10 := by decide

/-!
## still not proved

* **The bound is a worst-case bound of the call tree, not tight.**  `stepBound` multiplies the per-frame factor
  `frameFactor` along the nesting depth `fuelBoundD A B + 1 = |Q_A|·2^|Q_B| + 1`; it does not use the caches
  (`childrenCache`, `nonincluded`, the work-set antichain) to bound the number of DISTINCT calls, which would give a bound
  singly exponential in `|Q_B|`.  No lower bound on the number of transitions is proved.
* The constants `b = |B.rules|`, `l = g = |A.rules|` over-approximate the sizes of the index structures (`|W|` for one
  symbol and one set `P_B`, the lhs tuples of one symbol, the symbols of one cluster); `reach_body_n` is proved for any
  bounds `a b l` satisfying its hypotheses, only `expandN_reach_n` instantiates them globally.
* One transition of the machine contains the call-free local computations (filling `W`, `post`, the antichain
  `contains` / `refine` / `insert`): their own cost (polynomial in the sizes of the antichains) is not counted.
* As in `C01_Stack.lean`: only the `NOSIM` wrapper `inclDownNonrecStack` is defined on top of `runS`
  (`C01_stack_call_return_steps`, `runS_of_runN_n` hold for every preorder `o`); the hypothesis `KidsProductive A` of the
  totality theorem is that of the recursive model (`C01_nonrec_stack_bound_agrees` needs none).
-/
end Vata.Props
