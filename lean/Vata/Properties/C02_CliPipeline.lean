import Vata.Proofs.CliPipelineText
/-!
# C02 (with C08 / C13 / C19) – what `vata union` and `vata isect` PRINT denotes the union / the intersection

> C02: For any explicit tree automata A and B, Union … return[s] an automaton accepting exactly L(A) ∪ L(B), and Intersection …
> return[s] automata accepting exactly L(A) ∩ L(B).  The state-translation maps they report name, for every state of the result,
> the operand state or state pair it stands for …

`Vata/Properties/C02.lean` proves this for the automaton OBJECT the operation returns.  The user of the command line program sees
something else: the text `performOperation` (`cli/vata.cc`) prints.  That text is produced by loading both files with their own
state dictionaries, running the operation with translation maps, building the state dictionary of the result from the maps with
`CreateUnionStringToStateMap` / `CreateProductStringToStateMap` (`src/util.cc`), and dumping the result through that dictionary.
This file closes the item "From the maps to the names of the dump" of `C02.lean`: the automaton DENOTED BY THE PRINTED TEXT accepts
exactly the union / the intersection.

## How the C++ is read into the model (`Vata/CliPipeline.lean`)

* `loadBoth`: the two `LoadFromString(parser, ReadFile(file), stateDictN, params)` with two fresh state dictionaries and the ONE
  shared alphabet (`loadTA`, first-encounter numbering; the second load starts from the symbol dictionary the first one left).
* `cliUnionDesc`: `Aut::Union(a1, a2, &opTranslMap1, &opTranslMap2)` = `unionModel A B [] []` (two empty maps, weak translators,
  one counter), then `CreateUnionStringToStateMap(stateDict1, stateDict2, &opTranslMap1, &opTranslMap2)` = `Glue.unionDict`
  (as coded now: entries whose state has no translation are skipped), then `DumpToString(serializer, stateDict1)` = `dumpTA`.
* `cliIsectDesc`: `Aut::Intersection(a1, a2, &prodTranslMap)` = `isectTDRef` (`isectTD` with the fuel `isectFuel`, proved
  sufficient), then `CreateProductStringToStateMap` AFTER the repair `222cfd8a` = `productDictFixed` (the name `[l_1|r_2]`, then
  `while (result.FindFwd(name) != result.EndFwd()) name += '\''`, then `result.insert`), then the dump.
  `cliIsectOldDesc` is the same with `Glue.productDict`, the code BEFORE the repair.
* `cliUnion`, `cliIsect`: the serializer on top (description ↦ printed text); `cliUnionText`, `cliIsectText`: the parser in front
  (texts of the two files ↦ standard output).
* `toGlue` / `ofGlue` connect the two dictionary models of the development (`Vata.StateDict`: one list of pairs, what a load
  leaves; `Glue.StateDict`: the two `std::map`s the helpers read).  The dump reads `GetReverseMap()` only.

## What is abstracted

* the iteration order of the hash / tree containers is the list order (`unionModel`, `isectTD`, the loops of the two helpers).  The
  language theorems do not depend on it; WHICH of two colliding product states gets the prime does.
* the options `-p` / `-u` of the command line (`RemoveUselessStates` / `RemoveUnreachableStates` before the operation) are not in
  the pipeline; `Glue.unionDict` does model the `continue` for states without translation that they make necessary.
* fuel: `primeLoop` runs with `primeFuel` (longest key + 1) rounds; `C02_cli_priming_terminates` shows that this is enough and
  that any larger fuel gives the same name, so the model's loop IS the unbounded `while`.  `isectTDRef` never runs out of fuel
  (`isectTDRef_isSome`).  The `Except` of the description-level functions is never `.error` (`C02_cli_union_desc_lang`,
  `C02_cli_isect_desc_lang` exhibit the `.ok`).
* "the automaton denoted by the text" is the automaton `LoadFromString` makes of it with a fresh state dictionary and the alphabet
  as the run left it (symbols are numbers of the shared alphabet: only on the same alphabet are the languages comparable).
-/
namespace Vata.Props
open Vata Vata.CliPipe Vata.Glue

/-! ### 1. the repaired `CreateProductStringToStateMap` -/

attribute [local instance high] instBEqOfDecidableEq in
/-- **termination of the priming loop**: whatever the dictionary contains, `k` rounds with `|name| + k >` (length of the longest
key) stop on a name that is not a key (`primeFuel` qualifies), and beyond that bound the fuel does not change the result.  (The look-up compares names with
`DecidableEq`, as all look-ups of `Vata/Glue.lean` do.) -/
theorem C02_cli_priming_terminates (fwd : List (Name × Nat)) (s : Name) :
    fwd.lookup (primeLoop fwd (primeFuel fwd) s) = none ∧
    (∀ k, maxKeyLen fwd < s.length + k → primeLoop fwd k s = primeLoop fwd (primeFuel fwd) s) ∧
    ∃ i, primeLoop fwd (primeFuel fwd) s = s ++ List.replicate i '\'' ∧
      ∀ j, j < i → ∃ v, fwd.lookup (s ++ List.replicate j '\'') = some v :=
  ⟨primeLoop_primeFuel_fresh fwd s,
   fun k hk => primeLoop_fuel_indep fwd k _ s hk (by unfold primeFuel; omega),
   primeLoop_shape fwd _ s⟩

example : primeLoop [("ab".toList, 0), ("ab'".toList, 1)] 3 "ab".toList = "ab''".toList := by decide

/-- **the repaired product names are injective – unconditionally**: for ANY operand dictionaries (names containing `_1|`, `]`,
primes, …) and ANY product map, the names of the result are pairwise different, no two states have the same name in the reverse
map the dump reads, the result has one entry per entry of the product map, and every product state of the map gets a name -/
theorem C02_cli_product_names_injective (l r : Glue.StateDict) (pm : List ((Nat × Nat) × Nat)) (d : Glue.StateDict)
    (h : productDictFixed l r pm = some d) :
    (d.fwd.map Prod.fst).Nodup ∧ (∀ v v' n, d.bwd.lookup v = some n → d.bwd.lookup v' = some n → v = v') ∧
    d.fwd.length = pm.length ∧ (∀ e, e ∈ pm → ∃ n, d.bwd.lookup e.2 = some n) :=
  ⟨(productDictFixed_injective h).1, (productDictFixed_injective h).2, (productDictFixed_named h).1, (productDictFixed_named h).2⟩

/-- the function is defined (no `end()` iterator is dereferenced behind the disabled `assert(false)`) iff every component of
every pair of the product map has a name in its operand's dictionary; every entry is `[l_1|r_2]` of the names of the components
of some pair, followed by primes -/
theorem C02_cli_product_names_total (l r : Glue.StateDict) (pm : List ((Nat × Nat) × Nat)) :
    ((productDictFixed l r pm).isSome = true ↔
      ∀ e, e ∈ pm → (∃ ln, l.bwd.lookup e.1.1 = some ln) ∧ (∃ rn, r.bwd.lookup e.1.2 = some rn)) ∧
    (∀ d, productDictFixed l r pm = some d → ∀ x, x ∈ d.fwd → ∃ e, e ∈ pm ∧ ∃ ln rn k, l.bwd.lookup e.1.1 = some ln ∧
      r.bwd.lookup e.1.2 = some rn ∧ x = (prodName ln rn ++ List.replicate k '\'', e.2)) :=
  ⟨productDictFixed_isSome_iff l r pm, fun _ h x hx => (productDictFixed_spec h).2.2 x hx⟩

/-- where the old names did not collide nothing changes: no prime is added -/
theorem C02_cli_product_names_conservative (l r : Glue.StateDict) (pm : List ((Nat × Nat) × Nat)) (es : List (Name × Nat))
    (he : prodEntries l r pm = some es) (hk : (es.map Prod.fst).Nodup) : productDictFixed l r pm = productDict l r pm :=
  productDictFixed_eq_old he hk

namespace CliEx
/-- the colliding dictionaries of finding D18: `a_1|b` with `c`, and `a` with `b_1|c`, both give `[a_1|b_1|c_2]` -/
def l : Glue.StateDict := ⟨[("a_1|b".toList, 0), ("a".toList, 1)], [(0, "a_1|b".toList), (1, "a".toList)]⟩
def r : Glue.StateDict := ⟨[("c".toList, 0), ("b_1|c".toList, 1)], [(0, "c".toList), (1, "b_1|c".toList)]⟩
end CliEx

-- the hypotheses of `C02_cli_product_names_injective` on the D18 witness: defined, and the second state gets the primed name
example : (productDictFixed CliEx.l CliEx.r [((0, 0), 7), ((1, 1), 8)]).map (fun d => d.bwd) =
    some [(7, "[a_1|b_1|c_2]".toList), (8, "[a_1|b_1|c_2]'".toList)] := by decide
-- … where the old function gave both states one name (`Glue.productDict_collision`)
example : (productDict CliEx.l CliEx.r [((0, 0), 7), ((1, 1), 8)]).map (fun d => d.bwd) =
    some [(7, "[a_1|b_1|c_2]".toList), (8, "[a_1|b_1|c_2]".toList)] := by decide

/-! ### 2. `vata union` -/

/-- **`vata union`, description level, no hypothesis on the names**: the description `DumpToAutDesc` hands to the serializer,
loaded again (fresh state dictionary, the alphabet as the run left it), accepts exactly `L(A) ∪ L(B)`; `A`, `B` are the automata
the two loads produced from the operand descriptions -/
theorem C02_cli_union_desc_lang (d₁ d₂ : AutDesc) :
    ∃ A sd₁ yd₁ B sd₂ yd₂ out, loadTA d₁ [] [] = .ok (A, sd₁, yd₁) ∧ loadTA d₂ [] yd₁ = .ok (B, sd₂, yd₂) ∧
      cliUnionDesc d₁ d₂ [] = .ok out ∧
      ∃ A' sd' yd', loadTA out [] yd₂ = .ok (A', sd', yd') ∧ ∀ t, accepts A' t = (accepts A t || accepts B t) :=
  cliUnionDesc_lang d₁ d₂ [] Dict.ok_nil

/-- **`vata union`**: for ALL well-formed operand descriptions the program prints a text, and the automaton denoted by that text
(`LoadFromString` with a fresh state dictionary) accepts exactly `L(A) ∪ L(B)` -/
theorem C02_cli_union_lang (d₁ d₂ : AutDesc) (w₁ : d₁.WellFormed) (w₂ : d₂.WellFormed) :
    ∃ A sd₁ yd₁ B sd₂ yd₂ txt, loadTA d₁ [] [] = .ok (A, sd₁, yd₁) ∧ loadTA d₂ [] yd₁ = .ok (B, sd₂, yd₂) ∧
      cliUnion d₁ d₂ = .ok txt ∧
      ∃ A' sd' yd', loadString txt [] yd₂ = .ok (A', sd', yd') ∧ ∀ t, accepts A' t = (accepts A t || accepts B t) :=
  cliUnionFrom_lang d₁ d₂ [] Dict.ok_nil w₁ w₂

/-- the same from the contents of the two files -/
theorem C02_cli_union_text_lang (txt₁ txt₂ : String) (d₁ d₂ : AutDesc) (p₁ : parseTimbuk txt₁ = .ok d₁)
    (p₂ : parseTimbuk txt₂ = .ok d₂) (w₁ : d₁.WellFormed) (w₂ : d₂.WellFormed) :
    ∃ A sd₁ yd₁ B sd₂ yd₂ txt, loadString txt₁ [] [] = .ok (A, sd₁, yd₁) ∧ loadString txt₂ [] yd₁ = .ok (B, sd₂, yd₂) ∧
      cliUnionText txt₁ txt₂ = .ok txt ∧
      ∃ A' sd' yd', loadString txt [] yd₂ = .ok (A', sd', yd') ∧ ∀ t, accepts A' t = (accepts A t || accepts B t) := by
  obtain ⟨A, sd₁, yd₁, B, sd₂, yd₂, txt, h1, h2, h3, h4⟩ := C02_cli_union_lang d₁ d₂ w₁ w₂
  refine ⟨A, sd₁, yd₁, B, sd₂, yd₂, txt, ?_, ?_, ?_, h4⟩
  · simp only [loadString, p₁]; exact h1
  · simp only [loadString, p₂]; exact h2
  · simp only [cliUnionText, onTexts, p₁, p₂]; exact h3

example : CliPipe.Test.dA.WellFormed ∧ CliPipe.Test.dB.WellFormed := by decide
example : cliUnionDesc CliPipe.Test.dA CliPipe.Test.dB [] = .ok
    ⟨"", [], [], ["r_1", "y_2"], [([], "a", "q_1"), ([], "a", "x_2"), (["q_1"], "f", "r_1"), (["r_1"], "f", "r_1"),
      (["x_2"], "f", "y_2"), (["y_2"], "f", "x_2")]⟩ := rfl

/-! ### 3. `vata isect` -/

/-- **`vata isect`, description level, no hypothesis on the names**: the description handed to the serializer, loaded again,
accepts exactly `L(A) ∩ L(B)` – also when the operand names contain `_1|` (the case in which the code before `222cfd8a` was
wrong, `C02_cli_isect_old_names_counterexample`) -/
theorem C02_cli_isect_desc_lang (d₁ d₂ : AutDesc) :
    ∃ A sd₁ yd₁ B sd₂ yd₂ out, loadTA d₁ [] [] = .ok (A, sd₁, yd₁) ∧ loadTA d₂ [] yd₁ = .ok (B, sd₂, yd₂) ∧
      cliIsectDesc d₁ d₂ [] = .ok out ∧
      ∃ A' sd' yd', loadTA out [] yd₂ = .ok (A', sd', yd') ∧ ∀ t, accepts A' t = (accepts A t && accepts B t) :=
  cliIsectDesc_lang d₁ d₂ [] Dict.ok_nil

/-- **`vata isect`**: for ALL well-formed operand descriptions the program prints a text, and the automaton denoted by that text
accepts exactly `L(A) ∩ L(B)` -/
theorem C02_cli_isect_lang (d₁ d₂ : AutDesc) (w₁ : d₁.WellFormed) (w₂ : d₂.WellFormed) :
    ∃ A sd₁ yd₁ B sd₂ yd₂ txt, loadTA d₁ [] [] = .ok (A, sd₁, yd₁) ∧ loadTA d₂ [] yd₁ = .ok (B, sd₂, yd₂) ∧
      cliIsect d₁ d₂ = .ok txt ∧
      ∃ A' sd' yd', loadString txt [] yd₂ = .ok (A', sd', yd') ∧ ∀ t, accepts A' t = (accepts A t && accepts B t) :=
  cliIsectFrom_lang d₁ d₂ [] Dict.ok_nil w₁ w₂

/-- the same from the contents of the two files -/
theorem C02_cli_isect_text_lang (txt₁ txt₂ : String) (d₁ d₂ : AutDesc) (p₁ : parseTimbuk txt₁ = .ok d₁)
    (p₂ : parseTimbuk txt₂ = .ok d₂) (w₁ : d₁.WellFormed) (w₂ : d₂.WellFormed) :
    ∃ A sd₁ yd₁ B sd₂ yd₂ txt, loadString txt₁ [] [] = .ok (A, sd₁, yd₁) ∧ loadString txt₂ [] yd₁ = .ok (B, sd₂, yd₂) ∧
      cliIsectText txt₁ txt₂ = .ok txt ∧
      ∃ A' sd' yd', loadString txt [] yd₂ = .ok (A', sd', yd') ∧ ∀ t, accepts A' t = (accepts A t && accepts B t) := by
  obtain ⟨A, sd₁, yd₁, B, sd₂, yd₂, txt, h1, h2, h3, h4⟩ := C02_cli_isect_lang d₁ d₂ w₁ w₂
  refine ⟨A, sd₁, yd₁, B, sd₂, yd₂, txt, ?_, ?_, ?_, h4⟩
  · simp only [loadString, p₁]; exact h1
  · simp only [loadString, p₂]; exact h2
  · simp only [cliIsectText, onTexts, p₁, p₂]; exact h3

example : cliIsectDesc CliPipe.Test.dA CliPipe.Test.dB [] = .ok
    ⟨"", [], [], ["[r_1|y_2]"], [([], "a", "[q_1|x_2]"), (["[q_1|x_2]"], "f", "[r_1|y_2]"), (["[q_1|y_2]"], "f", "[r_1|x_2]"),
      (["[r_1|x_2]"], "f", "[r_1|y_2]"), (["[r_1|y_2]"], "f", "[r_1|x_2]")]⟩ := rfl

/-! ### 4. the product names before the repair: a counterexample -/

namespace CliEx
/-- `A`: `x → a_1|b`, `y → a`, `f(a_1|b) → top`, `g(a) → top`; language `{f(x), g(y)}` -/
def oldA : AutDesc :=
  { name := "A", symbols := [], states := [], final := ["top"],
    trans := [([], "x", "a_1|b"), ([], "y", "a"), (["a_1|b"], "f", "top"), (["a"], "g", "top")] }
/-- `B`: `x → c`, `y → b_1|c`, `f(c) → top`, `g(b_1|c) → top`; language `{f(x), g(y)}` -/
def oldB : AutDesc :=
  { name := "B", symbols := [], states := [], final := ["top"],
    trans := [([], "x", "c"), ([], "y", "b_1|c"), (["c"], "f", "top"), (["b_1|c"], "g", "top")] }
/-- the alphabet after the two loads: `x ↦ 0`, `y ↦ 1`, `f ↦ 2`, `g ↦ 3` -/
def yd : SymDict := [(("x", 0), 0), (("y", 0), 1), (("f", 1), 2), (("g", 1), 3)]
/-- the tree `f(y)` -/
def fy : Tree := .node 2 [.node 1 []]
/-- the tree `f(x)` -/
def fx : Tree := .node 2 [.node 0 []]
end CliEx

/-- **with the OLD product names the printed intersection is wrong** (finding D18 carried through to the output): both operands
are well formed and accept `{f(x), g(y)}`; the product states `(a_1|b, c)` and `(a, b_1|c)` are both printed as `[a_1|b_1|c_2]`,
and the automaton denoted by the printed description accepts `f(y)`, which neither operand accepts.  The repaired program prints
`[a_1|b_1|c_2]'` for the second state and its output rejects `f(y)` (and accepts `f(x)`). -/
theorem C02_cli_isect_old_names_counterexample :
    CliEx.oldA.WellFormed ∧ CliEx.oldB.WellFormed ∧
    (∃ A sd₁ B sd₂ out A' sd', loadTA CliEx.oldA [] [] = .ok (A, sd₁, CliEx.yd) ∧ loadTA CliEx.oldB [] CliEx.yd = .ok (B, sd₂, CliEx.yd) ∧
      cliIsectOldDesc CliEx.oldA CliEx.oldB [] = .ok out ∧ loadTA out [] CliEx.yd = .ok (A', sd', CliEx.yd) ∧
      accepts A' CliEx.fy = true ∧ accepts A CliEx.fy = false ∧ accepts B CliEx.fy = false) ∧
    (∃ out A' sd', cliIsectDesc CliEx.oldA CliEx.oldB [] = .ok out ∧ loadTA out [] CliEx.yd = .ok (A', sd', CliEx.yd) ∧
      accepts A' CliEx.fy = false ∧ accepts A' CliEx.fx = true) ∧
    cliIsectOldDesc CliEx.oldA CliEx.oldB [] = .ok ⟨"", [], [], ["[top_1|top_2]"],
      [([], "x", "[a_1|b_1|c_2]"), ([], "y", "[a_1|b_1|c_2]"), (["[a_1|b_1|c_2]"], "f", "[top_1|top_2]"),
        (["[a_1|b_1|c_2]"], "g", "[top_1|top_2]")]⟩ ∧
    cliIsectDesc CliEx.oldA CliEx.oldB [] = .ok ⟨"", [], [], ["[top_1|top_2]"],
      [([], "x", "[a_1|b_1|c_2]"), ([], "y", "[a_1|b_1|c_2]'"), (["[a_1|b_1|c_2]"], "f", "[top_1|top_2]"),
        (["[a_1|b_1|c_2]'"], "g", "[top_1|top_2]")]⟩ := by
  refine ⟨by decide, by decide, ⟨_, _, _, _, _, _, _, rfl, rfl, rfl, rfl, by decide, by decide, by decide⟩,
    ⟨_, _, _, rfl, rfl, by decide, by decide⟩, rfl, rfl⟩

-- the texts the two versions print (executed)
#guard CliPipe.Test.okIs (cliIsectOld CliEx.oldA CliEx.oldB)
  "Ops \nAutomaton anonymous\nStates \nFinal States [top_1|top_2] \nTransitions\nx -> [a_1|b_1|c_2]\ny -> [a_1|b_1|c_2]\nf([a_1|b_1|c_2]) -> [top_1|top_2]\ng([a_1|b_1|c_2]) -> [top_1|top_2]\n"
#guard CliPipe.Test.okIs (cliIsect CliEx.oldA CliEx.oldB)
  "Ops \nAutomaton anonymous\nStates \nFinal States [top_1|top_2] \nTransitions\nx -> [a_1|b_1|c_2]\ny -> [a_1|b_1|c_2]'\nf([a_1|b_1|c_2]) -> [top_1|top_2]\ng([a_1|b_1|c_2]') -> [top_1|top_2]\n"

/-! ### 5. the hypothesis `WellFormed` of the text-level theorems

The description-level theorems (`C02_cli_union_desc_lang`, `C02_cli_isect_desc_lang`) need no hypothesis.  The text-level ones need
the printed names to survive serializer and parser; `WellFormed` of the operands gives that (`good_name1`, `good_name2`,
`good_prodName`, `good_primes`).  It cannot be dropped: with the state name `q:x` the printed union is rejected by the parser. -/

namespace CliEx
def badA : AutDesc := { name := "A", symbols := [], states := [], final := ["q:x"], trans := [([], "a", "q:x")] }
end CliEx

example : ¬ CliEx.badA.WellFormed := by decide
#guard (match cliUnion CliEx.badA CliPipe.Test.dB with
  | .ok txt => (match loadString txt [] [] with | .ok _ => false | .error _ => true)
  | .error _ => false)

/-!
## still not proved

* The NFA commands (`ExplicitFiniteAut`, `Vata/NfaOps.lean`, `Vata/NfaStart.lean`): no `C10_cli_union_lang` /
  `C10_cli_isect_lang`; the pipeline of this file is the one of `ExplicitTreeAut` only.  Likewise the BDD representations
  (`-r bdd-td`, `-r bdd-bu`) of the same `performOperation` template.
* The options `-p` / `-u` (pruning of the operands between load and operation) are not part of `cliUnion` / `cliIsect`.
* `IntersectionBU` is not reachable from the command line and is not composed with the dictionaries here.
* The iteration orders of the C++ containers are list orders.  The language theorems hold for the list order of the models; that
  they hold for EVERY order is proved for the automaton level (`C02_union_model_any_order`) and for the dictionary level
  (`C02_cli_product_names_injective` is about any list `pm`), but `cliUnion` / `cliIsect` are not parametrised by the orders, and the
  PRINTED text (which state gets the prime) does depend on them.
* `toGlue` states what the two `std::map`s of a dictionary are after a load into an EMPTY dictionary (`Dict.Ok`); a pre-filled
  dictionary (never the case in `performOperation`) is outside.
* That `WellFormed` cannot be dropped at text level is shown by an executed example (`#guard`), not by a kernel-checked theorem
  (the parser is not run inside the kernel here).
* The denotation of the printed text is taken on the alphabet the run left (`yd₂`); a reader process with a fresh alphabet numbers
  the symbols in order of first occurrence in the text, i.e. the same language up to the renaming of symbols by name
  (`load_lang_perm` in `Vata/Proofs/LoadDump.lean` is the tool, not composed here).
-/
end Vata.Props
