import Vata.Proofs.ComplStale
/-!
# C06 – Complement with a stale symbol index (an alphabet that grew between two calls)

> For an explicit tree automaton A whose alphabet is an on-the-fly alphabet containing the ranked symbols S, every tree
> built from symbols of S (each used with its rank) is accepted by exactly one of A and Complement(A).  Complement(A)
> accepts no tree that uses a symbol outside S.

## How the C++ is read into the model

`ExplicitDownwardComplementation::Compute` iterates `for (auto symbolIndexPair : symbolMap)` over the symbol / rank index
of the alphabet; in the model `Compl.complTD A Sg fuel` (`Vata/Compl.lean`) this index is the parameter `Sg`, which stands
for the content of the on-the-fly symbol dictionary AT THE TIME OF THE CALL.  A seeded change kept the index in a
function-static map keyed by the alphabet OBJECT and never refreshed it: `Compl.symIndexCached cache id SgNow` is this
lookup (`id` = the address of the alphabet object, `SgNow` = its present content; hit → the stored index, miss → store and
use `SgNow`) and `Compl.complCached` is `Complement` on top of it.  A second `Complement` on the same alphabet object
after the alphabet has grown from `Sg` to `Sg'` therefore computes `complTD A Sg` where the property asks for
`complTD A Sg'` (`C06_stale_index_uses_first_alphabet`).

This file says what that costs: on the trees over the OLD alphabet nothing changes
(`C06_complement_monotone_in_alphabet`), every tree with a new symbol is rejected
(`C06_complement_over_smaller_alphabet_rejects_new_symbols`), and hence the stale result is a complement over the grown
alphabet iff `A` itself accepts every tree over `Sg'` that contains a new symbol
(`C06_complement_over_smaller_alphabet_exact`, `…_not_complement`); `C06_stale_index_counterexample` is the concrete
instance, decided.

## What is abstracted

* Alphabets are lists of (symbol, rank) pairs, `Sg ⊆ Sg'` is list membership.  The hypothesis "one rank per symbol" of the
  task text is NOT needed by any theorem here (the pairs are compared as pairs; a symbol registered with a second rank
  counts as a new ranked symbol) and is therefore not assumed.
* The static map is a `List (Nat × List (Nat × Nat))` association list keyed by a number standing for the address of the
  alphabet object; hash-container order plays no role for `find` / `insert` of one key.
* `usesSym fa t`: some node of `t` carries the symbol `fa.1` with `fa.2` children.
-/
namespace Vata.Props
open Vata

/-- for `Sg ⊆ Sg'`, on the trees over `Sg` the complements computed over `Sg` and over `Sg'` accept the same trees (both
accept exactly the trees `A` rejects) -/
theorem C06_complement_monotone_in_alphabet (A : TA) (Sg Sg' : List (Nat × Nat)) (f₁ f₂ : Nat) (C C' : TA)
    (hs : ∀ fa, fa ∈ Sg → fa ∈ Sg')
    (h : Compl.complTD A Sg f₁ = some C) (h' : Compl.complTD A Sg' f₂ = some C')
    (t : Tree) (ht : overSig Sg t = true) :
    accepts C t = accepts C' t ∧ accepts C t = !accepts A t :=
  ⟨Compl.complTD_agree_on_smaller hs h h' t ht, (Compl.complTD_spec h t).1 ht⟩

-- `aLeft` over `{a/0, f/2}` and over `{a/0, f/2, g/1}`: both runs return, `f(a, a)` is over the smaller alphabet
example : (∀ fa, fa ∈ Compl.Ex.sg → fa ∈ Compl.Ex.sg3) ∧
    (Compl.complTD Compl.Ex.aLeft Compl.Ex.sg 20).isSome = true ∧
    (Compl.complTD Compl.Ex.aLeft Compl.Ex.sg3 50).isSome = true ∧
    overSig Compl.Ex.sg (.node 1 [.node 0 [], .node 0 []]) = true := by decide +kernel

/-- a tree that uses a ranked symbol `fa ∉ Sg` (in particular one of `Sg' \ Sg`) is not over `Sg` and is rejected by
the complement computed over `Sg` -/
theorem C06_complement_over_smaller_alphabet_rejects_new_symbols (A : TA) (Sg : List (Nat × Nat)) (fuel : Nat) (C : TA)
    (h : Compl.complTD A Sg fuel = some C) (fa : Nat × Nat) (hfa : fa ∉ Sg) (t : Tree)
    (hu : Compl.usesSym fa t = true) :
    overSig Sg t = false ∧ accepts C t = false :=
  ⟨Compl.overSig_false_of_usesSym hfa t hu, Compl.complTD_rejects_new h hfa t hu⟩

-- `f(b)` uses the nullary `b = 2`, which is not in `[(a,0),(f,1)]`
example : (2, 0) ∉ [(0, 0), (1, 1)] ∧ Compl.usesSym (2, 0) (.node 1 [.node 2 []]) = true ∧
    Compl.usesSym (2, 0) (.node 1 [.node 0 []]) = false := by decide

/-- `usesSym` is exact: a tree is not over `Sg` iff it uses a ranked symbol that is not in `Sg` -/
theorem C06_not_over_iff_uses_new_symbol (Sg : List (Nat × Nat)) (t : Tree) :
    overSig Sg t = false ↔ ∃ fa, fa ∉ Sg ∧ Compl.usesSym fa t = true :=
  ⟨Compl.exists_usesSym_of_overSig_false t, fun ⟨_, h1, h2⟩ => Compl.overSig_false_of_usesSym h1 t h2⟩

example : overSig [(0, 0), (1, 1)] (.node 1 [.node 2 []]) = false := by decide

/-- exact statement: for `Sg ⊆ Sg'` the complement computed over `Sg` is a complement of `A` over `Sg'` iff `A` accepts
every tree over `Sg'` that contains a ranked symbol outside `Sg` -/
theorem C06_complement_over_smaller_alphabet_exact (A : TA) (Sg Sg' : List (Nat × Nat)) (fuel : Nat) (C : TA)
    (hs : ∀ fa, fa ∈ Sg → fa ∈ Sg') (h : Compl.complTD A Sg fuel = some C) :
    (∀ t, (overSig Sg' t = true → accepts C t = !accepts A t) ∧ (overSig Sg' t = false → accepts C t = false)) ↔
    (∀ t fa, overSig Sg' t = true → fa ∉ Sg → Compl.usesSym fa t = true → accepts A t = true) := by
  rw [show (∀ t, (overSig Sg' t = true → accepts C t = !accepts A t) ∧ (overSig Sg' t = false → accepts C t = false)) ↔
    Compl.IsComplOver C A Sg' from Iff.rfl, Compl.complTD_smaller_isComplOver_iff hs h]
  constructor
  · intro hall t fa h1 h2 h3
    exact hall t h1 (Compl.overSig_false_of_usesSym h2 t h3)
  · intro hall t h1 h2
    obtain ⟨fa, h3, h4⟩ := Compl.exists_usesSym_of_overSig_false t h2
    exact hall t fa h1 h3 h4

/-- the stale result is NOT a complement over the grown alphabet as soon as one tree over `Sg'` that contains a new
ranked symbol is rejected by `A`: that tree is accepted by neither `A` nor `C`.  (No inclusion `Sg ⊆ Sg'` needed.) -/
theorem C06_complement_over_smaller_alphabet_not_complement (A : TA) (Sg Sg' : List (Nat × Nat)) (fuel : Nat) (C : TA)
    (h : Compl.complTD A Sg fuel = some C) (t : Tree) (fa : Nat × Nat)
    (ht : overSig Sg' t = true) (hfa : fa ∉ Sg) (hu : Compl.usesSym fa t = true) (hA : accepts A t = false) :
    (accepts A t = false ∧ accepts C t = false) ∧
    ¬ (∀ t, (overSig Sg' t = true → accepts C t = !accepts A t) ∧ (overSig Sg' t = false → accepts C t = false)) := by
  have hC := Compl.complTD_rejects_new h hfa t hu
  refine ⟨⟨hA, hC⟩, fun hc => ?_⟩
  have := (hc t).1 ht
  rw [hC, hA] at this
  cases this

/-- the hypothesis "`A` rejects the tree" cannot be dropped: an automaton that accepts every tree with the new symbol
keeps its stale complement valid (`A` = all trees over `{a, b}`, old alphabet `{a}`, `A` accepts `b`; checked by the exact
decider `isComplM`) -/
example :
    let A : TA := ⟨[⟨2, [], 0⟩], [0]⟩
    (match Compl.complTD A [(0, 0)] 10 with
     | some C => isComplM C A [(0, 0), (2, 0)] 20
     | none => none) = some true := by decide

/-! ### the seeded static index -/

/-- with the function-static index, the first `Complement` on an alphabet object computes over the alphabet's content at
that time, and every later call on the same object – whatever the automaton, whatever the alphabet holds now – computes
over the content of the FIRST call -/
theorem C06_stale_index_uses_first_alphabet (id : Nat) (A B : TA) (Sg Sg' : List (Nat × Nat)) (f₁ f₂ : Nat) :
    Compl.complCached [] id A Sg f₁ = ([(id, Sg)], Compl.complTD A Sg f₁) ∧
    Compl.complCached (Compl.complCached [] id A Sg f₁).1 id B Sg' f₂ = ([(id, Sg)], Compl.complTD B Sg f₂) :=
  ⟨Compl.complCached_first id A Sg f₁, Compl.complCached_second id A B Sg Sg' f₁ f₂⟩

-- a different alphabet object is not affected
example : (Compl.complCached (Compl.complCached [] 7 ⟨[], []⟩ [(0, 0)] 5).1 8 ⟨[], []⟩ [(0, 0), (2, 0)] 5).1 =
    [(8, [(0, 0), (2, 0)]), (7, [(0, 0)])] := by decide

/-- the counterexample: `A = {a}` over `Sg = [(a,0),(f,1)]` (`a = 0`, `f = 1`), the alphabet grows by the nullary `b = 2`.
`b` and `f(b)` are trees over the grown alphabet, accepted by neither `A` nor the complement over the OLD index, while the
complement over the grown alphabet accepts both; on `a` and `f(a)` the two complements agree; and the second call of the
seeded `complCached` on the same alphabet object returns exactly the stale automaton, which the exact decider `isComplM`
refuses as a complement over the grown alphabet -/
theorem C06_stale_index_counterexample :
    let A : TA := ⟨[⟨0, [], 0⟩], [0]⟩
    let Sg : List (Nat × Nat) := [(0, 0), (1, 1)]
    let Sg' : List (Nat × Nat) := [(0, 0), (1, 1), (2, 0)]
    let b : Tree := .node 2 []
    let fb : Tree := .node 1 [.node 2 []]
    let a : Tree := .node 0 []
    let fa : Tree := .node 1 [.node 0 []]
    (∀ x, x ∈ Sg → x ∈ Sg') ∧
    overSig Sg' b = true ∧ overSig Sg' fb = true ∧ overSig Sg b = false ∧ overSig Sg fb = false ∧
    accepts A b = false ∧ accepts A fb = false ∧
    (Compl.complTD A Sg 10).map (fun C => [accepts C b, accepts C fb, accepts C a, accepts C fa]) =
      some [false, false, false, true] ∧
    (Compl.complTD A Sg' 10).map (fun C => [accepts C b, accepts C fb, accepts C a, accepts C fa]) =
      some [true, true, false, true] ∧
    ((Compl.complCached (Compl.complCached [] 1 A Sg 10).1 1 A Sg' 10).2.map (fun C => (C.rules, C.final)) =
      (Compl.complTD A Sg 10).map (fun C => (C.rules, C.final)) ∧
     ((Compl.complCached (Compl.complCached [] 1 A Sg 10).1 1 A Sg' 10).2.map (fun C => (C.rules, C.final))).isSome = true) ∧
    (match Compl.complTD A Sg 10 with | some C => isComplM C A Sg' 20 | none => none) = some false ∧
    (match Compl.complTD A Sg' 10 with | some C => isComplM C A Sg' 20 | none => none) = some true := by
  decide

/-!
## still not proved

* The seeded change itself is C++; `symIndexCached` / `complCached` are a model of it written from its description (a
  function-static map keyed by the alphabet object, filled on the first miss, never refreshed).  No statement connects this
  model to a concrete patch of `explicit_tree_comp_down.hh`; in the unmodified library the index is read from the alphabet
  at every call, which is what the parameter `Sg` of `complTD` stands for.
* Only growth of the alphabet is treated in the counterexample; the general theorems
  (`…_rejects_new_symbols`, `…_not_complement`) need no inclusion at all, `…_monotone…` and `…_exact` assume `Sg ⊆ Sg'`.
  Nothing is said about an alphabet that shrank or re-ranked a symbol beyond "a pair (symbol, rank) not in `Sg` is new".
* The remaining open items of `Vata/Properties/C06.lean` (non-trivial preorder; that the symbol dictionary holds exactly
  `Sg`) are untouched.
-/
end Vata.Props
