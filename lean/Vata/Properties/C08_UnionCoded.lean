import Vata.Proofs.BddUnionCodedShared
import Vata.Proofs.PropAux
/-!
# C08 – `Union` / `UnionDisjointStates` of the two BDD encodings AS CODED

> For both BDD encodings Union and UnionDisjointStates yield exactly the union … None of these calls changes the language of
> an operand.

## How the C++ is read into the model (`Vata/BddUnionCoded.lean`)

* Sources: `src/bdd_td_tree_aut_union.cc`, `src/bdd_td_tree_aut_union_disj.cc`, `src/bdd_bu_tree_aut_union.cc`,
  `src/bdd_bu_tree_aut_union_disj.cc`, `ReindexStates` of `src/bdd_td_tree_aut_core.cc` / `src/bdd_bu_tree_aut_core.cc`,
  `include/vata/util/transl_weak.hh`, `src/mtbdd/apply1func.hh`, `src/bdd_bu_tt_wrapper.hh`.
* An automaton object is a handle `AutTD` / `AutBU` = (`tid`: identity of the table object behind its `shared_ptr`, `T`: the
  value of the table as the object sees it – `BddAbsTD.TableTD`, `BddAbs.Table` (own nullary MTBDD + entries of the shared
  table) –, `fin`).  `ShareTransTable(lhs, rhs)` is `lhs.tid = rhs.tid`.  "Dump" is `AutTD.abs syms` / `AutBU.abs syms`
  (`absTD` / `absBU` over the symbol dictionary `syms`).
* Every branch is modelled: same table object (`result = lhs`, final states of `rhs` inserted; bottom-up additionally the own
  nullary MTBDDs united; the translation maps are NOT touched) vs distinct tables; maps absent (`none`: a local empty map)
  vs given (`some m`); the two weak translators with their ONE counter (`TrSt`, `tr1`, threaded through `trList`,
  `trTuples`, the `Apply1` traversal `rewrite` – low subtree before high subtree – and the table loops
  `reindexLoopTD` / `reindexLoopBU`, which call `SetMtbdd` = REPLACE); the bottom-up iterator that yields the nullary pair
  first, the second rewriting of the nullary MTBDD and the final `SetMtbdd(StateTuple(), unionFunc(lhsMtbdd, rhsMtbdd))`;
  final states translated after the table.  `UnionDisjointStates` with distinct tables: `result = lhs` (result on the table
  object of `lhs`), the entries of `rhs` written over it.
* The counter: `StateType stateCnt = 0;` – `tdUnion` / `buUnion` are `tdUnionFrom 0` / `buUnionFrom 0`.  (The explicit
  encoding starts ABOVE the numbers in the given maps since repair D11; the BDD encodings do not – see the FINDING below.)
* Abstracted: the leaf cache of `Apply1Functor` (unobservable: `tr1_known`), hash iteration orders (list orders; no theorem
  depends on them), table entries read by `GetMtbdd(key)` instead of the iterator's `second`, the copy-on-write plumbing
  (`Vata/BddShare.lean`).  State numbers are unbounded `Nat`.

## FINDING (candidate defect, same kind as D11 / D19)

`BDDTDTreeAutCore::Union` and `BDDBUTreeAutCore::Union` are public through `BDDTopDownTreeAut::Union` /
`BDDBottomUpTreeAut::Union` with caller-supplied `pTranslMapLhs` / `pTranslMapRhs`, and start `stateCnt` at `0` whatever the
maps contain.  With a pre-filled map the fresh numbers collide with the given ones: `C08_union_coded_prefilled_maps_wrong`
(top-down: the colliding `SetMtbdd` even REPLACES an entry, the result accepts a tree outside both languages and rejects one
inside; bottom-up: accepts a tree outside both).  Starting the counter above the numbers of the maps repairs it
(`C08_union_coded_maps` with `Below`).
-/
namespace Vata.Props
open Vata Vata.M Vata.BddAbs Vata.BddAbsTD Vata.BddUnionCoded Vata.Um

/-! ### examples used below -/
namespace UnionCodedEx

def syms : List Nat := [0, 1, 2]
def lf (f : Nat) : Tree := .node f []
def un (f : Nat) (t : Tree) : Tree := .node f [t]

/-- `a → 1`, `h(1) → 2`, final `2`; and `b → 1`, `h(1) → 2`, final `2`: the SAME state numbers, distinct table objects -/
def tdA : AutTD := ⟨1, ofRulesTD [⟨0, [], 1⟩, ⟨2, [1], 2⟩], [2]⟩
def tdB : AutTD := ⟨2, ofRulesTD [⟨1, [], 1⟩, ⟨2, [1], 2⟩], [2]⟩
def buA : AutBU := ⟨1, ofRules [⟨0, [], 1⟩, ⟨2, [1], 2⟩], [2]⟩
def buB : AutBU := ⟨2, ofRules [⟨1, [], 1⟩, ⟨2, [1], 2⟩], [2]⟩

/-- two bottom-up handles on ONE table object (`h(1) → 3`, `h(2) → 4`) with own leaf rules `a → 1` / `b → 2` and own final
states `3` / `4`: `L = {h(a)}` and `L = {h(b)}` -/
def shL : AutBU := ⟨5, ofRules [⟨0, [], 1⟩, ⟨2, [1], 3⟩, ⟨2, [2], 4⟩], [3]⟩
def shR : AutBU := ⟨5, ⟨(ofRules [⟨1, [], 2⟩]).nullary, shL.T.entries⟩, [4]⟩

def showR (A : TA) : List (Nat × List Nat × Nat) × List Nat := (A.rules.map (fun r => (r.sym, r.kids, r.parent)), A.final)

end UnionCodedEx
open UnionCodedEx

/-! ## `Union`, any start value of the counter, any given maps -/

/-- **Both encodings, exactness from the maps the call leaves behind.**  Distinct table objects; whatever the counter start
`c0` and the given maps: if the FINAL maps (second and third component of the result; executable checks `smapInjB`,
`smapDisjB`) are injective and share no number, then the dump of the result is, as a set of rules and final states,
`unionWith` of the dumps of the operands under the final maps, it accepts exactly `L(lhs) ∪ L(rhs)`, and the final maps are
defined on every state number of their operand -/
theorem C08_union_coded_lang_of_final_maps (c0 fresh : Nat) (syms : List Nat) (oL oR : Option SMap) :
    (∀ (lhs rhs : AutTD), lhs.tid ≠ rhs.tid →
      Inj (tdUnionFrom c0 fresh lhs rhs oL oR).2.1 → Inj (tdUnionFrom c0 fresh lhs rhs oL oR).2.2 →
      Disj (tdUnionFrom c0 fresh lhs rhs oL oR).2.1 (tdUnionFrom c0 fresh lhs rhs oL oR).2.2 →
      SetEqTA ((tdUnionFrom c0 fresh lhs rhs oL oR).1.abs syms)
        (unionWith (applyMap (tdUnionFrom c0 fresh lhs rhs oL oR).2.1) (applyMap (tdUnionFrom c0 fresh lhs rhs oL oR).2.2)
          (lhs.abs syms) (rhs.abs syms)) ∧
      (∀ t, accepts ((tdUnionFrom c0 fresh lhs rhs oL oR).1.abs syms) t =
        (accepts (lhs.abs syms) t || accepts (rhs.abs syms) t)) ∧
      (∀ q, q ∈ lhs.allStates → ∃ n, (tdUnionFrom c0 fresh lhs rhs oL oR).2.1.lookup q = some n) ∧
      (∀ q, q ∈ rhs.allStates → ∃ n, (tdUnionFrom c0 fresh lhs rhs oL oR).2.2.lookup q = some n)) ∧
    (∀ (lhs rhs : AutBU), lhs.tid ≠ rhs.tid →
      Inj (buUnionFrom c0 fresh lhs rhs oL oR).2.1 → Inj (buUnionFrom c0 fresh lhs rhs oL oR).2.2 →
      Disj (buUnionFrom c0 fresh lhs rhs oL oR).2.1 (buUnionFrom c0 fresh lhs rhs oL oR).2.2 →
      SetEqTA ((buUnionFrom c0 fresh lhs rhs oL oR).1.abs syms)
        (unionWith (applyMap (buUnionFrom c0 fresh lhs rhs oL oR).2.1) (applyMap (buUnionFrom c0 fresh lhs rhs oL oR).2.2)
          (lhs.abs syms) (rhs.abs syms)) ∧
      (∀ t, accepts ((buUnionFrom c0 fresh lhs rhs oL oR).1.abs syms) t =
        (accepts (lhs.abs syms) t || accepts (rhs.abs syms) t)) ∧
      (∀ q, q ∈ lhs.allStates → ∃ n, (buUnionFrom c0 fresh lhs rhs oL oR).2.1.lookup q = some n) ∧
      (∀ q, q ∈ rhs.allStates → ∃ n, (buUnionFrom c0 fresh lhs rhs oL oR).2.2.lookup q = some n)) :=
  ⟨fun lhs rhs hne hL hR hD => tdUnionFrom_lang_of_maps c0 fresh lhs rhs oL oR syms hne hL hR hD,
   fun lhs rhs hne hL hR hD => buUnionFrom_lang_of_maps c0 fresh lhs rhs oL oR syms hne hL hR hD⟩

example : tdA.tid ≠ tdB.tid ∧ smapInjB (tdUnion 9 tdA tdB none none).2.1 = true ∧
    smapInjB (tdUnion 9 tdA tdB none none).2.2 = true ∧
    smapDisjB (tdUnion 9 tdA tdB none none).2.1 (tdUnion 9 tdA tdB none none).2.2 = true := by decide +kernel

/-- **Both encodings, given maps with a counter above them** (what the code would be after the repair that D11 made in the
explicit encoding): when the given maps are injective, share no number, and all their numbers are below the start value
`c0` of the counter (`Below`; for absent or empty maps every `c0`, in particular the coded `0`, qualifies), the final maps are
injective, share no number and extend the given maps – the hypotheses of `C08_union_coded_lang_of_final_maps` are DERIVED
from the renumbering – and the result accepts exactly `L(lhs) ∪ L(rhs)`, for ALL operands (overlapping state numbers
included) -/
theorem C08_union_coded_maps (c0 fresh : Nat) (syms : List Nat) (oL oR : Option SMap)
    (hbL : Below (oL.getD []) c0) (hbR : Below (oR.getD []) c0)
    (hL : Inj (oL.getD [])) (hR : Inj (oR.getD [])) (hD : Disj (oL.getD []) (oR.getD [])) :
    (∀ (lhs rhs : AutTD), lhs.tid ≠ rhs.tid →
      (Inj (tdUnionFrom c0 fresh lhs rhs oL oR).2.1 ∧ Inj (tdUnionFrom c0 fresh lhs rhs oL oR).2.2 ∧
        Disj (tdUnionFrom c0 fresh lhs rhs oL oR).2.1 (tdUnionFrom c0 fresh lhs rhs oL oR).2.2 ∧
        Ext (oL.getD []) (tdUnionFrom c0 fresh lhs rhs oL oR).2.1 ∧ Ext (oR.getD []) (tdUnionFrom c0 fresh lhs rhs oL oR).2.2) ∧
      ∀ t, accepts ((tdUnionFrom c0 fresh lhs rhs oL oR).1.abs syms) t =
        (accepts (lhs.abs syms) t || accepts (rhs.abs syms) t)) ∧
    (∀ (lhs rhs : AutBU), lhs.tid ≠ rhs.tid →
      (Inj (buUnionFrom c0 fresh lhs rhs oL oR).2.1 ∧ Inj (buUnionFrom c0 fresh lhs rhs oL oR).2.2 ∧
        Disj (buUnionFrom c0 fresh lhs rhs oL oR).2.1 (buUnionFrom c0 fresh lhs rhs oL oR).2.2 ∧
        Ext (oL.getD []) (buUnionFrom c0 fresh lhs rhs oL oR).2.1 ∧ Ext (oR.getD []) (buUnionFrom c0 fresh lhs rhs oL oR).2.2) ∧
      ∀ t, accepts ((buUnionFrom c0 fresh lhs rhs oL oR).1.abs syms) t =
        (accepts (lhs.abs syms) t || accepts (rhs.abs syms) t)) := by
  refine ⟨fun lhs rhs hne => ?_, fun lhs rhs hne => ?_⟩
  · have h := tdUnionFrom_maps_ok c0 fresh lhs rhs oL oR hne hbL hbR hL hR hD
    exact ⟨h, (tdUnionFrom_lang_of_maps c0 fresh lhs rhs oL oR syms hne h.1 h.2.1 h.2.2.1).2.1⟩
  · have h := buUnionFrom_maps_ok c0 fresh lhs rhs oL oR hne hbL hbR hL hR hD
    exact ⟨h, (buUnionFrom_lang_of_maps c0 fresh lhs rhs oL oR syms hne h.1 h.2.1 h.2.2.1).2.1⟩

-- a pre-filled map `2 ↦ 0` with the counter started at `1`: the hypotheses hold, and the result is right
example : Below ((some [(2, 0)] : Option SMap).getD []) 1 ∧ Inj ((some [(2, 0)] : Option SMap).getD []) :=
  ⟨fun p n h => by
      have := mem_of_lookup h
      simp at this; omega,
   smapInjB_sound (by decide)⟩
example : showR ((tdUnionFrom 1 9 tdA tdB (some [(2, 0)]) none).1.abs syms) =
    ([(1, [], 3), (2, [3], 2), (0, [], 1), (2, [1], 0)], [0, 2]) := by decide +kernel

/-- **FINDING: `Union` as coded (`stateCnt = 0`) with a pre-filled map is wrong, in both encodings.**  Operands `tdA`/`buA`
(`L = {h(a)}`) and `tdB`/`buB` (`L = {h(b)}`), left map pre-filled with `2 ↦ 0`.  The fresh number `0` is handed to state `1`
as well.  Top-down: the second `SetMtbdd(0, …)` REPLACES the entry of the first; the result accepts `a` (in neither
language) and rejects `h(a)`.  Bottom-up: the result accepts `h(h(a))` (in neither language).  The final left map is not
injective (the hypothesis of `C08_union_coded_lang_of_final_maps` that fails), and `Below` fails for `c0 = 0` -/
theorem C08_union_coded_prefilled_maps_wrong :
    (accepts ((tdUnion 9 tdA tdB (some [(2, 0)]) none).1.abs syms) (lf 0) = true ∧
      accepts (tdA.abs syms) (lf 0) = false ∧ accepts (tdB.abs syms) (lf 0) = false ∧
      accepts ((tdUnion 9 tdA tdB (some [(2, 0)]) none).1.abs syms) (un 2 (lf 0)) = false ∧
      accepts (tdA.abs syms) (un 2 (lf 0)) = true) ∧
    (accepts ((buUnion 9 buA buB (some [(2, 0)]) none).1.abs syms) (un 2 (un 2 (lf 0))) = true ∧
      accepts (buA.abs syms) (un 2 (un 2 (lf 0))) = false ∧ accepts (buB.abs syms) (un 2 (un 2 (lf 0))) = false) ∧
    smapInjB (tdUnion 9 tdA tdB (some [(2, 0)]) none).2.1 = false ∧
    smapInjB (buUnion 9 buA buB (some [(2, 0)]) none).2.1 = false := by decide +kernel

/-! ## `Union` as coded, maps absent or empty -/

/-- **Top-down `Union` as coded** (`stateCnt = 0`; maps absent or empty; `SameTD`: two handles on one table object see one
value).  For ALL operands – overlapping state numbers included – the dump of the result accepts exactly `L(lhs) ∪ L(rhs)`.
With distinct table objects moreover: the result sits on the fresh table (the operands' tables are not written), its dump is
`unionWith` of the operands' dumps under the returned maps, which are injective with disjoint images and defined on every
state number of their operand -/
theorem C08_td_union_coded_lang (fresh : Nat) (lhs rhs : AutTD) (oL oR : Option SMap) (syms : List Nat)
    (hs : SameTD lhs rhs) (hoL : oL.getD [] = []) (hoR : oR.getD [] = []) :
    (∀ t, accepts ((tdUnion fresh lhs rhs oL oR).1.abs syms) t = (accepts (lhs.abs syms) t || accepts (rhs.abs syms) t)) ∧
    (lhs.tid ≠ rhs.tid →
      (tdUnion fresh lhs rhs oL oR).1.tid = fresh ∧
      SetEqTA ((tdUnion fresh lhs rhs oL oR).1.abs syms)
        (unionWith (applyMap (tdUnion fresh lhs rhs oL oR).2.1) (applyMap (tdUnion fresh lhs rhs oL oR).2.2)
          (lhs.abs syms) (rhs.abs syms)) ∧
      Inj (tdUnion fresh lhs rhs oL oR).2.1 ∧ Inj (tdUnion fresh lhs rhs oL oR).2.2 ∧
      Disj (tdUnion fresh lhs rhs oL oR).2.1 (tdUnion fresh lhs rhs oL oR).2.2 ∧
      (∀ q, q ∈ lhs.allStates → ∃ n, (tdUnion fresh lhs rhs oL oR).2.1.lookup q = some n) ∧
      (∀ q, q ∈ rhs.allStates → ∃ n, (tdUnion fresh lhs rhs oL oR).2.2.lookup q = some n)) := by
  have full : lhs.tid ≠ rhs.tid → _ := fun hne =>
    let h := tdUnionFrom_maps_ok 0 fresh lhs rhs oL oR hne (by rw [hoL]; exact below_nil 0) (by rw [hoR]; exact below_nil 0)
      (by rw [hoL]; exact inj_nil) (by rw [hoR]; exact inj_nil) (by rw [hoL]; exact disj_nil_left _)
    And.intro h (tdUnionFrom_lang_of_maps 0 fresh lhs rhs oL oR syms hne h.1 h.2.1 h.2.2.1)
  refine ⟨fun t => ?_, fun hne => ?_⟩
  · by_cases hne : lhs.tid = rhs.tid
    · have e : (tdUnion fresh lhs rhs oL oR).1 = ⟨lhs.tid, lhs.T, lhs.fin ++ rhs.fin⟩ := by
        unfold tdUnion tdUnionFrom; rw [if_pos hne]
      rw [e]
      exact tdShared_lang syms lhs rhs (hs hne) t
    · exact (full hne).2.2.1 t
  · obtain ⟨h, h'⟩ := full hne
    exact ⟨congrArg AutTD.tid (tdUnionFrom_result 0 fresh lhs rhs oL oR hne), h'.1, h.1, h.2.1, h.2.2.1, h'.2.2.1, h'.2.2.2⟩

example : SameTD tdA tdB ∧ (none : Option SMap).getD [] = [] ∧ tdA.tid ≠ tdB.tid :=
  ⟨fun h => absurd h (by decide), rfl, by decide⟩
-- the same numbers `1`, `2` in both operands are renumbered apart (`0 … 3`)
example : showR ((tdUnion 9 tdA tdB none none).1.abs syms) = ([(1, [], 3), (2, [3], 2), (0, [], 1), (2, [1], 0)], [0, 2]) ∧
    (tdUnion 9 tdA tdB none none).2 = ([(2, 0), (1, 1)], [(2, 2), (1, 3)]) := by decide +kernel

/-- **Bottom-up `Union` as coded** (`stateCnt = 0`; maps absent or empty).  Distinct table objects: for ALL operands –
overlapping state numbers included – the dump of the result accepts exactly `L(lhs) ∪ L(rhs)`, the result sits on the fresh
table, its dump is `unionWith` of the operands' dumps under the returned maps, which are injective with disjoint images and
total.  Same table object (handles seeing the same entries, `SameBU`): exactly the union under clause S of `BddShare.pre`
(`sharedClauseS`: every final state is a final state of one operand that the leaf rules only the OTHER operand has cannot
influence) – necessary in general, see `C08_bu_shared_clauseS_needed` -/
theorem C08_bu_union_coded_lang (fresh : Nat) (lhs rhs : AutBU) (oL oR : Option SMap) (syms : List Nat)
    (hs : SameBU lhs rhs) (hS : lhs.tid = rhs.tid → sharedClauseS syms lhs rhs = true)
    (hoL : oL.getD [] = []) (hoR : oR.getD [] = []) :
    (∀ t, accepts ((buUnion fresh lhs rhs oL oR).1.abs syms) t = (accepts (lhs.abs syms) t || accepts (rhs.abs syms) t)) ∧
    (lhs.tid ≠ rhs.tid →
      (buUnion fresh lhs rhs oL oR).1.tid = fresh ∧
      SetEqTA ((buUnion fresh lhs rhs oL oR).1.abs syms)
        (unionWith (applyMap (buUnion fresh lhs rhs oL oR).2.1) (applyMap (buUnion fresh lhs rhs oL oR).2.2)
          (lhs.abs syms) (rhs.abs syms)) ∧
      Inj (buUnion fresh lhs rhs oL oR).2.1 ∧ Inj (buUnion fresh lhs rhs oL oR).2.2 ∧
      Disj (buUnion fresh lhs rhs oL oR).2.1 (buUnion fresh lhs rhs oL oR).2.2 ∧
      (∀ q, q ∈ lhs.allStates → ∃ n, (buUnion fresh lhs rhs oL oR).2.1.lookup q = some n) ∧
      (∀ q, q ∈ rhs.allStates → ∃ n, (buUnion fresh lhs rhs oL oR).2.2.lookup q = some n)) := by
  have full : lhs.tid ≠ rhs.tid → _ := fun hne =>
    let h := buUnionFrom_maps_ok 0 fresh lhs rhs oL oR hne (by rw [hoL]; exact below_nil 0) (by rw [hoR]; exact below_nil 0)
      (by rw [hoL]; exact inj_nil) (by rw [hoR]; exact inj_nil) (by rw [hoL]; exact disj_nil_left _)
    And.intro h (buUnionFrom_lang_of_maps 0 fresh lhs rhs oL oR syms hne h.1 h.2.1 h.2.2.1)
  refine ⟨fun t => ?_, fun hne => ?_⟩
  · by_cases hne : lhs.tid = rhs.tid
    · have e : (buUnion fresh lhs rhs oL oR).1 = buShared lhs rhs := by
        unfold buUnion buUnionFrom; rw [if_pos hne]
      rw [e]
      exact buShared_lang syms lhs rhs (hs hne) (hS hne) t
    · exact (full hne).2.2.1 t
  · obtain ⟨h, h'⟩ := full hne
    exact ⟨congrArg AutBU.tid (buUnionFrom_result 0 fresh lhs rhs oL oR hne), h'.1, h.1, h.2.1, h.2.2.1, h'.2.2.1, h'.2.2.2⟩

example : SameBU buA buB ∧ buA.tid ≠ buB.tid ∧ SameBU shL shR ∧ shL.tid = shR.tid ∧ sharedClauseS syms shL shR = true :=
  ⟨fun h => absurd h (by decide), by decide, fun _ => rfl, rfl, by decide +kernel⟩
example : showR ((buUnion 9 buA buB none none).1.abs syms) = ([(0, [], 0), (1, [], 2), (2, [2], 3), (2, [0], 1)], [1, 3]) ∧
    (buUnion 9 buA buB none none).2 = ([(1, 0), (2, 1)], [(1, 2), (2, 3)]) ∧
    showR ((buUnion 9 shL shR none none).1.abs syms) = ([(0, [], 1), (1, [], 2), (2, [2], 4), (2, [1], 3)], [3, 4]) := by
  decide +kernel

/-! ## `UnionDisjointStates` as coded -/

/-- **Top-down `UnionDisjointStates` as coded.**  Same table object: exactly the union.  Distinct table objects: under
state-disjointness – no state NUMBER of `lhs` (keys of its table, also of entries whose MTBDD has only empty leaves; leaves;
final states: `allStates`) occurs in `rhs` – exactly the union; the disjointness of the table keys that `absTD_unionDisj`
assumes is derived from it.  The result sits on the table object of `lhs`, which is written in place: the entries at the keys
of `lhs` keep their values (second component; what other handles on that table then denote is `C08_sharing_*`) -/
theorem C08_td_uniondisj_coded_lang (lhs rhs : AutTD) (syms : List Nat) (hs : SameTD lhs rhs)
    (hdis : lhs.tid ≠ rhs.tid → ∀ q, q ∈ lhs.allStates → q ∉ rhs.allStates) :
    (∀ t, accepts ((tdUnionDisj lhs rhs).abs syms) t = (accepts (lhs.abs syms) t || accepts (rhs.abs syms) t)) ∧
    (tdUnionDisj lhs rhs).tid = lhs.tid ∧
    (lhs.tid ≠ rhs.tid → ∀ p, p ∈ keysTD lhs.T → getTD (tdUnionDisj lhs rhs).T p = getTD lhs.T p) := by
  refine ⟨fun t => ?_, by unfold tdUnionDisj; split <;> rfl, fun hne p hp => ?_⟩
  · by_cases hne : lhs.tid = rhs.tid
    · have e : tdUnionDisj lhs rhs = ⟨lhs.tid, lhs.T, lhs.fin ++ rhs.fin⟩ := by unfold tdUnionDisj; rw [if_pos hne]
      rw [e]
      exact tdShared_lang syms lhs rhs (hs hne) t
    · have e : tdUnionDisj lhs rhs = ⟨lhs.tid, unionDisjTD lhs.T rhs.T, lhs.fin ++ rhs.fin⟩ := by
        unfold tdUnionDisj; rw [if_neg hne]; rfl
      rw [e]
      have hk := keys_disj_of_states_TD lhs rhs (hdis hne)
      have hse := absTD_unionDisj_setEq syms lhs.T rhs.T lhs.fin rhs.fin hk
      show accepts (absTD syms (unionDisjTD lhs.T rhs.T) (lhs.fin ++ rhs.fin)) t = _
      rw [hse.lang t]
      exact unionDisjoint_lang _ _ (fun q h1 h2 => hdis hne q (abs_states_sub_TD syms lhs h1) (abs_states_sub_TD syms rhs h2)) t
  · have e : (tdUnionDisj lhs rhs).T = unionDisjTD lhs.T rhs.T := by unfold tdUnionDisj; rw [if_neg hne]; rfl
    rw [e, getTD_unionDisjTD, if_neg (keys_disj_of_states_TD lhs rhs (hdis hne) p hp)]

/-- `tdB` renumbered apart from `tdA` by hand -/
def UnionCodedEx.tdB' : AutTD := ⟨2, ofRulesTD [⟨1, [], 11⟩, ⟨2, [11], 12⟩], [12]⟩

example : SameTD tdA tdB' ∧ (tdA.tid ≠ tdB'.tid → ∀ q, q ∈ tdA.allStates → q ∉ tdB'.allStates) :=
  ⟨fun h => absurd h (by decide), fun _ => by decide +kernel⟩

/-- the hypothesis speaks of `allStates`, not of the states of the dumps, for a reason: a key whose MTBDD has only empty
leaves is invisible in the dump but REPLACES the entry of the left operand.  `tdA` and the rule-less handle with the entry
`2 ↦ leaf ∅`: the dumps have disjoint states, the result loses `h(1) → 2` and rejects `h(a)` -/
theorem C08_td_uniondisj_empty_entry_overwrites :
    (∀ q, q ∈ (tdA.abs syms).states → q ∉ ((⟨2, [(2, .leaf [])], []⟩ : AutTD).abs syms).states) ∧
    accepts (tdA.abs syms) (un 2 (lf 0)) = true ∧
    accepts ((tdUnionDisj tdA ⟨2, [(2, .leaf [])], []⟩).abs syms) (un 2 (lf 0)) = false := by decide +kernel

/-- **Bottom-up `UnionDisjointStates` as coded.**  Distinct table objects: under state-disjointness (`allStates`: key tuples,
leaves, final states) exactly the union – the disjointness of the tuple keys that `absBU_unionDisj` assumes is derived –; the
result sits on the table object of `lhs`, whose entries at the keys of `lhs` keep their values.  Same table object: exactly
the union under clause S (`sharedClauseS`) -/
theorem C08_bu_uniondisj_coded_lang (lhs rhs : AutBU) (syms : List Nat) (hs : SameBU lhs rhs)
    (hS : lhs.tid = rhs.tid → sharedClauseS syms lhs rhs = true)
    (hdis : lhs.tid ≠ rhs.tid → ∀ q, q ∈ lhs.allStates → q ∉ rhs.allStates) :
    (∀ t, accepts ((buUnionDisj lhs rhs).abs syms) t = (accepts (lhs.abs syms) t || accepts (rhs.abs syms) t)) ∧
    (buUnionDisj lhs rhs).tid = lhs.tid ∧
    (lhs.tid ≠ rhs.tid → ∀ k, k ∈ lhs.T.keys → k ≠ [] → (buUnionDisj lhs rhs).T.get k = lhs.T.get k) := by
  refine ⟨fun t => ?_, by unfold buUnionDisj; split <;> rfl, fun hne k hk hk0 => ?_⟩
  · by_cases hne : lhs.tid = rhs.tid
    · have e : buUnionDisj lhs rhs = buShared lhs rhs := by unfold buUnionDisj; rw [if_pos hne]
      rw [e]
      exact buShared_lang syms lhs rhs (hs hne) (hS hne) t
    · have hkd := keys_disj_of_states_BU lhs rhs (hdis hne)
      have hse := buUnionDisj_setEq syms lhs.T rhs.T lhs.fin rhs.fin hkd
      have e : (buUnionDisj lhs rhs).abs syms = absBU syms (((pairs rhs.T).foldl (fun R e => R.set e.1 (rhs.T.get e.1)) lhs.T).set []
          (apply2 unionS (lhs.T.get []) (rhs.T.get []))) (lhs.fin ++ rhs.fin) := by
        unfold buUnionDisj; rw [if_neg hne]; rfl
      rw [e, hse.lang t]
      exact unionDisjoint_lang _ _ (fun q h1 h2 => hdis hne q (abs_states_sub_BU syms lhs h1) (abs_states_sub_BU syms rhs h2)) t
  · have e : (buUnionDisj lhs rhs).T = ((pairs rhs.T).foldl (fun R e => R.set e.1 (rhs.T.get e.1)) lhs.T).set []
        (apply2 unionS (lhs.T.get []) (rhs.T.get [])) := by unfold buUnionDisj; rw [if_neg hne]
    rw [e, get_set, if_neg (fun e => hk0 e.symm), get_copyLoopBU, keys_eq_pairs,
      if_neg (fun h2 => hk0 (keys_disj_of_states_BU lhs rhs (hdis hne) k hk h2))]

/-- `buB` renumbered apart from `buA` by hand -/
def UnionCodedEx.buB' : AutBU := ⟨2, ofRules [⟨1, [], 11⟩, ⟨2, [11], 12⟩], [12]⟩

example : SameBU buA buB' ∧ (buA.tid ≠ buB'.tid → ∀ q, q ∈ buA.allStates → q ∉ buB'.allStates) :=
  ⟨fun h => absurd h (by decide), fun _ => by decide +kernel⟩
example : showR ((buUnionDisj buA buB').abs syms) = ([(0, [], 1), (1, [], 11), (2, [11], 12), (2, [1], 2)], [2, 12]) := by
  decide +kernel

/-! ## regression: the shared-table branch of the bottom-up unions -/

/-- **Defect D16 (repaired by a5b49300) and a seeded sibling.**  `shL` (`L = {h(a)}`) and `shR` (`L = {h(b)}`) are two views
of one table; clause S holds.  The coded branch accepts `h(a)` and `h(b)`.  The branch before the repair (`buSharedD16`:
final states of the right operand forgotten) and the variant that forgets the right operand's nullary rules
(`buSharedNoNullary`) both REJECT `h(b)` – a wrong language -/
theorem C08_bu_shared_branch_regression :
    sharedClauseS syms shL shR = true ∧ accepts (shR.abs syms) (un 2 (lf 1)) = true ∧
    accepts ((buShared shL shR).abs syms) (un 2 (lf 1)) = true ∧ accepts ((buShared shL shR).abs syms) (un 2 (lf 0)) = true ∧
    accepts ((buSharedD16 shL shR).abs syms) (un 2 (lf 1)) = false ∧
    accepts ((buSharedNoNullary shL shR).abs syms) (un 2 (lf 1)) = false := by decide +kernel

/-- clause S cannot be dropped from the shared bottom-up branch: the left view has the leaf rule `a → 1` and the final state
`4`, the right view the leaf rule `b → 2` and the final state `3`; neither accepts anything, the union of the views accepts
`h(a)` and `h(b)` -/
theorem C08_bu_shared_clauseS_needed :
    let l : AutBU := ⟨5, shL.T, [4]⟩
    let r : AutBU := ⟨5, shR.T, [3]⟩
    SameBU l r ∧ sharedClauseS syms l r = false ∧
    accepts (l.abs syms) (un 2 (lf 0)) = false ∧ accepts (r.abs syms) (un 2 (lf 0)) = false ∧
    accepts ((buShared l r).abs syms) (un 2 (lf 0)) = true := by
  refine ⟨fun _ => rfl, ?_⟩
  decide +kernel

/-!
## still not proved

* **Numbers, not sets.**  The NUMBERS the translators hand out depend on the iteration orders of the hash maps (list order
  here); the theorems hold for every order, the concrete maps of the examples only for the list order.
* **The leaf cache of `Apply1Functor`** and the `ApplyOperation` on the default value are not modelled (`tr1_known`: a repeated
  call for a known state changes nothing, so no translator state can differ; the MTBDD-node level is `Vata/ApplyMemo*.lean`).
* **In-place write of `UnionDisjointStates`.**  The theorems give the value of the result and that the entries at the keys of
  `lhs` are kept; what every OTHER live handle on the table object of `lhs` denotes afterwards (clauses T, A, H of
  `BddShare.pre`) is proved at the abstraction of rule lists in `C08_sharing_history` / `C08_sharing_isolation`, not
  re-derived for MTBDD tables.  `SameTD` / `SameBU` (handles on one object see one value) are hypotheses here – they are the
  heap invariant of that model.
* **Shared branch with caller-supplied maps**: the maps are left untouched by the code (not filled with an identity), so a
  caller that reads them gets no translation for the result's states – modelled (`tdUnionFrom`, `buUnionFrom` return the given
  maps) but no theorem states a use of it.
* **The pre-filled-map finding** (`C08_union_coded_prefilled_maps_wrong`) is a statement about the model; that the real
  library shows the same behaviour has to be confirmed by the correspondence check (function to call: see below).
* Symbols `≥ 2^16`, arities `≥ 64`: as in `C08.lean` (the theorems here are about arbitrary tables and dictionaries `syms`, no
  such hypothesis is needed at this level).
-/
end Vata.Props
