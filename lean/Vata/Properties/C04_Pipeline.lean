import Vata.Proofs.SimPipeline
import Vata.Proofs.UsefulAux
import Vata.Properties.C04
/-!
# C04 – `ComputeSimulation` end to end: translation as coded → engine model → `buildResult` → `StateDiscontBinaryRelation`

> For an explicit tree automaton whose states are numbered 0..n-1 and n is passed as the number of states, the downward
> simulation returned relates q to r exactly when every rule a(q1..qk)->q can be answered by a rule a(r1..rk)->r whose
> children pairwise simulate q1..qk, taken as the greatest such relation.  For an automaton without useless states the
> upward simulation returned is the greatest relation in which q related to r implies that r is final whenever q is and
> that every rule using q at some child position is answered by a rule using r at the same position with identical
> siblings and a related parent.  Both results are therefore reflexive and transitive and do not depend on how the
> states happen to be numbered.

`Vata/Properties/C04.lean` proves the property for the reference relations `downSimRef` / `upSimRef` and, for the route of
the C++, with the LTS engine represented by its SPECIFICATION `ltsSimRef`.  Here the route is closed: `SimPipe.computeSimDown A n`
/ `SimPipe.computeSimUp A n` (`Vata/SimPipeline.lean`) compose

* the fresh `StateToStateTranslWeak` of `src/explicit_tree_sim.cc` (`SimPipe.downOrder`, `SimPipe.upOrder`: the states in the
  order of their first look-up; index = position),
* `TranslateDownward` / `TranslateUpward` as coded (`Vata/TaLts.lean`),
* the MODEL OF THE ENGINE `LE.computeSimulation` / `LE.computeSimulation1` (`Vata/LtsEngine.lean`: `init`, `run`,
  `processRemove`, `buildResult`, …) – for the downward route the overload `computeSimulation(size)` that builds the one-block
  partition itself,
* the `BinaryRelation` `buildResult` fills (`SimPipe.resultMat`: flat `std::vector<bool>`, `resize`, `set`) and
  `StateDiscontBinaryRelation(ltsSim, translMap)` of the class model `Vata/BinRel.lean` (`SimPipe.simDisc`), read through
  `get` (`SimPipe.discRel`).

The preconditions of `LE.engine_result_eq` are PROVED for both translations (`C04_pipeline_engine_preconditions`).
-/
namespace Vata.Props
open Vata Vata.SimPipe

/-- **downward, end to end.**  For a ranked automaton (always the case for the explicit encoding) with at most `n` states
the composition returns a relation, and it relates `q` to `r` exactly when both are states of `A` and SOME downward
simulation of `A` relates them: the greatest downward simulation -/
theorem C04_pipeline_downward (A : TA) (n : Nat) (hn : A.states.length ≤ n) (hrk : TaLts.Ranked A) :
    ∃ R, computeSimDown A n = some R ∧
      (∀ q r, (q, r) ∈ R ↔ (q, r) ∈ downSimRef A) ∧
      (∀ q r, (q, r) ∈ R ↔ q ∈ A.states ∧ r ∈ A.states ∧ ∃ S, DownSim A S ∧ S q r) := by
  obtain ⟨R, hR⟩ := computeSimDown_total A n
  have h := computeSimDown_eq A n hn hrk R hR
  exact ⟨R, hR, h, fun q r => (h q r).trans ((C04_downward_greatest A).2 q r)⟩

/-- … in the words of the property: the states are numbered `0 … n-1` and `n` is passed -/
theorem C04_pipeline_downward_numbered (A : TA) (n : Nat) (hn : ∀ q, q ∈ A.states → q < n) (hrk : TaLts.Ranked A) :
    ∃ R, computeSimDown A n = some R ∧ ∀ q r, (q, r) ∈ R ↔ (q, r) ∈ downSimRef A := by
  obtain ⟨R, hR, h, _⟩ := C04_pipeline_downward A n (length_states_le_of_lt A n hn) hrk
  exact ⟨R, hR, h⟩

example : (∀ q, q ∈ TaLtsEx.exA.states → q < 5) ∧ TaLts.Ranked TaLtsEx.exA ∧
    computeSimDown TaLtsEx.exA 5 = some [(2, 2), (2, 3), (3, 2), (3, 3), (0, 0), (0, 1), (1, 0), (1, 1), (4, 4)] :=
  ⟨by decide, TaLts.rankedB_iff.mp (by decide), by decide +kernel⟩

/-- the downward route always returns: the engine's internal fuel suffices for every automaton and every `n` (ranked or not) -/
theorem C04_pipeline_downward_total (A : TA) (n : Nat) : ∃ R, computeSimDown A n = some R := computeSimDown_total A n

example : ∃ R, computeSimDown TaLtsEx.exU 3 = some R := C04_pipeline_downward_total _ _

/-- **upward, end to end** (the repaired `TranslateUpward`).  For an automaton in which every state owns a rule, with at most
`n` states, and – unless `n = 0` – a leaf rule (`SimPipe.LeafOk`), the composition returns a relation, and it relates `q` to `r`
exactly when both are states of `A` and SOME upward simulation relates them -/
theorem C04_pipeline_upward (A : TA) (n : Nat) (hown : TaLts.AllOwnRule A) (hn : A.states.length ≤ n) (hleaf : LeafOk A n) :
    ∃ R, computeSimUp A n = some R ∧
      (∀ q r, (q, r) ∈ R ↔ (q, r) ∈ upSimRef A) ∧
      (∀ q r, (q, r) ∈ R ↔ q ∈ A.states ∧ r ∈ A.states ∧ ∃ S, IsUpSim A S ∧ S q r) := by
  obtain ⟨R, hR⟩ := computeSimUp_total A n hown hleaf
  have h := computeSimUp_eq A n hown hn hleaf R hR
  exact ⟨R, hR, h, fun q r => (h q r).trans ((C04_upward_greatest A).2 q r)⟩

example : TaLts.AllOwnRule TaLtsEx.exB ∧ TaLtsEx.exB.states.length ≤ 4 ∧ LeafOk TaLtsEx.exB 4 ∧
    computeSimUp TaLtsEx.exB 4 = some [(0, 0), (2, 2), (3, 2), (3, 3), (3, 4), (4, 4)] :=
  ⟨TaLts.allOwnRuleB_iff.mp (by decide), by decide, Or.inr (hasLeafB_iff.mp (by decide)), by decide +kernel⟩

/-- … in the words of the property: an automaton WITHOUT USELESS STATES (every occurring state takes part in an accepting
run, `UsefulState` of `Vata/Spec.lean`), `n` = the number of states (or larger, if there is a state at all) -/
theorem C04_pipeline_upward_trimmed (A : TA) (n : Nat) (hu : ∀ q, Occurs A q → UsefulState A q)
    (hn : A.states.length ≤ n) (hne : A.states = [] → n = 0) :
    ∃ R, computeSimUp A n = some R ∧ ∀ q r, (q, r) ∈ R ↔ (q, r) ∈ upSimRef A := by
  have hprod : ∀ q, q ∈ A.states → Productive A q :=
    fun q hq => (UsefulAux.usefulState_good (hu q (SimModel.mem_states_iff_occurs.mp hq))).1
  have hleaf : LeafOk A n := by
    rcases leafOk_of_productive hprod with h | h
    · exact Or.inl (hne (List.eq_nil_of_length_eq_zero h))
    · exact Or.inr h
  obtain ⟨R, hR, h, _⟩ := C04_pipeline_upward A n (allOwnRule_of_productive hprod) hn hleaf
  exact ⟨R, hR, h⟩

example : allUsefulB TaLtsEx.exD = true ∧ TaLtsEx.exD.states.length ≤ 2 :=
  ⟨by decide, by decide⟩
example : ∀ q, Occurs TaLtsEx.exD q → UsefulState TaLtsEx.exD q := (UsefulAux.allUsefulB_iff _).mp (by decide)

/-- **the preconditions of the engine hold for both translations** – what `C04.lean` listed as "only tested, not proved".
Downward (`computeSimulation(size)` makes the one-block partition itself): the edges stay below the node count and the
system has a node as soon as `n > 0`.  Upward, for every numbering `idx` that is injective on the states with values below
`N = transitions_->size()`, every state owning a rule, a leaf rule: the edges stay below the node count (`LtsOK`); the
partition lists every node `0 … states_-1` of the LTS exactly once in non-empty blocks (`isPartition`); the relation on the
block numbers is reflexive (`isConsistent`) and TRANSITIVE (`RelTrans`, not asserted by the C++ but needed, C16); and the
initial relation the engine reads off (`LE.initRel`, through "the block of `x`") is `TaLts.blockRel` of
`C04_upward_via_lts` -/
theorem C04_pipeline_engine_preconditions (A : TA) (n : Nat) (idx : Nat → Nat) :
    (LE.LtsOK (TaLts.translateDownward A n idx) ∧ n ≤ (TaLts.translateDownward A n idx).n) ∧
    LE.LtsOK (TaLts.translateUpward A idx).1 ∧
    LE.isConsistent (TaLts.translateUpward A idx).2.1 (TaLts.translateUpward A idx).2.2 = true ∧
    LE.RelTrans (TaLts.translateUpward A idx).2.1 (TaLts.translateUpward A idx).2.2 ∧
    (TaLts.IdxOk A (TaLts.parents A).length idx → TaLts.AllOwnRule A → (∃ ρ, ρ ∈ A.rules ∧ ρ.kids = []) →
      LE.isPartition (TaLts.translateUpward A idx).2.1 (TaLts.translateUpward A idx).1.n = true ∧
      ∀ p, p ∈ LE.initRel (TaLts.translateUpward A idx).2.1 (TaLts.translateUpward A idx).2.2 ↔
        p ∈ TaLts.blockRel (TaLts.translateUpward A idx).2.1 (TaLts.translateUpward A idx).2.2) :=
  ⟨⟨ltsOK_translateDownward A n idx, le_n_translateDownward A n idx⟩, ltsOK_translateUpward A idx,
   upBlockRel_consistent A idx, upBlockRel_trans A idx,
   fun hidx hown hleaf => ⟨upPartition_isPartition hidx hown hleaf,
     initRel_iff_blockRel (upPartition_isPartition hidx hown hleaf)⟩⟩

example : TaLts.IdxOk TaLtsEx.exB (TaLts.parents TaLtsEx.exB).length (idxOf (upOrder TaLtsEx.exB)) ∧
    TaLts.AllOwnRule TaLtsEx.exB ∧ (∃ ρ, ρ ∈ TaLtsEx.exB.rules ∧ ρ.kids = []) ∧
    (TaLts.translateUpward TaLtsEx.exB (idxOf (upOrder TaLtsEx.exB))).2.1 = [[1, 2, 3], [0], [4], [5, 7], [6], [8]] :=
  ⟨TaLts.idxOkB_iff.mp (by decide), TaLts.allOwnRuleB_iff.mp (by decide), ⟨⟨0, [], 0⟩, by decide, rfl⟩, by decide⟩

/-- the numberings the fresh translators produce meet the hypotheses on the numbering (`TaLts.IdxOk`) of
`C04_downward_via_lts` / `C04_upward_via_lts`: injective, below `n` resp. below `transitions_->size()` – i.e. the
`assert(dest < numStates)` / `assert(stateIndex[…] < transitions_->size())` of the translations hold -/
theorem C04_pipeline_numbering (A : TA) (n : Nat) :
    (A.states.length ≤ n → TaLts.IdxOk A n (idxOf (downOrder A))) ∧
    (TaLts.AllOwnRule A → TaLts.IdxOk A (TaLts.parents A).length (idxOf (upOrder A))) ∧
    (downOrder A).Perm A.states :=
  ⟨idxOk_down A, idxOk_up, downOrder_perm A⟩

example : downOrder TaLtsEx.exA = [2, 3, 0, 1, 4] ∧ upOrder TaLtsEx.exB = [0, 2, 3, 4] ∧
    TaLtsEx.exA.states = [0, 1, 2, 3, 4] := by decide

/-- both results are reflexive on the states and transitive, and they do not depend on `n` (as long as it is large enough)
– the relation is determined by the automaton alone -/
theorem C04_pipeline_preorder_and_independence (A : TA) (n n' : Nat) (hn : A.states.length ≤ n) (hn' : A.states.length ≤ n')
    (hrk : TaLts.Ranked A) (R R' : Rel) (h : computeSimDown A n = some R) (h' : computeSimDown A n' = some R') :
    (∀ q, q ∈ A.states → (q, q) ∈ R) ∧ (∀ a b c, (a, b) ∈ R → (b, c) ∈ R → (a, c) ∈ R) ∧
    (∀ q r, (q, r) ∈ R ↔ (q, r) ∈ R') := by
  have e := computeSimDown_eq A n hn hrk R h
  have e' := computeSimDown_eq A n' hn' hrk R' h'
  refine ⟨fun q hq => (e q q).mpr ((greatest_downSim_preorder A).1 q hq), ?_, fun q r => (e q r).trans (e' q r).symm⟩
  intro a b c hab hbc
  exact (e a c).mpr ((greatest_downSim_preorder A).2 a b c ((e a b).mp hab) ((e b c).mp hbc))

example : computeSimDown TaLtsEx.exA 9 = computeSimDown TaLtsEx.exA 5 := by decide +kernel

/-- the same for the upward relation -/
theorem C04_pipeline_upward_preorder (A : TA) (n : Nat) (hown : TaLts.AllOwnRule A) (hn : A.states.length ≤ n)
    (hleaf : LeafOk A n) (R : Rel) (h : computeSimUp A n = some R) :
    (∀ q, q ∈ A.states → (q, q) ∈ R) ∧ (∀ a b c, (a, b) ∈ R → (b, c) ∈ R → (a, c) ∈ R) := by
  have e := computeSimUp_eq A n hown hn hleaf R h
  refine ⟨fun q hq => (e q q).mpr ((greatest_upSim_preorder A).1 q hq), ?_⟩
  intro a b c hab hbc
  exact (e a c).mpr ((greatest_upSim_preorder A).2 a b c ((e a b).mp hab) ((e b c).mp hbc))

example : TaLts.AllOwnRule TaLtsEx.exC ∧ TaLtsEx.exC.states.length ≤ 4 ∧ LeafOk TaLtsEx.exC 4 :=
  ⟨TaLts.allOwnRuleB_iff.mp (by decide), by decide, Or.inr (hasLeafB_iff.mp (by decide))⟩

/-- the hypothesis "a leaf rule" of the upward route is not an artefact: on `a(0) → 0`, `F = {0}` (every state owns a rule,
the numbering is fine) the partition `TranslateUpward` hands to the engine contains the leaf node `1`, but the LTS has one
state only – `isPartition` fails.  (The real library, given this input with `n = 1`, writes behind `index_` in
`SimulationEngine::makeBlock`: heap-buffer-overflow under ASan.  The automaton has useless states, so the input is outside
the property.) -/
theorem C04_pipeline_upward_needs_leaf :
    TaLts.AllOwnRule ⟨[⟨0, [0], 0⟩], [0]⟩ ∧
    TaLts.IdxOk ⟨[⟨0, [0], 0⟩], [0]⟩ 1 (idxOf (upOrder ⟨[⟨0, [0], 0⟩], [0]⟩)) ∧
    (TaLts.translateUpward ⟨[⟨0, [0], 0⟩], [0]⟩ (idxOf (upOrder ⟨[⟨0, [0], 0⟩], [0]⟩))).2.1 = [[0], [1]] ∧
    (TaLts.translateUpward ⟨[⟨0, [0], 0⟩], [0]⟩ (idxOf (upOrder ⟨[⟨0, [0], 0⟩], [0]⟩))).1.n = 1 ∧
    LE.isPartition (TaLts.translateUpward ⟨[⟨0, [0], 0⟩], [0]⟩ (idxOf (upOrder ⟨[⟨0, [0], 0⟩], [0]⟩))).2.1
      (TaLts.translateUpward ⟨[⟨0, [0], 0⟩], [0]⟩ (idxOf (upOrder ⟨[⟨0, [0], 0⟩], [0]⟩))).1.n = false :=
  ⟨TaLts.allOwnRuleB_iff.mp (by decide), TaLts.idxOkB_iff.mp (by decide), by decide, by decide, by decide⟩

/-! ### the property in its own words, for the composition -/

/-- **C04 as one statement about `ComputeSimulation` as coded.**
Downward: for an explicit (ranked) tree automaton whose states are numbered `0 … n-1`, `n` passed as the number of states,
the composition returns a relation; it relates `q` to `r` exactly when both are states of `A` and some relation with the
downward transfer property relates them (the greatest such relation); it is reflexive on the states and transitive.
Upward: for an automaton without useless states (every occurring state takes part in an accepting run), `n` at least the
number of states (and `0` if there is none), the same with the upward transfer property (finality respected, identical
siblings, related parents). -/
theorem C04_pipeline_statement (A : TA) (n : Nat) :
    ((∀ q, q ∈ A.states → q < n) → TaLts.Ranked A →
      ∃ R, computeSimDown A n = some R ∧
        (∀ q r, (q, r) ∈ R ↔ q ∈ A.states ∧ r ∈ A.states ∧ ∃ S, DownSim A S ∧ S q r) ∧
        (∀ q, q ∈ A.states → (q, q) ∈ R) ∧ (∀ a b c, (a, b) ∈ R → (b, c) ∈ R → (a, c) ∈ R)) ∧
    ((∀ q, Occurs A q → UsefulState A q) → A.states.length ≤ n → (A.states = [] → n = 0) →
      ∃ R, computeSimUp A n = some R ∧
        (∀ q r, (q, r) ∈ R ↔ q ∈ A.states ∧ r ∈ A.states ∧ ∃ S, IsUpSim A S ∧ S q r) ∧
        (∀ q, q ∈ A.states → (q, q) ∈ R) ∧ (∀ a b c, (a, b) ∈ R → (b, c) ∈ R → (a, c) ∈ R)) := by
  constructor
  · intro hn hrk
    have hn' := length_states_le_of_lt A n hn
    obtain ⟨R, hR, _, hg⟩ := C04_pipeline_downward A n hn' hrk
    obtain ⟨h1, h2, _⟩ := C04_pipeline_preorder_and_independence A n n hn' hn' hrk R R hR hR
    exact ⟨R, hR, hg, h1, h2⟩
  · intro hu hn hne
    have hprod : ∀ q, q ∈ A.states → Productive A q :=
      fun q hq => (UsefulAux.usefulState_good (hu q (SimModel.mem_states_iff_occurs.mp hq))).1
    have hleaf : LeafOk A n := by
      rcases leafOk_of_productive hprod with h | h
      · exact Or.inl (hne (List.eq_nil_of_length_eq_zero h))
      · exact Or.inr h
    have hown := allOwnRule_of_productive hprod
    obtain ⟨R, hR, _, hg⟩ := C04_pipeline_upward A n hown hn hleaf
    obtain ⟨h1, h2⟩ := C04_pipeline_upward_preorder A n hown hn hleaf R hR
    exact ⟨R, hR, hg, h1, h2⟩

example : (∀ q, q ∈ TaLtsEx.exA.states → q < 5) ∧ TaLts.Ranked TaLtsEx.exA ∧
    (∀ q, Occurs TaLtsEx.exD q → UsefulState TaLtsEx.exD q) ∧ TaLtsEx.exD.states.length ≤ 2 ∧ TaLtsEx.exD.states ≠ [] :=
  ⟨by decide, TaLts.rankedB_iff.mp (by decide), (UsefulAux.allUsefulB_iff _).mp (by decide), by decide, by decide⟩

theorem ranked_reindex (f : Nat → Nat) (A : TA) (h : TaLts.Ranked A) : TaLts.Ranked (reindex f A) := by
  intro ρ σ hρ hσ e
  obtain ⟨ρ₀, h₁, rfl⟩ := List.mem_map.mp hρ
  obtain ⟨σ₀, h₂, rfl⟩ := List.mem_map.mp hσ
  simp only [mapRule, List.length_map] at e ⊢
  exact h ρ₀ σ₀ h₁ h₂ e

/-- **"… and do not depend on how the states happen to be numbered"**, for the composition: rename the states of `A` by any
map `f` that is injective on them and pass any sufficient `n'`; the relation returned for the renamed automaton relates
`f q` to `f r` exactly when the relation returned for `A` relates `q` to `r` -/
theorem C04_pipeline_numbering_independent (A : TA) (f : Nat → Nat) (hf : InjOnStates f A) (n n' : Nat)
    (hn : A.states.length ≤ n) (hn' : A.states.length ≤ n') (hrk : TaLts.Ranked A) :
    ∃ R R', computeSimDown A n = some R ∧ computeSimDown (reindex f A) n' = some R' ∧
      ∀ q r, q ∈ A.states → r ∈ A.states → ((f q, f r) ∈ R' ↔ (q, r) ∈ R) := by
  obtain ⟨R, hR, e, _⟩ := C04_pipeline_downward A n hn hrk
  obtain ⟨R', hR', e', _⟩ := C04_pipeline_downward (reindex f A) n'
    (by rw [reindex_states_length f A hf]; exact hn') (ranked_reindex f A hrk)
  exact ⟨R, R', hR, hR', fun q r hq hr => (e' _ _).trans ((downSim_equivariant f A hf hq hr).trans (e q r).symm)⟩

example : InjOnStates (· + 10) TaLtsEx.exA ∧ TaLtsEx.exA.states.length ≤ 5 ∧ TaLtsEx.exA.states.length ≤ 20 :=
  ⟨by intro q q' _ _ h; simp only at h; omega, by decide, by decide⟩

/-!
## items of "not yet proved" closed here

* `Vata/Properties/C04.lean`, second item ("**The LTS engine** inside the route is represented by its specification
  `ltsSimRef` …, not by a model of the partition-refinement code; … that the partition is a partition of ALL nodes `0..n-1`
  into non-empty blocks and that the relation on the block numbers is itself reflexive and transitive … is only tested, not
  proved"): closed.  The engine inside `computeSimDown` / `computeSimUp` is the model `LE.computeSimulation`
  (`C04_pipeline_downward`, `C04_pipeline_upward`), and its preconditions are theorems (`C04_pipeline_engine_preconditions`).
  The `#guard upOkB …` tests of `Vata/TaLts.lean` are now instances of a theorem.
* `Vata/Properties/C16.lean` / `C16_Engine.lean`: "Output size (the dimension of the returned `BinaryRelation` is not a notion
  of the model)" – partly: `SimPipe.resultMat_spec` says that the relation `buildResult(result, size)` fills has `size_ = size`,
  is well-formed and holds exactly the pairs of the engine model's result (`C05_pipeline_matrix` uses it).  And the engine's
  preconditions (`LtsOK`, `isPartition`, `isConsistent`, `RelTrans`) are now proved for the two callers of the engine
  inside the library.
* The first item of `C04.lean` (independence of the numbering) gets a third form: the result of the pipeline does not depend
  on `n` (`C04_pipeline_preorder_and_independence`) and is `downSimRef A` / `upSimRef A`, which do not mention a numbering;
  under a renaming of the automaton it is the renamed relation (`C04_pipeline_numbering_independent`).
* `C04_pipeline_statement` puts the clauses of the property (numbered `0 … n-1`; without useless states; greatest; reflexive and
  transitive) into one theorem about the composition.

## still not proved

* The order of first encounter is the order of `A.rules` (hash order in the C++); the theorems hold for every `A`, hence for
  every order of the rules, but "the rule list of the model is the iteration order of the hash tables" is not an object of
  the model.  The environment table is keyed by all four fields (see `C04.lean`).
* Outside `A.states` (numbers below `n` that occur nowhere in the automaton; for the upward route also final states that
  occur in no rule) the dictionary has no entry: `discRel` lists pairs of translated states only, and `Disc.get` throws
  (`BinRel.Disc.get_unknown`), as the C++ does.
* The upward route needs `LeafOk` (`C04_pipeline_upward_needs_leaf`); for an automaton without useless states and `n` = the
  number of states it holds (`C04_pipeline_upward_trimmed`).  With `AllOwnRule` but without a leaf rule, or on the automaton
  without rules with `n > 0`, the C++ violates the engine's preconditions (observed: out-of-bounds write resp. empty block);
  both inputs are outside the property.
* `Ranked A` is needed for the downward route (`C04_downward_via_lts_needs_ranked`); it always holds for the explicit encoding.
-/
end Vata.Props
