import Vata.Proofs.RcStore
import Vata.Proofs.StoreRefine
/-!
# C18 – MTBDD nodes live exactly as long as something refers to them

> Across any sequence of creating, copying, assigning, combining and destroying MTBDDs, no MTBDD that is still alive ever
> changes the function it denotes, no node is released while a live MTBDD or node refers to it, and no node is released
> twice. Once every MTBDD created by construction, copy or apply has been destroyed, the process-wide node store is back
> to the size it had before.

(quantifier: *for all interleavings of construction, copy, assignment (including self-assignment), apply and destruction
of MTBDD handles sharing sub-graphs*)

## How the statement is read into the model

* **Model of the code.**  `RcS.Store` (`Vata/RcStore.lean`) is the process-wide node store of `OndriksMTBDD<T>`:
  `ids` = the nodes that are allocated now (ids are never re-used), `dat` = their contents (`.leaf v` or
  `.int lo hi var`), `rc` = the reference counters stored in the nodes, `leafT` / `intT` = the unique tables
  `leafCache_` / `internalCache_`, `hs` = the live `OndriksMTBDD` objects (handle name ↦ `root_`), and two ghost
  components: `freed` = the log of every `DeleteLeafNode` / `DeleteInternalNode`, `err` = "an `assert` of the C++ would
  have failed (counter underflow, `erase(...) != 1`, release of a node that is not allocated) or the model ran out of
  fuel".
* **Histories.**  `RcS.Op` has five constructors, each mirroring the C++ statement by statement:
  - `.construct h asgn v d` – `OndriksMTBDD h(asgn, v, d)` (`constructMTBDD`: `spawnLeaf`, `spawnInternal` per fixed
    position, disposal of an unused default leaf, `IncrementRefCnt(root)`);
  - `.copy src dst` – copy constructor `OndriksMTBDD dst(src)`;
  - `.assign src dst` – `dst = src` (`operator=`: self-assignment guard, `deleteMTBDD()`, take the root,
    `IncrementRefCnt`); `.assign h h` is the self-assignment of the statement;
  - `.apply a b dst` – `OndriksMTBDD dst = apply(a, b)` (`Apply2Functor::recDescend` without its memo table, spawning
    through the unique tables, then `IncrementRefCnt(root)`), with an **arbitrary** leaf operation `f : Nat → Nat → Nat`;
  - `.destroy h` – destructor (`deleteMTBDD` → `recursivelyDeleteMTBDDNode`: decrement, and at 0 erase from the unique
    table, delete, release both children).
  `RcS.runF f ops` is the store after executing the list `ops` from the empty store (process start) with leaf operation
  `f`.  An operation whose handles are not in the required state (e.g. copy from a dead handle, construct into a live
  one) is skipped, as such a program does not exist in C++; `Op.target` is the handle an operation writes, creates or
  destroys.  All theorems quantify over **all** `ops` and all `f`: this is "any sequence / all interleavings".
* **Specification notions.**  `RcS.denote s r ρ` = the value, under the total assignment `ρ`, of the diagram below node
  `r` (`M.eval` of the unfolding `RcS.unfold`): "the function an MTBDD denotes".  `RcS.indeg s n` = number of `low`/`high`
  fields of allocated inner nodes that hold `n`; `RcS.handlesTo s n` = number of live handles whose root is `n`;
  `RcS.Reach dat r n` = `n` is reachable from `r` along `low`/`high` edges; `RcS.tableSizes s` = (size of `leafCache_`,
  size of `internalCache_`) – "the size of the node store", the quantity the hook accessors of the harness report.
-/
namespace Vata.Props
open Vata Vata.RcS

/-! ### the counting invariant behind everything else -/

/-- after every history: the counter of every allocated node is exactly the number of references to it (edges from
allocated inner nodes, `low` and `high` counted separately, plus live handles); every entry of either unique table points
to an allocated node with exactly that contents; and a node whose counter is 0 is referred to by nothing -/
theorem C18_refcount_invariant (f : Nat → Nat → Nat) (ops : List Op) :
    (∀ n, n ∈ (runF f ops).ids → (runF f ops).rc n = indeg (runF f ops) n + handlesTo (runF f ops) n) ∧
    (∀ v n, (v, n) ∈ (runF f ops).leafT → n ∈ (runF f ops).ids ∧ (runF f ops).dat n = .leaf v) ∧
    (∀ lo hi var n, ((lo, hi, var), n) ∈ (runF f ops).intT →
      n ∈ (runF f ops).ids ∧ (runF f ops).dat n = .int lo hi var) ∧
    (∀ n, n ∈ (runF f ops).ids → (runF f ops).rc n = 0 →
      n ∉ roots (runF f ops) ∧
      ∀ m, m ∈ (runF f ops).ids → ∀ lo hi var, (runF f ops).dat m = .int lo hi var → lo ≠ n ∧ hi ≠ n) :=
  rc_inv f ops

-- a history with sharing: 4 leaves, 6 inner nodes, 4 live handles, 2 nodes freed so far; node 1 (the leaf 0) is referred
-- to by three edges from inner nodes and by no handle, node 11 by one handle
example : tableSizes (runF applyOp Ex.ops) = (4, 6) ∧ (runF applyOp Ex.ops).hs.length = 4 ∧
    (runF applyOp Ex.ops).freed = [3, 8] := by decide
example : (runF applyOp Ex.ops).rc 1 = 3 ∧ indeg (runF applyOp Ex.ops) 1 = 3 ∧ handlesTo (runF applyOp Ex.ops) 1 = 0 ∧
    (runF applyOp Ex.ops).rc 11 = 1 ∧ handlesTo (runF applyOp Ex.ops) 11 = 1 := by decide

/-! ### "no node is released while a live MTBDD or node refers to it" -/

/-- after every history, every node reachable from the root of a live handle (i.e. referred to by a live MTBDD, or by a
node that is itself so referred to) is allocated and has never been deleted -/
theorem C18_no_premature_free (f : Nat → Nat → Nat) (ops : List Op) (h r : Nat) (hm : (h, r) ∈ (runF f ops).hs)
    (n : Nat) (hr : Reach (runF f ops).dat r n) : n ∈ (runF f ops).ids ∧ n ∉ (runF f ops).freed :=
  no_premature_free f ops h r hm n hr

-- handle 4 is live after `Ex.ops` (which contain destructors and an assignment that released nodes) and reaches the
-- leaf 1 through three inner nodes
example : (4, 11) ∈ (runF applyOp Ex.ops).hs := by decide
example : Reach (runF applyOp Ex.ops).dat 11 1 :=
  .lo (m := 2) (hi := 0) (var := 0)
    (.lo (m := 10) (hi := 9) (var := 1) (.lo (m := 11) (hi := 6) (var := 2) .refl (by decide)) (by decide)) (by decide)

/-- between operations nothing is kept alive without a referrer either: no allocated node has counter 0 (together with
`C18_refcount_invariant`: every allocated node is referred to by a live handle or an allocated node) -/
theorem C18_no_garbage (f : Nat → Nat → Nat) (ops : List Op) (n : Nat) (hn : n ∈ (runF f ops).ids) :
    (runF f ops).rc n ≠ 0 := no_garbage f ops n hn

example : (runF applyOp Ex.ops).ids = [11, 10, 9, 7, 6, 5, 4, 2, 1, 0] := by decide

/-! ### "no node is released twice" -/

/-- after every history: the log of deletions has no duplicate, a deleted node is not allocated (ids are never re-used,
so it never is again), and no assertion of the code has failed – `refcnt > 0` before every decrement (no underflow),
exactly one entry erased from the unique table in `disposeOfLeafNode` / `disposeOfInternalNode`, only allocated nodes are
released; also the fuel of the model was never exhausted -/
theorem C18_no_double_free (f : Nat → Nat → Nat) (ops : List Op) :
    (runF f ops).freed.Nodup ∧ (∀ n, n ∈ (runF f ops).freed → n ∉ (runF f ops).ids) ∧ (runF f ops).err = false :=
  no_double_free f ops

-- all twelve nodes ever allocated in `Ex.ops` are deleted, each once, when the remaining handles are destroyed
example : (runF applyOp (Ex.ops ++ destroyAll (runF applyOp Ex.ops))).freed = [1, 4, 5, 6, 7, 0, 9, 2, 10, 11, 3, 8] ∧
    (runF applyOp (Ex.ops ++ destroyAll (runF applyOp Ex.ops))).next = 12 := by decide

/-! ### "no MTBDD that is still alive ever changes the function it denotes" -/

/-- a handle `h` that is live (root `r`) after a history `ops` is still live, with the same root and the same denotation,
after any continuation `more` in which `h` itself is not the target of an operation.  The continuation may read `h`
(copy from it, apply on it, assign *from* it) and may create, overwrite and destroy any other handles, including
handles that share nodes with `h`.  The hypothesis excludes exactly the operations that are meant to end or replace `h`
(`destroy h`, `assign _ h`) – and, for uniformity, `construct`/`copy`/`apply` *into* the live `h`, which are skipped, and the
self-assignment `assign h h`, which is covered by `C18_self_assignment` -/
theorem C18_denotation_stable (f : Nat → Nat → Nat) (ops more : List Op) (h r : Nat) (hm : (h, r) ∈ (runF f ops).hs)
    (ht : ∀ op, op ∈ more → op.target ≠ h) :
    (h, r) ∈ (runF f (ops ++ more)).hs ∧ ∀ ρ, denote (runF f (ops ++ more)) r ρ = denote (runF f ops) r ρ :=
  denotation_stable f ops more h r hm ht

-- `Ex.more` applies on handle 4, destroys and re-assigns handles sharing its nodes, constructs and destroys others
example : (4, 11) ∈ (runF applyOp Ex.ops).hs ∧ ∀ op, op ∈ Ex.more → op.target ≠ 4 := by decide
example : Ex.more = [.apply 4 1 5, .destroy 0, .assign 5 1, .construct 6 [some true] 1 2, .destroy 5] := rfl

/-- self-assignment `h = h` changes nothing at all (the guard `if (this != &mtbdd)` of `operator=`) -/
theorem C18_self_assignment (f : Nat → Nat → Nat) (s : Store) (h : Nat) : stepF f s (.assign h h) = s := by
  simp [stepF, assign]

example : runF applyOp (Ex.ops ++ [.assign 4 4]) = runF applyOp Ex.ops := by
  simp only [runF, List.foldl_append, List.foldl_cons, List.foldl_nil, C18_self_assignment]

/-! ### "once every MTBDD … has been destroyed, the node store is back to the size it had before" -/

/-- (1) whenever, after any history, no handle is live, both unique tables have the size they had at the start (they are
empty) and no node is allocated; (2) in particular this is the case after running, at any point of any history, the
destructors of all handles that are live at that point -/
theorem C18_all_released (f : Nat → Nat → Nat) (ops : List Op) :
    ((runF f ops).hs = [] → tableSizes (runF f ops) = tableSizes empty ∧ (runF f ops).ids = []) ∧
    (tableSizes (runF f (ops ++ destroyAll (runF f ops))) = tableSizes empty ∧
      (runF f (ops ++ destroyAll (runF f ops))).ids = []) :=
  ⟨all_released f ops, all_released_destroyAll f ops⟩

example : destroyAll (runF applyOp Ex.ops) = [.destroy 0, .destroy 4, .destroy 2, .destroy 1] := by decide
example : (runF applyOp (Ex.ops ++ destroyAll (runF applyOp Ex.ops))).hs = [] ∧
    tableSizes (runF applyOp Ex.ops) = (4, 6) := by decide

/-! ### the unique tables follow the lifetime of the nodes exactly -/

/-- after every history each allocated node is found in its unique table under its contents (so a deleted node has been
dropped and a live one has not), each key occurs once in either table, each handle name once, each node id once.  With
the second and third component of `C18_refcount_invariant`: the tables are exactly the allocated nodes -/
theorem C18_unique_tables_exact (f : Nat → Nat → Nat) (ops : List Op) :
    (∀ n v, n ∈ (runF f ops).ids → (runF f ops).dat n = .leaf v → find v (runF f ops).leafT = some n) ∧
    (∀ n lo hi var, n ∈ (runF f ops).ids → (runF f ops).dat n = .int lo hi var →
      find (lo, hi, var) (runF f ops).intT = some n) ∧
    KeysNodup (runF f ops).leafT ∧ KeysNodup (runF f ops).intT ∧ KeysNodup (runF f ops).hs ∧ (runF f ops).ids.Nodup :=
  tables_exact f ops

example : (runF applyOp Ex.ops).dat 11 = .int 10 6 2 ∧ find (10, 6, 2) (runF applyOp Ex.ops).intT = some 11 ∧
    find 3 (runF applyOp Ex.ops).leafT = none := by decide

/-! ### which function a new (or overwritten) handle denotes

`C18_denotation_stable` is about handles that already exist; the following four theorems say what the handle written by
an operation denotes, after any history (`getValue s h ρ` = `GetValue` of handle `h` under the total assignment `ρ`,
`none` for a dead handle).  Proofs: `Vata/Proofs/StoreRefine.lean` (refinement of the store operations to the tree model
of C17). -/

/-- `OndriksMTBDD h(asgn, v, d)` for a fresh name `h`: the new handle has the value `v` on the assignments in the cube
`asgn` (`M.agrees`; don't-care positions unconstrained) and the default `d` elsewhere -/
theorem C18_construct_denotes (f : Nat → Nat → Nat) (ops : List Op) (h : Nat) (asgn : List (Option Bool)) (v d : Nat)
    (hf : find h (runF f ops).hs = none) (ρ : Nat → Bool) :
    getValue (runF f (ops ++ [.construct h asgn v d])) h ρ = some (if M.agrees ρ asgn 0 = true then v else d) :=
  construct_getValue f ops h asgn v d hf ρ

example : find 7 (runF applyOp RefineEx.ops).hs = none ∧ (runF applyOp RefineEx.ops).hs.length = 6 := by decide

/-- `OndriksMTBDD dst = apply(a, b)` with leaf operation `f`, for live `a`, `b` and a fresh name `dst`: for every
assignment the new handle has the value `f` of the operands' values, and the operands keep their values -/
theorem C18_apply_denotes (f : Nat → Nat → Nat) (ops : List Op) (a b dst : Nat) (ρ : Nat → Bool) (va vb : Nat)
    (ha : getValue (runF f ops) a ρ = some va) (hb : getValue (runF f ops) b ρ = some vb)
    (hd : find dst (runF f ops).hs = none) :
    getValue (runF f (ops ++ [.apply a b dst])) dst ρ = some (f va vb) ∧
    getValue (runF f (ops ++ [.apply a b dst])) a ρ = some va ∧
    getValue (runF f (ops ++ [.apply a b dst])) b ρ = some vb :=
  apply_getValue f ops a b dst ρ va vb ha hb hd

example : getValue (runF applyOp RefineEx.ops) 5 (fun i => i == 0) = some 0 ∧
    getValue (runF applyOp RefineEx.ops) 1 (fun i => i == 0) = some 5 ∧
    find 7 (runF applyOp RefineEx.ops).hs = none := by decide
example : getValue (runF applyOp (RefineEx.ops ++ [.apply 5 1 7])) 7 (fun i => i == 0) = some 5 := by decide

/-- copy constructor `OndriksMTBDD dst(src)` for a live `src` and a fresh name `dst`: the copy denotes what the source
denotes (it has the same root), and the source is unchanged -/
theorem C18_copy_denotes (f : Nat → Nat → Nat) (ops : List Op) (src dst r : Nat)
    (hs : find src (runF f ops).hs = some r) (hd : find dst (runF f ops).hs = none) :
    find dst (runF f (ops ++ [.copy src dst])).hs = some r ∧
    ∀ ρ, getValue (runF f (ops ++ [.copy src dst])) dst ρ = getValue (runF f ops) src ρ ∧
      getValue (runF f (ops ++ [.copy src dst])) src ρ = getValue (runF f ops) src ρ :=
  ⟨(copy_denotes f ops src dst r hs hd).1, copy_getValue f ops src dst r hs hd⟩

/-- assignment `dst = src` between two different live handles (the old diagram of `dst` is released first, possibly
freeing nodes shared with `src`): afterwards `dst` has the root of `src` and denotes what `src` denoted, and `src` is
unchanged.  (Self-assignment: `C18_self_assignment`.) -/
theorem C18_assign_denotes (f : Nat → Nat → Nat) (ops : List Op) (src dst r r' : Nat) (hne : src ≠ dst)
    (hs : find src (runF f ops).hs = some r) (hd : find dst (runF f ops).hs = some r') :
    find dst (runF f (ops ++ [.assign src dst])).hs = some r ∧
    ∀ ρ, getValue (runF f (ops ++ [.assign src dst])) dst ρ = getValue (runF f ops) src ρ ∧
      getValue (runF f (ops ++ [.assign src dst])) src ρ = getValue (runF f ops) src ρ :=
  ⟨(assign_denotes f ops src dst r r' hne hs hd).1, assign_getValue f ops src dst r r' hne hs hd⟩

-- handle 1 (root 2) is overwritten by handle 5 (root 8); the old root 2 stays allocated (an inner node refers to it)
example : find 5 (runF applyOp RefineEx.ops).hs = some 8 ∧ find 1 (runF applyOp RefineEx.ops).hs = some 2 ∧
    find 7 (runF applyOp RefineEx.ops).hs = none := by decide
example : find 1 (runF applyOp (RefineEx.ops ++ [.assign 5 1])).hs = some 8 ∧
    find 7 (runF applyOp (RefineEx.ops ++ [.copy 5 7])).hs = some 8 := by decide

/-!
## closed since the last refresh of this file

No item of the list below was closed; nothing about the MTBDD node store was added since.  (The OTHER reference-counted
structures of the library now have history theorems of the same kind – "count = number of referrers, nothing freed while
shared, nothing freed twice": the macro-state cache `Util_Cache_interning` / `Util_Cache_no_leak`, the `SharedCounter` rows
and `SharedList` nodes of the simulation engine `Util_LtsUtil_SharedCounter_refcount` / `Util_LtsUtil_SharedList_refcount`, the
copy-on-write heap of the explicit automata C11; they are collected in `Vata/Properties/C20.lean`.)

## not yet proved

* **"The size it had before" relative to an arbitrary earlier point.**  `C18_all_released` compares with the *initial*
  (empty) store and needs *all* handles to be dead.  The relative form – if the handles created since some earlier point
  of the history are destroyed (and the older ones are untouched) the table sizes are what they were at that point – is
  not proved.
* **Operations not in `RcS.Op`.**  Unary and ternary apply, `Project`, `Rename`, `ExtendWith`, `GetMtbddForPrefix`, the
  `VoidApply` traversals and the 4-argument `constructMTBDD` on an existing root are not part of the history model; the
  memo table `ht` of `Apply2Functor` is not modelled (in the C++ it holds raw node pointers, without incrementing their
  counters, for the duration of one apply call).
* Leaf values are `Nat` and handle names are `Nat`; the destructor of a user-defined leaf type is not modelled.
* The theorems speak about the model; that the model and `OndriksMTBDD<T>` agree step by step (table sizes, values of
  all live handles after every operation) is the correspondence check of the C18 driver, not a theorem.
-/
end Vata.Props
