import Vata.Proofs.TimbukLayoutReject
/-!
# C13 (continued) – the Timbuk parser on text that the serializer did NOT write

> For every automaton description, parsing its serialisation gives back the same final states and rules (… nullary rules
> written with or without parentheses, empty sections …).  For any input text whatsoever the parser and the loaders either
> succeed or throw a standard exception.

`C13.lean` proves `parse ∘ serialise` for the one text the serializer writes.  This file is about the other texts of the
same description – other white space, `a()` for `a`, other section orders, missing sections, `\r\n` – and about classes of
texts that are answered by an exception.

## How the C++ is read into the model

The model is the one of `C13.lean`: `parseTimbuk` / `Timbuk.parseC` transcribe `parse_timbuk`
(`src/timbuk_parser-nobison.cc`) line by line.  What matters here, quoted from the source:

* `std::string str = trim(line); if (str.empty()) { continue; }` – blank lines are skipped everywhere; leading and trailing
  white space of every line is dropped; `\r` is white space (`isspace`), so `\r\n` line ends are accepted.
* header words are cut by `read_word` (`find_if(isspace)`, then `trim`) – any non-empty run of white space separates;
  `Vata.Timbuk.stepHeader_eq_W`: a header line is judged by its list of words alone.
* the section keywords may come in any order, each at most once (`if (ops_parsed) throw …`), all are optional; only
  `Transitions` is required (`if (!are_transitions) throw … "Transitions not specified"`).
* transition line: `lhs = trim(str.substr(0, arrow_pos)); rhs = trim(str.substr(arrow_pos + 2))` – free white space around
  `->`; `lab = trim(lhs.substr(0, parens_begin_pos))` – white space between symbol and `(`;
  `for (state : state_tuple) state = trim(state)` – white space around every child;
  **`if ((state_tuple.size() == 1) && state_tuple[0] == "") state_tuple = { }` comes AFTER the trimming loop**, hence
  `a()`, `a( )`, `a(\t \t)`, `a ()` all denote the nullary rule `a` (the model agrees: `#guard`s in `Vata/Timbuk.lean`, which
  carry the answers of the real library, and the examples below).

A text is described by a `Timbuk.Layout` (`Vata/Proofs/TimbukLayoutFile.lean`): header lines `HLine` (kind, white space
before the keyword, every word with the non-empty white gap before it, white space at the end), the `Transitions` line,
transition lines `TLine` (`pre sym [afterSym ( padL kid padR , … ) ] beforeArrow -> afterArrow parent post`, for a nullary
rule optionally `sym afterSym ( inner )`), blank lines before every line and at the end.  `Layout.text` joins the lines
with `\n`; `endBlanks = [[]]` is a final line end, `[]` none.  `Layout.Ok F d` (`Blank` = white characters other than
`\n`): `F` is a layout of the tokens of `d`, in the order of `d`.  `Layout.okB` is the executable check.

Abstracted: nothing of the parser; the layouts do not cover a text after the keyword on the `Transitions` line (ignored
by the C++, example below), nor other spellings of the tokens themselves (`q:0` for a state, `+2` for a rank).

## Findings while reading (all confirmed by the `#guard`s of `Vata/Timbuk.lean`, which were generated from the real library)

* the parser does **not** compare the rank of a symbol in a rule with `Ops`, nor require `Ops`/`States` to mention the
  names used: `Ops a:0\nTransitions\na(q) -> q` is accepted (example `accepts_rank_mismatch`);
* a missing `Automaton` (or any other header) line is accepted; only a missing `Transitions` is an error;
* the rest of the `Transitions` line is ignored: `Transitions foo -> bar` is accepted and yields no rule;
* `a b(q) -> r` is accepted with the symbol `a b` (no white-space check on the label when parentheses are present), and
  `a(q, ) -> r` with an empty child name; both are serialised to texts that parse differently.
-/
namespace Vata.Props
open Vata Vata.Timbuk

theorem parseTimbuk_congr {s t : String} (h : parseC s.toList = parseC t.toList) : parseTimbuk s = parseTimbuk t := by
  unfold parseTimbuk; rw [h]

/-! ### 1. nullary rules with and without parentheses -/

/-- **one line.**  Every spelling `pre a [ws ( ws )] ws -> ws q post` of a nullary rule (`ws`, `pre`, `post`: any white
characters except `\n`, also none; the parentheses present or not) inserts the rule `a -> q`.  Hypotheses (`TLine.Ok`):
the paddings are white, `a` and `q` are good names. -/
theorem C13_nullary_parens_line (st : PState) (line : Str) (l : TLine) (h : l.Ok) (hk : l.kids = []) :
    stepTrans st line (trim l.text) = .ok (addTrans st ([], l.sym, l.par)) := by
  rw [stepTrans_tline st line h]
  simp [TLine.trans, hk]

namespace C13LayoutEx
/-- `a`, `a()`, `a( )`, `a (\t \t)` -/
def l0 : TLine := ⟨[], ['a'], none, [' '], [' '], ['q'], []⟩
def l1 : TLine := ⟨[], ['a'], some ([], [], []), [' '], [' '], ['q'], []⟩
def l2 : TLine := ⟨[], ['a'], some ([], [' '], []), [' '], [' '], ['q'], []⟩
def l3 : TLine := ⟨[' '], ['a'], some ([' '], ['\t', ' ', '\t'], []), [], ['\t'], ['q'], ['\r']⟩
example : String.ofList l0.text = "a -> q" ∧ String.ofList l1.text = "a() -> q" ∧ String.ofList l2.text = "a( ) -> q" ∧
    String.ofList l3.text = " a (\t \t)->\tq\r" := by decide
example : l0.okB = true ∧ l1.okB = true ∧ l2.okB = true ∧ l3.okB = true := by decide
example : l0.kids = [] ∧ l1.kids = [] ∧ l2.kids = [] ∧ l3.kids = [] := by decide
/-- executed: the four spellings give the same description -/
example : parseTimbuk "Transitions\na -> q" = .ok ⟨"", [], [], [], [([], "a", "q")]⟩ ∧
    parseTimbuk "Transitions\na() -> q" = .ok ⟨"", [], [], [], [([], "a", "q")]⟩ ∧
    parseTimbuk "Transitions\na( ) -> q" = .ok ⟨"", [], [], [], [([], "a", "q")]⟩ ∧
    parseTimbuk "Transitions\n a (\t \t)->\tq\r" = .ok ⟨"", [], [], [], [([], "a", "q")]⟩ := ⟨rfl, rfl, rfl, rfl⟩
/-- spellings that are NOT accepted: nested or repeated parentheses, a comma inside (that is a binary rule with two empty
child names, accepted as such) -/
example : TimbukTest.rejects "Transitions\na(()) -> q" = true ∧ TimbukTest.rejects "Transitions\na()() -> q" = true ∧
    parseTimbuk "Transitions\na(,) -> q" = .ok ⟨"", [], [], [], [(["", ""], "a", "q")]⟩ := ⟨by decide, by decide, rfl⟩
end C13LayoutEx

/-- **whole texts.**  For every well-formed description and every layout `F` of its tokens: respelling any subset of the
nullary rules – `c l = none`: no parentheses, `c l = some (a, i)`: `sym a ( i )` with white `a`, `i` – gives a text that
parses to the same result. -/
theorem C13_nullary_parens (d : AutDesc) (hwf : d.WellFormed) (F : Layout) (hF : F.Ok (serTokens (ofS d)))
    (c : TLine → Option (Str × Str)) (hc : ∀ l p, c l = some p → Blank p.1 ∧ Blank p.2) :
    parseTimbuk (String.ofList (F.reparen c).text) = parseTimbuk (String.ofList F.text) := by
  apply parseTimbuk_congr
  rw [String.toList_ofList, String.toList_ofList, parseC_reparen _ (serTokens_wf (wf_of_wellFormed hwf)) F hF c hc]

/-! ### 2. layout insensitivity -/

/-- **the result on every layout**, also with missing sections: the parser succeeds and returns exactly the sections that
were written (as `std::set`s), the others empty.  Covers: any white space (not `\n`) before and after every line – trailing
blanks, `\r\n` –, any non-empty white gaps between header words, any white space around `->`, between symbol and `(`,
around every child; blank lines anywhere; any order of the header sections; with or without final line end; nullary rules
with or without parentheses. -/
theorem C13_layout_sections (d : Desc) (hwf : d.wellFormed = true) (F : Layout) (hF : F.Ok d) :
    parseC F.text = .ok (F.result d) :=
  parseC_layout d (wf_of_wellFormed hwf) F hF

/-- **layout insensitivity**: every layout of the tokens the serializer writes for `d` (`serTokens`: `anonymous` for the
empty name, the sections in `std::set` order) that has all four header sections parses to exactly what the serializer's own
text parses to. -/
theorem C13_layout_insensitive (d : AutDesc) (hwf : d.WellFormed) (F : Layout) (hF : F.Ok (serTokens (ofS d)))
    (hall : ∀ k, k ∈ F.kinds) : parseTimbuk (String.ofList F.text) = parseTimbuk (serialize d) := by
  apply parseTimbuk_congr
  unfold serialize
  rw [String.toList_ofList, String.toList_ofList, parseC_layout_serialize _ (wf_of_wellFormed hwf) F hF hall]

/-- two layouts of the same description with the same sections parse alike -/
theorem C13_layout_pair (d : Desc) (hwf : d.wellFormed = true) (F F' : Layout) (hF : F.Ok d) (hF' : F'.Ok d)
    (hk : ∀ k, k ∈ F.kinds ↔ k ∈ F'.kinds) : parseC F.text = parseC F'.text := by
  rw [parseC_layout d (wf_of_wellFormed hwf) F hF, parseC_layout d (wf_of_wellFormed hwf) F' hF']
  simp [Layout.result, hk]

/-- a header line is judged by its words: white space between them, before and after them is immaterial -/
theorem C13_header_words (st : PState) (line a b : Str) (h : readWords a = readWords b) :
    stepHeader st line a = stepHeader st line b :=
  stepHeader_congr st line h

example : readWords "Ops a:0 f:2".toList = readWords "Ops\t a:0 \x0c f:2".toList := by decide +kernel

namespace C13LayoutEx
/-- a layout of `TimbukEx.exE`: `\r\n` line ends, blank lines, the sections in the order Final, Automaton, States, Ops,
tabs and several blanks between words, indented `Transitions`, `a( )`, odd spacing in the rules, no final line end -/
def F : Layout where
  hdr := [([['\r']], ⟨.final, [], [([' '], "States".toList), (['\t'], ['q']), ([' ', ' '], ['r'])], [' ', '\r']⟩),
          ([], ⟨.aut, [], [([' ', ' ', ' '], "A-1".toList)], ['\r']⟩),
          ([['\r']], ⟨.states, [], [([' '], ['q']), ([' '], ['r'])], ['\r']⟩),
          ([], ⟨.ops, [], [([' ', ' '], "a:0".toList), (['\t'], "f:2".toList)], ['\r']⟩)]
  trBlanks := []
  trPre := [' ', ' ']
  trPost := [' ', '\r']
  tls := [([], ⟨[], ['a'], some ([], [' '], []), [' '], [], ['q'], ['\r']⟩),
          ([['\r']], ⟨[], ['f'], some ([' '], [], [([' '], ['q'], [' ']), ([], ['r'], [' '])]), [], [' '], ['r'], ['\r']⟩),
          ([], ⟨[], ['f'], some ([], [], [([], ['r'], []), ([], ['r'], [])]), ['\t'], ['\t'], ['q'], []⟩)]
  endBlanks := []

example : String.ofList F.text =
    "\r\nFinal States\tq  r \r\nAutomaton   A-1\r\n\r\nStates q r\r\nOps  a:0\tf:2\r\n  Transitions \r\n" ++
    "a( ) ->q\r\n\r\nf ( q ,r )-> r\r\nf(r,r)\t->\tq" := by decide
example : TimbukEx.exE.WellFormed := by decide
example : F.okB (serTokens (ofS TimbukEx.exE)) = true := by decide +kernel
example : ∀ k, k ∈ F.kinds := by intro k; cases k <;> decide
/-- so `C13_layout_insensitive` applies; executed: -/
example : (parseTimbuk (String.ofList F.text)).toOption = (parseTimbuk (serialize TimbukEx.exE)).toOption ∧
    (parseTimbuk (String.ofList F.text)).toOption = some ⟨"A-1", [("a", 0), ("f", 2)], ["q", "r"], ["q", "r"],
      [([], "a", "q"), (["q", "r"], "f", "r"), (["r", "r"], "f", "q")]⟩ := by decide +kernel

/-- the serializer's own text is a layout: single blanks, a blank at the end of the section lines, a final line end -/
def Fser : Layout where
  hdr := [([], ⟨.ops, [], [([' '], "a:0".toList), ([' '], "f:2".toList)], [' ']⟩),
          ([], ⟨.aut, [], [([' '], "A-1".toList)], []⟩),
          ([], ⟨.states, [], [([' '], ['q']), ([' '], ['r'])], [' ']⟩),
          ([], ⟨.final, [], [([' '], "States".toList), ([' '], ['q']), ([' '], ['r'])], [' ']⟩)]
  trBlanks := []
  trPre := []
  trPost := []
  tls := [([], ⟨[], ['a'], none, [' '], [' '], ['q'], []⟩),
          ([], ⟨[], ['f'], some ([], [], [([], ['q'], []), ([' '], ['r'], [])]), [' '], [' '], ['r'], []⟩),
          ([], ⟨[], ['f'], some ([], [], [([], ['r'], []), ([' '], ['r'], [])]), [' '], [' '], ['q'], []⟩)]
  endBlanks := [[]]

example : String.ofList Fser.text = serialize TimbukEx.exE := by decide +kernel
example : Fser.okB (serTokens (ofS TimbukEx.exE)) = true := by decide +kernel

/-- a layout with two sections only: the other two come back empty -/
def Fpart : Layout :=
  { F with hdr := [([['\r']], ⟨.states, [], [([' '], ['q']), ([' '], ['r'])], ['\r']⟩),
                   ([], ⟨.aut, [], [([' ', ' ', ' '], "A-1".toList)], ['\r']⟩)] }
example : Fpart.okB (serTokens (ofS TimbukEx.exE)) = true := by decide +kernel
example : (Fpart.result (serTokens (ofS TimbukEx.exE))).toS =
    ⟨"A-1", [], ["q", "r"], [], [([], "a", "q"), (["q", "r"], "f", "r"), (["r", "r"], "f", "q")]⟩ := by decide +kernel
end C13LayoutEx

/-! ### 3. serialise after parse -/

/-- for every text `t` that parses to a well-formed `d`: the serialisation of `d` parses again, to a description with the
same sets of symbols, states, final states and rules, and the same name – except that the empty name (a text without
`Automaton` line, or with `Automaton` alone) comes back as `anonymous`.  (The hypothesis `parseTimbuk t = .ok d` is not used:
this is `C13_parse_serialize_full` for `d`.) -/
theorem C13_serialize_parse (t : String) (d : AutDesc) (_hp : parseTimbuk t = .ok d) (hwf : d.WellFormed) :
    ∃ d', parseTimbuk (serialize d) = .ok d' ∧
      d'.name = (if d.name.isEmpty then "anonymous" else d.name) ∧
      d'.symbols ≈ d.symbols ∧ d'.states ≈ d.states ∧ d'.final ≈ d.final ∧ d'.trans ≈ d.trans :=
  parse_serialize_full d hwf

/-- the statement "`parseTimbuk (serialize d) = .ok d`" is FALSE for parse results in general: a text without `Automaton`
line parses to the empty name, which the serializer writes as `anonymous` -/
example : ∃ d, parseTimbuk "Transitions\na -> q" = .ok d ∧ d.WellFormed ∧ parseTimbuk (serialize d) ≠ .ok d :=
  ⟨⟨"", [], [], [], [([], "a", "q")]⟩, rfl, by decide, fun h => by
    have := congrArg Except.toOption h
    revert this; decide +kernel⟩
/-- with a name it is true on this example (executed) -/
example : ∃ d, (parseTimbuk "Automaton A\nTransitions\na() -> q").toOption = some d ∧ d.WellFormed ∧
    (parseTimbuk (serialize d)).toOption = some d ∧ serialize d = "Ops \nAutomaton A\nStates \nFinal States \nTransitions\na -> q\n" :=
  ⟨⟨"A", [], [], [], [([], "a", "q")]⟩, by decide +kernel, by decide, by decide +kernel, by decide +kernel⟩

/-- parsing twice: the second round trip starts from a well-formed description again, so it succeeds with the same sets
(`C13_parse_serialize_exact` gives the result: `roundTrip (roundTrip d)`) -/
theorem C13_parse_serialize_twice (d : Desc) (hwf : d.wellFormed = true) :
    parseC (serializeC d) = .ok (roundTrip d) ∧ parseC (serializeC (roundTrip d)) = .ok (roundTrip (roundTrip d)) := by
  have h := wf_of_wellFormed hwf
  refine ⟨parseC_serializeC d h, parseC_serializeC _ ?_⟩
  have h' := serTokens_wf (serTokens_wf h)
  exact ⟨(serTokens_wf h).name, h'.symbols, h'.states, h'.final, h'.trans⟩

example : (ofS TimbukEx.exD).wellFormed = true := by decide

/-! ### 4. classes of rejected texts -/

theorem rejects_of_parseC {t : String} (h : ∃ e, parseC t.toList = .error e) : ∃ e, parseTimbuk t = .error e := by
  obtain ⟨e, he⟩ := h
  exact ⟨e, by unfold parseTimbuk; rw [he]⟩

/-- the lines of a text -/
def linesOf (t : String) : List Str := T.splitDelim '\n' t.toList

/-- **no `Transitions`**: a text none of whose lines has the first word `Transitions` is rejected
(`throw … "Transitions not specified"`, or an earlier error) -/
theorem C13_rejects_no_transitions (t : String) (h : NoTransitionsLine (linesOf t)) :
    ∃ e, parseTimbuk t = .error e :=
  rejects_of_parseC (rejects_no_transitions _ h)

example : NoTransitionsLine (linesOf "Ops a:0\nAutomaton A\nStates q\nFinal States q\n") := by
  unfold NoTransitionsLine; decide
example : NoTransitionsLine (linesOf "") ∧ NoTransitionsLine (linesOf "transitions\nxTransitions\n") := by
  unfold NoTransitionsLine; decide

/-- **unknown keyword**: a non-blank line before the `Transitions` line whose first word is none of `Ops`, `Automaton`,
`States`, `Final`, `Transitions` is rejected -/
theorem C13_rejects_unknown_keyword (t : String) (pre post : List Str) (l : Str) (hs : linesOf t = pre ++ l :: post)
    (hpre : NoTransitionsLine pre) (hne : trim l ≠ []) (h0 : firstWord l ≠ kwTransitions)
    (hk : ∀ k : HKind, firstWord l ≠ k.kw) : ∃ e, parseTimbuk t = .error e :=
  rejects_of_parseC (rejects_unknown_keyword _ pre post l hs hpre hne h0 hk)

example : linesOf "Ops a:0\nautomaton A\nTransitions" = ["Ops a:0".toList] ++ "automaton A".toList :: ["Transitions".toList] ∧
    NoTransitionsLine ["Ops a:0".toList] ∧ trim "automaton A".toList ≠ [] ∧
    firstWord "automaton A".toList ≠ kwTransitions ∧ ∀ k : HKind, firstWord "automaton A".toList ≠ k.kw :=
  ⟨by decide, by unfold NoTransitionsLine; decide, by decide, by decide, by intro k; cases k <;> decide⟩

/-- **repeated section**: two lines with the same first word `Ops` / `Automaton` / `States` / `Final` before the
`Transitions` line are rejected (`"… already parsed!"`, or an earlier error) -/
theorem C13_rejects_repeated_section (t : String) (k : HKind) (pre mid post : List Str) (l1 l2 : Str)
    (hs : linesOf t = pre ++ l1 :: (mid ++ l2 :: post)) (hpre : NoTransitionsLine pre) (hmid : NoTransitionsLine mid)
    (h1 : firstWord l1 = k.kw) (h2 : firstWord l2 = k.kw) : ∃ e, parseTimbuk t = .error e :=
  rejects_of_parseC (rejects_repeated _ k pre mid post l1 l2 hs hpre hmid h1 h2)

example : linesOf "States q\nOps a:0\nStates r\nTransitions" =
      [] ++ "States q".toList :: (["Ops a:0".toList] ++ "States r".toList :: ["Transitions".toList]) ∧
    NoTransitionsLine [] ∧ NoTransitionsLine ["Ops a:0".toList] ∧ firstWord "States q".toList = HKind.states.kw ∧
    firstWord "States r".toList = HKind.states.kw :=
  ⟨by decide, by unfold NoTransitionsLine; decide, by unfold NoTransitionsLine; decide, by decide, by decide⟩

/-- **not a transition**: a non-blank line after a `Transitions` line that is `BadTrans` – no `->`; nothing, or white space
inside, after the `->`; nothing before it; `(` without `)`; `)` without `(`; two words without parentheses – is rejected
(`"invalid transition"`, or an earlier error).  This includes a second `Transitions` line and every header line after
`Transitions`. -/
theorem C13_rejects_bad_transition (t : String) (pre post : List Str) (l : Str) (hs : linesOf t = pre ++ l :: post)
    (hpre : ∃ x ∈ pre, firstWord x = kwTransitions) (hne : trim l ≠ []) (hbad : BadTrans (trim l)) :
    ∃ e, parseTimbuk t = .error e :=
  rejects_of_parseC (rejects_bad_transition _ pre post l hs hpre hne hbad)

example : BadTrans "a q".toList := .noArrow (by decide)
example : BadTrans "Ops a:0".toList := .noArrow (by decide)
example : BadTrans "a ->".toList := .badRhs (l := "a ".toList) (r := []) (by decide) (Or.inl (by decide))
example : BadTrans "a -> q r".toList := .badRhs (l := "a ".toList) (r := " q r".toList) (by decide) (Or.inr (by decide))
example : BadTrans "-> q".toList := .noLhs (l := []) (r := " q".toList) (by decide) (by decide)
example : BadTrans "a b -> q".toList := .twoWords (l := "a b ".toList) (r := " q".toList) (by decide) (by decide) (by decide)
example : BadTrans "a) -> q".toList := .closeOnly (l := "a) ".toList) (r := " q".toList) (by decide) (by decide) (by decide)
example : BadTrans "a(b -> q".toList := .openOnly (l := "a(b ".toList) (r := " q".toList) (by decide) (by decide) (by decide)
example : linesOf "Transitions\na(b -> q" = ["Transitions".toList] ++ "a(b -> q".toList :: [] ∧
    (∃ x ∈ ["Transitions".toList], firstWord x = kwTransitions) ∧ trim "a(b -> q".toList ≠ [] :=
  ⟨by decide, ⟨_, List.mem_cons_self, by decide⟩, by decide⟩

/-- executed, for each class -/
example : TimbukTest.rejects "Ops a:0\nAutomaton A\n" = true ∧ TimbukTest.rejects "Ops a:0\nautomaton A\nTransitions" = true ∧
    TimbukTest.rejects "States q\nOps a:0\nStates r\nTransitions" = true ∧
    TimbukTest.rejects "Transitions\na(b -> q" = true ∧ TimbukTest.rejects "Transitions\na q" = true ∧
    TimbukTest.rejects "Transitions\nTransitions" = true := by decide +kernel

/-- **accepted, perhaps surprisingly** (the C++ does the same: no check exists in `parse_timbuk`): a symbol used with a rank
different from its `Ops` entry, and names that `Ops` / `States` never mention; no `Automaton` line -/
theorem accepts_rank_mismatch : (parseTimbuk "Ops a:0\nStates p\nTransitions\na(q) -> r").toOption =
    some ⟨"", [("a", 0)], ["p"], [], [(["q"], "a", "r")]⟩ := by decide +kernel

/-- the rest of the `Transitions` line is ignored -/
example : parseTimbuk "Transitions a -> q" = .ok ⟨"", [], [], [], []⟩ := rfl

/-!
## still not proved

* **Idempotence `serialize ∘ parse ∘ serialize = serialize`** (`serialize d' = serialize d` for the `d'` that
  `parseTimbuk (serialize d)` returns).  It needs `norm lt (norm lt l) = norm lt l`, i.e. that the four C++ orders (`ltStr`,
  `ltSym`, `ltTuple`, `ltTrans`, all built on `lexLt`) are strict total orders and that `setInsert` keeps lists sorted; that
  order theory is not developed.  Proved instead: `C13_serialize_parse` (the sets and the name come back) and
  `C13_parse_serialize_twice`.  For the same reason a layout lists the tokens **in the order of the description**
  (`Layout.Ok.trans`, `HLine.Ok.words`); that permuting the rule lines or the words of a section does not change the result
  (true for `std::set`s) is not proved.
* `parseTimbuk (serialize d) = .ok d` for parse results `d` is false as stated (empty name, example above); with the name
  clause corrected it again needs `norm (norm l) = norm l`.
* **Layouts not covered**: text after the keyword on the `Transitions` line; tokens spelled differently (`q:5` for a state,
  `a:+2`, `a:007`, a symbol without rank); header sections given with other words than those of `d`.  Examples only
  (`Vata/Timbuk.lean`).
* **Rejection is characterised by classes, not completely**: there is no theorem "`parseTimbuk t = .error _` iff …".  Not
  covered by a class: a bad rank (`Ops a:x`), `Final` not followed by `States`, two names after `Automaton`, text after `)`,
  white space inside a child name, an empty symbol before `(`.  The classes speak about the first error only in the sense
  that SOME error is returned (an earlier line may already fail).
* All statements are about the model; its agreement with the compiled C++ is the generated comparison described in
  `Vata/Timbuk.lean`, not a theorem.
-/
end Vata.Props
