import Vata.Nfa
import Vata.NfaEmbed
import Vata.NfaOps
import Vata.Proofs.NfaOps
import Vata.Properties.C10_StartSymbols
import Vata.Properties.RefTotal
/-!
# C10 – Finite-automata union, intersection, reversal, trimming, witness are exact

> For nondeterministic finite word automata, Union and UnionDisjointStates accept exactly the union of the operand
> languages, Intersection exactly their intersection, and Reverse exactly the mirror images of the accepted words.
> RemoveUnreachableStates and RemoveUselessStates keep the language, and GetCandidateTree returns an automaton whose
> language is a subset of the original that is empty only if the original language is empty.

## How the statement is read into the model

* **Specification (L0).**  `Vata.W.NFA` and `acceptsW N w` (`Vata/Nfa.lean`): `w` labels a path from a start state to a
  final state (`acceptsW_iff`, `Path` in `Vata/Proofs/NfaOps.lean`; restated as `C09_accepts_iff_path`).  The language
  statements are pointwise Boolean equations: `acceptsW U w = (acceptsW A w || acceptsW B w)` is "`U` accepts exactly
  the union", `… && …` the intersection, `acceptsW R w = acceptsW N w.reverse` "exactly the mirror images".
  `NfaReach N q` / `NfaCoReach N q` (`Vata/Proofs/NfaOps.lean`) are "`q` is reachable from a start state" / "a final
  state is reachable from `q`".
* **Model of the code** (`Vata/NfaOps.lean`, executable, compared with the real C++ by the correspondence check):
  `nfaUnion` / `nfaUnionWith fA fB` (`Union`: both operands reindexed into one result), `nfaMap` (`ReindexStates`),
  `nfaUnionDisjoint` (`UnionDisjointStates`: componentwise union), `nfaIsect` / `nfaIntersection` (`Intersection`:
  product on the pairs reachable from the pairs of start states, numbered in order of discovery, followed by
  `RemoveUselessStates`), `nfaProdOn` (the product on a given set of pairs with a given numbering), `nfaReverse`
  (`Reverse`, defined in `Vata/NfaEmbed.lean`), `nfaRemoveUnreachable`, `nfaRemoveUseless` (as coded: unreachable –
  reverse – unreachable – reverse), `nfaCandidate` (`GetCandidateTree`: breadth-first search for the first final state,
  then `RemoveUselessStates`).  The start symbols of the C++ (a set of symbols attached to each start state) are not part
  of THIS model; `Vata.NFAS` (`Vata/NfaStart.lean`) is `Vata.W.NFA` plus the map `startStateToSymbols_`, every operation
  `nfas…` is the operation of this file on the projection `toNFA` paired with what the C++ does to the map, and
  `Vata/Properties/C10_StartSymbols.lean` proves that the language never depends on the symbols and what symbols every start
  state of a result shows (`C10_with_start_symbols` at the end of this file restates the property for `NFAS`).
* **Reference (oracle of the check).**  `isUnionW`, `isIsectW`, `equivW`, `emptyW` (`Vata/NfaEmbed.lean`) decide the
  language equations above for the automata the real code returned; `C10_reference_checkers_exact` says that each of
  their verdicts is the truth.
-/
namespace Vata.Props
open Vata Vata.W

/-! ### Union -/

/-- the model of `Union` accepts exactly the union of the operand languages (no hypothesis: the model numbers the
states of `A` by `0 … |A|-1` and those of `B` by `|A| … |A|+|B|-1`, which is injective with disjoint images) -/
theorem C10_union_exact (A B : NFA) (w : List Nat) :
    acceptsW (nfaUnion A B) w = (acceptsW A w || acceptsW B w) := nfaUnion_lang A B w

-- overlapping state numbers; the first operand accepts the empty word
example : nfaUnion ⟨[0], [0], [(0, 5, 0)]⟩ ⟨[0, 1], [1], [(0, 7, 1)]⟩ =
    ⟨[0, 1, 2], [0, 2], [(0, 5, 0), (1, 7, 2)]⟩ := rfl
example : acceptsW (nfaUnion ⟨[0], [0], [(0, 5, 0)]⟩ ⟨[0, 1], [1], [(0, 7, 1)]⟩) [5, 7] = false := by decide

/-- `Union` with arbitrary translation maps: exact when each map is injective on the states of its operand and the
two images are disjoint.  All three hypotheses are needed (a map that merges two states, or two images that share a
state, glue paths together and can add words); the code satisfies them by handing out fresh numbers. -/
theorem C10_unionWith_exact (fA fB : Nat → Nat) (A B : NFA) (w : List Nat)
    (hA : NfaInjOn fA (nfaStates A)) (hB : NfaInjOn fB (nfaStates B))
    (hdis : ∀ p, p ∈ nfaStates A → ∀ q, q ∈ nfaStates B → fA p ≠ fB q) :
    acceptsW (nfaUnionWith fA fB A B) w = (acceptsW A w || acceptsW B w) :=
  nfaUnionWith_lang fA fB A B w hA hB hdis

example : NfaInjOn (fun q => 2 * q) (nfaStates ⟨[0], [0], [(0, 5, 0)]⟩) ∧
    NfaInjOn (fun q => 2 * q + 1) (nfaStates ⟨[0, 1], [1], [(0, 7, 1)]⟩) ∧
    ∀ p, p ∈ nfaStates ⟨[0], [0], [(0, 5, 0)]⟩ → ∀ q, q ∈ nfaStates ⟨[0, 1], [1], [(0, 7, 1)]⟩ →
      (fun q => 2 * q) p ≠ (fun q => 2 * q + 1) q :=
  ⟨fun _ _ _ _ h => by dsimp only at h; omega, fun _ _ _ _ h => by dsimp only at h; omega,
    fun _ _ _ _ => by dsimp only; omega⟩
-- without disjoint images the union is too big: both operands mapped by the identity, `[5, 7]` is accepted
example : acceptsW (nfaUnionWith id id ⟨[0], [0], [(0, 5, 0)]⟩ ⟨[0, 1], [1], [(0, 7, 1)]⟩) [5, 7] = true ∧
    (acceptsW ⟨[0], [0], [(0, 5, 0)]⟩ [5, 7] || acceptsW ⟨[0, 1], [1], [(0, 7, 1)]⟩ [5, 7]) = false := by decide

/-- the model of `ReindexStates` keeps the language when the map is injective on the states of the automaton; without
injectivity the language can only grow -/
theorem C10_reindex_exact (f : Nat → Nat) (N : NFA) (w : List Nat) :
    (NfaInjOn f (nfaStates N) → acceptsW (nfaMap f N) w = acceptsW N w) ∧
    (acceptsW N w = true → acceptsW (nfaMap f N) w = true) :=
  ⟨nfaMap_inj_lang f N w, nfaMap_lang_ge f N w⟩

example : NfaInjOn (fun q => q + 10) (nfaStates ⟨[0, 1], [1], [(0, 7, 1)]⟩) := fun _ _ _ _ h => Nat.add_right_cancel h
-- a map that merges the two states adds the empty word
example : acceptsW (nfaMap (fun _ => 0) ⟨[0], [1], [(0, 7, 1)]⟩) [] = true ∧
    acceptsW ⟨[0], [1], [(0, 7, 1)]⟩ [] = false := by decide

/-! ### UnionDisjointStates -/

/-- the model of `UnionDisjointStates` accepts exactly the union **when the operands have no state in common**.  The
hypothesis is the precondition of the C++ function (it is what the name says; an `assert` guards it); without it only
`⊇` holds: the componentwise union can accept more (second example) -/
theorem C10_unionDisjoint_exact (A B : NFA) (w : List Nat) :
    ((∀ q, q ∈ nfaStates A → q ∈ nfaStates B → False) →
      acceptsW (nfaUnionDisjoint A B) w = (acceptsW A w || acceptsW B w)) ∧
    ((acceptsW A w || acceptsW B w) = true → acceptsW (nfaUnionDisjoint A B) w = true) :=
  ⟨nfaUnionDisjoint_lang A B w, nfaUnionDisjoint_lang_ge A B w⟩

example : ∀ q, q ∈ nfaStates ⟨[0], [0], [(0, 5, 0)]⟩ → q ∈ nfaStates ⟨[1, 2], [2], [(1, 7, 2)]⟩ → False := by decide
example : acceptsW (nfaUnionDisjoint ⟨[0], [0], [(0, 5, 0)]⟩ ⟨[0, 1], [1], [(0, 7, 1)]⟩) [5, 7] = true ∧
    (acceptsW ⟨[0], [0], [(0, 5, 0)]⟩ [5, 7] || acceptsW ⟨[0, 1], [1], [(0, 7, 1)]⟩ [5, 7]) = false := by decide

/-! ### Intersection -/

/-- the model of `Intersection` accepts exactly the intersection: `nfaIsect` (which runs the pair exploration long
enough) unconditionally, and `nfaIntersection` for every fuel with which it returns a result; the number of rounds
used by `nfaIsect` always suffices -/
theorem C10_intersection_exact (A B : NFA) :
    (∀ w, acceptsW (nfaIsect A B) w = (acceptsW A w && acceptsW B w)) ∧
    (∀ fuel P, nfaIntersection A B fuel = some P → ∀ w, acceptsW P w = (acceptsW A w && acceptsW B w)) ∧
    (∃ P, nfaIntersection A B (nfaJointAll A B).length = some P) :=
  ⟨nfaIsect_lang A B, fun fuel P h w => nfaIntersection_lang A B fuel P h w, nfaIntersection_isSome A B⟩

-- both operands accept the empty word; of the two pairs of start states only (0,0) is useful ((1,0) leads nowhere);
-- in the explored pair (2,0) only the second component is a start state, so it is not a start state of the product
example : nfaIsect ⟨[0, 1], [0, 2], [(0, 5, 2), (2, 5, 2)]⟩ ⟨[0], [0], [(0, 5, 0), (0, 6, 0)]⟩ =
    ⟨[0], [0, 2], [(0, 5, 2), (2, 5, 2)]⟩ := rfl
example : nfaIntersection ⟨[0, 1], [0, 2], [(0, 5, 2), (2, 5, 2)]⟩ ⟨[0], [0], [(0, 5, 0), (0, 6, 0)]⟩ 0 = none := by
  decide

/-- the product certificate: for *any* set `D` of pairs that contains the pairs of start states and is closed under
joint successors, and *any* numbering `m` that is injective on `D`, the product automaton on `D` accepts exactly the
intersection.  This is the invariant of the product construction independent of the exploration order and of the
concrete numbering (the C++ numbers product states in the iteration order of its containers); the Boolean form
`nfaProdCertB` is what can be run on a dumped translation map.  Injectivity is needed: a numbering that merges two
pairs glues their paths. -/
theorem C10_product_certificate (A B : NFA) (D : List (Nat × Nat)) (m : Nat × Nat → Nat) :
    ((∀ p, p ∈ nfaStartPairs A B → p ∈ D) → NfaPairClosed A B D → NfaPairInjOn m D →
      ∀ w, acceptsW (nfaProdOn A B D m) w = (acceptsW A w && acceptsW B w)) ∧
    (nfaProdCertB A B D m = true → ∀ w, acceptsW (nfaProdOn A B D m) w = (acceptsW A w && acceptsW B w)) :=
  ⟨fun hs hc hi w => nfaProd_cert A B D m w hs hc hi, fun h w => nfaProdCertB_lang h w⟩

example : (∀ p, p ∈ nfaStartPairs ⟨[0, 1], [0, 2], [(0, 5, 2), (2, 5, 2)]⟩ ⟨[0], [0], [(0, 5, 0), (0, 6, 0)]⟩ →
      p ∈ [(0, 0), (1, 0), (2, 0)]) ∧
    NfaPairClosed ⟨[0, 1], [0, 2], [(0, 5, 2), (2, 5, 2)]⟩ ⟨[0], [0], [(0, 5, 0), (0, 6, 0)]⟩ [(0, 0), (1, 0), (2, 0)] ∧
    NfaPairInjOn (fun p => 3 * p.1 + p.2) [(0, 0), (1, 0), (2, 0)] :=
  nfaProdCertB_sound (by decide)
-- a set of pairs that is not closed is refused
example : nfaProdCertB ⟨[0, 1], [0, 2], [(0, 5, 2), (2, 5, 2)]⟩ ⟨[0], [0], [(0, 5, 0), (0, 6, 0)]⟩ [(0, 0), (1, 0)]
    (fun p => 3 * p.1 + p.2) = false := by decide

/-! ### Reverse -/

/-- the model of `Reverse` (edges reversed, start and final states swapped) accepts exactly the mirror images -/
theorem C10_reverse_exact (N : NFA) (w : List Nat) : acceptsW (nfaReverse N) w = acceptsW N w.reverse :=
  nfaReverse_lang N w

example : nfaReverse ⟨[0, 3], [2, 3], [(0, 5, 1), (1, 6, 2)]⟩ = ⟨[2, 3], [0, 3], [(1, 5, 0), (2, 6, 1)]⟩ := rfl
example : acceptsW (nfaReverse ⟨[0, 3], [2, 3], [(0, 5, 1), (1, 6, 2)]⟩) [6, 5] = true ∧
    acceptsW ⟨[0, 3], [2, 3], [(0, 5, 1), (1, 6, 2)]⟩ [6, 5] = false := by decide

/-! ### RemoveUnreachableStates, RemoveUselessStates -/

/-- both trimming operations keep the language -/
theorem C10_trimming_preserves (N : NFA) (w : List Nat) :
    acceptsW (nfaRemoveUnreachable N) w = acceptsW N w ∧ acceptsW (nfaRemoveUseless N) w = acceptsW N w :=
  ⟨nfaRemoveUnreachable_lang N w, nfaRemoveUseless_lang N w⟩

-- state 3 is dead (reachable, no way to a final state), state 4 unreachable, start state 2 leads only to 3
example : nfaRemoveUnreachable ⟨[0, 2], [0, 1, 4], [(0, 0, 1), (1, 1, 1), (2, 0, 3), (4, 0, 1)]⟩ =
    ⟨[0, 2], [0, 1], [(0, 0, 1), (1, 1, 1), (2, 0, 3)]⟩ := rfl
example : nfaRemoveUseless ⟨[0, 2], [0, 1, 4], [(0, 0, 1), (1, 1, 1), (2, 0, 3), (4, 0, 1)]⟩ =
    ⟨[0], [0, 1], [(0, 0, 1), (1, 1, 1)]⟩ := rfl

/-- what `RemoveUnreachableStates` keeps: all start states, exactly the final states that are reachable and exactly
the transitions whose source is reachable; the search reaches exactly the reachable states -/
theorem C10_removeUnreachable_post (N : NFA) :
    (nfaRemoveUnreachable N).start = N.start ∧
    (∀ q, q ∈ (nfaRemoveUnreachable N).final ↔ q ∈ N.final ∧ NfaReach N q) ∧
    (∀ e, e ∈ (nfaRemoveUnreachable N).trans ↔ e ∈ N.trans ∧ NfaReach N e.1) ∧
    (∀ q, q ∈ nfaReachable N ↔ NfaReach N q) :=
  ⟨nfaRemoveUnreachable_start N, mem_nfaRemoveUnreachable_final N, mem_nfaRemoveUnreachable_trans N,
    mem_nfaReachable_iff N⟩

example : nfaReachable ⟨[0, 2], [0, 1, 4], [(0, 0, 1), (1, 1, 1), (2, 0, 3), (4, 0, 1)]⟩ = [0, 2, 1, 3] := by decide

/-- what `RemoveUselessStates` keeps: exactly the transitions from a reachable state to a state from which a final
state is reachable, the start states from which a final state is reachable, the reachable final states -/
theorem C10_removeUseless_post (N : NFA) :
    (∀ p a q, (p, a, q) ∈ (nfaRemoveUseless N).trans ↔ (p, a, q) ∈ N.trans ∧ NfaReach N p ∧ NfaCoReach N q) ∧
    (∀ s, s ∈ (nfaRemoveUseless N).start ↔ s ∈ N.start ∧ NfaCoReach N s) ∧
    (∀ f, f ∈ (nfaRemoveUseless N).final ↔ f ∈ N.final ∧ NfaReach N f) :=
  ⟨mem_nfaRemoveUseless_trans N, mem_nfaRemoveUseless_start N, mem_nfaRemoveUseless_final N⟩

example : (nfaRemoveUseless ⟨[0, 2], [0, 1, 4], [(0, 0, 1), (1, 1, 1), (2, 0, 3), (4, 0, 1)]⟩).start = [0] := by decide

/-- the result of `RemoveUselessStates` is trim: every state that occurs in it is useful in the original automaton
and, which is stronger, in the result itself -/
theorem C10_removeUseless_trim (N : NFA) (q : Nat) (hq : q ∈ nfaStates (nfaRemoveUseless N)) :
    (NfaReach N q ∧ NfaCoReach N q) ∧ (NfaReach (nfaRemoveUseless N) q ∧ NfaCoReach (nfaRemoveUseless N) q) :=
  ⟨nfaRemoveUseless_states_useful N q hq, nfaRemoveUseless_trim N q hq⟩

example : 1 ∈ nfaStates (nfaRemoveUseless ⟨[0, 2], [0, 1, 4], [(0, 0, 1), (1, 1, 1), (2, 0, 3), (4, 0, 1)]⟩) := by
  decide

/-! ### GetCandidateTree (witness) -/

/-- the model of `GetCandidateTree`: its language is a subset of the original language, and it is non-empty exactly
when the original language is non-empty -/
theorem C10_witness (N : NFA) :
    (∀ w, acceptsW (nfaCandidate N) w = true → acceptsW N w = true) ∧
    ((∃ w, acceptsW (nfaCandidate N) w = true) ↔ ∃ w, acceptsW N w = true) :=
  ⟨nfaCandidate_sub_lang N, nfaCandidate_nonempty_iff N⟩

-- no start state is final, the first final state found is 2 (via the second start state)
example : nfaCandidate ⟨[0, 1], [2, 4], [(0, 5, 3), (1, 6, 2), (3, 5, 4), (2, 5, 2)]⟩ = ⟨[1], [2], [(1, 6, 2)]⟩ := rfl
-- a start state is final: the witness accepts the empty word only
example : nfaCandidate ⟨[0, 1], [1, 2], [(0, 5, 2)]⟩ = ⟨[1], [1], []⟩ := rfl

/-- … in the words of the statement: the witness is empty only if the original language is empty -/
theorem C10_witness_empty_only_if_empty (N : NFA) (h : ∀ w, acceptsW (nfaCandidate N) w = false) (w : List Nat) :
    acceptsW N w = false := by
  cases hw : acceptsW N w
  · rfl
  · obtain ⟨v, hv⟩ := (nfaCandidate_nonempty_iff N).mpr ⟨w, hw⟩
    rw [h v] at hv; cases hv

-- an automaton with an empty language: the only final state is unreachable
example : nfaCandidate ⟨[0], [2], [(0, 5, 1), (2, 5, 2)]⟩ = ⟨[], [], []⟩ := rfl

/-- the test the driver applies to the results of trimming and witness: a sub-automaton (start states, final states
and transitions all taken from `N`) accepts a subset of the language; `nfaSubB` is its Boolean form -/
theorem C10_subautomaton_sublanguage (R N : NFA) (w : List Nat) :
    ((∀ q, q ∈ R.start → q ∈ N.start) → (∀ q, q ∈ R.final → q ∈ N.final) → (∀ e, e ∈ R.trans → e ∈ N.trans) →
      acceptsW R w = true → acceptsW N w = true) ∧
    (nfaSubB R N = true → acceptsW R w = true → acceptsW N w = true) :=
  ⟨sub_nfa_sub_lang R N w, fun h => nfaSubB_lang h w⟩

example : nfaSubB ⟨[1], [2], [(1, 6, 2)]⟩ ⟨[0, 1], [2, 4], [(0, 5, 3), (1, 6, 2), (3, 5, 4), (2, 5, 2)]⟩ = true := by
  decide

/-! ### the checkers applied to the automata returned by the real code -/

/-- every verdict of the four reference checkers (is-union, is-intersection, language equivalence, emptiness) is
exact -/
theorem C10_reference_checkers_exact :
    (∀ U A B fuel b, isUnionW U A B fuel = some b →
      (b = true ↔ ∀ w, acceptsW U w = (acceptsW A w || acceptsW B w))) ∧
    (∀ P A B fuel b, isIsectW P A B fuel = some b →
      (b = true ↔ ∀ w, acceptsW P w = (acceptsW A w && acceptsW B w))) ∧
    (∀ A B fuel b, equivW A B fuel = some b → (b = true ↔ ∀ w, acceptsW A w = acceptsW B w)) ∧
    (∀ A fuel b, emptyW A fuel = some b → (b = true ↔ ∀ w, acceptsW A w = false)) :=
  ⟨isUnionW_iff, isIsectW_iff, equivW_iff, emptyW_iff⟩

example : isUnionW ⟨[0, 1, 2], [0, 2], [(0, 5, 0), (1, 7, 2)]⟩ ⟨[0], [0], [(0, 5, 0)]⟩ ⟨[0, 1], [1], [(0, 7, 1)]⟩ 10 =
    some true := by decide
example : isUnionW ⟨[0, 1], [0, 1], [(0, 5, 0), (0, 7, 1)]⟩ ⟨[0], [0], [(0, 5, 0)]⟩ ⟨[0, 1], [1], [(0, 7, 1)]⟩ 10 =
    some false := by decide
example : isIsectW ⟨[0], [0, 2], [(0, 5, 2), (2, 5, 2)]⟩ ⟨[0, 1], [0, 2], [(0, 5, 2), (2, 5, 2)]⟩
    ⟨[0], [0], [(0, 5, 0), (0, 6, 0)]⟩ 10 = some true := by decide
example : equivW ⟨[0, 2], [0, 1, 4], [(0, 0, 1), (1, 1, 1), (2, 0, 3), (4, 0, 1)]⟩
    ⟨[0], [0, 1], [(0, 0, 1), (1, 1, 1)]⟩ 10 = some true := by decide
example : emptyW ⟨[0], [2], [(0, 5, 1), (2, 5, 2)]⟩ 10 = some true ∧
    emptyW ⟨[0, 1], [2, 4], [(0, 5, 3), (1, 6, 2), (3, 5, 4), (2, 5, 2)]⟩ 10 = some false := by decide

/-! ### the property for the automata WITH their start symbols, and against the reference -/

section
open Vata.NfaS

/-- **C10 for the class as it is** – word automata carrying `startStateToSymbols_` (model `Vata.NFAS`), whatever the symbols
are: `Union` accepts exactly the union, `UnionDisjointStates` exactly the union for state-disjoint operands, `Intersection`
exactly the intersection (for every fuel with which the exploration returns, and it returns), `Reverse` exactly the mirror
images, both trimming operations keep the language, and the witness automaton accepts a subset that is non-empty exactly when
the language is.  (What the START SYMBOLS of the results are is `C10_start_*_spec` in `C10_StartSymbols.lean`.) -/
theorem C10_with_start_symbols (A B : NFAS) (w : List Nat) :
    acceptsW (nfasUnion A B).toNFA w = (acceptsW A.toNFA w || acceptsW B.toNFA w) ∧
    ((∀ q, q ∈ nfaStates A.toNFA → q ∈ nfaStates B.toNFA → False) →
      acceptsW (nfasUnionDisjoint A B).toNFA w = (acceptsW A.toNFA w || acceptsW B.toNFA w)) ∧
    (acceptsW (nfasIsect A B).toNFA w = (acceptsW A.toNFA w && acceptsW B.toNFA w) ∧
      (∀ fuel P, nfasIntersection A B fuel = some P → acceptsW P.toNFA w = (acceptsW A.toNFA w && acceptsW B.toNFA w)) ∧
      ∃ P, nfasIntersection A B (nfaJointAll A.toNFA B.toNFA).length = some P) ∧
    acceptsW (nfasReverse A).toNFA w = acceptsW A.toNFA w.reverse ∧
    (acceptsW (nfasRemoveUnreachable A).toNFA w = acceptsW A.toNFA w ∧
      acceptsW (nfasRemoveUseless A).toNFA w = acceptsW A.toNFA w) ∧
    ((acceptsW (nfasCandidate A).toNFA w = true → acceptsW A.toNFA w = true) ∧
      ((∃ w, acceptsW (nfasCandidate A).toNFA w = true) ↔ ∃ w, acceptsW A.toNFA w = true)) := by
  obtain ⟨h1, h2, h3, h4, h5, h6, h7⟩ := C10_start_languages A B w
  have hi := (C10_start_language_independent A B).2.2.2.2.1
  refine ⟨h1, fun hd => (C10_unionDisjoint_exact A.toNFA B.toNFA w).1 hd, ⟨h2, fun fuel P h => ?_, ?_⟩, h3, ⟨h4, h5⟩, ⟨h6, h7⟩⟩
  · have e : nfaIntersection A.toNFA B.toNFA fuel = some P.toNFA := by rw [← hi fuel, h]; rfl
    exact (C10_intersection_exact A.toNFA B.toNFA).2.1 fuel P.toNFA e w
  · obtain ⟨P, hP⟩ := (C10_intersection_exact A.toNFA B.toNFA).2.2
    have e := hi (nfaJointAll A.toNFA B.toNFA).length
    rw [hP] at e
    cases hq : nfasIntersection A B (nfaJointAll A.toNFA B.toNFA).length with
    | none => rw [hq] at e; cases e
    | some Q => exact ⟨Q, rfl⟩

example : (∀ q, q ∈ nfaStates NfaSEx.exA.toNFA → q ∈ nfaStates (nfasMap (· + 10) NfaSEx.exB).toNFA → False) ∧
    (nfasIntersection NfaSEx.exA NfaSEx.exB 5).isSome = true := by decide

end

/-- above the explicit fuel bounds of `C10_reference_total` the reference checkers answer, and on the results of the models
they answer `true` (union, intersection, equivalence after reversal twice and after trimming) resp. the right emptiness verdict
for the witness automaton -/
theorem C10_models_pass_reference (A B : NFA) (fuel : Nat) :
    (fuelBoundW [nfaUnion A B, A, B] ≤ fuel → isUnionW (nfaUnion A B) A B fuel = some true) ∧
    (fuelBoundW [nfaIsect A B, A, B] ≤ fuel → isIsectW (nfaIsect A B) A B fuel = some true) ∧
    (fuelBoundW [nfaRemoveUseless A, A] ≤ fuel → equivW (nfaRemoveUseless A) A fuel = some true) ∧
    (fuelBoundW [nfaRemoveUnreachable A, A] ≤ fuel → equivW (nfaRemoveUnreachable A) A fuel = some true) ∧
    (fuelBoundW [nfaReverse (nfaReverse A), A] ≤ fuel → equivW (nfaReverse (nfaReverse A)) A fuel = some true) ∧
    (fuelBoundW [nfaCandidate A] ≤ fuel → fuelBoundW [A] ≤ fuel → emptyW (nfaCandidate A) fuel = emptyW A fuel) := by
  refine ⟨fun hf => ?_, fun hf => ?_, fun hf => ?_, fun hf => ?_, fun hf => ?_, fun hf hf' => ?_⟩
  · obtain ⟨b, hb, e⟩ := ((C10_reference_total (nfaUnion A B) A B fuel).1 hf).1
    rw [hb, e.mpr (C10_union_exact A B)]
  · obtain ⟨b, hb, e⟩ := ((C10_reference_total (nfaIsect A B) A B fuel).1 hf).2
    rw [hb, e.mpr ((C10_intersection_exact A B).1)]
  · obtain ⟨b, hb, e⟩ := (C10_reference_total (nfaRemoveUseless A) A A fuel).2.1 hf
    rw [hb, e.mpr (fun w => (C10_trimming_preserves A w).2)]
  · obtain ⟨b, hb, e⟩ := (C10_reference_total (nfaRemoveUnreachable A) A A fuel).2.1 hf
    rw [hb, e.mpr (fun w => (C10_trimming_preserves A w).1)]
  · obtain ⟨b, hb, e⟩ := (C10_reference_total (nfaReverse (nfaReverse A)) A A fuel).2.1 hf
    rw [hb, e.mpr (fun w => by rw [C10_reverse_exact, C10_reverse_exact, List.reverse_reverse])]
  · obtain ⟨b, hb, e⟩ := (C10_reference_total A (nfaCandidate A) A fuel).2.2 hf
    obtain ⟨b', hb', e'⟩ := (C10_reference_total A A A fuel).2.2 hf'
    rw [hb, hb']
    congr 1
    rw [Bool.eq_iff_iff, e, e']
    constructor
    · intro h w; exact C10_witness_empty_only_if_empty A h w
    · intro h w
      cases hw : acceptsW (nfaCandidate A) w
      · rfl
      · have := (C10_witness A).1 w hw
        rw [h w] at this; cases this

example : fuelBoundW [nfaUnion ⟨[0], [0], [(0, 5, 0)]⟩ ⟨[0, 1], [1], [(0, 7, 1)]⟩, ⟨[0], [0], [(0, 5, 0)]⟩,
    ⟨[0, 1], [1], [(0, 7, 1)]⟩] ≤ 64 := by decide

/-!
## closed since the last refresh of this file

* **"Start symbols. … they are not part of the model `Vata.W.NFA`, so nothing is proved about how the operations treat
  them"** – closed in `Vata/Properties/C10_StartSymbols.lean` (model `Vata.NFAS`, correspondence kind `nfas`): the language
  of every result is independent of the symbols (`C10_start_language_independent`, `C10_start_languages`,
  `C10_start_symbols_irrelevant`; restated for the whole property in `C10_with_start_symbols`); the symbols every start state
  of a result shows (`C10_start_union_spec`, `C10_start_reindex_spec`, `C10_start_unionDisjoint_spec`,
  `C10_start_intersection_spec`, `C10_start_reverse_spec`, `C10_start_trim_spec`, `C10_start_witness_spec`,
  `C10_start_setStart_spec`, `C10_start_setExistingStart_spec`); dump / load with several symbols per state
  (`C10_start_load_spec`, `C10_start_dump_load`); history invariants (`C10_start_history_keys`,
  `C10_start_history_nonempty`, `C10_start_history_stale_unobservable`).
* "No totality theorem for the reference checkers `isUnionW`, `isIsectW`, `equivW`, `emptyW`": `C10_reference_total`
  (`Vata/Properties/RefTotal.lean`), composed with the models in `C10_models_pass_reference`.

## not yet proved

* **Stale start-symbol entries – a finding.**  `Reverse` and `RemoveUnreachableStates` leave entries of non-start states in
  the map; `SetStateStart`, `SetExistingStateStart` and `UnionDisjointStates` read them (`C10_start_stale_observable`:
  symbols invented, symbols lost – the real class behaves like the model).  The specifications of these three calls carry
  the hypothesis "no stale entry is hit", which nothing the API shows implies.
* **`UnionDisjointStates` outside its precondition.**  `C10_unionDisjoint_exact` needs the operands to be
  state-disjoint; for operands that share a state only `⊇` is proved for the model, and the model does not describe the
  C++ there (`map::insert` keeps only the left operand's transitions of a shared source state).
* **Numbering of `Union` and `Intersection`.**  The models fix one numbering (order of first occurrence / order of
  discovery); the C++ numbers in the iteration order of its hash containers.  That the real translation maps are
  injective with disjoint images (resp. injective on the explored pairs) is a hypothesis of `C10_unionWith_exact` and
  `C10_product_certificate`, not derived from a model of the container iteration (the driver checks it on the reported
  maps).
* **`GetCandidateTree`.**  The model scans the start states in list order (the C++ scans a hash set), so which final
  state is found first may differ; the two guarantees of `C10_witness` hold for the model whatever the order of the
  list, but "the model returns the same automaton as the code" is not claimed.
* Load / dump of word automata abstracts the dictionaries to a pair of functions with `g ∘ f = id` on the names, and the
  process-wide symbol alphabet to the protocol numbers of the check (`C10_start_dump_load`).
* The totality bounds of the reference checkers are exponential worst-case bounds, not tight.  `nfaIntersection` is total
  only in the form "the fuel `(nfaJointAll A B).length` suffices".
-/
end Vata.Props
