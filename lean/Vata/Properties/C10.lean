import Vata.Nfa
import Vata.NfaEmbed
import Vata.NfaOps
import Vata.Proofs.NfaOps
/-!
# C10 – Finite-automata union, intersection, reversal, trimming, witness are exact

> For nondeterministic finite word automata, Union and UnionDisjointStates accept exactly the union of the operand
> languages, Intersection exactly their intersection, and Reverse exactly the mirror images of the accepted words.
> RemoveUnreachableStates and RemoveUselessStates keep the language, and GetCandidateTree returns an automaton whose
> language is a subset of the original that is empty only if the original language is empty.

## How the statement is read into the model

* **Specification (L0).**  `Vata.W.NFA` and `acceptsW N w` (`Vata/Nfa.lean`): `w` labels a path from a start state to a
  final state (`acceptsW_iff`, `Path` in `Vata/Proofs/NfaOps.lean`; restated as `C09_accepts_iff_path`).  The language
  statements are pointwise Boolean equations: `acceptsW U w = (acceptsW A w || acceptsW B w)` is "`U` accepts exactly
  the union", `… && …` the intersection, `acceptsW R w = acceptsW N w.reverse` "exactly the mirror images".
  `NfaReach N q` / `NfaCoReach N q` (`Vata/Proofs/NfaOps.lean`) are "`q` is reachable from a start state" / "a final
  state is reachable from `q`".
* **Model of the code** (`Vata/NfaOps.lean`, executable, compared with the real C++ by the correspondence check):
  `nfaUnion` / `nfaUnionWith fA fB` (`Union`: both operands reindexed into one result), `nfaMap` (`ReindexStates`),
  `nfaUnionDisjoint` (`UnionDisjointStates`: componentwise union), `nfaIsect` / `nfaIntersection` (`Intersection`:
  product on the pairs reachable from the pairs of start states, numbered in order of discovery, followed by
  `RemoveUselessStates`), `nfaProdOn` (the product on a given set of pairs with a given numbering), `nfaReverse`
  (`Reverse`, defined in `Vata/NfaEmbed.lean`), `nfaRemoveUnreachable`, `nfaRemoveUseless` (as coded: unreachable –
  reverse – unreachable – reverse), `nfaCandidate` (`GetCandidateTree`: breadth-first search for the first final state,
  then `RemoveUselessStates`).  The start symbols of the C++ (a set of symbols attached to each start state) are not part
  of the model.
* **Reference (oracle of the check).**  `isUnionW`, `isIsectW`, `equivW`, `emptyW` (`Vata/NfaEmbed.lean`) decide the
  language equations above for the automata the real code returned; `C10_reference_checkers_exact` says that each of
  their verdicts is the truth.
-/
namespace Vata.Props
open Vata Vata.W

/-! ### Union -/

/-- the model of `Union` accepts exactly the union of the operand languages (no hypothesis: the model numbers the
states of `A` by `0 … |A|-1` and those of `B` by `|A| … |A|+|B|-1`, which is injective with disjoint images) -/
theorem C10_union_exact (A B : NFA) (w : List Nat) :
    acceptsW (nfaUnion A B) w = (acceptsW A w || acceptsW B w) := nfaUnion_lang A B w

-- overlapping state numbers; the first operand accepts the empty word
example : nfaUnion ⟨[0], [0], [(0, 5, 0)]⟩ ⟨[0, 1], [1], [(0, 7, 1)]⟩ =
    ⟨[0, 1, 2], [0, 2], [(0, 5, 0), (1, 7, 2)]⟩ := rfl
example : acceptsW (nfaUnion ⟨[0], [0], [(0, 5, 0)]⟩ ⟨[0, 1], [1], [(0, 7, 1)]⟩) [5, 7] = false := by decide

/-- `Union` with arbitrary translation maps: exact when each map is injective on the states of its operand and the
two images are disjoint.  All three hypotheses are needed (a map that merges two states, or two images that share a
state, glue paths together and can add words); the code satisfies them by handing out fresh numbers. -/
theorem C10_unionWith_exact (fA fB : Nat → Nat) (A B : NFA) (w : List Nat)
    (hA : NfaInjOn fA (nfaStates A)) (hB : NfaInjOn fB (nfaStates B))
    (hdis : ∀ p, p ∈ nfaStates A → ∀ q, q ∈ nfaStates B → fA p ≠ fB q) :
    acceptsW (nfaUnionWith fA fB A B) w = (acceptsW A w || acceptsW B w) :=
  nfaUnionWith_lang fA fB A B w hA hB hdis

example : NfaInjOn (fun q => 2 * q) (nfaStates ⟨[0], [0], [(0, 5, 0)]⟩) ∧
    NfaInjOn (fun q => 2 * q + 1) (nfaStates ⟨[0, 1], [1], [(0, 7, 1)]⟩) ∧
    ∀ p, p ∈ nfaStates ⟨[0], [0], [(0, 5, 0)]⟩ → ∀ q, q ∈ nfaStates ⟨[0, 1], [1], [(0, 7, 1)]⟩ →
      (fun q => 2 * q) p ≠ (fun q => 2 * q + 1) q :=
  ⟨fun _ _ _ _ h => by dsimp only at h; omega, fun _ _ _ _ h => by dsimp only at h; omega,
    fun _ _ _ _ => by dsimp only; omega⟩
-- without disjoint images the union is too big: both operands mapped by the identity, `[5, 7]` is accepted
example : acceptsW (nfaUnionWith id id ⟨[0], [0], [(0, 5, 0)]⟩ ⟨[0, 1], [1], [(0, 7, 1)]⟩) [5, 7] = true ∧
    (acceptsW ⟨[0], [0], [(0, 5, 0)]⟩ [5, 7] || acceptsW ⟨[0, 1], [1], [(0, 7, 1)]⟩ [5, 7]) = false := by decide

/-- the model of `ReindexStates` keeps the language when the map is injective on the states of the automaton; without
injectivity the language can only grow -/
theorem C10_reindex_exact (f : Nat → Nat) (N : NFA) (w : List Nat) :
    (NfaInjOn f (nfaStates N) → acceptsW (nfaMap f N) w = acceptsW N w) ∧
    (acceptsW N w = true → acceptsW (nfaMap f N) w = true) :=
  ⟨nfaMap_inj_lang f N w, nfaMap_lang_ge f N w⟩

example : NfaInjOn (fun q => q + 10) (nfaStates ⟨[0, 1], [1], [(0, 7, 1)]⟩) := fun _ _ _ _ h => Nat.add_right_cancel h
-- a map that merges the two states adds the empty word
example : acceptsW (nfaMap (fun _ => 0) ⟨[0], [1], [(0, 7, 1)]⟩) [] = true ∧
    acceptsW ⟨[0], [1], [(0, 7, 1)]⟩ [] = false := by decide

/-! ### UnionDisjointStates -/

/-- the model of `UnionDisjointStates` accepts exactly the union **when the operands have no state in common**.  The
hypothesis is the precondition of the C++ function (it is what the name says; an `assert` guards it); without it only
`⊇` holds: the componentwise union can accept more (second example) -/
theorem C10_unionDisjoint_exact (A B : NFA) (w : List Nat) :
    ((∀ q, q ∈ nfaStates A → q ∈ nfaStates B → False) →
      acceptsW (nfaUnionDisjoint A B) w = (acceptsW A w || acceptsW B w)) ∧
    ((acceptsW A w || acceptsW B w) = true → acceptsW (nfaUnionDisjoint A B) w = true) :=
  ⟨nfaUnionDisjoint_lang A B w, nfaUnionDisjoint_lang_ge A B w⟩

example : ∀ q, q ∈ nfaStates ⟨[0], [0], [(0, 5, 0)]⟩ → q ∈ nfaStates ⟨[1, 2], [2], [(1, 7, 2)]⟩ → False := by decide
example : acceptsW (nfaUnionDisjoint ⟨[0], [0], [(0, 5, 0)]⟩ ⟨[0, 1], [1], [(0, 7, 1)]⟩) [5, 7] = true ∧
    (acceptsW ⟨[0], [0], [(0, 5, 0)]⟩ [5, 7] || acceptsW ⟨[0, 1], [1], [(0, 7, 1)]⟩ [5, 7]) = false := by decide

/-! ### Intersection -/

/-- the model of `Intersection` accepts exactly the intersection: `nfaIsect` (which runs the pair exploration long
enough) unconditionally, and `nfaIntersection` for every fuel with which it returns a result; the number of rounds
used by `nfaIsect` always suffices -/
theorem C10_intersection_exact (A B : NFA) :
    (∀ w, acceptsW (nfaIsect A B) w = (acceptsW A w && acceptsW B w)) ∧
    (∀ fuel P, nfaIntersection A B fuel = some P → ∀ w, acceptsW P w = (acceptsW A w && acceptsW B w)) ∧
    (∃ P, nfaIntersection A B (nfaJointAll A B).length = some P) :=
  ⟨nfaIsect_lang A B, fun fuel P h w => nfaIntersection_lang A B fuel P h w, nfaIntersection_isSome A B⟩

-- both operands accept the empty word; of the two pairs of start states only (0,0) is useful ((1,0) leads nowhere);
-- in the explored pair (2,0) only the second component is a start state, so it is not a start state of the product
example : nfaIsect ⟨[0, 1], [0, 2], [(0, 5, 2), (2, 5, 2)]⟩ ⟨[0], [0], [(0, 5, 0), (0, 6, 0)]⟩ =
    ⟨[0], [0, 2], [(0, 5, 2), (2, 5, 2)]⟩ := rfl
example : nfaIntersection ⟨[0, 1], [0, 2], [(0, 5, 2), (2, 5, 2)]⟩ ⟨[0], [0], [(0, 5, 0), (0, 6, 0)]⟩ 0 = none := by
  decide

/-- the product certificate: for *any* set `D` of pairs that contains the pairs of start states and is closed under
joint successors, and *any* numbering `m` that is injective on `D`, the product automaton on `D` accepts exactly the
intersection.  This is the invariant of the product construction independent of the exploration order and of the
concrete numbering (the C++ numbers product states in the iteration order of its containers); the Boolean form
`nfaProdCertB` is what can be run on a dumped translation map.  Injectivity is needed: a numbering that merges two
pairs glues their paths. -/
theorem C10_product_certificate (A B : NFA) (D : List (Nat × Nat)) (m : Nat × Nat → Nat) :
    ((∀ p, p ∈ nfaStartPairs A B → p ∈ D) → NfaPairClosed A B D → NfaPairInjOn m D →
      ∀ w, acceptsW (nfaProdOn A B D m) w = (acceptsW A w && acceptsW B w)) ∧
    (nfaProdCertB A B D m = true → ∀ w, acceptsW (nfaProdOn A B D m) w = (acceptsW A w && acceptsW B w)) :=
  ⟨fun hs hc hi w => nfaProd_cert A B D m w hs hc hi, fun h w => nfaProdCertB_lang h w⟩

example : (∀ p, p ∈ nfaStartPairs ⟨[0, 1], [0, 2], [(0, 5, 2), (2, 5, 2)]⟩ ⟨[0], [0], [(0, 5, 0), (0, 6, 0)]⟩ →
      p ∈ [(0, 0), (1, 0), (2, 0)]) ∧
    NfaPairClosed ⟨[0, 1], [0, 2], [(0, 5, 2), (2, 5, 2)]⟩ ⟨[0], [0], [(0, 5, 0), (0, 6, 0)]⟩ [(0, 0), (1, 0), (2, 0)] ∧
    NfaPairInjOn (fun p => 3 * p.1 + p.2) [(0, 0), (1, 0), (2, 0)] :=
  nfaProdCertB_sound (by decide)
-- a set of pairs that is not closed is refused
example : nfaProdCertB ⟨[0, 1], [0, 2], [(0, 5, 2), (2, 5, 2)]⟩ ⟨[0], [0], [(0, 5, 0), (0, 6, 0)]⟩ [(0, 0), (1, 0)]
    (fun p => 3 * p.1 + p.2) = false := by decide

/-! ### Reverse -/

/-- the model of `Reverse` (edges reversed, start and final states swapped) accepts exactly the mirror images -/
theorem C10_reverse_exact (N : NFA) (w : List Nat) : acceptsW (nfaReverse N) w = acceptsW N w.reverse :=
  nfaReverse_lang N w

example : nfaReverse ⟨[0, 3], [2, 3], [(0, 5, 1), (1, 6, 2)]⟩ = ⟨[2, 3], [0, 3], [(1, 5, 0), (2, 6, 1)]⟩ := rfl
example : acceptsW (nfaReverse ⟨[0, 3], [2, 3], [(0, 5, 1), (1, 6, 2)]⟩) [6, 5] = true ∧
    acceptsW ⟨[0, 3], [2, 3], [(0, 5, 1), (1, 6, 2)]⟩ [6, 5] = false := by decide

/-! ### RemoveUnreachableStates, RemoveUselessStates -/

/-- both trimming operations keep the language -/
theorem C10_trimming_preserves (N : NFA) (w : List Nat) :
    acceptsW (nfaRemoveUnreachable N) w = acceptsW N w ∧ acceptsW (nfaRemoveUseless N) w = acceptsW N w :=
  ⟨nfaRemoveUnreachable_lang N w, nfaRemoveUseless_lang N w⟩

-- state 3 is dead (reachable, no way to a final state), state 4 unreachable, start state 2 leads only to 3
example : nfaRemoveUnreachable ⟨[0, 2], [0, 1, 4], [(0, 0, 1), (1, 1, 1), (2, 0, 3), (4, 0, 1)]⟩ =
    ⟨[0, 2], [0, 1], [(0, 0, 1), (1, 1, 1), (2, 0, 3)]⟩ := rfl
example : nfaRemoveUseless ⟨[0, 2], [0, 1, 4], [(0, 0, 1), (1, 1, 1), (2, 0, 3), (4, 0, 1)]⟩ =
    ⟨[0], [0, 1], [(0, 0, 1), (1, 1, 1)]⟩ := rfl

/-- what `RemoveUnreachableStates` keeps: all start states, exactly the final states that are reachable and exactly
the transitions whose source is reachable; the search reaches exactly the reachable states -/
theorem C10_removeUnreachable_post (N : NFA) :
    (nfaRemoveUnreachable N).start = N.start ∧
    (∀ q, q ∈ (nfaRemoveUnreachable N).final ↔ q ∈ N.final ∧ NfaReach N q) ∧
    (∀ e, e ∈ (nfaRemoveUnreachable N).trans ↔ e ∈ N.trans ∧ NfaReach N e.1) ∧
    (∀ q, q ∈ nfaReachable N ↔ NfaReach N q) :=
  ⟨nfaRemoveUnreachable_start N, mem_nfaRemoveUnreachable_final N, mem_nfaRemoveUnreachable_trans N,
    mem_nfaReachable_iff N⟩

example : nfaReachable ⟨[0, 2], [0, 1, 4], [(0, 0, 1), (1, 1, 1), (2, 0, 3), (4, 0, 1)]⟩ = [0, 2, 1, 3] := by decide

/-- what `RemoveUselessStates` keeps: exactly the transitions from a reachable state to a state from which a final
state is reachable, the start states from which a final state is reachable, the reachable final states -/
theorem C10_removeUseless_post (N : NFA) :
    (∀ p a q, (p, a, q) ∈ (nfaRemoveUseless N).trans ↔ (p, a, q) ∈ N.trans ∧ NfaReach N p ∧ NfaCoReach N q) ∧
    (∀ s, s ∈ (nfaRemoveUseless N).start ↔ s ∈ N.start ∧ NfaCoReach N s) ∧
    (∀ f, f ∈ (nfaRemoveUseless N).final ↔ f ∈ N.final ∧ NfaReach N f) :=
  ⟨mem_nfaRemoveUseless_trans N, mem_nfaRemoveUseless_start N, mem_nfaRemoveUseless_final N⟩

example : (nfaRemoveUseless ⟨[0, 2], [0, 1, 4], [(0, 0, 1), (1, 1, 1), (2, 0, 3), (4, 0, 1)]⟩).start = [0] := by decide

/-- the result of `RemoveUselessStates` is trim: every state that occurs in it is useful in the original automaton
and, which is stronger, in the result itself -/
theorem C10_removeUseless_trim (N : NFA) (q : Nat) (hq : q ∈ nfaStates (nfaRemoveUseless N)) :
    (NfaReach N q ∧ NfaCoReach N q) ∧ (NfaReach (nfaRemoveUseless N) q ∧ NfaCoReach (nfaRemoveUseless N) q) :=
  ⟨nfaRemoveUseless_states_useful N q hq, nfaRemoveUseless_trim N q hq⟩

example : 1 ∈ nfaStates (nfaRemoveUseless ⟨[0, 2], [0, 1, 4], [(0, 0, 1), (1, 1, 1), (2, 0, 3), (4, 0, 1)]⟩) := by
  decide

/-! ### GetCandidateTree (witness) -/

/-- the model of `GetCandidateTree`: its language is a subset of the original language, and it is non-empty exactly
when the original language is non-empty -/
theorem C10_witness (N : NFA) :
    (∀ w, acceptsW (nfaCandidate N) w = true → acceptsW N w = true) ∧
    ((∃ w, acceptsW (nfaCandidate N) w = true) ↔ ∃ w, acceptsW N w = true) :=
  ⟨nfaCandidate_sub_lang N, nfaCandidate_nonempty_iff N⟩

-- no start state is final, the first final state found is 2 (via the second start state)
example : nfaCandidate ⟨[0, 1], [2, 4], [(0, 5, 3), (1, 6, 2), (3, 5, 4), (2, 5, 2)]⟩ = ⟨[1], [2], [(1, 6, 2)]⟩ := rfl
-- a start state is final: the witness accepts the empty word only
example : nfaCandidate ⟨[0, 1], [1, 2], [(0, 5, 2)]⟩ = ⟨[1], [1], []⟩ := rfl

/-- … in the words of the statement: the witness is empty only if the original language is empty -/
theorem C10_witness_empty_only_if_empty (N : NFA) (h : ∀ w, acceptsW (nfaCandidate N) w = false) (w : List Nat) :
    acceptsW N w = false := by
  cases hw : acceptsW N w
  · rfl
  · obtain ⟨v, hv⟩ := (nfaCandidate_nonempty_iff N).mpr ⟨w, hw⟩
    rw [h v] at hv; cases hv

-- an automaton with an empty language: the only final state is unreachable
example : nfaCandidate ⟨[0], [2], [(0, 5, 1), (2, 5, 2)]⟩ = ⟨[], [], []⟩ := rfl

/-- the test the driver applies to the results of trimming and witness: a sub-automaton (start states, final states
and transitions all taken from `N`) accepts a subset of the language; `nfaSubB` is its Boolean form -/
theorem C10_subautomaton_sublanguage (R N : NFA) (w : List Nat) :
    ((∀ q, q ∈ R.start → q ∈ N.start) → (∀ q, q ∈ R.final → q ∈ N.final) → (∀ e, e ∈ R.trans → e ∈ N.trans) →
      acceptsW R w = true → acceptsW N w = true) ∧
    (nfaSubB R N = true → acceptsW R w = true → acceptsW N w = true) :=
  ⟨sub_nfa_sub_lang R N w, fun h => nfaSubB_lang h w⟩

example : nfaSubB ⟨[1], [2], [(1, 6, 2)]⟩ ⟨[0, 1], [2, 4], [(0, 5, 3), (1, 6, 2), (3, 5, 4), (2, 5, 2)]⟩ = true := by
  decide

/-! ### the checkers applied to the automata returned by the real code -/

/-- every verdict of the four reference checkers (is-union, is-intersection, language equivalence, emptiness) is
exact -/
theorem C10_reference_checkers_exact :
    (∀ U A B fuel b, isUnionW U A B fuel = some b →
      (b = true ↔ ∀ w, acceptsW U w = (acceptsW A w || acceptsW B w))) ∧
    (∀ P A B fuel b, isIsectW P A B fuel = some b →
      (b = true ↔ ∀ w, acceptsW P w = (acceptsW A w && acceptsW B w))) ∧
    (∀ A B fuel b, equivW A B fuel = some b → (b = true ↔ ∀ w, acceptsW A w = acceptsW B w)) ∧
    (∀ A fuel b, emptyW A fuel = some b → (b = true ↔ ∀ w, acceptsW A w = false)) :=
  ⟨isUnionW_iff, isIsectW_iff, equivW_iff, emptyW_iff⟩

example : isUnionW ⟨[0, 1, 2], [0, 2], [(0, 5, 0), (1, 7, 2)]⟩ ⟨[0], [0], [(0, 5, 0)]⟩ ⟨[0, 1], [1], [(0, 7, 1)]⟩ 10 =
    some true := by decide
example : isUnionW ⟨[0, 1], [0, 1], [(0, 5, 0), (0, 7, 1)]⟩ ⟨[0], [0], [(0, 5, 0)]⟩ ⟨[0, 1], [1], [(0, 7, 1)]⟩ 10 =
    some false := by decide
example : isIsectW ⟨[0], [0, 2], [(0, 5, 2), (2, 5, 2)]⟩ ⟨[0, 1], [0, 2], [(0, 5, 2), (2, 5, 2)]⟩
    ⟨[0], [0], [(0, 5, 0), (0, 6, 0)]⟩ 10 = some true := by decide
example : equivW ⟨[0, 2], [0, 1, 4], [(0, 0, 1), (1, 1, 1), (2, 0, 3), (4, 0, 1)]⟩
    ⟨[0], [0, 1], [(0, 0, 1), (1, 1, 1)]⟩ 10 = some true := by decide
example : emptyW ⟨[0], [2], [(0, 5, 1), (2, 5, 2)]⟩ 10 = some true ∧
    emptyW ⟨[0, 1], [2, 4], [(0, 5, 3), (1, 6, 2), (3, 5, 4), (2, 5, 2)]⟩ 10 = some false := by decide

/-!
## not yet proved

* **Start symbols.**  The C++ attaches a set of start symbols to every start state (`startStateToSymbols_`, the
  nullary Timbuk rules); they are not part of the model `Vata.W.NFA`, so nothing is proved about how the operations
  treat them.
* **`UnionDisjointStates` outside its precondition.**  `C10_unionDisjoint_exact` needs the operands to be
  state-disjoint; for operands that share a state only `⊇` is proved for the model, and the model does not describe the
  C++ there (`map::insert` keeps only the left operand's transitions of a shared source state).
* **Numbering of `Union` and `Intersection`.**  The models fix one numbering (order of first occurrence / order of
  discovery); the C++ numbers in the iteration order of its hash containers.  That the real translation maps are
  injective with disjoint images (resp. injective on the explored pairs) is a hypothesis of `C10_unionWith_exact` and
  `C10_product_certificate`, not derived from a model of the container iteration.
* **`GetCandidateTree`.**  The model scans the start states in list order (the C++ scans a hash set), so which final
  state is found first may differ; the two guarantees of `C10_witness` hold for the model whatever the order of the
  list, but "the model returns the same automaton as the code" is not claimed.
* The reference checkers `isUnionW`, `isIsectW`, `equivW`, `emptyW` are total above the explicit bounds `fuelBoundW […]`
  (`C10_reference_total` in `Vata/Properties/RefTotal.lean`; exponential worst-case bounds, not tight).
  `nfaIntersection` is total only in the form "the fuel `(nfaJointAll A B).length` suffices".
-/
end Vata.Props
