import Vata.Proofs.NfaInclSimACInv
import Vata.Proofs.NfaInclSimACTotal
import Vata.Properties.C09_Sim
/-!
# C09 – `ANTICHAINS_SIM`: the UNCHECKED run is exact and terminates

Property C09: *"`CheckInclusion` on finite (word) automata answers `L(smaller) ⊆ L(bigger)` for every implemented selection
of `InclParam`"*.  `Vata/Properties/C09_Sim.lean` proves the row `ANTICHAINS_SIM` exact for the certify-then-trust model
`nfaInclACSim` only and lists as open: that the certificate check passes on every finished run, that the exploration terminates,
and that the unchecked verdict `nfaInclACSimRaw` – what the C++ returns – is exact.  This file serves that item.

## How the C++ is read into the model

Nothing new is modelled: `NfaIncl.runACSim` of `Vata/NfaInclSim.lean` (§2 of its header quotes the mirrored lines of
`src/explicit_finite_incl_fctor_cache.hh`, `src/antichain2c_v2.hh`, `src/comparators.hh`): `Init`, the main loop with one
unit of fuel per picked pair, `MakePost` with the `checkSmallerInBigger` skip, `AddNewPairToAntichain` / `AddToNext` with the
candidate lists read from `singleAntichain_` (candidates computed BEFORE the state is added for `antichain_`, AFTER for `next_`).
`nfaInclACSimRaw` maps the end of that run to the Boolean the C++ returns; `nfaInclACSim` adds the two final checks.

## What is proved (`Vata/Proofs/NfaInclSimACInv.lean`, `Vata/Proofs/NfaInclSimACTotal.lean`)

* The loop invariant `NfaIncl.InvS`: `singleAntichain_` contains the state of every stored pair (so the candidate lists are
  transparent: `contains` = "covered modulo `R`", `NfaIncl.containsSim_iff`), `next_ ⊆ antichain_`, every stored pair is pending or
  has each successor skipped by `checkSmallerInBigger` or covered modulo `R`, no stored pair is bad, stored pairs live on the
  states of the operands.  Covered pairs stay covered because an erased pair is covered by the inserted one (transitivity); the
  inserted pair covers itself (reflexivity).
* Hence a finished `true` run passes `nfaUpCertSimB`, a finished `false` run passes the word check (for every relation), the two
  models agree, and the raw verdict is exact for a simulation preorder on the disjoint union of state-disjoint operands.
* Termination within `fuelBoundAC A B` picked pairs: the number of pairs (state of `A`, set of states of `B`) not covered
  modulo `R` drops with every inserted pair.

Abstracted: as in `Vata/NfaInclSim.lean` (macro-states compared by value, the memo `subsetMap_` / `subsetNotMap_` and the
macro-state cache not modelled, hash iteration orders are list orders, a relation is a list of pairs).

Entry points for a comparison with the library: `nfaInclACSimRaw : NFA → NFA → Rel → Nat → Option Bool` (fuel
`fuelBoundAC A B + 1` suffices for a reflexive transitive relation) and `C09Sel.modelRaw` for a row of the table.
-/
namespace Vata.Props
open Vata Vata.W Vata.NfaIncl

/-! ### 1. every finished run is certified; the raw verdict is exact -/

/-- **what stands behind the verdict of `ANTICHAINS_SIM`.**  A `return false` of the exploration at the word `w` means `A`
accepts `w` and `B` does not – for EVERY relation and all operands.  A `return true` leaves an `antichain_` that passes the
certificate check `nfaUpCertSimB` (start states covered modulo `R`, every successor skipped by `checkSmallerInBigger` or covered
modulo `R`, no bad pair) when the operands are state-disjoint and `R` is reflexive on the states of `A ⊎ B` and transitive
(that `R` is a simulation is not used here) -/
theorem C09_antichain_sim_run_certified (A B : NFA) (R : Rel) (fuel : Nat) :
    (∀ w, runACSim A B R fuel = some (.error w) → acceptsW A w = true ∧ acceptsW B w = false) ∧
    ((∀ q, q ∈ nfaStates A → q ∈ nfaStates B → False) →
      (∀ q, q ∈ nfaStates (nfaUnionDisjoint A B) → (q, q) ∈ R) → (∀ p q r, (p, q) ∈ R → (q, r) ∈ R → (p, r) ∈ R) →
      ∀ P, runACSim A B R fuel = some (.ok P) → nfaUpCertSimB A B R (P.map (fun i => (i.q, i.S))) = true) :=
  ⟨fun _ h => runACSim_error_ok h, fun hdis hrefl ht _ h => runACSim_ok_cert hdis hrefl ht h⟩

/-- **the final checks never fail**: for state-disjoint operands and `R` a simulation preorder on their disjoint union the
certify-then-trust model IS the unchecked model, for every fuel (`none` only when the fuel runs out) -/
theorem C09_antichain_sim_raw_eq_checked (A B : NFA) (R : Rel)
    (hdis : ∀ q, q ∈ nfaStates A → q ∈ nfaStates B → False)
    (hR : isNfaSimPreB (nfaUnionDisjoint A B) R = true) (fuel : Nat) :
    nfaInclACSim A B R fuel = nfaInclACSimRaw A B R fuel := by
  obtain ⟨_, h2, h3⟩ := isNfaSimPreB_iff.mp hR
  exact nfaInclACSimRaw_eq hdis h2 h3 fuel

/-- **`ANTICHAINS_SIM`, the verdict the C++ returns is exact**: if the operands are state-disjoint and `R` is a simulation
preorder on their disjoint union, every verdict of the exploration alone (`nfaInclACSimRaw`, no certificate check) is the truth
of `L(A) ⊆ L(B)` -/
theorem C09_antichain_sim_raw_exact (A B : NFA) (R : Rel) (hdis : ∀ q, q ∈ nfaStates A → q ∈ nfaStates B → False)
    (hR : isNfaSimPreB (nfaUnionDisjoint A B) R = true) (fuel : Nat) (b : Bool)
    (h : nfaInclACSimRaw A B R fuel = some b) : b = true ↔ InclW A B :=
  nfaInclACSimRaw_iff hdis (isNfaSimPreB_iff.mp hR) h

/-! ### 2. termination -/

/-- the exploration ends within `fuelBoundAC A B = 2 · (|I_A| + |Δ_A|) · 2^(|I_B| + |Δ_B|)` picked pairs for every relation
that is reflexive on the states of `A ⊎ B` and transitive (no simulation, no disjointness needed) -/
theorem C09_antichain_sim_terminates (A B : NFA) (R : Rel)
    (hrefl : ∀ q, q ∈ nfaStates (nfaUnionDisjoint A B) → (q, q) ∈ R)
    (ht : ∀ p q r, (p, q) ∈ R → (q, r) ∈ R → (p, r) ∈ R) (fuel : Nat) (hf : fuelBoundAC A B < fuel) :
    ∃ b, nfaInclACSimRaw A B R fuel = some b :=
  nfaInclACSimRaw_total hrefl ht hf

/-- **totality of `ANTICHAINS_SIM`**: above the explicit bound `fuelBoundAC A B` both models – the unchecked one and the
certify-then-trust one – return the right verdict, in both polarities (state-disjoint operands, `R` a simulation preorder on
`A ⊎ B`) -/
theorem C09_antichain_sim_total (A B : NFA) (R : Rel) (hdis : ∀ q, q ∈ nfaStates A → q ∈ nfaStates B → False)
    (hR : isNfaSimPreB (nfaUnionDisjoint A B) R = true) (fuel : Nat) (hf : fuelBoundAC A B < fuel) :
    (InclW A B → nfaInclACSimRaw A B R fuel = some true ∧ nfaInclACSim A B R fuel = some true) ∧
    (¬ InclW A B → nfaInclACSimRaw A B R fuel = some false ∧ nfaInclACSim A B R fuel = some false) := by
  have hR' := isNfaSimPreB_iff.mp hR
  have h1 := nfaInclACSimRaw_complete hdis hR' hf
  have h2 := nfaInclACSim_complete hdis hR' hf
  exact ⟨fun hi => ⟨h1.1 hi, h2.1 hi⟩, fun hi => ⟨h1.2 hi, h2.2 hi⟩⟩

/-! ### 3. the hypotheses cannot be dropped -/

namespace C09SimTotalEx
open C09SimEx
/-- `L = {aa}`; the state `5` is shared with `ovB` -/
def ovA : NFA := ⟨[0], [1], [(0, 0, 5), (5, 0, 1)]⟩
/-- `L = ∅` -/
def ovB : NFA := ⟨[3], [], [(3, 0, 5)]⟩
def rId : Rel := [(0, 0), (1, 1), (3, 3), (5, 5)]
def eA : NFA := ⟨[0], [], []⟩
def eB : NFA := ⟨[1], [], []⟩
def tA : NFA := ⟨[1, 2], [], [(1, 0, 3), (2, 0, 4), (4, 0, 4)]⟩
def tB : NFA := ⟨[9], [9], [(9, 0, 9)]⟩
/-- reflexive, a simulation on `tA ⊎ tB`, not transitive: `3 R 2`, `2 R 4` but not `3 R 4` -/
def rNT : Rel := [(1, 1), (2, 2), (3, 3), (4, 4), (9, 9), (3, 2), (2, 4)]
end C09SimTotalEx
open C09SimEx C09SimTotalEx

/-- **state-disjointness cannot be dropped** (neither here nor in `C09_antichain_sim_exact`, whose header lists this as
missing): the operands share the state `5`, the identity is a simulation preorder on the union of the transition sets, the
successor `(5, {5})` is skipped by `checkSmallerInBigger`, both models answer `true` – but `aa ∈ L(A) \ L(B)` -/
theorem C09_antichain_sim_needs_disjoint :
    isNfaSimPreB (nfaUnionDisjoint ovA ovB) rId = true ∧
    nfaInclACSimRaw ovA ovB rId 50 = some true ∧ nfaInclACSim ovA ovB rId 50 = some true ∧
    acceptsW ovA [0, 0] = true ∧ acceptsW ovB [0, 0] = false := by decide +kernel

/-- **reflexivity cannot be dropped for termination**: the empty relation is a transitive simulation; with it nothing is ever
covered, every successor is inserted again and the exploration of `a* ⊆ (a|b)*` has not ended above the bound -/
theorem C09_antichain_sim_termination_needs_reflexive :
    isNfaSimB (nfaUnionDisjoint a1 ab1) [] = true ∧ fuelBoundAC a1 ab1 = 32 ∧
    nfaInclACSimRaw a1 ab1 [] 33 = none ∧ nfaInclACSimRaw a1 ab1 [] 200 = none := by decide +kernel

/-- **reflexivity cannot be dropped for the agreement of the two models**: with the empty relation the run on two automata
without transitions ends with `true`, and the certificate check (start state covered modulo `R`) fails -/
theorem C09_antichain_sim_check_needs_reflexive :
    nfaInclACSimRaw eA eB [] 5 = some true ∧ nfaInclACSim eA eB [] 5 = none := by decide +kernel

/-- **transitivity cannot be dropped for the agreement of the two models**: `rNT` is reflexive and a simulation on the disjoint
union; the successor `3` of `1` is covered by the pair of `2` (`3 R 2`), that pair is later erased by the pair of `4` (`2 R 4`),
and `3` is not below `4`: the run returns `true` (rightly) with an antichain that fails the check -/
theorem C09_antichain_sim_check_needs_transitive :
    isNfaSimB (nfaUnionDisjoint tA tB) rNT = true ∧
    (nfaStates (nfaUnionDisjoint tA tB)).all (fun q => relGet rNT q q) = true ∧
    isNfaSimPreB (nfaUnionDisjoint tA tB) rNT = false ∧
    nfaInclACSimRaw tA tB rNT 50 = some true ∧ nfaInclACSim tA tB rNT 50 = none := by decide +kernel

-- non-vacuity of `C09_antichain_sim_raw_exact` / `C09_antichain_sim_total`: disjoint operands, a simulation preorder, fuel above
-- the bound, verdicts `true` and `false`
example : (∀ q, q ∈ nfaStates a1 → q ∈ nfaStates ab1 → False) ∧
    isNfaSimPreB (nfaUnionDisjoint a1 ab1) rStar = true ∧ fuelBoundAC a1 ab1 < 33 ∧
    nfaInclACSimRaw a1 ab1 rStar 33 = some true := by
  refine ⟨by decide, by decide +kernel, by decide +kernel, by decide +kernel⟩
example : (∀ q, q ∈ nfaStates ab1 → q ∈ nfaStates a1 → False) ∧
    isNfaSimPreB (nfaUnionDisjoint ab1 a1) rStar = true ∧ fuelBoundAC ab1 a1 < 25 ∧
    nfaInclACSimRaw ab1 a1 rStar 25 = some false := by
  refine ⟨by decide, by decide +kernel, by decide +kernel, by decide +kernel⟩
example : (∀ q, q ∈ nfaStates aab → q ∈ nfaStates aplus → False) ∧
    isNfaSimPreB (nfaUnionDisjoint aab aplus) rAAB = true ∧ fuelBoundAC aab aplus < 97 ∧
    nfaInclACSimRaw aab aplus rAAB 97 = some false := by
  refine ⟨by decide, by decide +kernel, by decide +kernel, by decide +kernel⟩
/-- the theorems applied: `a* ⊆ (a|b)*` is answered `true` by the unchecked run, by totality and exactness, not by evaluation -/
example : nfaInclACSimRaw a1 ab1 rStar 33 = some true ∧ nfaInclACSim a1 ab1 rStar 33 = some true :=
  (C09_antichain_sim_total a1 ab1 rStar (by decide) (by decide +kernel) 33 (by decide +kernel)).1
    ((C09_antichain_sim_exact a1 ab1 rStar (by decide) (by decide +kernel) 20 true (by decide +kernel)).mp rfl)
/-- the final antichain of a finished run passes the check, by the invariant -/
example : ∃ P, runACSim aplus aplus [(4, 4), (5, 5), (4, 5)] 20 = some (.ok P) ∧
    nfaUpCertSimB aplus aplus [(4, 4), (5, 5), (4, 5)] (P.map (fun i => (i.q, i.S))) = true := by
  refine ⟨_, rfl, ?_⟩
  decide +kernel

/-! ### 4. all seven rows, unchecked models for the two rows with a simulation -/

/-- the model of the row with option word `word` where the two rows with a simulation (16 `ANTICHAINS_SIM`, 17 `CONGR_DEPTH_SIM`)
return the verdict of the exploration WITHOUT the final certificate check – what the C++ returns; the other rows as in
`C09Sel.model` (`ANTICHAINS_NOSIM` and the two `CONGR_*_NOSIM` rows are certify-then-trust models whose check is proved never to
fail: `checkNfaInclAC_total`, `checkNfaInclCongr_total`; the EQUIV rows have no check) -/
def C09Sel.modelRaw (word : Nat) (A B : NFA) (R : Rel) (fuel : Nat) : Option Bool :=
  if word = 16 then nfaInclACSimRaw A B R fuel
  else if word = 17 then nfaInclCongrSimRaw A B R fuel
  else C09Sel.model word A B R fuel

/-- the fuel bound of a row of the table (picked pairs) -/
def C09Sel.boundRaw (word : Nat) (A B : NFA) : Nat :=
  if word = 16 then fuelBoundAC A B
  else if word = 17 then fuelBoundCongr A B
  else C09Sel.bound word A B

/-- **every implemented selection is exact, unchecked models.**  For every row `c` of the regenerated dispatch table
`Vata.Gen.faDispatch` every verdict of `C09Sel.modelRaw` is the truth of `L(A) ⊆ L(B)`.  Hypotheses: none for the five rows
without a simulation (the dispatcher sanitises); for `ANTICHAINS_SIM` (word 16) the operands must be state-disjoint and `R` a
simulation preorder on their disjoint union; for `CONGR_DEPTH_SIM` (word 17, called with `smaller := A ⊎ B` as the command
line does) the operands must be state-disjoint and `R` a simulation on their disjoint union.  Neither hypothesis can be
dropped: `C09_antichain_sim_needs_simulation`, `C09_antichain_sim_needs_disjoint`, `C09_congr_sim_needs_simulation` -/
theorem C09_every_selection_raw_exact (c : Gen.Case) (hc : c ∈ Gen.faDispatch) (A B : NFA) (R : Rel)
    (hsim16 : c.word = 16 → (∀ q, q ∈ nfaStates A → q ∈ nfaStates B → False) ∧
      isNfaSimPreB (nfaUnionDisjoint A B) R = true)
    (hsim17 : c.word = 17 → (∀ q, q ∈ nfaStates A → q ∈ nfaStates B → False) ∧
      isNfaSimB (nfaUnionDisjoint A B) R = true)
    (fuel : Nat) (b : Bool) (h : C09Sel.modelRaw c.word A B R fuel = some b) : b = true ↔ InclW A B := by
  unfold C09Sel.modelRaw at h
  split at h
  · next h16 => exact C09_antichain_sim_raw_exact A B R (hsim16 h16).1 (hsim16 h16).2 fuel b h
  · next h16 =>
    split at h
    · next h17 => exact C09_congr_sim_exploration_exact A B R (hsim17 h17).1 (hsim17 h17).2 fuel b h
    · exact C09_every_implemented_selection_exact c hc A B R (fun h' => absurd h' h16) fuel b h

/-- **every implemented selection is total, unchecked models**: above the explicit bound of the row the model returns the
right verdict (hypotheses as in `C09_every_selection_raw_exact`) -/
theorem C09_every_selection_raw_total (c : Gen.Case) (hc : c ∈ Gen.faDispatch) (A B : NFA) (R : Rel)
    (hsim16 : c.word = 16 → (∀ q, q ∈ nfaStates A → q ∈ nfaStates B → False) ∧
      isNfaSimPreB (nfaUnionDisjoint A B) R = true)
    (hsim17 : c.word = 17 → (∀ q, q ∈ nfaStates A → q ∈ nfaStates B → False) ∧
      isNfaSimB (nfaUnionDisjoint A B) R = true)
    (fuel : Nat) (hf : C09Sel.boundRaw c.word A B < fuel) :
    (InclW A B → C09Sel.modelRaw c.word A B R fuel = some true) ∧
    (¬ InclW A B → C09Sel.modelRaw c.word A B R fuel = some false) := by
  unfold C09Sel.boundRaw at hf
  unfold C09Sel.modelRaw
  split
  · next h16 =>
    rw [if_pos h16] at hf
    have := C09_antichain_sim_total A B R (hsim16 h16).1 (hsim16 h16).2 fuel hf
    exact ⟨fun hi => (this.1 hi).1, fun hi => (this.2 hi).1⟩
  · next h16 =>
    rw [if_neg h16] at hf
    split
    · next h17 =>
      rw [if_pos h17] at hf
      have := (C09_congr_sim_total A B R fuel hf).2 (hsim17 h17).1 (hsim17 h17).2
      exact ⟨fun hi => (this.1 hi).2, fun hi => (this.2 hi).2⟩
    · next h17 =>
      rw [if_neg h17] at hf
      apply C09_nosim_selections_total c hc ?_ A B R fuel hf
      simp only [Gen.faDispatch, List.mem_cons, List.not_mem_nil, or_false] at hc
      rcases hc with rfl | rfl | rfl | rfl | rfl | rfl | rfl
      · rfl
      · exact absurd rfl h16
      · rfl
      · rfl
      · exact absurd rfl h17
      · rfl
      · rfl

-- non-vacuity for each of the seven rows: `a* ⊆ (a|b)*` is answered `true`, the converse `false`, by the unchecked models
example : ∀ c, c ∈ Gen.faDispatch → C09Sel.modelRaw c.word a1 ab1 rStar 20 = some true ∧
    C09Sel.modelRaw c.word ab1 a1 rStar 20 = some false := by decide +kernel
example : (∀ q, q ∈ nfaStates a1 → q ∈ nfaStates ab1 → False) ∧ isNfaSimPreB (nfaUnionDisjoint a1 ab1) rStar = true ∧
    isNfaSimB (nfaUnionDisjoint a1 ab1) rStar = true := by
  refine ⟨by decide, by decide +kernel, by decide +kernel⟩
example : C09Sel.boundRaw 16 a1 ab1 = 32 ∧ C09Sel.boundRaw 17 a1 ab1 < 20 := by decide +kernel

/-!
## still not proved

* **Transitivity and the raw verdict.**  `C09_antichain_sim_raw_exact` goes through the certificate, which needs `R` transitive
  (`C09_antichain_sim_check_needs_transitive` shows the certificate CAN fail for a reflexive non-transitive simulation).  Whether
  the raw verdict itself can be wrong for a reflexive simulation that is not transitive is neither proved nor refuted (the
  relations the library computes are preorders).  Likewise termination is proved for reflexive transitive relations only; the
  empty relation shows reflexivity is needed, no example shows transitivity is.
* The bound `fuelBoundAC` is that of the exploration without a simulation and far from tight; nothing is proved about the
  simulation making the run shorter.
* Operands that share states: `C09_antichain_sim_needs_disjoint` shows the verdict can be wrong; the caller's obligation to pass
  a relation over the states of BOTH (disjoint) operands is a hypothesis here, not a checked precondition of the C++.
* Everything inherited from `Vata/Properties/C09_Sim.lean` about the abstractions (macro-state cache, memo tables `subsetMap_` /
  `subsetNotMap_`, hash iteration orders, address as third work-list criterion, fixed-size relation indexed through `index_`)
  and about the link between the rows of the table and `C09Sel.model` / `C09Sel.modelRaw` (a reading of the table, not a
  theorem) still stands.
-/
end Vata.Props
