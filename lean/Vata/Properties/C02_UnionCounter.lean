import Vata.Proofs.UnionCounter
import Vata.Proofs.PropAux
/-!
# C02 / C10 / C08 – where may the fresh-state counter of `Union` start?

> C02: … `Union` with caller-supplied translation maps yields exactly the union of the two languages; the maps it reports are
> injective on the operands' states with disjoint images.  (C10: the same code for word automata, C08: for both BDD encodings.)

## How the C++ is read into the model (`Vata/UnionCounter.lean`, `Vata/UnionModel.lean`)

`src/explicit_tree_union.cc` (and, textually the same, `src/explicit_finite_aut_core.cc`, `src/bdd_td_tree_aut_union.cc`,
`src/bdd_bu_tree_aut_union.cc`):
```
StateType stateCnt = 0;
for (const auto& statePair : *pTranslMapLhs) stateCnt = std::max(stateCnt, statePair.second + 1);
for (const auto& statePair : *pTranslMapRhs) stateCnt = std::max(stateCnt, statePair.second + 1);
auto translFunc = [&stateCnt](const StateType&){return stateCnt++;};
StateToStateTranslWeak stateTransLhs(*pTranslMapLhs, translFunc);
StateToStateTranslWeak stateTransRhs(*pTranslMapRhs, translFunc);
```
`unionModelFrom c0 A B mL mR` is `unionModel` (the two weak translators `weakTrAll` over the maps as association lists, ONE
counter threaded through both passes, `ReindexStates` of both operands = `unionWith`) with the value `c0` that `stateCnt` has
when the first state is translated as a PARAMETER.  `unionModelFrom (unionCnt mL mR) = unionModel` (repaired code) and
`unionModelFrom 0 = unionModelOld` (code before D11 / D19 / D20), both by `rfl`.  `cntZero`, `cntKeysRight`, `cntNoSucc` are
the wrong start values that occurred (original defect, two seeded changes).

Abstracted: hash iteration order (`unionModelFromOrd` takes the visiting orders as parameters; the sufficiency theorems hold
for all orders covering the operands' states; the necessity witnesses use the list order `visitOrder` – for `chainTA` only
the position of ONE state in the order matters, see below); `StateType` is unbounded `Nat`; the explicit-tree model is the
one used for all four copies (the word / BDD copies differ in `ReindexStates`, not in the counter code).

## Result: "above every pre-filled VALUE of both maps" is exactly the condition

* `C02_union_counter_sufficient` – any `c0` with `Below mL c0 ∧ Below mR c0` is right (maps and language).
* `C02_union_counter_necessary`  – for ANY maps and any `c0` with a pre-filled value `v ≥ c0` (no other hypothesis on the maps)
  there are operands – `pointTA p` (no rule, final state `p`, the key of `v`) and `chainTA K (v - c0)` (`v - c0 + 1` states
  unknown to the other map, no final state) – with EMPTY languages whose "union" accepts the leaf `b`.
* `C02_union_counter_exact`      – the equivalence.
* `C02_union_counter_zero_wrong`, `C02_union_counter_keys_wrong`, `C02_union_counter_nosucc_wrong` – the three wrong variants,
  each with a `decide`d witness in which the pre-filled maps satisfy the precondition (injective, disjoint images).
-/
namespace Vata.Props
open Vata

/-- The repaired code is the instance `c0 = unionCnt mL mR` of the parametrised model, the code before the repair the
instance `c0 = 0`. -/
theorem C02_union_counter_instances (A B : TA) (mL mR : SMap) :
    unionModelFrom (unionCnt mL mR) A B mL mR = unionModel A B mL mR ∧
    unionModelFrom 0 A B mL mR = unionModelOld A B mL mR := ⟨rfl, rfl⟩

/-- SUFFICIENT.  For injective pre-filled maps with disjoint images, ANY start `c0` of the counter above all their values
gives injective final maps with disjoint images (as association lists, and hence on the operands' states) that extend the
pre-filled ones, and the result accepts exactly `L(A) ∪ L(B)`. -/
theorem C02_union_counter_sufficient (c0 : Nat) (A B : TA) (mL mR : SMap)
    (hbL : Um.Below mL c0) (hbR : Um.Below mR c0) (hL : Um.Inj mL) (hR : Um.Inj mR) (hD : Um.Disj mL mR) :
    Um.Inj (unionModelFrom c0 A B mL mR).2.1 ∧ Um.Inj (unionModelFrom c0 A B mL mR).2.2 ∧
    Um.Disj (unionModelFrom c0 A B mL mR).2.1 (unionModelFrom c0 A B mL mR).2.2 ∧
    InjOnStates (applyMap (unionModelFrom c0 A B mL mR).2.1) A ∧
    InjOnStates (applyMap (unionModelFrom c0 A B mL mR).2.2) B ∧
    (∀ q q', q ∈ A.states → q' ∈ B.states →
      applyMap (unionModelFrom c0 A B mL mR).2.1 q ≠ applyMap (unionModelFrom c0 A B mL mR).2.2 q') ∧
    ∀ t, accepts (unionModelFrom c0 A B mL mR).1 t = (accepts A t || accepts B t) := by
  have hoA : ∀ q, q ∈ A.states → q ∈ visitOrder A := fun _ h => Um.mem_visitOrder.mpr h
  have hoB : ∀ q, q ∈ B.states → q ∈ visitOrder B := fun _ h => Um.mem_visitOrder.mpr h
  obtain ⟨h1, h2, h3⟩ := unionModelFromOrd_maps_inj c0 (visitOrder A) (visitOrder B) A B mL mR hbL hbR hL hR hD
  obtain ⟨h4, h5, h6⟩ := unionModelFromOrd_maps_ok c0 _ _ A B mL mR hoA hoB hbL hbR hL hR hD
  exact ⟨h1, h2, h3, h4, h5, h6, fun t => unionModelFromOrd_lang c0 _ _ A B mL mR hoA hoB hbL hbR hL hR hD t⟩

/-- The same for every visiting order of the hash containers that covers the operands' states. -/
theorem C02_union_counter_sufficient_ord (c0 : Nat) (oA oB : List Nat) (A B : TA) (mL mR : SMap)
    (hoA : ∀ q, q ∈ A.states → q ∈ oA) (hoB : ∀ q, q ∈ B.states → q ∈ oB)
    (hbL : Um.Below mL c0) (hbR : Um.Below mR c0) (hL : Um.Inj mL) (hR : Um.Inj mR) (hD : Um.Disj mL mR) (t : Tree) :
    accepts (unionModelFromOrd c0 oA oB A B mL mR).1 t = (accepts A t || accepts B t) :=
  unionModelFromOrd_lang c0 oA oB A B mL mR hoA hoB hbL hbR hL hR hD t

/-- NECESSARY.  Whatever the pre-filled maps are: if the start `c0` is NOT above all their values there are operands `A`, `B`
(built from the offending binding `p ↦ v`, `c0` and the key bound of the other map) and a tree that the result accepts
although it is in neither language. -/
theorem C02_union_counter_necessary (c0 : Nat) (mL mR : SMap) (h : ¬ (Um.Below mL c0 ∧ Um.Below mR c0)) :
    ∃ A B t, accepts (unionModelFrom c0 A B mL mR).1 t = true ∧ accepts A t = false ∧ accepts B t = false := by
  by_cases hl : Um.Below mL c0
  · have hr : ¬ Um.Below mR c0 := fun hr => h ⟨hl, hr⟩
    obtain ⟨p, v, hp, hv⟩ := not_below hr
    exact ⟨chainTA (keyBound mL) (v - c0), pointTA p, leafB, unionModelFrom_bad_right c0 mL mR hp hv,
      Uc.accepts_chain _ _ _, Uc.accepts_point _ _⟩
  · obtain ⟨p, v, hp, hv⟩ := not_below hl
    exact ⟨pointTA p, chainTA (keyBound mR) (v - c0), leafB, unionModelFrom_bad_left c0 mL mR hp hv,
      Uc.accepts_point _ _, Uc.accepts_chain _ _ _⟩

/-- The explicit witnesses of `C02_union_counter_necessary`: a value `v ≥ c0` under the key `p` of the left (right) map. -/
theorem C02_union_counter_necessary_witness (c0 : Nat) (mL mR : SMap) (p v : Nat) (hv : c0 ≤ v) :
    (mL.lookup p = some v →
      accepts (unionModelFrom c0 (pointTA p) (chainTA (keyBound mR) (v - c0)) mL mR).1 leafB = true) ∧
    (mR.lookup p = some v →
      accepts (unionModelFrom c0 (chainTA (keyBound mL) (v - c0)) (pointTA p) mL mR).1 leafB = true) ∧
    (∀ K d t, accepts (pointTA p) t = false ∧ accepts (chainTA K d) t = false) :=
  ⟨fun hp => unionModelFrom_bad_left c0 mL mR hp hv, fun hp => unionModelFrom_bad_right c0 mL mR hp hv,
    fun K d t => ⟨Uc.accepts_point p t, Uc.accepts_chain K d t⟩⟩

/-- EXACT.  For pre-filled maps satisfying the precondition, the result of `Union` is right for all operands iff the counter
starts above every pre-filled value. -/
theorem C02_union_counter_exact (c0 : Nat) (mL mR : SMap) (hL : Um.Inj mL) (hR : Um.Inj mR) (hD : Um.Disj mL mR) :
    (∀ A B t, accepts (unionModelFrom c0 A B mL mR).1 t = (accepts A t || accepts B t)) ↔
      (Um.Below mL c0 ∧ Um.Below mR c0) := by
  constructor
  · intro hall
    apply Classical.byContradiction
    intro hn
    obtain ⟨A, B, t, h1, h2, h3⟩ := C02_union_counter_necessary c0 mL mR hn
    rw [hall A B t, h2, h3] at h1
    cases h1
  · rintro ⟨hbL, hbR⟩ A B t
    exact (C02_union_counter_sufficient c0 A B mL mR hbL hbR hL hR hD).2.2.2.2.2.2 t

/-! ## the three wrong variants, each with a decided witness (the pre-filled maps satisfy the precondition) -/

/-- `StateType stateCnt = 0;` without the loops (D11 / D19 / D20): left map `5 ↦ 0`. -/
theorem C02_union_counter_zero_wrong :
    smapInjB [(5, 0)] = true ∧ smapInjB [] = true ∧ smapDisjB [(5, 0)] [] = true ∧
    cntZero [(5, 0)] [] = 0 ∧
    accepts (unionModelFrom (cntZero [(5, 0)] []) (pointTA 5) (chainTA 0 0) [(5, 0)] []).1 leafB = true ∧
    accepts (pointTA 5) leafB = false ∧ accepts (chainTA 0 0) leafB = false ∧
    accepts (unionModel (pointTA 5) (chainTA 0 0) [(5, 0)] []).1 leafB = false := by decide

/-- the maximum over the KEYS of the right map instead of its values: right map `0 ↦ 3`, the counter starts at `1`; the
left operand has `3` fresh states, the last one gets the number `3`. -/
theorem C02_union_counter_keys_wrong :
    smapInjB [] = true ∧ smapInjB [(0, 3)] = true ∧ smapDisjB [] [(0, 3)] = true ∧
    cntKeysRight [] [(0, 3)] = 1 ∧ unionCnt [] [(0, 3)] = 4 ∧
    accepts (unionModelFrom (cntKeysRight [] [(0, 3)]) (chainTA 0 2) (pointTA 0) [] [(0, 3)]).1 leafB = true ∧
    accepts (chainTA 0 2) leafB = false ∧ accepts (pointTA 0) leafB = false ∧
    accepts (unionModel (chainTA 0 2) (pointTA 0) [] [(0, 3)]).1 leafB = false := by decide

/-- `statePair.second` instead of `statePair.second + 1`: left map `5 ↦ 3`, the counter starts AT `3`. -/
theorem C02_union_counter_nosucc_wrong :
    smapInjB [(5, 3)] = true ∧ smapInjB [] = true ∧ smapDisjB [(5, 3)] [] = true ∧
    cntNoSucc [(5, 3)] [] = 3 ∧ unionCnt [(5, 3)] [] = 4 ∧
    accepts (unionModelFrom (cntNoSucc [(5, 3)] []) (pointTA 5) (chainTA 0 0) [(5, 3)] []).1 leafB = true ∧
    accepts (pointTA 5) leafB = false ∧ accepts (chainTA 0 0) leafB = false ∧
    accepts (unionModel (pointTA 5) (chainTA 0 0) [(5, 3)] []).1 leafB = false := by decide

/-- The wrong variants are NOT wrong on empty maps (why the defect survived the usual calls): all four starts coincide. -/
theorem C02_union_counter_variants_empty :
    cntZero [] [] = unionCnt [] [] ∧ cntKeysRight [] [] = unionCnt [] [] ∧ cntNoSucc [] [] = unionCnt [] [] := by decide

/-! ## non-vacuity -/

-- hypotheses of `C02_union_counter_sufficient` with a start strictly larger than `unionCnt` and non-empty maps
example : Um.Below [(5, 0), (6, 1)] 7 ∧ Um.Below [(7, 3)] 7 ∧ Um.Inj [(5, 0), (6, 1)] ∧ Um.Inj [(7, 3)] ∧
    Um.Disj [(5, 0), (6, 1)] [(7, 3)] ∧ unionCnt [(5, 0), (6, 1)] [(7, 3)] = 4 :=
  ⟨(Um.below_unionCnt_left _ [(7, 3)]).mono (by decide), (Um.below_unionCnt_right [(5, 0), (6, 1)] _).mono (by decide),
    smapInjB_sound (by decide), smapInjB_sound (by decide), smapDisjB_sound (by decide), by decide⟩
-- … and what the model returns for it
example : (unionModelFrom 7 UnionEx.exA UnionEx.exB9 [(5, 0), (6, 1)] [(7, 3)]).2 = ([(5, 0), (6, 1)], [(7, 3), (9, 7)]) ∧
    accepts (unionModelFrom 7 UnionEx.exA UnionEx.exB9 [(5, 0), (6, 1)] [(7, 3)]).1 UnionEx.tHA = true ∧
    accepts (unionModelFrom 7 UnionEx.exA UnionEx.exB9 [(5, 0), (6, 1)] [(7, 3)]).1 UnionEx.tA = false := by decide
-- hypothesis of `C02_union_counter_necessary`: the value 3 of the right map is not below 1
example : ¬ (Um.Below [] 1 ∧ Um.Below [(0, 3)] 1) := fun h => absurd (h.2 0 3 (by decide)) (by decide)
-- the general witness instantiated: value `7` under key `2` of the left map, start `4`, right map with keys up to `9`
example : accepts (unionModelFrom 4 (pointTA 2) (chainTA (keyBound [(9, 1)]) (7 - 4)) [(2, 7)] [(9, 1)]).1 leafB = true ∧
    (unionModelFrom 4 (pointTA 2) (chainTA (keyBound [(9, 1)]) (7 - 4)) [(2, 7)] [(9, 1)]).2.2 =
      [(9, 1), (10, 4), (11, 5), (12, 6), (13, 7)] := by decide

/-!
## still not proved

* The theorems are about the explicit-tree instance of the counter code.  That the word-automaton copy and the two BDD copies
  are instances of the same parametrised model is NOT proved here (their own models: `Vata/Properties/C10_Coded.lean`,
  `C08_UnionCoded.lean` with `tdUnionFrom` / `buUnionFrom`); only the counter code is textually identical.
* `C02_union_counter_necessary` constructs its operands for the list order `visitOrder`; for an arbitrary hash order of the
  chain operand the colliding state is a different one (the `v - c0 + 1`-th newly visited), which is not stated.
* Wrap-around of a bounded `StateType` is not modelled.
-/
end Vata.Props
