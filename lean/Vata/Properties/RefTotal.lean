import Vata.Proofs.MultiTotal
import Vata.Proofs.PairTotal
/-!
# Totality of the exact reference deciders (C01–C03, C05–C10, C14, C15, C19)

Every property whose correspondence check asks a *language-level* question of the implementation's output uses one of
the fuel-bounded reference deciders `inclM`, `equivM`, `emptyM`, `isUnionM`, `isIsectM`, `isComplM` (`Vata/Lang.lean`,
all instances of the profile engine `forallTrees` of `Vata/Multi.lean`), their word-automata versions `inclW`, `equivW`,
`emptyW`, `isUnionW`, `isIsectW` (`Vata/NfaEmbed.lean`, the same engine through the embedding `toTA`), or one of the two
older pair engines `inclRef` (`Vata/Basic.lean`) and `W.inclRef` (`Vata/Nfa.lean`).  Their `_iff` theorems say: *every
`some b` is exact*.  This file adds the other half: **above an explicit fuel bound they never return `none`**, so
together "for `fuel ≥ bound` the decider returns `some b` with `b = true ↔ <the language statement>`".

* **The bound.**  `fuelBoundM [A₁,…,Aₙ] = ∏ 2^|parents Aᵢ|` where `parents A` are the states that head a rule
  (`fuelBoundM_le_states`: at most `2^(Σ |states Aᵢ|)`); for words `fuelBoundW Ns = fuelBoundM (Ns.map toTA)
  = ∏ 2^|start ∪ targets of Nᵢ|` (`fuelBoundW_eq_pow`); for the complement check the alphabet automaton `univ Sg` has one
  state, `fuelBoundCompl C A Sg ≤ 2^(|states C| + |states A| + 1)` whatever the size of `Sg` (`fuelBoundCompl_le_states`).
* **Why it is a bound** (`Vata/Proofs/SatTotal.lean`).  One unit of fuel is one round of the saturation loop.  A round
  that does not stop appends at least one profile that is not set-equal to any stored one, and nothing is ever removed:
  *no round wastes fuel*.  Every stored profile is the profile of a tree, so it is set-equal to a tuple of subsets of the
  parent states; the number of such tuples not yet represented strictly decreases per round.  (A semantic variant,
  `msat_total_of_cover`: the loop needs at most as many rounds as there are classes of profiles of trees.)  The bound
  is pessimistic: a round adds *all* new profiles of one more level of tree height, so the number of rounds actually
  needed is the height at which the last class appears, not the number of classes.
* **The driver's constant** is treated in the last section.

C04 does not appear: its checks (`simdown`, `simup`) compare relations and use no fuel-bounded decider.
-/
namespace Vata.Props
open Vata Vata.W Vata.Total

/-! ### the engine (C19: every language law checked by the driver is an instance) -/

/-- **C19 / engine.**  For every list of automata, every Boolean combination `φ` of the acceptance vector and every fuel
above `fuelBoundM As`, the engine returns a verdict, and the verdict is "`φ` holds for the acceptance vector of every
tree" -/
theorem C19_reference_total (As : List TA) (φ : List Bool → Bool) (fuel : Nat) (h : fuelBoundM As ≤ fuel) :
    ∃ b, forallTrees As φ fuel = some b ∧ (b = true ↔ ∀ t, φ (As.map (fun A => accepts A t)) = true) :=
  forallTrees_decides As φ fuel h

example : fuelBoundM [MultiTotalEx.exEven, MultiTotalEx.exAll] ≤ 8 ∧
    forallTrees [MultiTotalEx.exEven, MultiTotalEx.exAll] (fun v => match v with | [a, b] => !a || b | _ => false) 8
      = some true := ⟨by decide, by decide⟩

/-- the bound in terms of the numbers of states: `2^n` rounds suffice for automata with `n` states altogether -/
theorem C19_reference_bound (As : List TA) : fuelBoundM As ≤ 2 ^ (As.map (fun A => A.states.length)).sum :=
  fuelBoundM_le_states As

example : fuelBoundM [MultiTotalEx.exEven, MultiTotalEx.exAll] = 8 ∧
    2 ^ ([MultiTotalEx.exEven, MultiTotalEx.exAll].map (fun A => A.states.length)).sum = 8 := ⟨by decide, by decide⟩

/-- more fuel never changes a verdict, so "some fuel gives `b`" and "all fuel above the bound gives `b`" coincide -/
theorem C19_reference_fuel_irrelevant (As : List TA) (φ : List Bool → Bool) (fuel fuel' : Nat) (b b' : Bool)
    (h : forallTrees As φ fuel = some b) (h' : forallTrees As φ fuel' = some b') : b = b' := by
  rw [Bool.eq_iff_iff, forallTrees_iff As φ fuel b h, forallTrees_iff As φ fuel' b' h']

example : forallTrees [MultiTotalEx.exEven] (fun v => match v with | [a] => !a | _ => false) 3 = some false ∧
    forallTrees [MultiTotalEx.exEven] (fun v => match v with | [a] => !a | _ => false) 7 = some false :=
  ⟨by decide, by decide⟩

/-! ### tree automata -/

/-- **C01 (also the reference of C07 and C15).**  Above the bound both inclusion references return the right verdict -/
theorem C01_reference_total (A B : TA) (fuel : Nat) (h : fuelBoundM [A, B] ≤ fuel) :
    (Incl A B → inclM A B fuel = some true ∧ inclRef A B fuel = some true) ∧
    (¬ Incl A B → inclM A B fuel = some false ∧ inclRef A B fuel = some false) := by
  have h1 := Total.verdicts (inclM_decides A B fuel h)
  have h2 := Total.verdicts (inclRef_decides A B fuel h)
  exact ⟨fun q => ⟨h1.1 q, h2.1 q⟩, fun q => ⟨h1.2 q, h2.2 q⟩⟩

example : fuelBoundM [MultiTotalEx.exAll, MultiTotalEx.exEven] ≤ 8 ∧
    inclM MultiTotalEx.exAll MultiTotalEx.exEven 8 = some false ∧
    inclRef MultiTotalEx.exAll MultiTotalEx.exEven 8 = some false := ⟨by decide, by decide, by decide⟩

/-- the `∃ b` form for `inclM` -/
theorem C01_reference_total_decides (A B : TA) (fuel : Nat) (h : fuelBoundM [A, B] ≤ fuel) :
    ∃ b, inclM A B fuel = some b ∧ (b = true ↔ Incl A B) := inclM_decides A B fuel h

example : ∃ b, inclM MultiTotalEx.exEven MultiTotalEx.exAll 8 = some b ∧
    (b = true ↔ Incl MultiTotalEx.exEven MultiTotalEx.exAll) := C01_reference_total_decides _ _ 8 (by decide)

/-- **C07**: the explicit reference the BDD inclusions are compared with is `inclM` -/
theorem C07_reference_total (A B : TA) (fuel : Nat) (h : fuelBoundM [A, B] ≤ fuel) :
    ∃ b, inclM A B fuel = some b ∧ (b = true ↔ Incl A B) := inclM_decides A B fuel h

example : ∃ b, inclM MultiTotalEx.exAll MultiTotalEx.exEven 8 = some b ∧
    (b = true ↔ Incl MultiTotalEx.exAll MultiTotalEx.exEven) := C07_reference_total _ _ 8 (by decide)

/-- **C02.**  "`R` is the union" / "`R` is the intersection" are decided above the bound of the three automata -/
theorem C02_reference_total (R A B : TA) (fuel : Nat) (h : fuelBoundM [R, A, B] ≤ fuel) :
    (∃ b, isUnionM R A B fuel = some b ∧ (b = true ↔ ∀ t, accepts R t = (accepts A t || accepts B t))) ∧
    (∃ b, isIsectM R A B fuel = some b ∧ (b = true ↔ ∀ t, accepts R t = (accepts A t && accepts B t))) :=
  ⟨isUnionM_decides R A B fuel h, isIsectM_decides R A B fuel h⟩

example : fuelBoundM [MultiTotalEx.exAll, MultiTotalEx.exEven, MultiTotalEx.exAll] ≤ 16 ∧
    isUnionM MultiTotalEx.exAll MultiTotalEx.exEven MultiTotalEx.exAll 16 = some true ∧
    isIsectM MultiTotalEx.exAll MultiTotalEx.exEven MultiTotalEx.exAll 16 = some false :=
  ⟨by decide, by decide, by decide⟩

/-- **C08**: the same two checkers and language equivalence, applied to the dumps of the BDD-encoded results -/
theorem C08_reference_total (R A B : TA) (fuel : Nat) (h : fuelBoundM [R, A, B] ≤ fuel) :
    (∃ b, isUnionM R A B fuel = some b ∧ (b = true ↔ ∀ t, accepts R t = (accepts A t || accepts B t))) ∧
    (∃ b, isIsectM R A B fuel = some b ∧ (b = true ↔ ∀ t, accepts R t = (accepts A t && accepts B t))) ∧
    (fuelBoundM [R, A] ≤ fuel → ∃ b, equivM R A fuel = some b ∧ (b = true ↔ LangEq R A)) :=
  ⟨isUnionM_decides R A B fuel h, isIsectM_decides R A B fuel h, fun h' => equivM_decides R A fuel h'⟩

example : fuelBoundM [MultiTotalEx.exEven, MultiTotalEx.exEven, MultiTotalEx.exAll] ≤ 32 ∧
    isIsectM MultiTotalEx.exEven MultiTotalEx.exEven MultiTotalEx.exAll 32 = some true := ⟨by decide, by decide⟩

/-- **C03 (also the reference of C05, C14).**  Language equivalence and emptiness are decided above their bounds -/
theorem C03_reference_total (A B : TA) (fuel : Nat) :
    (fuelBoundM [A, B] ≤ fuel → ∃ b, equivM A B fuel = some b ∧ (b = true ↔ LangEq A B)) ∧
    (fuelBoundM [A] ≤ fuel → ∃ b, emptyM A fuel = some b ∧ (b = true ↔ LangEmpty A)) :=
  ⟨fun h => equivM_decides A B fuel h, fun h => emptyM_decides A fuel h⟩

example : fuelBoundM [MultiTotalEx.exEven, MultiTotalEx.exAll] ≤ 8 ∧ fuelBoundM [MultiTotalEx.exEven] ≤ 8 ∧
    equivM MultiTotalEx.exEven MultiTotalEx.exAll 8 = some false ∧ emptyM MultiTotalEx.exEven 8 = some false :=
  ⟨by decide, by decide, by decide, by decide⟩

/-- **C05**: `Reduce` preserves the language – decided by `equivM` above the bound -/
theorem C05_reference_total (R A : TA) (fuel : Nat) (h : fuelBoundM [R, A] ≤ fuel) :
    (LangEq R A → equivM R A fuel = some true) ∧ (¬ LangEq R A → equivM R A fuel = some false) :=
  Total.verdicts (equivM_decides R A fuel h)

example : fuelBoundM [MultiTotalEx.exAll, MultiTotalEx.exAll] ≤ 4 ∧
    equivM MultiTotalEx.exAll MultiTotalEx.exAll 4 = some true := ⟨by decide, by decide⟩

/-- **C14**: an injective renaming preserves the language (`equivM`), a collapsing one can only enlarge it (`inclM`) -/
theorem C14_reference_total (A R : TA) (fuel : Nat) (h : fuelBoundM [A, R] ≤ fuel) :
    (∃ b, equivM A R fuel = some b ∧ (b = true ↔ LangEq A R)) ∧
    (∃ b, inclM A R fuel = some b ∧ (b = true ↔ Incl A R)) :=
  ⟨equivM_decides A R fuel h, inclM_decides A R fuel h⟩

example : fuelBoundM [MultiTotalEx.exEven, MultiTotalEx.exAll] ≤ 8 ∧
    equivM MultiTotalEx.exEven MultiTotalEx.exAll 8 = some false ∧
    inclM MultiTotalEx.exEven MultiTotalEx.exAll 8 = some true := ⟨by decide, by decide, by decide⟩

/-- **C15**: "the witness automaton is a sub-language" (`inclM`) and "empty only for an empty language" (`emptyM`) -/
theorem C15_reference_total (R A : TA) (fuel : Nat) (h : fuelBoundM [R, A] ≤ fuel) :
    (∃ b, inclM R A fuel = some b ∧ (b = true ↔ Incl R A)) ∧
    (∃ b, emptyM R fuel = some b ∧ (b = true ↔ LangEmpty R)) ∧
    (∃ b, emptyM A fuel = some b ∧ (b = true ↔ LangEmpty A)) := by
  have hR : fuelBoundM [R] ≤ fuel := by
    refine Nat.le_trans ?_ h
    simp only [fuelBoundM, Nat.mul_one]
    exact Nat.le_mul_of_pos_right _ (Nat.pow_pos (by decide))
  have hA : fuelBoundM [A] ≤ fuel := by
    refine Nat.le_trans ?_ h
    simp only [fuelBoundM, Nat.mul_one]
    exact Nat.le_mul_of_pos_left _ (Nat.pow_pos (by decide))
  exact ⟨inclM_decides R A fuel h, emptyM_decides R fuel hR, emptyM_decides A fuel hA⟩

example : fuelBoundM [MultiTotalEx.exEven, MultiTotalEx.exAll] ≤ 8 ∧
    inclM MultiTotalEx.exEven MultiTotalEx.exAll 8 = some true ∧ emptyM MultiTotalEx.exEven 8 = some false ∧
    emptyM MultiTotalEx.exAll 8 = some false := ⟨by decide, by decide, by decide, by decide⟩

/-- **C06.**  "`C` is the complement of `A` over the ranked alphabet `Sg`" is decided above the bound; the alphabet enters
the bound by a factor of at most `2` -/
theorem C06_reference_total (C A : TA) (Sg : List (Nat × Nat)) (fuel : Nat) (h : fuelBoundCompl C A Sg ≤ fuel) :
    ∃ b, isComplM C A Sg fuel = some b ∧
      (b = true ↔ ∀ t, (overSig Sg t = true → accepts C t = !accepts A t) ∧
        (overSig Sg t = false → accepts C t = false)) :=
  isComplM_decides C A Sg fuel h

theorem C06_reference_bound (C A : TA) (Sg : List (Nat × Nat)) :
    fuelBoundCompl C A Sg ≤ 2 ^ (C.states.length + A.states.length + 1) :=
  fuelBoundCompl_le_states C A Sg

/-- odd heights: the complement of `exEven` over `{a:0, f:1}` -/
def RefTotalEx.exOdd : TA := ⟨[⟨0, [], 0⟩, ⟨1, [0], 1⟩, ⟨1, [1], 0⟩], [1]⟩

example : fuelBoundCompl RefTotalEx.exOdd MultiTotalEx.exEven [(0, 0), (1, 1)] ≤ 32 ∧
    isComplM RefTotalEx.exOdd MultiTotalEx.exEven [(0, 0), (1, 1)] 32 = some true ∧
    isComplM MultiTotalEx.exAll MultiTotalEx.exEven [(0, 0), (1, 1)] 32 = some false :=
  ⟨by decide, by decide, by decide⟩

/-! ### word automata -/

/-- **C09.**  Above the bound both word-inclusion references return the right verdict -/
theorem C09_reference_total (A B : NFA) (fuel : Nat) (h : fuelBoundW [A, B] ≤ fuel) :
    (InclW A B → inclW A B fuel = some true ∧ W.inclRef A B fuel = some true) ∧
    (¬ InclW A B → inclW A B fuel = some false ∧ W.inclRef A B fuel = some false) := by
  have h1 := Total.verdicts (inclW_decides A B fuel h)
  have h2 := Total.verdicts (W.inclRef_decides A B fuel h)
  exact ⟨fun q => ⟨h1.1 q, h2.1 q⟩, fun q => ⟨h1.2 q, h2.2 q⟩⟩

example : fuelBoundW [MultiTotalEx.nAll, MultiTotalEx.nAB] ≤ 8 ∧
    inclW MultiTotalEx.nAll MultiTotalEx.nAB 8 = some false ∧ W.inclRef MultiTotalEx.nAll MultiTotalEx.nAB 8 = some false ∧
    inclW MultiTotalEx.nAB MultiTotalEx.nAll 8 = some true ∧ W.inclRef MultiTotalEx.nAB MultiTotalEx.nAll 8 = some true :=
  ⟨by decide, by decide, by decide, by decide, by decide⟩

/-- the bound for words, in terms of the automata: `|start ∪ targets| ≤ |start| + |trans|` -/
theorem C09_reference_bound (Ns : List NFA) :
    fuelBoundW Ns = 2 ^ (Ns.map (fun N => (nfaTargets N).length)).sum ∧
    ∀ N, N ∈ Ns → (nfaTargets N).length ≤ N.start.length + N.trans.length :=
  ⟨fuelBoundW_eq_pow Ns, fun N _ => nfaTargets_length_le N⟩

example : fuelBoundW [MultiTotalEx.nAB, MultiTotalEx.nAll] = 8 := by decide

/-- **C10.**  The checkers of union, intersection, equivalence (reversal, trimming) and emptiness on words are decided
above their bounds -/
theorem C10_reference_total (R A B : NFA) (fuel : Nat) :
    (fuelBoundW [R, A, B] ≤ fuel →
      (∃ b, isUnionW R A B fuel = some b ∧ (b = true ↔ ∀ w, acceptsW R w = (acceptsW A w || acceptsW B w))) ∧
      (∃ b, isIsectW R A B fuel = some b ∧ (b = true ↔ ∀ w, acceptsW R w = (acceptsW A w && acceptsW B w)))) ∧
    (fuelBoundW [R, A] ≤ fuel → ∃ b, equivW R A fuel = some b ∧ (b = true ↔ ∀ w, acceptsW R w = acceptsW A w)) ∧
    (fuelBoundW [A] ≤ fuel → ∃ b, emptyW A fuel = some b ∧ (b = true ↔ ∀ w, acceptsW A w = false)) :=
  ⟨fun h => ⟨isUnionW_decides R A B fuel h, isIsectW_decides R A B fuel h⟩,
    fun h => equivW_decides R A fuel h, fun h => emptyW_decides A fuel h⟩

example : fuelBoundW [MultiTotalEx.nAll, MultiTotalEx.nAB, MultiTotalEx.nAll] ≤ 16 ∧
    isUnionW MultiTotalEx.nAll MultiTotalEx.nAB MultiTotalEx.nAll 16 = some true ∧
    isIsectW MultiTotalEx.nAB MultiTotalEx.nAB MultiTotalEx.nAll 16 = some true ∧
    equivW MultiTotalEx.nAB MultiTotalEx.nAll 16 = some false ∧ emptyW MultiTotalEx.nAB 16 = some false :=
  ⟨by decide, by decide, by decide, by decide, by decide⟩

/-! ### the constant of the compiled driver

`Driver/Main.lean`, `Driver/BddChk.lean`, `Driver/MetaChk.lean` and `Driver/NfaHist.lean` each define `FUEL := 1000000`
and call every decider with it.  `driverFuel` is a copy of that number (the `Vata` library cannot import the driver).

`2^19 = 524288 ≤ 1000000 < 1048576 = 2^20`.  So the proved bound is below `FUEL` **exactly when the operands of one call
have at most 19 rule-heading states altogether**:

* every call on one or two operands of at most 9 states each (`inclM`, `equivM`, `emptyM`, `inclRef`, and the word
  versions): bound `≤ 2^18 = 262144` – covered (`driver_fuel_two`, `driver_fuel_two_W`);
* the three-operand calls (`isUnionM`, `isIsectM`, `isUnionW`, `isIsectW`; `isComplM` with `|C| + |A| + 1`): covered as
  long as the three automata have at most 19 states altogether, e.g. up to 6 states each, or a result of 9 states with
  operands of 5 states each (`driver_fuel_suffices`, `driver_fuel_compl`);
* **not covered by the bound**: three operands of 9 states each (`2^27 = 134217728`), and in general from 20 states
  altogether on (`driver_fuel_worst`).  There the driver *could* in principle see `none`; it then prints
  `error fuel(…)`, never a verdict.  This is a statement about the proved worst-case bound, not an observed failure: the
  number of rounds actually needed is the tree height at which the last new profile appears, and since every round
  that does not stop adds a profile, round `k` works on at least `k` stored profiles and compares each of their
  successors with all of them (all pairs of them for a binary symbol): a run of a million rounds is far beyond the time
  limit of a case long before the fuel runs out.
-/

/-- copy of `FUEL` of `Driver/Main.lean` (and `BddChk`, `MetaChk`, `NfaHist`) -/
def driverFuel : Nat := 1000000

/-- operands with at most 19 states altogether are below the driver's fuel -/
theorem driver_fuel_suffices (As : List TA) (h : (As.map (fun A => A.states.length)).sum ≤ 19) :
    fuelBoundM As ≤ driverFuel :=
  Nat.le_trans (fuelBoundM_le_of_states As 19 h) (by decide)

/-- the sharper form: only the states that head a rule count -/
theorem driver_fuel_suffices' (As : List TA) (h : (As.map (fun A => (parents A).length)).sum ≤ 19) :
    fuelBoundM As ≤ driverFuel := by
  rw [fuelBoundM_eq_pow]
  exact Nat.le_trans (Nat.pow_le_pow_right (by decide) h) (by decide)

theorem driver_fuel_suffices_W (Ns : List NFA) (h : (Ns.map (fun N => (nfaTargets N).length)).sum ≤ 19) :
    fuelBoundW Ns ≤ driverFuel := by
  rw [fuelBoundW_eq_pow]
  exact Nat.le_trans (Nat.pow_le_pow_right (by decide) h) (by decide)

/-- one or two operands of at most 9 states: always covered (`2^18 ≤ FUEL`) -/
theorem driver_fuel_two (A B : TA) (hA : A.states.length ≤ 9) (hB : B.states.length ≤ 9) :
    fuelBoundM [A, B] ≤ driverFuel ∧ fuelBoundM [A] ≤ driverFuel := by
  constructor
  · apply driver_fuel_suffices
    simp only [List.map_cons, List.map_nil, List.sum_cons, List.sum_nil]; omega
  · apply driver_fuel_suffices
    simp only [List.map_cons, List.map_nil, List.sum_cons, List.sum_nil]; omega

theorem driver_fuel_two_W (A B : NFA) (hA : (nfaTargets A).length ≤ 9) (hB : (nfaTargets B).length ≤ 9) :
    fuelBoundW [A, B] ≤ driverFuel ∧ fuelBoundW [A] ≤ driverFuel := by
  constructor
  · apply driver_fuel_suffices_W
    simp only [List.map_cons, List.map_nil, List.sum_cons, List.sum_nil]; omega
  · apply driver_fuel_suffices_W
    simp only [List.map_cons, List.map_nil, List.sum_cons, List.sum_nil]; omega

/-- three operands: covered up to 19 states altogether -/
theorem driver_fuel_three (R A B : TA) (h : R.states.length + A.states.length + B.states.length ≤ 19) :
    fuelBoundM [R, A, B] ≤ driverFuel := by
  apply driver_fuel_suffices
  simp only [List.map_cons, List.map_nil, List.sum_cons, List.sum_nil]; omega

theorem driver_fuel_compl (C A : TA) (Sg : List (Nat × Nat)) (h : C.states.length + A.states.length ≤ 18) :
    fuelBoundCompl C A Sg ≤ driverFuel :=
  Nat.le_trans (fuelBoundCompl_le_states C A Sg)
    (Nat.le_trans (Nat.pow_le_pow_right (by decide) (by omega : C.states.length + A.states.length + 1 ≤ 19)) (by decide))

/-- hence: the driver's inclusion / equivalence / emptiness references always answer on operands of at most 9 states,
and answer correctly -/
theorem driver_two_operand_verdicts (A B : TA) (hA : A.states.length ≤ 9) (hB : B.states.length ≤ 9) :
    (∃ b, inclM A B driverFuel = some b ∧ (b = true ↔ Incl A B)) ∧
    (∃ b, equivM A B driverFuel = some b ∧ (b = true ↔ LangEq A B)) ∧
    (∃ b, emptyM A driverFuel = some b ∧ (b = true ↔ LangEmpty A)) :=
  ⟨inclM_decides A B _ (driver_fuel_two A B hA hB).1, equivM_decides A B _ (driver_fuel_two A B hA hB).1,
    emptyM_decides A _ (driver_fuel_two A B hA hB).2⟩

example : MultiTotalEx.exEven.states.length ≤ 9 ∧ MultiTotalEx.exAll.states.length ≤ 9 := ⟨by decide, by decide⟩

/-- the arithmetic of the worst generated sizes: two operands of 9 states are covered with room to spare, 19 states
altogether is the last covered total, three operands of 9 states are not covered by the bound -/
theorem driver_fuel_worst :
    2 ^ (9 + 9) = 262144 ∧ 2 ^ (9 + 9) ≤ driverFuel ∧ 2 ^ 19 ≤ driverFuel ∧ driverFuel < 2 ^ 20 ∧
    2 ^ (9 + 9 + 9) = 134217728 ∧ driverFuel < 2 ^ (9 + 9 + 9) := by decide

/-- the bound really takes these values: automata with `n` rule-heading states each -/
def RefTotalEx.chain (n : Nat) : TA := ⟨(List.range n).map (fun q => ⟨0, [], q⟩), []⟩

example : fuelBoundM [RefTotalEx.chain 9, RefTotalEx.chain 9] = 262144 := by decide
example : driverFuel < fuelBoundM [RefTotalEx.chain 9, RefTotalEx.chain 9, RefTotalEx.chain 2] := by decide

/-!
## Not yet proved

* **Tightness.**  The bound counts classes of profiles, the loop needs only as many rounds as the tree height at which the
  last class appears; no lower bound on the number of rounds is proved (the examples `inclM exEven exAll 1 = none`,
  `inclRef exAll exEven 0 = none` only show that *some* fuel is needed).  In particular it is not proved that the driver
  can or cannot see `none` on three operands of 9 states: the proved bound (`2^27`) is above `FUEL` there.
* `driverFuel` is a copy of the driver's constant, not the constant itself (the library cannot import the driver).

## Closes (items of the "not yet proved" blocks)

* C01: "No totality theorem for the reference deciders `inclM`/`inclRef`" – `C01_reference_total`.
* C03: "No totality theorem for the reference deciders `equivM`, `emptyM`" – `C03_reference_total`.
* C06: "No totality theorem for the decider `isComplM`" – `C06_reference_total`, `C06_reference_bound`.
* C09: "No totality theorem for the references `inclW` / `W.inclRef`" – `C09_reference_total`.
* C10: "No totality theorem for the reference checkers `isUnionW`, `isIsectW`, `equivW`, `emptyW`" – `C10_reference_total`.
-/
end Vata.Props
