import Vata.Proofs.Timbuk
import Vata.Properties.C13_LoadDump
/-!
# C13 – Timbuk text round-trips and malformed text is rejected by an exception

> For every automaton description, parsing its serialisation gives back the same final states and rules, and for every
> automaton in any of the four encodings, dumping it and loading the text again yields the same rules and final states
> under the same state names. For any input text whatsoever the parser and the loaders either succeed or throw a
> standard exception; they never crash, hang or corrupt memory.

(quantifier: for all automaton descriptions (any state/symbol names without whitespace and reserved punctuation, nullary
rules written with or without parentheses, empty sections) and for all byte strings offered as input text)

## How the statement is read into the model

* **Specification (L0).**  An automaton description is a `Vata.AutDesc` (`Vata/Timbuk.lean`: name, symbols with ranks,
  states, final states, transitions `(children, symbol, parent)`, all lists of `String`s read as sets).  "Gives back the
  same final states and rules" is `d'.final ≈ d.final ∧ d'.trans ≈ d.trans`, where `≈` on lists is `Timbuk.SameSet`
  (the same elements; the C++ fields are `std::set`s).  The side condition of the quantifier, "names without whitespace
  and reserved punctuation", is `AutDesc.WellFormed`; `C13_wellFormed_characterisation` and
  `C13_goodName_characterisation` spell it out: every symbol and state name is non-empty and contains no white-space
  character, none of `( ) , :` and no substring `->`; the automaton name (possibly empty) has no white space; ranks are
  C++ `int`s.
* **Model of the code.**  `parseTimbuk : String → Except String AutDesc` is a line-by-line transcription of
  `parse_timbuk` (`src/timbuk_parser-nobison.cc`: `split_delim`, `trim`, `read_word`, `parse_colonned_token`,
  `Convert::FromString<int>`, the header keywords, the analysis of a transition line, every `throw` as `.error` with
  the message) and `serialize : AutDesc → String` of `TimbukSerializer::Serialize`; both are wrappers around
  `Timbuk.parseC` / `Timbuk.serializeC` on `List Char`, with `std::set`s as sorted duplicate-free lists (`Timbuk.norm`).
  `T.splitDelim` (`Vata/Split.lean`) is `split_delim`.  (`Vata/Parse.lean` is the line protocol of the test harness, not
  a subject of this property.)
* **Between description and automaton.**  The text layer is this file.  The layer `AutDescription ↔ automaton` of the explicit
  tree encoding – `LoadFromAutDesc` / `DumpToAutDesc`, the state dictionary (`TwoWayDict`) with its weak / strict translators, the
  alphabet's `(name, rank) ↦ number` dictionary – is `Vata/LoadDump.lean` with `Vata/Properties/C13_LoadDump.lean`;
  `C13_statement_explicit` at the end of this file composes the two layers.  The classes themselves (`TwoWayDict`, the
  translators, `Convert::FromString` / `ToString`, `SymbolicVarAsgn`) are modelled as coded in `Vata/Glue.lean`
  (`Vata/Properties/Util_Glue.lean`); the word automata with their start symbols in `Vata/NfaStart.lean`
  (`C10_start_dump_load`); the tables of the two BDD encodings in `Vata/BddAbs.lean` / `Vata/BddAbsTD.lean` (`C08_load_dump`).
* **The exception clause** is read as: the model returns `.error msg` exactly where the C++ throws.  `parseTimbuk` is a
  total Lean function into `Except`, which holds *by construction* (every Lean function terminates and there is no
  memory to corrupt); this typing fact is **not** stated as a theorem, and it says nothing about crashes or hangs of the
  C++ (see the end of the file).
-/
namespace Vata.Props
open Vata Vata.Timbuk

/-! ### parse ∘ serialise -/

/-- parsing the serialisation of a well-formed description succeeds and gives back the same final states and the same
rules.  The hypothesis is needed: a name containing white space, `( ) , :` or `->`, or an empty one, is cut differently
by the parser (or the text is rejected, `TimbukEx.exBad` below). -/
theorem C13_parse_serialize (d : AutDesc) (hwf : d.WellFormed) :
    ∃ d', parseTimbuk (serialize d) = .ok d' ∧ d'.final ≈ d.final ∧ d'.trans ≈ d.trans :=
  parse_serialize d hwf

/-- nullary to ternary rules, names with `-` and `>`, duplicates, unsorted lists, an empty final section, no name -/
example : TimbukEx.exD.WellFormed ∧ TimbukEx.exD.final = [] ∧ TimbukEx.exD.trans.length = 6 := by decide
example : TimbukEx.exE.WellFormed ∧ TimbukEx.exE.final = ["r", "q", "r"] := by decide
/-- the hypothesis cannot be dropped: the serialisation of a description with the state name `q:x` is rejected
(`decide +kernel`: the word loop `readWords` is defined by well-founded recursion, which only the kernel unfolds) -/
example : ¬ TimbukEx.exBad.WellFormed ∧ TimbukTest.rejects (serialize TimbukEx.exBad) = true :=
  ⟨by decide, by decide +kernel⟩

/-- the full version: every component comes back – the sets of symbols (with ranks), states, final states and rules, and
the name, except that the empty name is written, and therefore read, as `anonymous` -/
theorem C13_parse_serialize_full (d : AutDesc) (hwf : d.WellFormed) :
    ∃ d', parseTimbuk (serialize d) = .ok d' ∧
      d'.name = (if d.name.isEmpty then "anonymous" else d.name) ∧
      d'.symbols ≈ d.symbols ∧ d'.states ≈ d.states ∧ d'.final ≈ d.final ∧ d'.trans ≈ d.trans :=
  parse_serialize_full d hwf

example : TimbukEx.exD.WellFormed ∧ TimbukEx.exD.name.isEmpty = true ∧ TimbukEx.exE.name.isEmpty = false := by decide
/-- the round trip of `exE`, executed: the lists come back in `std::set` order without duplicates -/
example : (parseTimbuk (serialize TimbukEx.exE)).toOption = some ⟨"A-1", [("a", 0), ("f", 2)], ["q", "r"], ["q", "r"],
    [([], "a", "q"), (["q", "r"], "f", "r"), (["r", "r"], "f", "q")]⟩ := by decide +kernel

/-- the exact result on the `List Char` level: the parser returns precisely `Timbuk.roundTrip d` – the name
(`anonymous` for the empty one) and, for each of the four sets, the `std::set` iteration order (`norm`) of the
`std::set` iteration order in which the serialiser wrote it -/
theorem C13_parse_serialize_exact (d : Timbuk.Desc) (hwf : d.wellFormed = true) :
    parseC (serializeC d) = .ok (roundTrip d) :=
  parseC_serializeC d (wf_of_wellFormed hwf)

example : (ofS TimbukEx.exE).wellFormed = true := by decide
example : roundTrip (ofS TimbukEx.exE) = ofS ⟨"A-1", [("a", 0), ("f", 2)], ["q", "r"], ["q", "r"],
    [([], "a", "q"), (["q", "r"], "f", "r"), (["r", "r"], "f", "q")]⟩ := by decide

/-! ### the side condition of the round trip, spelled out -/

/-- `WellFormed` is exactly: no white space in the automaton name; every symbol name good and every rank an `int`; every
state name, final-state name, and every child, symbol and parent of a rule good -/
theorem C13_wellFormed_characterisation (d : AutDesc) : d.WellFormed ↔
    (∀ c ∈ d.name.toList, isSpace c = false) ∧
    (∀ p ∈ d.symbols, goodName p.1.toList = true ∧ intMin ≤ p.2 ∧ p.2 ≤ intMax) ∧
    (∀ q ∈ d.states, goodName q.toList = true) ∧
    (∀ q ∈ d.final, goodName q.toList = true) ∧
    (∀ t ∈ d.trans, (∀ k ∈ t.1, goodName k.toList = true) ∧ goodName t.2.1.toList = true ∧
      goodName t.2.2.toList = true) :=
  AutDesc.wellFormed_iff d

example : TimbukEx.exD.WellFormed ∧ ¬ TimbukEx.exBad.WellFormed := by decide

/-- a good name is exactly: non-empty, no white space, none of `( ) , :`, and no substring `->` -/
theorem C13_goodName_characterisation (s : Str) : goodName s = true ↔
    s ≠ [] ∧ (∀ c ∈ s, isSpace c = false ∧ c ≠ '(' ∧ c ≠ ')' ∧ c ≠ ',' ∧ c ≠ ':') ∧
      ¬ ∃ p q, s = p ++ '-' :: '>' :: q :=
  goodName_iff s

example : goodName ">r".toList = true ∧ goodName "q-".toList = true ∧ goodName "a->b".toList = false ∧
    goodName "q:x".toList = false ∧ goodName "".toList = false ∧ goodName "f(x)".toList = false ∧
    goodName "a b".toList = false := by decide

/-! ### `split_delim` -/

/-- the first step of the parser inverts the last step of the serialiser: splitting at a delimiter a text that was joined
with that delimiter from delimiter-free pieces gives the pieces back (used with `'\n'` for the lines) -/
theorem C13_split_lines_inverse (dl : Char) (ps : List (List Char)) (hne : ps ≠ []) (hp : ∀ p, p ∈ ps → dl ∉ p) :
    T.splitDelim dl (T.joinWith dl ps) = ps :=
  T.splitDelim_joinWith dl ps hne hp

example : ([['a', 'b'], [], ['c']] : List (List Char)) ≠ [] ∧
    ∀ p, p ∈ ([['a', 'b'], [], ['c']] : List (List Char)) → '\n' ∉ p := by decide
example : T.joinWith '\n' [['a', 'b'], [], ['c']] = "ab\n\nc".toList := by decide

/-! ### the model on text that no serialiser wrote (examples only, no theorem – see below) -/

/-- a nullary rule written with and without parentheses is the same rule; missing header sections are fine -/
example : parseTimbuk "Transitions\na() -> q\na -> q\nf(q, q)->q" =
    .ok ⟨"", [], [], [], [([], "a", "q"), (["q", "q"], "f", "q")]⟩ := rfl
/-- malformed text is answered by `.error` (the model of `throw`) -/
example : parseTimbuk "" = .error "parse_timbuk: Transitions not specified" := rfl
example : TimbukTest.rejects "Transitions\na(b -> q\n" = true ∧ TimbukTest.rejects "Transitions\na b -> q\n" = true ∧
    TimbukTest.rejects "Transitions\n-> q\n" = true := by decide

/-! ### text layer and dictionary layer together (explicit tree automaton) -/

/-- **the first two clauses of C13 for the explicit tree encoding, in one statement.**  For every well-formed description
`d`: (1) parsing its serialisation gives back the same final states and rules; (2) loading `d` (fresh dictionaries), dumping
the automaton to TEXT with the dictionaries of the load, loading that text again (fresh state dictionary, the alphabet as
the first load left it) and dumping once more yields the same final states and rules under the same state names; every step
of the chain succeeds -/
theorem C13_statement_explicit (d : AutDesc) (hwf : d.WellFormed) :
    (∃ d', parseTimbuk (serialize d) = .ok d' ∧ d'.final ≈ d.final ∧ d'.trans ≈ d.trans) ∧
    (∃ A sd yd txt A' sd' yd' d₃, loadTA d [] [] = .ok (A, sd, yd) ∧ dumpString A sd yd = .ok txt ∧
      loadString txt [] yd = .ok (A', sd', yd') ∧ dumpTA A' sd' yd' = .ok d₃ ∧
      d₃.final ≈ d.final ∧ d₃.trans ≈ d.trans) :=
  ⟨C13_parse_serialize d hwf, C13_text_roundtrip d hwf⟩

example : TimbukEx.exD.WellFormed ∧ TimbukEx.exE.WellFormed := by decide

/-!
## closed since the last refresh of this file

* **"Dump / load through the four encodings … not modelled at all"** – closed for the **explicit tree automaton**
  (`Vata/Properties/C13_LoadDump.lean`, model `Vata/LoadDump.lean`): `C13_load_numbering`, `C13_dictionary_two_way`,
  `C13_load_dump_roundtrip`, `C13_load_dump_exact`, `C13_dump_text_load_dump`, `C13_text_roundtrip`, composed with the text
  layer in `C13_statement_explicit`; as a language equivalence: `C19_dump_reload_equivalent`.
  For the **explicit finite automaton** the round trip WITH several start symbols per state is `C10_start_load_spec`,
  `C10_start_dump_load` (`Vata/Properties/C10_StartSymbols.lean`; dictionaries abstracted to a pair of inverse functions).
  For the two **BDD encodings** the table level is closed – loading a rule list with `AddTransition` and reading the table back
  is the identity on rules and language (`C08_load_dump`, `C08_bu_load_dump`) – and so is the symbol encoding
  (`Util_Glue_asgn_ofNum_limits`: `SymbolicVarAsgn(16, f)` is the assignment of the table models;
  `Util_Glue_asgn_string_roundtrip`: string constructor and `ToString` are inverse, the constructor throws exactly on a
  character other than `0`, `1`, `X`).
* **The dictionary classes**: in every history inside its contract a `TwoWayDict` is a bijection between its two maps
  (`Util_Glue_dict_history`, `Util_Glue_dict_ctor_from_map`); `TranslatorWeak` is the lookup-or-create of the load model
  (`Util_Glue_weak_is_unionModel`, third component), stays injective for a fresh answer (`Util_Glue_weak_injective`);
  `TranslatorStrict` is a pure lookup that throws on a miss (`Util_Glue_strict_pure`).
* **`Convert::FromString<int>`** (the ranks of the `Ops` line): `FromString(ToString(x)) = x` for every integer type, and the
  exact set of accepted strings (`Util_Glue_convert_roundtrip`, `Util_Glue_convert_accepts`).
* **A piece of the robustness clause**, for the command line in front of the parser: `parseArguments` is total into
  "`Arguments` or `std::runtime_error`" and never reads outside `argv`; the `-o` loop never calls `substr` out of range
  (`Util_CliArgs_parse_total`, `Util_CliArgs_parse_in_bounds`, `Util_CliArgs_option_loop_in_range`) – theorems about the models
  of `cli/parse_args.cc`, compared with the real code token by token.

## not yet proved

* **Dump / load of the other three encodings as coded.**  `loadFromAutDescInternal` / `dumpToAutDescInternal` of the explicit
  finite automaton and of the two BDD encodings are different code (start-state symbols; symbols as bit vectors handed out
  by the symbol dictionary); what is proved for them is the level below (tables, start-symbol map, symbol assignment) with
  the dictionaries as parameters, not the loaders themselves.  For the explicit tree automaton the correspondence of
  `loadTA` / `dumpTA` with the C++ was probed on the examples of `Vata.LoadDumpTest` only, and which exception text comes
  first when several translations are missing is not modelled (hash order).
* **A pre-filled state dictionary** is unsafe: `LoadFromAutDesc (desc, stateDict)` restarts the state counter at 0
  (`C13_prefilled_state_dictionary_clash`, a finding; with the counter at the size of the dictionary the round trip holds,
  `C13_counter_at_size_roundtrip`).  The same pattern in `DiscontBinaryRelation(rel, dict)`: `BinRel.BinRelEx.counter_restarts_at_zero`.
  `TwoWayDict::Insert` outside its contract breaks the bijection silently under `NDEBUG` (`Util_Glue_dict_contract_needed`).
* **Robustness on arbitrary input** ("never crash, hang or corrupt memory", for all byte strings): a claim about the
  compiled C++ that no theorem about a Lean model can establish.  The model parser is total into `Except` by construction;
  there is no theorem that the model returns `.error` *exactly* on the texts on which the C++ throws (that is the
  correspondence check on generated and mutated inputs), and no general theorem characterising the rejected texts (e.g.
  "no `Transitions` line ⇒ `.error`") – only the executed examples above and the `#guard`s of `Vata/Timbuk.lean`.
* **Text not produced by the serialiser**: the round trip is `parse ∘ serialise` only.  There is no theorem for nullary
  rules written *with* parentheses, for other white-space layouts, section orders or repeated / missing sections
  (examples and `#guard`s only), and no theorem `serialise ∘ parse` (that re-serialising a parsed text yields a text that
  parses to the same description).
* Descriptions that are **not** `WellFormed` (empty names, names containing `( ) , :`, `->` or white space, ranks outside
  `int`): no statement; they do not round-trip in general (`TimbukEx.exBad`).
* `parseTimbukBytes` (the parser on raw bytes) has no theorem of its own; the byte ↦ code point embedding is described in
  `Vata/Timbuk.lean` only.
-/
end Vata.Props
