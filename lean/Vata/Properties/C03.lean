import Vata.Lang
import Vata.Spec
import Vata.Proofs.RunBridge
import Vata.Proofs.TrimModel
import Vata.Proofs.PropAux
import Vata.Proofs.UsefulAux
import Vata.Properties.RefTotal
/-!
# C03 – Trimming preserves the language and leaves no dead states; emptiness is exact

> RemoveUnreachableStates and RemoveUselessStates return an automaton with the same language as their input.  After
> RemoveUnreachableStates every state that still occurs is reachable top-down from a final state; after
> RemoveUselessStates every remaining state and rule takes part in some accepting run.  IsLangEmpty returns true exactly
> when the automaton accepts no tree.

## How the statement is read into the model

* **Specification (L0, `Vata/Spec.lean`).**  `accepts` is the language; `Occurs A q` = "`q` still occurs" (in the final
  set, as a parent or as a child of a rule); `TdReachable A q` = reachable top-down from a final state (inductive);
  runs are explicit objects `RunT`, `AcceptingRun A ρ`, and `UsefulState A q` / `UsefulRule A r` = "takes part in some
  accepting run" (`∃ ρ, AcceptingRun A ρ ∧ ρ.hasState q` / `ρ.hasRule r`); `Productive A q` = some tree reaches `q`.
  `LangEmpty A = ∀ t, accepts A t = false`.
* **Models of the code (`Vata/Ref.lean`).**  `removeUnreachable` (top-down work-list `tdReach` from the final states;
  keeps the rules with a reachable parent, copies the final set) models `RemoveUnreachableStates` *without* the
  "nothing changed" shortcut that compares two set sizes (defect D2 of the unchanged tree; the repaired code compares
  the sets, which makes the shortcut an optimisation that returns a sharing copy of the same automaton).
  `removeUseless` (bottom-up productivity `prodStates`, restriction of rules and final states, then
  `removeUnreachable`) models `RemoveUselessStates`.  `IsLangEmpty` is "no final state survives useless-state
  removal": `(removeUseless A).final = []`, equivalently `isEmptyRef A`.
* **Checkers / reference.**  `allReachableB`, `allUsefulB` are the Boolean post-condition checks applied to the
  automata the real code returns; they *decide* the two post-conditions of the statement (`C03_postcondition_checkers_sound`
  and `C03_postcondition_checkers_complete`: a state that takes part in an accepting run is productive and reachable
  top-down, `Vata/Proofs/UsefulAux.lean`), so a `false` of a checker on an output of the real code is a genuine violation.
  `equivM`, `emptyM` (`Vata/Lang.lean`) are the exact language deciders the outputs are compared with.
-/
namespace Vata.Props
open Vata

/-! ### `RemoveUnreachableStates` -/

/-- same language -/
theorem C03_removeUnreachable_lang (A : TA) : LangEq (removeUnreachable A) A := fun t => removeUnreachable_lang A t

example : (removeUnreachable TrimEx.exA).rules = [⟨0, [], 0⟩, ⟨1, [0, 0], 1⟩, ⟨2, [2], 3⟩] ∧ TrimEx.exA.rules.length = 5 := by
  decide

/-- every state that still occurs is reachable top-down from a final state -/
theorem C03_removeUnreachable_post (A : TA) (q : Nat) (h : Occurs (removeUnreachable A) q) :
    TdReachable (removeUnreachable A) q := removeUnreachable_post A q h

example : Occurs (removeUnreachable TrimEx.exA) 2 := Or.inr ⟨⟨2, [2], 3⟩, by decide, Or.inr (by decide)⟩

/-! ### `RemoveUselessStates` -/

/-- same language -/
theorem C03_removeUseless_lang (A : TA) : LangEq (removeUseless A) A := fun t => removeUseless_lang A t

example : (removeUseless TrimEx.exA).rules = [⟨0, [], 0⟩, ⟨1, [0, 0], 1⟩] ∧ (removeUseless TrimEx.exA).final = [1] ∧
    accepts TrimEx.exA TrimEx.exT = true := by decide

/-- every remaining state and every remaining rule takes part in some accepting run -/
theorem C03_removeUseless_post (A : TA) :
    (∀ q, Occurs (removeUseless A) q → UsefulState (removeUseless A) q) ∧
    (∀ r, r ∈ (removeUseless A).rules → UsefulRule (removeUseless A) r) :=
  ⟨removeUseless_post_state A, removeUseless_post_rule A⟩

example : Occurs (removeUseless TrimEx.exA) 0 ∧ (⟨1, [0, 0], 1⟩ : Rule) ∈ (removeUseless TrimEx.exA).rules :=
  ⟨Or.inr ⟨⟨1, [0, 0], 1⟩, by decide, Or.inr (by decide)⟩, by decide⟩

/-! ### `IsLangEmpty` -/

/-- "no final state survives useless-state removal" holds exactly when no tree is accepted; `isEmptyRef` is the same
test without building the automaton -/
theorem C03_emptiness_exact (A : TA) :
    ((removeUseless A).final = [] ↔ LangEmpty A) ∧ (isEmptyRef A = true ↔ LangEmpty A) :=
  ⟨(PropAux.removeUseless_final_nil A).trans (isEmptyRef_iff A), isEmptyRef_iff A⟩

example : (removeUseless TrimEx.exEmpty).final = [] ∧ TrimEx.exEmpty.final = [3] ∧ TrimEx.exEmpty.rules.length = 3 := by decide
example : isEmptyRef TrimEx.exA = false := by decide

/-! ### the two fixed points the models compute are the specified sets -/

/-- the bottom-up work-list computes exactly the productive states, the top-down one exactly the states reachable
from a final state; acceptance and productivity agree with the run objects of the specification -/
theorem C03_worklists_exact (A : TA) :
    (∀ q, q ∈ prodStates A ↔ Productive A q) ∧ (∀ q, q ∈ tdReach A ↔ TdReachable A q) ∧
    (∀ q, Productive A q ↔ ∃ ρ : RunT, ρ.valid A = true ∧ ρ.root = q) ∧
    (∀ t, accepts A t = true ↔ ∃ ρ, AcceptingRun A ρ ∧ ρ.tree = t) :=
  ⟨prodStates_iff A, tdReach_iff A, productive_iff_run A, accepts_iff_run A⟩

example : prodStates TrimEx.exA = [0, 4, 1, 5] ∧ tdReach TrimEx.exA = [1, 3, 0, 2] := by decide

/-! ### checkers applied to the output of the real code, and the reference deciders -/

/-- the Boolean post-condition checks are sound for the specification notions -/
theorem C03_postcondition_checkers_sound (A : TA) :
    (allReachableB A = true → ∀ q, Occurs A q → TdReachable A q) ∧
    (allUsefulB A = true → (∀ q, Occurs A q → UsefulState A q) ∧ (∀ r, r ∈ A.rules → UsefulRule A r)) :=
  ⟨allReachableB_sound A, allUsefulB_sound A⟩

example : allReachableB (removeUnreachable TrimEx.exA) = true ∧ allReachableB TrimEx.exA = false ∧
    allUsefulB (removeUseless TrimEx.exA) = true ∧ allUsefulB (removeUnreachable TrimEx.exA) = false := by decide

/-- … and complete: the checks answer `true` on every automaton that satisfies the post-condition, so together with
soundness they decide it.  For "no useless state or rule" the usefulness of the occurring states suffices (it implies
that of the rules, third component); the key fact is that a state taking part in an accepting run is productive and
reachable top-down from a final state (fourth component) -/
theorem C03_postcondition_checkers_complete (A : TA) :
    ((∀ q, Occurs A q → TdReachable A q) → allReachableB A = true) ∧
    ((∀ q, Occurs A q → UsefulState A q) → allUsefulB A = true) ∧
    ((∀ q, Occurs A q → UsefulState A q) → ∀ r, r ∈ A.rules → UsefulRule A r) ∧
    (∀ q, UsefulState A q → Productive A q ∧ TdReachable A q) :=
  ⟨UsefulAux.allReachableB_complete, UsefulAux.allUsefulB_complete, UsefulAux.usefulRule_of_states,
    fun _ h => UsefulAux.usefulState_good h⟩

-- the hypothesis holds for the output of the model (and the checker then must answer `true`); on the untrimmed input
-- the checker answers `false`, hence – by completeness – some occurring state is NOT useful: a genuine violation
example : ∀ q, Occurs (removeUseless TrimEx.exA) q → UsefulState (removeUseless TrimEx.exA) q :=
  removeUseless_post_state TrimEx.exA
example : ¬ ∀ q, Occurs TrimEx.exA q → UsefulState TrimEx.exA q :=
  fun h => absurd ((C03_postcondition_checkers_complete TrimEx.exA).2.1 h) (by decide)

/-- the checkers decide the post-conditions of the statement -/
theorem C03_postcondition_checkers_exact (A : TA) :
    (allReachableB A = true ↔ ∀ q, Occurs A q → TdReachable A q) ∧
    (allUsefulB A = true ↔ (∀ q, Occurs A q → UsefulState A q) ∧ (∀ r, r ∈ A.rules → UsefulRule A r)) :=
  ⟨UsefulAux.allReachableB_iff A, ⟨allUsefulB_sound A, fun h => UsefulAux.allUsefulB_complete h.1⟩⟩

example : allReachableB (removeUnreachable TrimEx.exA) = true ∧ allUsefulB (removeUnreachable TrimEx.exA) = false := by decide

/-- every verdict of the reference deciders for language equality and emptiness is exact -/
theorem C03_reference_exact (A B : TA) (fuel : Nat) (b : Bool) :
    (equivM A B fuel = some b → (b = true ↔ LangEq A B)) ∧ (emptyM A fuel = some b → (b = true ↔ LangEmpty A)) :=
  ⟨equivM_iff A B fuel b, emptyM_iff A fuel b⟩

example : equivM (removeUseless TrimEx.exA) TrimEx.exA 10 = some true ∧ emptyM TrimEx.exEmpty 10 = some true ∧
    emptyM TrimEx.exA 10 = some false := by decide

/-! ### the models pass the reference, and the reference answers -/

/-- above the explicit fuel bounds of `C03_reference_total` the exact deciders answer, and on the outputs of the models
they answer what the property says: the two trimmed automata are equivalent to the input, and the emptiness decider
returns exactly the verdict of the model of `IsLangEmpty` -/
theorem C03_models_pass_reference (A : TA) (fuel : Nat) :
    (fuelBoundM [removeUnreachable A, A] ≤ fuel → equivM (removeUnreachable A) A fuel = some true) ∧
    (fuelBoundM [removeUseless A, A] ≤ fuel → equivM (removeUseless A) A fuel = some true) ∧
    (fuelBoundM [A] ≤ fuel → emptyM A fuel = some (isEmptyRef A)) := by
  refine ⟨fun hf => ?_, fun hf => ?_, fun hf => ?_⟩
  · obtain ⟨b, hb, e⟩ := (C03_reference_total (removeUnreachable A) A fuel).1 hf
    rw [hb, e.mpr (C03_removeUnreachable_lang A)]
  · obtain ⟨b, hb, e⟩ := (C03_reference_total (removeUseless A) A fuel).1 hf
    rw [hb, e.mpr (C03_removeUseless_lang A)]
  · obtain ⟨b, hb, e⟩ := (C03_reference_total A A fuel).2 hf
    rw [hb]
    congr 1
    rw [Bool.eq_iff_iff, e, (C03_emptiness_exact A).2]

example : fuelBoundM [removeUseless TrimEx.exA, TrimEx.exA] ≤ 256 ∧ fuelBoundM [TrimEx.exEmpty] ≤ 8 ∧
    emptyM TrimEx.exEmpty 8 = some true ∧ isEmptyRef TrimEx.exEmpty = true := ⟨by decide, by decide, by decide, by decide⟩

/-!
## closed since the last refresh of this file

* "No totality theorem for the reference deciders `equivM`, `emptyM`": `C03_reference_total`
  (`Vata/Properties/RefTotal.lean`; bounds `fuelBoundM [A, B]`, `fuelBoundM [A]`), composed with the models in
  `C03_models_pass_reference`.  The post-condition checkers and `isEmptyRef` are total functions.
* The sharing copy returned by the "nothing changed" shortcut (and by `RemoveUselessStates` with nothing to remove) is an
  operation of the extended heap model of C11: `shareAll` / `shareClusters`, `C11_ext_sharing_results`,
  `C11_ext_result_survives` – the result keeps its value whatever is done to the operand afterwards.
* The same two operations on the BDD encodings are proved to compute `removeUnreachable` / `removeUseless` of this file
  on the abstract automaton (`C08_td_trim`, `C08_bu_trim` in `Vata/Properties/C08_Tables.lean`).

## not yet proved

* The "unchanged automaton" shortcut of `RemoveUnreachableStates` (return a sharing copy when every rule-owning state
  is reachable) is not a separate branch of `removeUnreachable`.  With the repaired set comparison it fires only when
  the filter of the model keeps every rule, so the model covers it; but "the shortcut fires only in that case" is a
  fact about the C++ that is established by the correspondence check, not by a theorem.  (In the heap model of C11 the
  set of kept states is a parameter `keep`, not computed.)
* The work-list bookkeeping of `RemoveUselessStates` (`remaining` counters per rule) is modelled by rounds
  (`prodIter`), not step by step; only the computed sets are proved to be the specified ones (`C03_worklists_exact`).
* The totality bounds of the reference deciders are exponential worst-case bounds, not tight.
-/
end Vata.Props
