import Vata.Lang
import Vata.Spec
import Vata.TrimCodedSeeds
import Vata.Proofs.TrimCodedSeeds
import Vata.Properties.C03_Coded
/-!
# C03 (coded, seeded changes) – two seeded changes of `RemoveUselessStates` as theorems about the coded work-list

> RemoveUnreachableStates and RemoveUselessStates return an automaton with the same language as their input.  After
> RemoveUselessStates every remaining state and rule takes part in some accepting run.

## How the C++ is read into the model

The model is the one of `Vata/TrimCoded.lean` (`src/explicit_tree_useless.cc`, see the header of
`Vata/Properties/C03_Coded.lean`); the two seeded changes are variants of it (`Vata/TrimCodedSeeds.lean`):

* (a) `uselessLeafOnce`: `reachableTransitions.push_back(info)` of the leaf branch of the first loop moved inside
  `if (reachableStates.insert(parent).second) { … }` (`initStepLeafOnce`; the rest of the function is the same code).
* (b) `uselessDistinctVsLength = uselessWith decLen testOwners`: `remaining -= children_->size()` when a transition
  fires, `++remaining` per element of the `std::set childrenSet_` (distinct child) at registration.

## Abstracted

As in `Vata/Properties/C03_Coded.lean` (pointer structure, hash orders = list orders, `pTranslMap`).
-/
namespace Vata.Props
open Vata Vata.TrimCoded

/-! ### (a) the leaf transition recorded only for a newly reached state -/

/-- `l1 → 0`, `l2 → 0`, `h(1) → 1`, final `0`: state `0` has two leaf rules; the unproductive rule `h(1) → 1` keeps
`remaining` at 1, so the result is rebuilt from `reachableTransitions` -/
def CodedEx.seedLeaf : TA := ⟨[⟨0, [], 0⟩, ⟨1, [], 0⟩, ⟨2, [1], 1⟩], [0]⟩

/-- seeded change (a) loses the tree `l2` of the language: only the first leaf transition of state `0` is in
`reachableTransitions`, the counter is not 0, and the rebuilt automaton has the single rule `l1 → 0`; the code as
written keeps both leaf rules -/
theorem C03_coded_seed_leaf_once :
    (finalStLeafOnce CodedEx.seedLeaf).rtrans = [0] ∧ (finalStLeafOnce CodedEx.seedLeaf).remaining = 1 ∧
    (uselessLeafOnce CodedEx.seedLeaf).rules = [⟨0, [], 0⟩] ∧
    accepts CodedEx.seedLeaf (.node 1 []) = true ∧
    accepts (uselessLeafOnce CodedEx.seedLeaf) (.node 1 []) = false ∧
    (finalSt decOne CodedEx.seedLeaf).rtrans = [0, 1] ∧
    (uselessCoded CodedEx.seedLeaf).rules = [⟨0, [], 0⟩, ⟨1, [], 0⟩] ∧
    accepts (uselessCoded CodedEx.seedLeaf) (.node 1 []) = true ∧
    noTwoLeafB CodedEx.seedLeaf = false := by decide

/-- the general characterisation of (a): on every automaton in which no state has two leaf rules (`noTwoLeafB`: two
leaf rules at different positions of the rule list have different parents) the variant returns the SAME automaton as
the coded function (equal rule lists and final-state lists).  The hypothesis cannot be dropped:
`C03_coded_seed_leaf_once`. -/
theorem C03_coded_seed_leaf_once_agrees (A : TA) (h : noTwoLeafB A = true) : uselessLeafOnce A = uselessCoded A :=
  uselessLeafOnce_eq h

/-- consequently the variant is correct on these automata: same language, everything useful -/
theorem C03_coded_seed_leaf_once_correct (A : TA) (h : noTwoLeafB A = true) :
    LangEq (uselessLeafOnce A) A ∧ (∀ r, r ∈ (uselessLeafOnce A).rules → UsefulRule (uselessLeafOnce A) r) := by
  rw [uselessLeafOnce_eq h]
  exact ⟨C03_coded_useless_lang A, (C03_coded_useless_post A).2⟩

-- non-vacuity: `exA` satisfies the hypothesis and is changed by the function
example : noTwoLeafB TrimEx.exA = true ∧ (uselessLeafOnce TrimEx.exA).rules = [⟨1, [0, 0], 1⟩, ⟨0, [], 0⟩] ∧
    TrimEx.exA.rules.length = 5 := by decide

/-! ### (b) incremented per distinct child, decremented by the tuple length -/

/-- `l → 0` (a), `f(0,0) → 1` (q), `g(2) → 1` (c = 2 without rules), final `1` -/
def CodedEx.seedLen : TA := ⟨[⟨0, [], 0⟩, ⟨1, [0, 0], 1⟩, ⟨2, [2], 1⟩], [1]⟩

/-- seeded change (b): `f(0,0)` is registered once (one distinct child) but subtracts 2 when it fires, so the
counter reaches 0 although `g(2) → 1` never fired; the branch `if (!remaining)` shares the input's transitions, the
owner test of `RemoveUnreachableStates` lets everything through, and the useless rule `g(2) → 1` / state `2`
stay: `allUsefulB` of the result is false.  The code as written ends with `remaining = 1` and removes them. -/
theorem C03_coded_seed_distinct_vs_length :
    (finalSt decLen CodedEx.seedLen).remaining = 0 ∧
    (finalSt decLen CodedEx.seedLen).rtrans = [0, 1] ∧
    (uselessDistinctVsLength CodedEx.seedLen).rules = [⟨0, [], 0⟩, ⟨1, [0, 0], 1⟩, ⟨2, [2], 1⟩] ∧
    allUsefulB (uselessDistinctVsLength CodedEx.seedLen) = false ∧
    noRepeatedKidB CodedEx.seedLen = false ∧
    (finalSt decOne CodedEx.seedLen).remaining = 1 ∧
    (uselessCoded CodedEx.seedLen).rules = [⟨0, [], 0⟩, ⟨1, [0, 0], 1⟩] ∧
    allUsefulB (uselessCoded CodedEx.seedLen) = true := by decide

/-- `l → 0`, `l → 1`, `f(0,1) → 2`, final `2`: no repeated child.  Here variant (b) takes the sharing branch
(`remaining = 2 - 2 = 0`) while the coded function rebuilds (`remaining = 2 - 1 = 1`); both return the same rules
(the lists may differ in order in general: the rebuilt list is in firing order) -/
example : noRepeatedKidB ⟨[⟨0, [], 0⟩, ⟨0, [], 1⟩, ⟨1, [0, 1], 2⟩], [2]⟩ = true ∧
    (finalSt decLen ⟨[⟨0, [], 0⟩, ⟨0, [], 1⟩, ⟨1, [0, 1], 2⟩], [2]⟩).remaining = 0 ∧
    (finalSt decOne ⟨[⟨0, [], 0⟩, ⟨0, [], 1⟩, ⟨1, [0, 1], 2⟩], [2]⟩).remaining = 1 ∧
    (uselessDistinctVsLength ⟨[⟨0, [], 0⟩, ⟨0, [], 1⟩, ⟨1, [0, 1], 2⟩], [2]⟩).rules =
      (uselessCoded ⟨[⟨0, [], 0⟩, ⟨0, [], 1⟩, ⟨1, [0, 1], 2⟩], [2]⟩).rules := by decide

/-- PARTIAL general statement for (b) (the full one is in "still not proved"): whatever is subtracted from
`remaining`, the two loops compute the same `reachableStates`, `reachableTransitions` and `TransitionInfo`s as the code
as written and end with an empty work-list; so the variant returns the SAME automaton whenever its test
`if (!remaining)` goes the same way as in the code as written.  (No hypothesis on `A`; what is missing is that on
automata without repeated children a DIFFERENT outcome of the test still gives the same set of rules.) -/
theorem C03_coded_seed_distinct_vs_length_partial (A : TA) :
    (finalSt decLen A).reach = (finalSt decOne A).reach ∧ (finalSt decLen A).rtrans = (finalSt decOne A).rtrans ∧
    (finalSt decLen A).infos = (finalSt decOne A).infos ∧ (finalSt decLen A).work = [] ∧
    (((finalSt decLen A).remaining == 0) = ((finalSt decOne A).remaining == 0) →
      uselessDistinctVsLength A = uselessCoded A) := by
  obtain ⟨m, hm⟩ := finalSt_setRem decLen A
  refine ⟨by rw [hm]; rfl, by rw [hm]; rfl, by rw [hm]; rfl, by rw [hm]; exact finalSt_work A, ?_⟩
  intro h
  unfold uselessDistinctVsLength uselessCoded uselessWith finish
  rw [hm] at h ⊢
  simp only [St.setRem] at h ⊢
  by_cases h0 : ((finalSt decOne A).remaining == 0) = true
  · have h1 : (m == 0) = true := h.trans h0
    simp only [h0, h1, if_true]
  · have h0' : ((finalSt decOne A).remaining == 0) = false := by simpa using h0
    have h1 : (m == 0) = false := h.trans h0'
    simp only [h0', h1, Bool.false_eq_true, if_false]

/-!
## still not proved

* The general statement for (b) is NOT proved:
  `∀ A, noRepeatedKidB A = true → TAEquiv (uselessDistinctVsLength A) (uselessCoded A)` (same final states, same set
  of rules; list equality is false in general because the two functions may take different branches of
  `if (!remaining)`, see the last example, and the rebuilt list is in firing order).  Missing: the counter invariant
  of the variant (`remaining` = sum of the tuple lengths of the registered transitions that have not fired; the
  invariant `Inv.cnt` of `Vata/Proofs/TrimCodedLoop.lean` is proved only for `dec r ≤ 1`) and the weighted pigeonhole
  "the sum over the fired transitions reaches the sum over all ⇒ all fired".  Proved is only
  `C03_coded_seed_distinct_vs_length_partial` (the loops do not depend on `dec`; equal results when the test
  `if (!remaining)` goes the same way) and the `decide`d instances above.
* For (a) the agreement is proved under `noTwoLeafB`; nothing is claimed about the variant on automata WITH two leaf
  rules of one state beyond the `decide`d counterexample (e.g. that it loses exactly the later leaf rules of a state
  when it rebuilds, and nothing when `remaining == 0`).
* The correspondence "variant = the C++ with the seeded change" is established by running the seeded library
  (round 6/7 sweep), not by proof.
-/
end Vata.Props
