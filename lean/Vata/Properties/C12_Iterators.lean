import Vata.Proofs.StoreIter
/-!
# C12 / C20 – the iterator protocol of the rule container

Topic file beside `Vata/Properties/C12.lean` and `Vata/Properties/C20.lean`.

`C12.lean` proves what a COMPLETE traversal yields, with the three traversals given as list-valued views of the store
(`Store.iterate`, `Store.acceptTrans`, `Store.down`).  Here the C++ iterator OBJECTS are modelled
(`Vata/StoreIter.lean`): `ExplicitTreeAutCoreUtil::Iterator`, `AcceptTransIterator` and `DownAccessorIterator` as state
machines over a store – `begin()` (`begin`, `acceptBegin`, `downBegin`), `operator++` (`iterStep`, `acceptStep`,
`downStep`, lifted to `Machine.next`), `operator*` (`iterGet`, …, lifted to `Machine.deref`), comparison with `end()`
(the state `.fin`) – mirroring the control flow of the C++, including the places where `operator++`, `init()` and the
constructors take `begin()` of an inner container and dereference it without an emptiness test.  Executing such a step on
an empty container, incrementing a past-the-end inner iterator and incrementing `end()` lead to the state `.stuck`;
`operator*` on a position in an empty tuple set is `none`.

## How the statement is read into the model

* `(M).posAt n` is the iterator object after `n` increments of `begin()`; `Machine.traverse` / `iterAll` / `acceptAll` /
  `downAll` is the loop `for (it = begin(); it != end(); ++it) out.push_back(*it);` with outcome `done out` (reached
  `end()`), `stuck out` (undefined behaviour after `out`) or `more out` (fuel exhausted).
* Histories, the specification `specRun` and the store `run ops` are those of `C12.lean`.
* The order of a traversal is the storage order of the model (insertion order); the real order is the hash order of
  `unordered_map`.  What is proved about order is that the iterator objects follow the storage order of the container
  they walk – `operator*` after `n` increments is the `n`-th element of the list view – not that this order equals the
  real one.
-/
namespace Vata.Props
open Vata Vata.Store

/-! ### `Iterator` (`begin()` … `end()` of the automaton) -/

/-- For every history: the `n`-th increment of `begin()` (`n` below the number of stored rules) is a proper position –
neither `end()` nor stuck – whose `operator*` is the `n`-th rule of the view `iterate`; after exactly `|iterate|`
increments the iterator equals `end()`; and the range-`for` loop terminates normally having yielded `iterate` in order.
Partial traversals are covered by the first clause. -/
theorem C12_iterator_protocol (ops : List Op) :
    (∀ n (hn : n < (iterate (run ops)).length),
      (∃ a, (iterM (run ops)).posAt n = .at a) ∧
      deref (run ops) ((iterM (run ops)).posAt n) = some (iterate (run ops))[n]) ∧
    (iterM (run ops)).posAt (iterate (run ops)).length = .fin ∧
    iterAll (run ops) = .done (iterate (run ops)) :=
  iter_protocol (noEmpty_of_inv (store_inv ops))

example : (List.range 5).map (iterM (run StoreEx.ops1)).posAt =
    [.at (0, 0, 0), .at (0, 0, 1), .at (1, 0, 0), .at (2, 0, 0), .fin] ∧
    iterAll (run StoreEx.ops1) = .done [StoreEx.r1, StoreEx.r2, StoreEx.r3, StoreEx.r4] := by decide
example : (List.range 5).map (iterM (run IterEx.ops2)).posAt =
    [.at (0, 0, 0), .at (0, 1, 0), .at (0, 1, 1), .at (1, 0, 0), .fin] := by decide

/-- The loop over the iterator object yields each distinct rule added since the last `Clear` exactly once and nothing
else (the first sentence of C12, now for the iterator protocol instead of the list view). -/
theorem C12_iterator_protocol_yields_exact (ops : List Op) :
    ∃ out, iterAll (run ops) = .done out ∧ out.Nodup ∧ ∀ r, r ∈ out ↔ r ∈ (specRun ops).rules :=
  ⟨_, (iter_protocol (noEmpty_of_inv (store_inv ops))).2.2, (iterate_exact ops).1, (iterate_exact ops).2⟩

example : iterAll (run (StoreEx.ops1 ++ [.clear, .add StoreEx.r4])) = .done [StoreEx.r4] := by decide

/-- Iterator comparison: two iterators obtained from `begin()` by different numbers of increments (up to and including
`end()`) are different positions, so `it1 == it2` / `it != end()` identify the progress of a traversal. -/
theorem C12_iterator_protocol_comparison (ops : List Op) {n m : Nat} (hn : n ≤ (iterate (run ops)).length)
    (hm : m ≤ (iterate (run ops)).length) (e : (iterM (run ops)).posAt n = (iterM (run ops)).posAt m) : n = m :=
  iter_positions_distinct (store_inv ops) hn hm e

example : (iterM (run StoreEx.ops1)).posAt 1 ≠ (iterM (run StoreEx.ops1)).posAt 2 := by decide

/-! ### `AcceptTransIterator` (`GetAcceptTrans()`) -/

/-- The same protocol for `AcceptTransIterator` against the view `acceptTrans`: it walks the final states, `find`s the
cluster of each, skips the final states without a cluster, and yields the rules of the found clusters in order. -/
theorem C12_iterator_protocol_acceptTrans (ops : List Op) :
    (∀ n (hn : n < (acceptTrans (run ops)).length),
      (∃ a, (acceptM (run ops)).posAt n = .at a) ∧
      (acceptM (run ops)).deref ((acceptM (run ops)).posAt n) = some (acceptTrans (run ops))[n]) ∧
    (acceptM (run ops)).posAt (acceptTrans (run ops)).length = .fin ∧
    acceptAll (run ops) = .done (acceptTrans (run ops)) :=
  acceptIter_protocol (noEmpty_of_inv (store_inv ops))

/-- final states `[3, 2, 1]`, state 3 has no cluster and is skipped by `init()` -/
example : (List.range 5).map (acceptM (run IterEx.ops2)).posAt =
    [.at (1, 1, 0, 0), .at (2, 0, 0, 0), .at (2, 0, 1, 0), .at (2, 0, 1, 1), .fin] ∧
    acceptAll (run StoreEx.ops1) = .done [StoreEx.r3, StoreEx.r4] := by decide

/-- The loop over `GetAcceptTrans()` yields exactly the present rules whose parent is final, each once. -/
theorem C12_iterator_protocol_acceptTrans_yields_exact (ops : List Op) :
    ∃ out, acceptAll (run ops) = .done out ∧ out.Nodup ∧
      ∀ r, r ∈ out ↔ r ∈ (specRun ops).rules ∧ r.parent ∈ (specRun ops).final :=
  ⟨_, (acceptIter_protocol (noEmpty_of_inv (store_inv ops))).2.2, (acceptTrans_exact ops).1, (acceptTrans_exact ops).2⟩

example : acceptAll (run (StoreEx.ops1 ++ [.eraseFinal])) = .done [] := by decide

/-! ### `DownAccessor` / `DownAccessorIterator` (`GetDown(q)`, `operator[]`) -/

/-- The same protocol for `DownAccessorIterator` against the view `down … q`; `DownAccessor::empty()` is the view
`downEmpty`, and it is true exactly when `begin() == end()`, exactly when the accessor yields nothing. -/
theorem C12_iterator_protocol_down (ops : List Op) (q : Nat) :
    ((∀ n (hn : n < (down (run ops) q).length),
        (∃ a, (downM (run ops) q).posAt n = .at a) ∧
        (downM (run ops) q).deref ((downM (run ops) q).posAt n) = some (down (run ops) q)[n]) ∧
      (downM (run ops) q).posAt (down (run ops) q).length = .fin ∧
      downAll (run ops) q = .done (down (run ops) q)) ∧
    (downIterEmpty (run ops) q = downEmpty (run ops) q ∧
      (downIterEmpty (run ops) q = true ↔ downBegin (run ops) q = .fin) ∧
      (downIterEmpty (run ops) q = true ↔ down (run ops) q = [])) :=
  ⟨downIter_protocol (noEmpty_of_inv (store_inv ops)) q, downIter_empty (store_inv ops) q⟩

example : (List.range 4).map (downM (run IterEx.ops2) 1).posAt = [.at (0, 0), .at (1, 0), .at (1, 1), .fin] ∧
    downAll (run StoreEx.ops1) 1 = .done [StoreEx.r1, StoreEx.r2] ∧ downAll (run StoreEx.ops1) 5 = .done [] ∧
    downIterEmpty (run StoreEx.ops1) 5 = true ∧ downIterEmpty (run StoreEx.ops1) 1 = false := by decide

/-- The loop over `aut[q]` yields exactly the present rules with parent `q`, each once. -/
theorem C12_iterator_protocol_down_yields_exact (ops : List Op) (q : Nat) :
    ∃ out, downAll (run ops) q = .done out ∧ out.Nodup ∧ ∀ r, r ∈ out ↔ r ∈ (specRun ops).rules ∧ r.parent = q :=
  ⟨_, (downIter_protocol (noEmpty_of_inv (store_inv ops)) q).2.2, (down_exact ops q).1, (down_exact ops q).2⟩

/-! ### C20: the unchecked `begin()`s are never taken of an empty container -/

/-- PARTIAL (model-level content of "never dereferences a past-the-end iterator" for the three transition iterators, for
every history of the mutating calls): during a complete traversal – all increments of `begin()` up to and including the
one that reaches `end()` – no step is undefined (no `begin()` of an empty cluster is dereferenced, no past-the-end inner
iterator is incremented, no constructor `assert` fails), and every `operator*` before `end()` dereferences a proper
tuple iterator.  Partial because it is a theorem about the state machines of `Vata/StoreIter.lean` over the value model
of the container; that they transcribe the C++ faithfully, and everything about addresses (iterator invalidation by a
mutating call, comparing a live `std::set` iterator with a value-initialised one as `operator==` does), is outside. -/
theorem C20_iterators_never_dereference_empty_partial (ops : List Op) :
    (∀ n, n ≤ (iterate (run ops)).length →
      (iterM (run ops)).posAt n ≠ .stuck ∧
      (n < (iterate (run ops)).length → (deref (run ops) ((iterM (run ops)).posAt n)).isSome = true)) ∧
    (∀ n, n ≤ (acceptTrans (run ops)).length →
      (acceptM (run ops)).posAt n ≠ .stuck ∧
      (n < (acceptTrans (run ops)).length →
        ((acceptM (run ops)).deref ((acceptM (run ops)).posAt n)).isSome = true)) ∧
    (∀ q n, n ≤ (down (run ops) q).length →
      (downM (run ops) q).posAt n ≠ .stuck ∧
      (n < (down (run ops) q).length →
        ((downM (run ops) q).deref ((downM (run ops) q).posAt n)).isSome = true)) :=
  have hs := noEmpty_of_inv (store_inv ops)
  ⟨fun n hn => iter_safe hs n hn, fun n hn => acceptIter_safe hs n hn, fun q n hn => downIter_safe hs q n hn⟩

/-- four rules: the increments 0 … 4 are not stuck (the 4th is `end()`); incrementing `end()` is -/
example : (∀ n, n < 5 → (iterM (run StoreEx.ops1)).posAt n ≠ .stuck) ∧
    (iterM (run StoreEx.ops1)).posAt 4 = .fin ∧ (iterM (run StoreEx.ops1)).posAt 5 = .stuck := by decide

/-- PARTIAL (the hypothesis is needed and is exactly "no empty inner container"): for ANY store value – not only those
produced by histories – the loop over `Iterator` completes without undefined behaviour if and only if no cluster and no
tuple set is empty; the three concrete stores `bad1` (empty first cluster), `bad2` (an empty tuple set), `bad3` (an empty
later cluster) violate the invariant and make the state machines stuck: on `bad2` the `operator++` onto the empty tuple
set is harmless, the following `operator*` is `none` and the loop stops as `stuck` after one rule. -/
theorem C20_iterators_stuck_without_invariant_partial :
    (∀ s : Store, (∃ fuel out, (iterM s).traverse fuel = .done out) ↔ NoEmpty s) ∧
    (¬ Inv IterEx.bad1 ∧ begin IterEx.bad1 = .stuck ∧ acceptBegin IterEx.bad1 = .stuck ∧
      downBegin IterEx.bad1 1 = .stuck) ∧
    (¬ Inv IterEx.bad2 ∧ next IterEx.bad2 (begin IterEx.bad2) = .at (0, 1, 0) ∧
      deref IterEx.bad2 (.at (0, 1, 0)) = none ∧ next IterEx.bad2 (.at (0, 1, 0)) = .stuck ∧
      (iterM IterEx.bad2).traverse 5 = .stuck [⟨7, [2], 1⟩]) ∧
    (¬ Inv IterEx.bad3 ∧ next IterEx.bad3 (begin IterEx.bad3) = .stuck ∧ acceptBegin IterEx.bad3 = .stuck) := by
  have h := iter_stuck_without_inv
  have hb := IterEx.bad_not_inv
  exact ⟨iter_done_iff, ⟨hb.1, h.1.2.1, h.1.2.2.1, h.1.2.2.2⟩,
    ⟨hb.2.1, h.2.1.2.2.1, h.2.1.2.2.2.1, h.2.1.2.2.2.2.1, h.2.1.2.2.2.2.2.1⟩,
    ⟨hb.2.2.1, h.2.2.2.2.1, h.2.2.2.2.2.2.1⟩⟩

example : NoEmpty (run StoreEx.ops1) := noEmpty_of_inv (store_inv _)

/-!
## what this file closes, and what stays open

Closes, from the "not yet proved" block of `C12.lean`, the item **"Order and iterator protocol"** as far as the iterator
objects are concerned: `begin()`/`end()`, `operator++`, `operator*`, the end state of `Iterator` / `AcceptTransIterator` /
`DownAccessorIterator`, `DownAccessor::empty()`, partial traversals (`posAt n` for every `n`) and iterator comparison
(`C12_iterator_protocol_comparison`) are now modelled and proved against the list views for every history.
Adds to `C20.lean` the iterator clause announced in the doc comment of `C20_store_invariant_partial` ("the transition
iterators of the C++ rely on no empty cluster, no empty tuple set"): it is now a theorem, with its converse.

Still open:
* the real iteration order (hash order of `unordered_map`) versus the insertion order of the model;
* iterator invalidation: an iterator is a triple of indices into ONE store value; what happens to a live iterator when a
  mutating call (or copy-on-write un-sharing) changes the container is not modelled;
* `operator==` of the C++ compares `tupleIterator_` with a value-initialised `TuplePtrSet::const_iterator()` of no
  container; that this comparison is well defined and false for live positions is a property of the standard library,
  modelled here as "the state is `.fin`";
* incrementing `end()` and dereferencing `end()` are `stuck` / `none` in the model (caller errors), nothing is proved about
  callers never doing so;
* that the state machines are faithful transcriptions of the C++ is a matter for the correspondence check of the driver
  (`iterAll`, `acceptAll`, `downAll`, `noEmptyB` are executable), not a theorem.
-/
end Vata.Props
