import Vata.Proofs.BddTraverse
/-!
# C07 – the BDD inclusion algorithms read their automata through MTBDD traversals

`Vata/Properties/C07.lean` proves "every verdict is exact" for models that read the BDD encoding as the identity on `TA`:
where the C++ calls `ForeachUpSymbolFromTupleAndTupleSetDo` / `ForeachDownSymbolFromStateAndStateSetDo`, the models iterate
over "the rules of the automaton", i.e. symbol by symbol.  The code does something else: it unites the MTBDDs of the
right-hand side (`UnionApplyFunctor`), runs a `VoidApply2Functor` over the MTBDD of the left-hand side and the united one, and
calls the inclusion functor once per pair of LEAVES reached – once per *class* of symbols (a path of the combined diagram),
never per symbol, and through a cache of visited node pairs.  `Vata/BddTraverse.lean` models the two traversals as coded on
the table models of C08 (`Vata/BddAbs.lean`, `Vata/BddAbsTD.lean`) and `CheckUpwardTreeInclusion` on top of the upward one;
here are the consequences for C07 (theorems: `Vata/Proofs/BddTraverse.lean`).
-/
namespace Vata.Props
open Vata Vata.M Vata.BddAbs Vata.BddAbsTD Vata.BddTraverse Vata.InclUp

/-- **what the upward traversal enumerates.**  For any tables, tuple `ks` and tuple set: every valuation `ρ` of the symbol
variables lies in exactly one class of the traversal (the paths of the combined MTBDD partition the symbols), and the
callback of that class receives exactly the data the per-symbol loop of the abstract model computes for `ρ`: the left set is
`{p | ρ(ks) → p ∈ A}` (the very leaf, as a sorted vector), the right set is `{q | ρ(k) → q ∈ B, k ∈ tupleSet}` -/
theorem C07_traverse_up_spec (TA TB : Table) (ks : List Nat) (tuples : List (List Nat)) (ρ : Nat → Bool) :
    (travUpP TA TB ks tuples).countP (fun c => inPath ρ c.1) = 1 ∧
    ∀ c, c ∈ travUpP TA TB ks tuples → inPath ρ c.1 = true →
      c.2.1 = eval (TA.get ks) ρ ∧ (∀ p, p ∈ c.2.1 ↔ HasRule TA ρ ks p) ∧
      (∀ q, q ∈ c.2.2 ↔ ∃ k, k ∈ tuples ∧ HasRule TB ρ k q) :=
  foreachUp_spec TA TB ks tuples ρ

-- two symbol bits: four paths for the empty tuple (the class of the symbols 0, 1 of `A` is split because `B` tests bit 0)
#guard (travUpP TravEx.TA2 TravEx.TB2 [] [[]]).map symItem == [(0, [1], [3]), (1, [1], [4]), (2, [1], [3]), (3, [], [4])]
#guard (travUpP TravEx.TA2 TravEx.TB2 [] [[]]).map (fun c => inPath (bits 2) c.1) == [false, false, true, false]

/-- **what the code really calls** (`VoidApply2Functor` with its cache of visited node pairs, cleared per traversal): every
call is the call of one of the classes above, and the pair of leaves of every class is delivered by some call; on ordered
reduced tables over `n` symbol bits no class is empty – it contains the concrete symbol `reprSym π < 2 ^ n`, its smallest -/
theorem C07_traverse_up_calls {n : Nat} (TA TB : Table) (hA : TableWFn n TA) (hB : TableWFn n TB) (ks : List Nat)
    (tuples : List (List Nat)) :
    (∀ c, c ∈ travUp TA TB ks tuples → c ∈ travUpP TA TB ks tuples) ∧
    (∀ c, c ∈ travUpP TA TB ks tuples → ∃ c', c' ∈ travUp TA TB ks tuples ∧ c'.2 = c.2) ∧
    (∀ c, c ∈ travUpP TA TB ks tuples → reprSym c.1 < 2 ^ n ∧ inPath (bits (reprSym c.1)) c.1 = true ∧
      ∀ f, inPath (bits f) c.1 = true → reprSym c.1 ≤ f) :=
  ⟨(travUp_calls TA TB ks tuples).1, (travUp_calls TA TB ks tuples).2, fun _ hc => foreachUp_class_nonempty hA hB ks tuples hc⟩

-- the cache drops the second visit of the pair of leaves `([1], [3])`
#guard (travUp TravEx.TA2 TravEx.TB2 [] [[]]).map symItem == [(0, [1], [3]), (1, [1], [4]), (3, [], [4])]
example : TableWFn 2 TravEx.TA2 ∧ TableWFn 2 TravEx.TB2 := ⟨TravEx.TA2_wf, TravEx.TB2_wf⟩

/-- the united right-hand MTBDD does not depend on the order in which the tuple set is enumerated (`std::set` order in the
code, list order in the model): equal tuple SETS give the identical diagram, hence the same classes -/
theorem C07_traverse_union_order {n : Nat} {T : Table} (hT : TableWFn n T) {l₁ l₂ : List (List Nat)}
    (h : ∀ k, k ∈ l₁ ↔ k ∈ l₂) : unionAll T l₁ = unionAll T l₂ := unionAll_congr hT h

example : unionAll TravEx.TB2 [[3, 3], [4, 4], [4, 3]] = unionAll TravEx.TB2 [[4, 3], [4, 4], [3, 3], [4, 4]] :=
  unionAll_congr TravEx.TB2_wf (by intro k; simp only [List.mem_cons, List.not_mem_nil, or_false]; grind)

/-- **the callback's effect depends only on the two sets.**  For ANY callback whose repetition has no effect (`Idem`: a
successful call marks its pair of leaves, the mark survives later calls, a call on a marked pair changes nothing – a
stopped traversal is an error and ends both runs), on ordered reduced diagrams over `n` variables, these three runs are the
same: (1) the loop over all `2 ^ n` symbols in increasing order, calling the callback with the two leaves the symbol
selects (what the abstract models do); (2) one call per class (path) of the combined diagram; (3) the calls of
`VoidApply2Functor` as coded, with its cache.  The symbol handed to the callback is ghost (used for the witness trees); in (2)
and (3) it is the smallest symbol of the class -/
theorem C07_traverse_symbols_vs_classes {α β σ ε : Type} [DecidableEq α] [DecidableEq β]
    {act : Nat × α × β → σ → Except ε σ} {D : α × β → σ → Prop} (hI : Idem act (fun i => i.2) D) (n : Nat)
    (a : Node α) (b : Node β) (wa : WF a) (wb : WF b) (ba : Below n a) (bb : Below n b) (s : σ) :
    runL act ((List.range (2 ^ n)).map (fun f => (f, eval a (bits f), eval b (bits f)))) s =
      runL act ((voidApply2P a b).map symItem) s ∧
    runL act ((voidApply2Calls a b).map symItem) s = runL act ((voidApply2P a b).map symItem) s := by
  have h1 := symLoop_eq_trav hI n a b 0 wa wb ba bb s
  have h2 := voidApply2Calls_run hI a b reprSym s
  refine ⟨?_, h2⟩
  simpa [symItems, travItems, symItem_eq] using h1

/-- `UpwardInclusionFunctor::operator()` is such a callback: once it has run on `(lhs, rhs)`, every pair `(p, rhs)`, `p ∈ lhs`,
is subsumed by the antichain, stays subsumed, and a second run changes nothing -/
theorem C07_traverse_up_functor_idempotent (FA FB : List Nat) (ts : List Tree) :
    Idem (actUp FA FB ts) (fun i => i.2)
      (fun (k : List Nat × List Nat) (st : InclUpBdd.St) => ∀ p, p ∈ k.1 → Subsumed st.antichain p k.2) :=
  idem_actUp FA FB ts

example : actUp [2] [9] [] (0, [1], [3]) ⟨[], []⟩ = .ok ⟨[⟨1, [3], .node 0 []⟩], [⟨1, [3], .node 0 []⟩]⟩ := rfl
example : actUp [2] [9] [] (7, [1], [3]) ⟨[⟨1, [3], .node 0 []⟩], []⟩ = .ok ⟨[⟨1, [3], .node 0 []⟩], []⟩ := rfl

/-- **refinement, one traversal.**  On ordered reduced tables over `n` symbol bits (a tuple listed once in the table of `A`)
`ForeachUpSymbolFromTupleAndTupleSetDo(A, B, ks, S₁ × … × Sₙ, upFctor)` as coded acts on the antichain and the work-set exactly like
`InclUpBdd.foreachUp` of the abstract model on the dumped automata `absBU [0 … 2ⁿ-1] T F` -/
theorem C07_traverse_up_refines (n : Nat) (TA TB : Table) (FA FB : List Nat) (hA : TableWFn n TA) (hB : TableWFn n TB)
    (hk : TA.keys.Nodup) (ks : List Nat) (Ss : List (List Nat)) (ts : List Tree) (st : InclUpBdd.St) :
    foreachUpT TA TB FA FB ks Ss ts st =
      InclUpBdd.foreachUp (absBU (List.range (2 ^ n)) TA FA) (absBU (List.range (2 ^ n)) TB FB) ks Ss ts
        (absBU (List.range (2 ^ n)) TA FA).rules st :=
  foreachUpT_eq_abs n TA TB FA FB hA hB hk ks Ss ts st

/-- **refinement, the algorithm.**  `CheckUpwardTreeInclusion` run on the transition tables through the symbolic traversals
(`runT`) IS the run of the abstract model `InclUpBdd.run` on the automata the tables denote over all `2 ^ n` symbols – the
same antichain (with the same ghost trees), the same counterexample, the same fuel; hence the uncertified verdict of the
traversal-based algorithm is the certified verdict of `inclUpBdd`, and it is exact -/
theorem C07_traverse_upward_algorithm (n : Nat) (TA TB : Table) (FA FB : List Nat) (hA : TableWFn n TA) (hB : TableWFn n TB)
    (hk : TA.keys.Nodup) (fuel : Nat) :
    runT TA FA TB FB fuel =
      InclUpBdd.run (absBU (List.range (2 ^ n)) TA FA) (absBU (List.range (2 ^ n)) TB FB) fuel ∧
    inclUpTrav TA FA TB FB fuel =
      (inclUpBdd (absBU (List.range (2 ^ n)) TA FA) (absBU (List.range (2 ^ n)) TB FB) fuel).map (·.1) ∧
    (∀ b, inclUpTrav TA FA TB FB fuel = some b →
      (b = true ↔ Incl (absBU (List.range (2 ^ n)) TA FA) (absBU (List.range (2 ^ n)) TB FB))) :=
  ⟨runT_eq_run n TA TB FA FB hA hB hk fuel, inclUpTrav_eq n TA TB FA FB hA hB hk fuel,
    fun _ h => inclUpTrav_iff n TA TB FA FB hA hB hk h⟩

-- both sides evaluated on the two-bit example (runs with their ghost trees), both directions
#guard TravEx.showRun (runT TravEx.TA2 [2] TravEx.TB2 [9] 10) ==
  TravEx.showRun (InclUpBdd.run (absBU (List.range 4) TravEx.TA2 [2]) (absBU (List.range 4) TravEx.TB2 [9]) 10)
#guard inclUpTrav TravEx.TA2 [2] TravEx.TB2 [9] 10 == some true && inclUpTrav TravEx.TB2 [9] TravEx.TA2 [2] 10 == some false
example : TravEx.TA2.keys.Nodup := TravEx.TA2_keys

/-- **loaded automata** (`AddTransition` for every rule, 16-bit symbols; C08 gives `HasRule (ofRules rs) … ↔ rule ∈ rs`): the
hypotheses above hold, and every verdict of the traversal-based upward algorithm on the loaded tables is exact for the
automata that were loaded -/
theorem C07_traverse_upward_loaded (A B : TA) (hA : ∀ r, r ∈ A.rules → r.sym < 2 ^ 16) (hB : ∀ r, r ∈ B.rules → r.sym < 2 ^ 16) :
    (TableWFn 16 (ofRules A.rules) ∧ TableWFn 16 (ofRules B.rules) ∧ (ofRules A.rules).keys.Nodup) ∧
    ∀ fuel b, inclUpTrav (ofRules A.rules) A.final (ofRules B.rules) B.final fuel = some b → (b = true ↔ Incl A B) :=
  ⟨⟨tableWF_ofRules _, tableWF_ofRules _, keys_ofRules _⟩, fun _ _ h => inclUpTrav_ofRules A B hA hB h⟩

-- the automata of defect D9 (`g(a,b)`), loaded into 16-bit tables: `false`, the converse `true`
#guard inclUpTrav (ofRules BddAbsEx.rsA) [2] (ofRules BddAbsEx.rsB) [9] 10 == some false
#guard inclUpTrav (ofRules BddAbsEx.rsB) [9] (ofRules BddAbsEx.rsA) [2] 10 == some true
example : (∀ r, r ∈ BddAbsEx.rsA → r.sym < 2 ^ 16) ∧ (∀ r, r ∈ BddAbsEx.rsB → r.sym < 2 ^ 16) := ⟨by decide, by decide⟩

/-- **what the downward traversal enumerates.**  For any top-down tables, state `p` and state set `P`: every valuation `ρ` of
the 16 symbol and 6 arity variables lies in exactly one class, whose callback receives `{ks | ρ(ks) → p ∈ A}` and
`{ks | ρ(ks) → q ∈ B, q ∈ P}`; the calls of the code (with the cache) are calls of these classes and deliver every pair of
leaves; and for a callback whose repetition has no effect the cache is transparent -/
theorem C07_traverse_down_spec (TA TB : TableTD) (p : Nat) (P : List Nat) :
    (∀ ρ, (travDownP TA TB p P).countP (fun c => inPath ρ c.1) = 1 ∧
      ∀ c, c ∈ travDownP TA TB p P → inPath ρ c.1 = true →
        c.2.1 = eval (getTD TA p) ρ ∧ (∀ ks, ks ∈ c.2.1 ↔ HasRuleTD TA ρ p ks) ∧
        (∀ ks, ks ∈ c.2.2 ↔ ∃ q, q ∈ P ∧ HasRuleTD TB ρ q ks)) ∧
    (∀ c, c ∈ travDown TA TB p P → c ∈ travDownP TA TB p P) ∧
    (∀ c, c ∈ travDownP TA TB p P → ∃ c', c' ∈ travDown TA TB p P ∧ c'.2 = c.2) ∧
    (∀ {σ ε : Type} {act : List (List Nat) × List (List Nat) → σ → Except ε σ}
      {D : List (List Nat) × List (List Nat) → σ → Prop}, Idem act (fun i => i) D → ∀ s,
      foreachDownT TA TB p P act s = runL act ((travDownP TA TB p P).map (·.2)) s) :=
  ⟨fun ρ => foreachDown_spec TA TB p P ρ, (travDown_calls TA TB p P).1, (travDown_calls TA TB p P).2,
    fun hI s => foreachDownT_eq hI TA TB p P s⟩

#guard (travDown (ofRulesTD BddAbsEx.rsB) (ofRulesTD BddAbsEx.rsA) 9 [2]).map (·.2) == [([], []), ([[3, 3], [4, 4]], [[1, 1]])]

/-- **the downward traversal against the abstract downward model**, for LOADED top-down tables: the abstract `InclDown.body`
iterates over the groups `(f, n)` of `lhsGroups A p` with the tuple sets `lhsTuples A p f n`, `rhsTuples B P f n`; the class of
the symbol `f` with arity `n` hands exactly these two sets (as sets) to `DownwardInclusionFunctor::operator()`, and its left
set is empty – the functor returns at once – exactly when `(f, n)` is not a group of `p` -/
theorem C07_traverse_down_loaded (A B : TA) (hA : ∀ r, r ∈ A.rules → r.sym < 2 ^ 16 ∧ r.kids.length < 64)
    (hB : ∀ r, r ∈ B.rules → r.sym < 2 ^ 16 ∧ r.kids.length < 64) (p : Nat) (P : List Nat) {f n : Nat} (hf : f < 2 ^ 16)
    (hn : n < 64) {c : Path × List (List Nat) × List (List Nat)}
    (hc : c ∈ travDownP (ofRulesTD A.rules) (ofRulesTD B.rules) p P) (hp : inPath (bitsAr f n) c.1 = true) :
    (∀ ks, ks ∈ c.2.1 ↔ ks ∈ InclDown.lhsTuples A p f n) ∧ (∀ ks, ks ∈ c.2.2 ↔ ks ∈ InclDown.rhsTuples B P f n) ∧
    (c.2.1 ≠ [] ↔ (f, n) ∈ InclDown.lhsGroups A p) :=
  foreachDown_ofRules A B hA hB p P hf hn hc hp

#guard InclDown.lhsTuples ⟨BddAbsEx.rsB, [9]⟩ 9 2 2 == [[3, 3], [4, 4]] && InclDown.rhsTuples ⟨BddAbsEx.rsA, [2]⟩ [2] 2 2 == [[1, 1]]
#guard (travDownP (ofRulesTD BddAbsEx.rsB) (ofRulesTD BddAbsEx.rsA) 9 [2]).any
  (fun c => inPath (bitsAr 2 2) c.1 && c.2 == ([[3, 3], [4, 4]], [[1, 1]]))
example : ∀ r, r ∈ BddAbsEx.rsB → r.sym < 2 ^ 16 ∧ r.kids.length < 64 := by decide

/-!
## what this file closes / leaves open in `Vata/Properties/C07.lean` ("not yet proved")

* item **"The encodings themselves"**, for the part *"the traversals `ForeachUpSymbolFromTupleAndTupleSetDo` /
  `ForeachDownSymbolFromStateAndStateSetDo` as MTBDD applies [are] replaced by 'the rules of the automaton'"*:
  - CLOSED for the bottom-up encoding / upward algorithm: the traversal is modelled as coded (union by `apply2`, `VoidApply2Functor`
    with its node-pair cache, callback per pair of leaves) and `CheckUpwardTreeInclusion` on the tables is proved EQUAL, run for
    run, to the abstract model `InclUpBdd.run` on the dumped automata (`C07_traverse_upward_algorithm`); with C08
    (`absBU_ofRules`) this gives exactness for loaded automata without reading the encoding as the identity
    (`C07_traverse_upward_loaded`).  The 16-bit symbol encoding enters as `n = 16`: `absBU (List.range (2 ^ 16))`.
  - for the top-down encoding / downward algorithms: CLOSED at the level of the traversal (`C07_traverse_down_spec`,
    `C07_traverse_down_loaded`: the callback receives exactly the tuple sets the abstract `InclDown.body` computes per group).
    OPEN: the run-for-run refinement of `expand`/`DownwardInclusionFunctor` on the tables (the downward functor is not
    idempotent in the sense used here – it recurses and fills caches –, the abstract model iterates the groups in list
    order, the code in path order; the verdict is order-independent by `C07_td_downward_models_exact`, but the equality of
    the two runs is not proved).
* still open from that item: `GetTopDownAut` inside the inclusion route (its table-level correctness is C08,
  `absTD_invert`), the model of `StateTupleSet` leaves as `std::set` order (the model uses the sorted vectors of
  `BddAbsTD`), and the link from these models to the C++ (no `traverse` driver kind: this task is Lean only).
* not modelled: the tuple map of the transition table is a hash map; `Table.keys` (list order) stands for its iteration
  order; `runT_eq_run` holds for every order (any `Table` with `keys.Nodup`).
-/
end Vata.Props
