import Vata.Lang
import Vata.Incl
import Vata.UpCert
import Vata.DownCert
import Vata.Proofs.InclUp
import Vata.Proofs.InclUpTotal
import Vata.Proofs.Sanitize
/-!
# C01 – Explicit tree-automata inclusion is exact under every algorithm selection

> For any two explicit tree automata A and B over a ranked alphabet, the inclusion check returns true exactly when every
> tree accepted by A is also accepted by B.  This holds for every implemented parameter selection (upward; downward
> non-recursive; downward recursive with or without the implication cache; each with or without a simulation preorder
> computed on the disjoint union of the prepared operands), and therefore all selections return the same verdict on the
> same pair.

## How the statement is read into the model

* **Specification (L0).**  `accepts A t` (`Vata/Basic.lean`) is the run semantics of a tree automaton `A : TA`;
  `Incl A B := ∀ t, accepts A t = true → accepts B t = true` (`Vata/Lang.lean`) is "every tree accepted by `A` is also
  accepted by `B`".
* **Reference (oracle of the check).**  `inclM A B fuel` (profile saturation over both automata, `Vata/Lang.lean`) and
  the older two-automata version `inclRef` (`Vata/Basic.lean`).  They are what the verdicts of *all eight* parameter
  selections of the real `CheckInclusion` are compared with; `C01_reference_exact` says that every verdict of the
  reference is the truth, so a disagreement of any selection with it is a failing input.
* **Model of the code.**  `checkInclUp A B fuel` (`Vata/InclUp.lean`) mirrors `CheckInclusion` for the selection
  *upward, no simulation*: `SanitizeAutsForInclusion` (= `removeUseless` on both operands) followed by the work-list /
  antichain exploration `InclUp.run` of `ExplicitUpwardInclusion::checkInternal`; `inclUp` is the exploration alone (on
  operands the caller has trimmed).  `none` means "fuel exhausted / internal check failed", it is never a verdict.
* **Preparation of the operands.**  `sanitize A B` (`Vata/Sanitize.lean`) is `SanitizeAutsForInclusion` in full:
  `removeUseless` on both operands, then `ReindexStates` of both through weak translators that share ONE counter (the map
  is cleared between the operands); it returns the two prepared automata and the counter.  `checkInclUpSan` runs the
  exploration `inclUp` on these (trimmed AND renumbered) operands.
* **Certificate principles.**  `UpCert` / `DownCert` are the invariants on which the upward antichain algorithm and the
  downward (non-recursive and recursive, with or without cache) algorithms rest: whatever search produces a set `X` of
  pairs with these closure properties has established inclusion.  They are the part of the downward selections that is
  proved; the downward explorations themselves are not modelled (see the end of the file).
-/
namespace Vata.Props
open Vata Vata.InclUp

/-! ### the reference the eight selections are compared with -/

/-- every verdict of the reference decision procedure is exact -/
theorem C01_reference_exact (A B : TA) (fuel : Nat) (b : Bool) (h : inclM A B fuel = some b) :
    b = true ↔ Incl A B := inclM_iff A B fuel b h

example : inclM InclUpEx.exG InclUpEx.exH 10 = some false := by decide
example : inclM InclUpEx.exH InclUpEx.exG 10 = some true := by decide

/-- … and so is every verdict of the two-automata profile reference -/
theorem C01_reference_pair_exact (A B : TA) (fuel : Nat) (b : Bool) (h : inclRef A B fuel = some b) :
    b = true ↔ Incl A B := inclRef_iff A B fuel b h

example : inclRef InclUpEx.exEven InclUpEx.exAll 10 = some true := by decide

/-! ### selection "upward, no simulation": the model of the code is exact and total -/

/-- the model of `CheckInclusion` (upward, no simulation; arbitrary operands, sanitised first): every verdict is exact,
and a verdict is returned for every fuel above the explicit bound `2·|Δ_A'|·2^|Δ_B'|` of the sanitised operands -/
theorem C01_upward_model_exact (A B : TA) :
    (∀ fuel b c, checkInclUp A B fuel = some (b, c) → (b = true ↔ Incl A B)) ∧
    (∀ fuel, fuelBound (removeUseless A) (removeUseless B) < fuel →
      (Incl A B → ∃ c, checkInclUp A B fuel = some (true, c)) ∧
      (¬ Incl A B → ∃ c, checkInclUp A B fuel = some (false, c))) :=
  ⟨fun _ _ _ h => checkInclUp_iff h, fun _ hf => checkInclUp_complete A B hf⟩

example : ∃ c, checkInclUp TotalEx.exU InclUpEx.exA 100 = some (true, c) := ⟨_, rfl⟩
example : fuelBound (removeUseless InclUpEx.exG) (removeUseless InclUpEx.exH) < 100 := by decide

/-- the exploration `checkInternal` alone: every verdict is exact on *any* operands; it is total (and then right) when
the smaller operand is trimmed – the hypothesis `Trimmed A` is needed, because the code answers `false` as soon as a
macro-state is empty, which is only justified when every state of `A` lies on an accepting run
(`InclUp.TotalEx.exU` is a counterexample to totality without it) -/
theorem C01_upward_core_exact (A B : TA) :
    (∀ fuel b c, inclUp A B fuel = some (b, c) → (b = true ↔ Incl A B)) ∧
    (Trimmed A → ∀ fuel, fuelBound A B < fuel →
      (Incl A B → ∃ c, inclUp A B fuel = some (true, c)) ∧ (¬ Incl A B → ∃ c, inclUp A B fuel = some (false, c))) :=
  ⟨fun _ _ _ h => inclUp_iff h, fun hA _ hf => inclUp_complete hA hf⟩

example : Trimmed InclUpEx.exG ∧ fuelBound InclUpEx.exG InclUpEx.exH < 97 :=
  ⟨trimmed_of_allUsefulB (by decide), by decide⟩
example : ∃ c, inclUp InclUpEx.exG InclUpEx.exH 97 = some (false, c) := ⟨_, rfl⟩

/-- the exploration terminates (with `true` or `false`) on all operands, trimmed or not -/
theorem C01_upward_terminates (A B : TA) (fuel : Nat) (hf : fuelBound A B < fuel) : ∃ r, run A B fuel = some r :=
  run_terminates hf

example : ∃ r, run TotalEx.exU InclUpEx.exA 9 = some r := C01_upward_terminates _ _ _ (by decide)

/-- what a verdict of the model carries: `true` comes with an antichain that is an upward certificate without bad
pair, `false` with a tree accepted by `A` and rejected by `B` -/
theorem C01_upward_verdict_certified (A B : TA) (fuel : Nat) (b : Bool) (c : Cert)
    (h : inclUp A B fuel = some (b, c)) :
    match c with
    | .closed X => b = true ∧ UpCert A B X ∧ NoBad A B X
    | .witness w => b = false ∧ accepts A w = true ∧ accepts B w = false := inclUp_cert h

example : inclUp InclUpEx.exH InclUpEx.exG 10 = some (true, .closed [(3, [1]), (4, [1]), (9, [2])]) := rfl

/-- the final `processed` antichain of a `return true` of the exploration passes the certificate check -/
theorem C01_upward_antichain_closed (A B : TA) (fuel : Nat) (P : List Item) (h : run A B fuel = some (.ok P)) :
    upCertB A B (pairs P) = true := run_ok_cert h

example : ∃ P, run InclUpEx.exH InclUpEx.exG 10 = some (.ok P) := ⟨_, rfl⟩

/-! ### the principles behind the upward and the downward selections -/

/-- soundness of the two kinds of certificates: a set `X` of pairs (state of `A`, macro-state of `B`) that is closed
under the post-image of the rules of `A` up to subsumption and has no bad pair (upward), or that is closed under the
choice-function expansion and covers the final states (downward: `workset`/`childrenCache` of `expand`), proves
inclusion -/
theorem C01_certificates (A B : TA) (X : List (Nat × List Nat)) :
    (UpCert A B X → (∀ q S, (q, S) ∈ X → q ∈ A.final → ∃ s, s ∈ S ∧ s ∈ B.final) → Incl A B) ∧
    (DownCert A B X → (∀ f, f ∈ A.final → Sub X f B.final) → Incl A B) :=
  ⟨fun hX hok => up_cert_incl A B X hX hok, fun hX hroot => down_cert_incl A B X hX hroot⟩

example : UpCert InclUpEx.exH InclUpEx.exG [(3, [1]), (4, [1]), (9, [2])] ∧
    ∀ q S, (q, S) ∈ [(3, [1]), (4, [1]), (9, [2])] → q ∈ InclUpEx.exH.final → ∃ s, s ∈ S ∧ s ∈ InclUpEx.exG.final :=
  upCertB_sound (by decide)
example : DownCert InclUpEx.exA InclUpEx.exAB [(1, [3])] ∧ ∀ f, f ∈ InclUpEx.exA.final → Sub [(1, [3])] f InclUpEx.exAB.final := by
  constructor
  · intro p P hp ρ hρ _ c hc
    simp only [List.mem_singleton, Prod.mk.injEq] at hp
    obtain ⟨rfl, rfl⟩ := hp
    simp only [InclUpEx.exA, List.mem_singleton] at hρ
    subst hρ
    exact absurd (hc ⟨0, [], 3⟩ (by decide)) (by simp)
  · intro f hf
    simp only [InclUpEx.exA, List.mem_singleton] at hf
    subst hf
    exact ⟨[3], by simp, fun s hs => by simpa [InclUpEx.exAB] using hs⟩

/-- the Boolean checker the driver applies to antichains is sound for the upward certificate -/
theorem C01_upward_certificate_check (A B : TA) (X : List (Nat × List Nat)) (h : upCertB A B X = true) : Incl A B :=
  upCertB_incl h

example : upCertB InclUpEx.exH InclUpEx.exG [(3, [1]), (4, [1]), (9, [2])] = true := by decide

/-! ### "all selections return the same verdict" -/

/-- any verdict of the model of the upward selection equals any verdict of the reference (which is what every other
selection is compared with), for all fuels -/
theorem C01_upward_agrees_reference (A B : TA) (fuel fuel' : Nat) (b b' : Bool) (c : Cert)
    (h : checkInclUp A B fuel = some (b, c)) (h' : inclM A B fuel' = some b') : b = b' := by
  have h1 := checkInclUp_iff h
  have h2 := inclM_iff A B fuel' b' h'
  cases b <;> cases b' <;> simp_all

example : (checkInclUp InclUpEx.exG InclUpEx.exH 10).map (·.1) = some false ∧ inclM InclUpEx.exG InclUpEx.exH 10 = some false :=
  ⟨rfl, by decide⟩

/-- sanitising the operands (`SanitizeAutsForInclusion`: useless-state removal) does not change the question asked -/
theorem C01_sanitise_preserves (A B : TA) : Incl (removeUseless A) (removeUseless B) ↔ Incl A B :=
  incl_removeUseless A B

example : (removeUseless TotalEx.exU).rules = [⟨0, [], 1⟩] ∧ TotalEx.exU.rules.length = 2 := by decide

/-- `SanitizeAutsForInclusion` in full (model `sanitize`: useless-state removal, then dense renumbering of both operands
with one shared counter): both languages are preserved – hence the inclusion question –, both results are trimmed
(`allUsefulB`), the first has exactly the states `0..k-1`, the second exactly `k..n-1` where `n` is the returned
counter, so the state sets are disjoint, all states are below `n`, and `n = |Q_A'| + |Q_B'|` -/
theorem C01_sanitise_model (A B : TA) :
    (∀ t, accepts (sanitize A B).1 t = accepts A t ∧ accepts (sanitize A B).2.1 t = accepts B t) ∧
    (Incl (sanitize A B).1 (sanitize A B).2.1 ↔ Incl A B) ∧
    (allUsefulB (sanitize A B).1 = true ∧ allUsefulB (sanitize A B).2.1 = true) ∧
    (∀ x, (x ∈ (sanitize A B).1.states ↔ x < (sanitize A B).1.states.length) ∧
      (x ∈ (sanitize A B).2.1.states ↔ (sanitize A B).1.states.length ≤ x ∧ x < (sanitize A B).2.2)) ∧
    (∀ q, q ∈ (sanitize A B).1.states → q ∉ (sanitize A B).2.1.states) ∧
    (∀ q, q ∈ (sanitize A B).1.states ∨ q ∈ (sanitize A B).2.1.states → q < (sanitize A B).2.2) ∧
    (sanitize A B).2.2 = (sanitize A B).1.states.length + (sanitize A B).2.1.states.length :=
  ⟨sanitize_lang A B, checkIncl_sanitized A B, sanitize_trimmed A B, sanitize_dense A B, sanitize_disjoint A B,
    sanitize_bound A B, (sanitize_count A B).1⟩

example : ((sanitize SanEx.exA SanEx.exB).1.rules, (sanitize SanEx.exA SanEx.exB).2.1.rules, (sanitize SanEx.exA SanEx.exB).2.2) =
    ([⟨0, [], 1⟩, ⟨1, [1, 1], 0⟩], [⟨0, [], 2⟩, ⟨3, [], 2⟩, ⟨1, [2, 2], 2⟩], 3) := by decide
-- the operands of the example overlap (state `7` in both) and the first one is not trimmed
example : 7 ∈ SanEx.exA.states ∧ 7 ∈ SanEx.exB.states ∧ allUsefulB SanEx.exA = false := by decide

/-- the selection "upward, no simulation" on the operands exactly as the code prepares them (trimmed and renumbered):
every verdict is exact, and a verdict is returned for every fuel above the explicit bound -/
theorem C01_upward_sanitised_exact (A B : TA) :
    (∀ fuel b c, checkInclUpSan A B fuel = some (b, c) → (b = true ↔ Incl A B)) ∧
    (∀ fuel, fuelBound (sanitize A B).1 (sanitize A B).2.1 < fuel →
      (Incl A B → ∃ c, checkInclUpSan A B fuel = some (true, c)) ∧
      (¬ Incl A B → ∃ c, checkInclUpSan A B fuel = some (false, c))) :=
  ⟨fun _ _ _ h => checkInclUpSan_iff h, fun _ hf => checkInclUpSan_complete A B hf⟩

example : ∃ c, checkInclUpSan SanEx.exA SanEx.exB 20 = some (true, c) := ⟨_, rfl⟩
example : ∃ c, checkInclUpSan SanEx.exB SanEx.exA 20 = some (false, c) := ⟨_, rfl⟩

/-!
## not yet proved

* Executable models of the **downward** selections (`ExplicitDownwardInclusion::expand`: non-recursive; recursive with
  and without the implication cache `childrenCache`/`nonincluded`) do not exist yet; only the principle they rest on
  (`C01_certificates`, second component) is proved.  Hence "the downward verdict is exact" is not a theorem about a
  model of the code; it is covered by the correspondence check against `C01_reference_exact` only.
* The selections **with a simulation preorder** (upward with the upward-compatible downward simulation on the disjoint
  union, downward with the downward simulation): the model `inclUp` instantiates the identity relation only.  Soundness
  of pruning modulo a simulation is not proved.
* No totality theorem for the reference deciders `inclM`/`inclRef` (they return `none` on too little fuel; every
  `some` is exact).
-/
end Vata.Props
